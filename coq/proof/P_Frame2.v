(* P_Frame2: parse/print round trips of frames (C02). *)
From Coq Require Import ZArith Ascii String List Bool Arith Lia.
From RV Require Import Py PyStr Regex GenRegex GenTables M_Frame P_Frame.
Import ListNotations.
Open Scope Z_scope.

(* ---------------------------------------------------------------- the shape COMMAND_REGEX enforces *)
Definition CMD_WIDTHS : list nat := [2; 1; 3; 1; 9; 1; 9; 1; 9; 1; 4; 1; 3; 1]%nat.

(* decided by computation on the regex the source has NOW: it is a concatenation of columns of
   these widths, and columns 1,3,5,... accept a single space only *)
Definition cmd_shape_ok : bool :=
  match peel CMD_WIDTHS COMMAND_RE with
  | Some ([_; s1; _; s2; _; s3; _; s4; _; s5; _; s6; _; s7], _) =>
      forallb (only_char 32) [s1; s2; s3; s4; s5; s6; s7]
  | _ => false
  end.

Lemma cmd_shape : cmd_shape_ok = true.
Proof. vm_compute. reflexivity. Qed.

Lemma skipn_skipn {A} (x y : nat) (l : list A) : skipn x (skipn y l) = skipn (y + x) l.
Proof.
  revert l. induction y as [|y IH]; intros l; [reflexivity|].
  destruct l as [|a l]; [destruct x; reflexivity|]. cbn [skipn Nat.add]. apply IH.
Qed.

Lemma F2_cons {A B} (R : A -> B -> Prop) x l y l' : Forall2 R (x :: l) (y :: l') -> R x y /\ Forall2 R l l'.
Proof. intros H. inversion H; subst. split; assumption. Qed.

(* every string COMMAND_REGEX accepts has single spaces at the seven separator columns *)
Lemma command_re_separators s : matches COMMAND_RE s = true ->
  slice 2 3 s = sp /\ slice 6 7 s = sp /\ slice 16 17 s = sp /\ slice 26 27 s = sp /\
  slice 36 37 s = sp /\ slice 41 42 s = sp /\ slice 45 46 s = sp.
Proof.
  intros M. apply matches_correct in M.
  pose proof cmd_shape as S. unfold cmd_shape_ok in S.
  destruct (peel CMD_WIDTHS COMMAND_RE) as [[cs rest]|] eqn:P; [|discriminate].
  destruct (peel_sound _ _ _ _ _ P M) as [F _].
  destruct cs as [|c0 [|s1 [|c2 [|s2 [|c4 [|s3 [|c6 [|s4 [|c8 [|s5 [|c10 [|s6 [|c12 [|s7 [|x t]]]]]]]]]]]]]]]; try discriminate.
  cbn [forallb] in S. repeat (apply andb_true_iff in S as [? S]).
  unfold CMD_WIDTHS in F. cbn [cols] in F.
  repeat (apply F2_cons in F as [? F]).
  rewrite !skipn_skipn in *. cbn [Nat.add] in *.
  unfold slice, sp. cbn [Nat.sub].
  repeat split;
    match goal with |- firstn 1 (skipn ?n s) = _ =>
      match goal with H : lang ?r (firstn 1 (skipn n s)), O : only_char 32 ?r = true |- _ =>
        exact (only_char_sound 32 r _ O H) end end.
Qed.

Lemma chop {A} (n : nat) (l : list A) : l = firstn n l ++ skipn n l.
Proof. symmetry. apply firstn_skipn. Qed.

(* any string is the concatenation of its columns (a list fact, no hypothesis) *)
Lemma columns_of s :
  s = slice 0 2 s ++ slice 2 3 s ++ slice 3 6 s ++ slice 6 7 s ++ slice 7 16 s ++ slice 16 17 s ++
      slice 17 26 s ++ slice 26 27 s ++ slice 27 36 s ++ slice 36 37 s ++ slice 37 41 s ++
      slice 41 42 s ++ slice 42 45 s ++ slice 45 46 s ++ from 46 s.
Proof.
  unfold slice, from. cbn [Nat.sub].
  rewrite (chop 2 s) at 1. cbn [skipn]. f_equal.
  rewrite (chop 1 (skipn 2 s)) at 1. f_equal. rewrite skipn_skipn. cbn [Nat.add].
  rewrite (chop 3 (skipn 3 s)) at 1. f_equal. rewrite skipn_skipn. cbn [Nat.add].
  rewrite (chop 1 (skipn 6 s)) at 1. f_equal. rewrite skipn_skipn. cbn [Nat.add].
  rewrite (chop 9 (skipn 7 s)) at 1. f_equal. rewrite skipn_skipn. cbn [Nat.add].
  rewrite (chop 1 (skipn 16 s)) at 1. f_equal. rewrite skipn_skipn. cbn [Nat.add].
  rewrite (chop 9 (skipn 17 s)) at 1. f_equal. rewrite skipn_skipn. cbn [Nat.add].
  rewrite (chop 1 (skipn 26 s)) at 1. f_equal. rewrite skipn_skipn. cbn [Nat.add].
  rewrite (chop 9 (skipn 27 s)) at 1. f_equal. rewrite skipn_skipn. cbn [Nat.add].
  rewrite (chop 1 (skipn 36 s)) at 1. f_equal. rewrite skipn_skipn. cbn [Nat.add].
  rewrite (chop 4 (skipn 37 s)) at 1. f_equal. rewrite skipn_skipn. cbn [Nat.add].
  rewrite (chop 1 (skipn 41 s)) at 1. f_equal. rewrite skipn_skipn. cbn [Nat.add].
  rewrite (chop 3 (skipn 42 s)) at 1. f_equal. rewrite skipn_skipn. cbn [Nat.add].
  rewrite (chop 1 (skipn 45 s)) at 1. f_equal. rewrite skipn_skipn. cbn [Nat.add]. reflexivity.
Qed.

Lemma pkt_addrs_fields x0 x1 x2 ad : pkt_addrs x0 x1 x2 = Ok ad -> a0 ad = x0 /\ a1 ad = x1 /\ a2 ad = x2.
Proof.
  unfold pkt_addrs. destruct (negb _); [discriminate|]. destruct (negb _); [discriminate|].
  destruct (filter _ _) as [|s rest]; [discriminate|]. intros [= <-]. repeat split.
Qed.

(* parse then print is the identity: whatever text the frame constructor accepts, printing the
   frame yields exactly that text *)
Theorem print_parse s f : mk_frame s = Ok f -> print_frame f = s.
Proof.
  unfold mk_frame. destruct (matches COMMAND_RE s) eqn:M; cbn [negb]; [|discriminate].
  destruct (pkt_addrs _ _ _) as [ad|] eqn:A; [|discriminate].
  destruct (int10 _) as [n|]; [|discriminate]. destruct (negb _); [discriminate|].
  intros [= <-]. unfold print_frame. cbn [f_verb f_seqn f_addrs f_code f_len f_payload].
  destruct (pkt_addrs_fields _ _ _ _ A) as [-> [-> ->]].
  destruct (command_re_separators s M) as [S1 [S2 [S3 [S4 [S5 [S6 S7]]]]]].
  symmetry. etransitivity; [apply (columns_of s)|]. rewrite S1, S2, S3, S4, S5, S6, S7. reflexivity.
Qed.

(* the length field is the payload's byte count *)
Theorem len_is_bytecount s f : mk_frame s = Ok f ->
  int10 (f_len f) = Some (Z.of_nat (length (f_payload f)) / 2) /\ Z.of_nat (length (f_payload f)) mod 2 = 0.
Proof.
  unfold mk_frame. destruct (matches COMMAND_RE s); cbn [negb]; [|discriminate].
  destruct (pkt_addrs _ _ _) as [ad|]; [|discriminate].
  destruct (int10 (slice 42 45 s)) as [n|] eqn:E; [|discriminate].
  destruct (Z.of_nat (length (from 46 s)) =? n * 2) eqn:L; cbn [negb]; [|discriminate].
  intros H. assert (Hf : f_len f = slice 42 45 s /\ f_payload f = from 46 s)
    by (injection H as <-; split; reflexivity).
  destruct Hf as [-> ->]. apply Z.eqb_eq in L.
  split; [rewrite E, L; f_equal; symmetry; apply Z.div_mul; lia|rewrite L; apply Z.mod_mul; lia].
Qed.

(* ---------------------------------------------------------------- print then parse *)
(* a structurally valid frame: field widths, the regex accepts its text, a legal address set
   whose src/dst are the derived ones, and the length field equals the byte count *)
Definition wf_frame (f : frame) : Prop :=
  length (f_verb f) = 2%nat /\ length (f_seqn f) = 3%nat /\
  length (a0 (f_addrs f)) = 9%nat /\ length (a1 (f_addrs f)) = 9%nat /\ length (a2 (f_addrs f)) = 9%nat /\
  length (f_code f) = 4%nat /\ length (f_len f) = 3%nat /\
  matches COMMAND_RE (print_frame f) = true /\
  pkt_addrs (a0 (f_addrs f)) (a1 (f_addrs f)) (a2 (f_addrs f)) = Ok (f_addrs f) /\
  (exists n, int10 (f_len f) = Some n /\ Z.of_nat (length (f_payload f)) = n * 2).

Ltac len_destruct l H :=
  repeat (destruct l as [|? l]; [discriminate H|]); destruct l; [|discriminate H]; clear H.

Theorem parse_print f : wf_frame f -> mk_frame (print_frame f) = Ok f.
Proof.
  intros (Lv & Lq & L0 & L1 & L2 & Lc & Ll & M & A & n & Hn & Hp).
  destruct f as [verb seqn ad code len payload]. destruct ad as [src dst x0 x1 x2].
  cbn [f_verb f_seqn f_addrs f_code f_len f_payload a0 a1 a2] in *.
  unfold mk_frame. rewrite M. cbn [negb].
  len_destruct verb Lv. len_destruct seqn Lq. len_destruct x0 L0. len_destruct x1 L1. len_destruct x2 L2.
  len_destruct code Lc. len_destruct len Ll.
  unfold print_frame. cbn [f_verb f_seqn f_addrs f_code f_len f_payload M_Frame.a0 M_Frame.a1 M_Frame.a2 sp lit s2l list_ascii_of_string app].
  unfold slice, from. cbn [Nat.sub skipn firstn].
  rewrite A, Hn. rewrite Hp, Z.eqb_refl. cbn [negb]. reflexivity.
Qed.

(* re-parsing what was printed gives the same frame (a Command/Packet is stable under str()) *)
Corollary reparse_stable s f : mk_frame s = Ok f -> mk_frame (print_frame f) = Ok f.
Proof. intros H. rewrite (print_parse s f H). exact H. Qed.

(* whatever _from_attrs accepts prints as exactly the text it assembled: verb, sequence number,
   the three addresses, code, 3-digit byte count and payload are all preserved *)
Theorem from_attrs_preserves verb seqn x0 x1 x2 code payload f :
  cmd_from_attrs verb seqn x0 x1 x2 code payload = Ok f ->
  print_frame f = attrs_text verb seqn x0 x1 x2 code payload.
Proof.
  unfold cmd_from_attrs. destruct (pkt_addrs x0 x1 x2); [|discriminate]. apply print_parse.
Qed.

(* ---- the CLI short form: a command built from it prints the address fields it was given / the documented completion ---- *)
Theorem cli_triple_kept verb seqn a b c code payload f :
  cmd_from_cli verb seqn [a; b; c] code payload = Ok f ->
  print_frame f = attrs_text verb seqn a b c code (firstn 48 payload).
Proof. unfold cmd_from_cli. cbn [cli_addrs]. apply from_attrs_preserves. Qed.
Theorem cli_short_forms verb seqn a b code payload f :
  str_eqb verb (lit " I") = false ->
  (cmd_from_cli verb seqn [a] code payload = Ok f -> print_frame f = attrs_text verb seqn HGI_ADDR a NON_DEV code (firstn 48 payload)) /\
  (cmd_from_cli verb seqn [a; a] code payload = Ok f -> print_frame f = attrs_text verb seqn a NON_DEV a code (firstn 48 payload)) /\
  (str_eqb a b = false -> cmd_from_cli verb seqn [a; b] code payload = Ok f -> print_frame f = attrs_text verb seqn a b NON_DEV code (firstn 48 payload)).
Proof.
  intros V. unfold cmd_from_cli. cbn [cli_addrs]. rewrite V. repeat split.
  - apply from_attrs_preserves.
  - rewrite str_eqb_refl. apply from_attrs_preserves.
  - intros N. rewrite N. apply from_attrs_preserves.
Qed.

(* the whole CLI string, tokenised: with its sequence number spelt out (anything that does not look like a device id), three address tokens
   are the frame's three address fields whatever they are -- the null address first included *)
Theorem cli_toks_triple_kept verb seqn a b c code payload f :
  is_dev_id seqn = false ->
  cmd_from_cli_toks [verb; seqn; a; b; c; code; payload] = Ok f ->
  print_frame f = attrs_text verb seqn a b c code (firstn 48 payload).
Proof. intros S. unfold cmd_from_cli_toks. cbn [length Nat.ltb Nat.leb]. rewrite S. cbn [rev app]. apply cli_triple_kept. Qed.
(* without it, three address tokens of which the first is a device id are kept too *)
Theorem cli_toks_triple_kept_no_seqn verb a b c code payload f :
  is_dev_id a = true ->
  cmd_from_cli_toks [verb; a; b; c; code; payload] = Ok f ->
  print_frame f = attrs_text verb (lit "---") a b c code (firstn 48 payload).
Proof. intros S. unfold cmd_from_cli_toks. cbn [length Nat.ltb Nat.leb]. rewrite S. cbn [rev app]. apply cli_triple_kept. Qed.
