(* M_RegulateK -- the duty-cycle bucket of @limit_duty_cycle (ramses_tx/transport.py) under CONCURRENT callers.
   Every call of the wrapper is two instants: its ARRIVAL (top-up of the bucket, capped; the level it sees decides how
   long it sleeps) and its WRITE (fnc returned: the frame size is debited, `finally: bits_in_bucket -= rf_frame_size`).
   Between the two the caller is PENDING -- it sleeps for the shortfall it saw, then waits for whatever else fnc awaits
   (the write-gap semaphore, sync-cycle avoidance); other callers arrive and write meanwhile.  Time in ticks, levels
   in 2^-20 bit as in M_Regulate.  Definitions only; proofs are in proof/P_RegulateK.v.

   Pending callers are kept in two lists: `c_fresh` (newest first) -- those that arrived after every caller that has
   written so far -- and `c_old`, the others.  The fields p_d / p_c / c_o / c_no are GHOST bookkeeping for the proof
   (what others have debited since a fresh caller arrived, and the overdraft allowance); no decision reads them. *)
From Coq Require Import ZArith List Bool Lia.
Import ListNotations.
Open Scope Z_scope.

Record pend := mkP { p_id : Z; p_size : Z; p_arr : Z; p_lvl : Z; p_d : Z; p_c : Z }.
Record cst := mkC { c_b : Z; c_last : Z; c_now : Z; c_fresh : list pend; c_old : list pend; c_o : Z; c_no : Z }.
Inductive cev := CArr (id t size : Z) | CWr (id t : Z).

Section BucketK.
  Variables R CAP K : Z.

  Definition cinit (t : Z) : cst := mkC CAP t t [] [] 0 0.
  (* the level the code would compute if it topped up now (uncapped): bits_in_bucket + elapsed * FILL_RATE *)
  Definition vlevel (s : cst) : Z := c_b s + R * (c_now s - c_last s).
  Definition npend (s : cst) : Z := Z.of_nat (length (c_fresh s) + length (c_old s)).

  Definition bump (sz : Z) (p : pend) : pend := mkP (p_id p) (p_size p) (p_arr p) (p_lvl p) (p_d p + sz) (p_c p + 1).
  (* may this pending caller's write happen at t?  It has slept at least (size - level seen) / FILL_RATE *)
  Definition may_write (p : pend) (t : Z) : bool := (p_size p - p_lvl p <=? R * (t - p_arr p)).

  Fixpoint pos_of (id : Z) (l : list pend) : option nat :=
    match l with [] => None | p :: r => if p_id p =? id then Some O else option_map S (pos_of id r) end.
  Fixpoint drop_nth (n : nat) (l : list pend) : list pend :=
    match l, n with [], _ => [] | _ :: r, O => r | p :: r, S n' => p :: drop_nth n' r end.

  Definition arrive (s : cst) (id t size : Z) : cst :=
    let l := Z.min (c_b s + R * (t - c_last s)) CAP in
    mkC l t t (mkP id size t l 0 0 :: c_fresh s) (c_old s) (c_o s) (c_no s).
  Definition write_fresh (s : cst) (n : nat) (j : pend) (t : Z) : cst :=
    mkC (c_b s - p_size j) (c_last s) t (map (bump (p_size j)) (firstn n (c_fresh s))) (skipn (S n) (c_fresh s) ++ c_old s) (p_d j) (p_c j).
  Definition write_old (s : cst) (n : nat) (k : pend) (t : Z) : cst :=
    mkC (c_b s - p_size k) (c_last s) t (map (bump (p_size k)) (c_fresh s)) (drop_nth n (c_old s)) (c_o s + p_size k) (c_no s + 1).

  Definition cstep (s : cst) (e : cev) : option cst :=
    match e with
    | CArr id t size =>
        if (c_now s <=? t) && (npend s <? K) && (0 <=? size) then Some (arrive s id t size) else None
    | CWr id t =>
        if c_now s <=? t then
          match pos_of id (c_fresh s) with
          | Some n => match nth_error (c_fresh s) n with
                      | Some j => if may_write j t then Some (write_fresh s n j t) else None
                      | None => None end
          | None => match pos_of id (c_old s) with
                    | Some n => match nth_error (c_old s) n with
                                | Some k => if may_write k t then Some (write_old s n k t) else None
                                | None => None end
                    | None => None end
          end
        else None
    end.
  Fixpoint crun (s : cst) (evs : list cev) : option cst :=
    match evs with [] => Some s | e :: r => match cstep s e with Some s' => crun s' r | None => None end end.

  (* the bits handed to the radio by a stretch of events of a run (the size of every write in it) *)
  Definition size_of (s : cst) (id : Z) : Z :=
    match pos_of id (c_fresh s) with
    | Some n => match nth_error (c_fresh s) n with Some j => p_size j | None => 0 end
    | None => match pos_of id (c_old s) with
              | Some n => match nth_error (c_old s) n with Some k => p_size k | None => 0 end
              | None => 0 end
    end.
  Fixpoint cbits (s : cst) (evs : list cev) : Z :=
    match evs with
    | [] => 0
    | e :: r => match cstep s e with
                | Some s' => (match e with CWr id _ => size_of s id | _ => 0 end) + cbits s' r
                | None => 0 end
    end.
  (* for the correspondence: the level an arrival tops up to (2, _), the level a write finds before its debit (1, _); (0, 0) = not a run of the model *)
  Fixpoint ctrace (s : cst) (evs : list cev) : list (Z * Z) :=
    match evs with
    | [] => []
    | e :: r => match cstep s e with
                | Some s' => (match e with CArr _ _ _ => (2, c_b s') | CWr _ _ => (1, c_b s) end) :: ctrace s' r
                | None => [(0, 0)] end
    end.
End BucketK.
