(* C11 -- Transmit regulation holds for every send pattern.  Statements only.
   RATE, CAPACITY, the frame-size formula, the gap and the token constants are regenerated from the source. *)
From Coq Require Import ZArith List Bool Sorted.
From RV Require Import GenConsts M_Regulate P_Regulate.
Import ListNotations.
Open Scope Z_scope.

Lemma rate_cap_nonneg : 0 < RATE /\ 0 <= CAPACITY.
Proof. vm_compute. split; [reflexivity | discriminate]. Qed.

(* duty cycle, sequential use: in ANY run of the wrapper (any arrival times, any frame sizes, any extra delay before a
   write), any stretch of consecutive writes hands the radio at most RATE x (time from its first to its last write)
   + one full bucket + its first frame *)
Theorem C11_duty_window : forall pre r mid post b last prev, valid RATE CAPACITY b last prev (pre ++ r :: mid ++ post) ->
  bits (r :: mid) <= RATE * (lastwr r mid - r_wr r) + CAPACITY + r_size r.
Proof. exact (duty_window RATE CAPACITY (Z.lt_le_incl _ _ (proj1 rate_cap_nonneg)) (proj2 rate_cap_nonneg)). Qed.

(* the sleep the wrapper computes covers the shortfall, and is not a tick longer than needed: regulation only delays *)
Theorem C11_sleep_exact : forall l s,
  s - l <= RATE * sleep_ticks RATE l s /\ (l < s -> RATE * (sleep_ticks RATE l s - 1) < s - l).
Proof. intros l s. split; [apply sleep_enough | apply sleep_tight]; exact (proj1 rate_cap_nonneg). Qed.

(* write spacing: in any stretch of events whose semaphore ticks fall within [x, y], (writes - 2) gaps fit into y - x:
   spaced by the gap on average, never more than one extra write (plus the token in hand at the start) *)
Theorem C11_gap_window : forall G evs tok x y, 0 < G -> x <= y -> gvalid tok evs = true -> spaced G (ticks evs) ->
  Forall (fun t => x <= t <= y) (ticks evs) -> G * (nwrites evs - 2) <= y - x.
Proof. exact gap_window. Qed.

(* MQTT: an accepted write waits at most one second for its token debt (an over-budget write is dropped instead),
   and what any run of writes accepts is covered by the tokens in hand + the refill until its last write + that debt *)
Theorem C11_mq_bounded_wait : forall s t s' slp, mq_ok s -> m_ts s <= t -> mq_write s t = (s', true, slp) -> 0 <= slp <= TICKS_PER_S.
Proof. exact mq_bounded_wait. Qed.
Theorem C11_mq_allowance : forall ts s, mq_ok s -> StronglySorted Z.le (m_ts s :: ts) ->
  mq_accepted s ts * TOKEN <= m_tok s + TRATE * (lastz (m_ts s) ts - m_ts s) + TRATE_S.
Proof. exact mq_allowance. Qed.
Theorem C11_mq_invariant : forall s t, mq_ok s -> m_ts s <= t -> mq_ok (fst (fst (mq_write s t))) /\ m_ts (fst (fst (mq_write s t))) = t.
Proof. exact mq_write_ok. Qed.

(* the allowance is the one the property states: 1% of the radio's 38 400 bit/s, a bucket worth 60 s of it *)
Theorem C11_allowance_as_stated : RATE * 100 <= 38400 /\ 0 < RATE /\ CAPACITY = RATE * 60 * TICKS_PER_S.
Proof. repeat split; vm_compute; congruence. Qed.
