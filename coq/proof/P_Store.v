From Coq Require Import ZArith List Bool Lia ZifyBool.
From RV Require Import GenConsts M_Store.
Import ListNotations.
Open Scope Z_scope.

(* what the proofs need of the regenerated constants: 1 <= HAS_EXPIRED <= 2, grace >= 0.
   Decided by computation on whatever the source says now. *)
Lemma has_expired_range :
  0 < HAS_EXPIRED_den /\ HAS_EXPIRED_den <= HAS_EXPIRED_num /\ HAS_EXPIRED_num <= 2 * HAS_EXPIRED_den /\ 0 <= MSG_GRACE_us.
Proof. vm_compute. repeat split; discriminate. Qed.

Lemma frac_ge_has_iff a s : frac_ge_has a s = true <-> HAS_EXPIRED_num * s <= a * HAS_EXPIRED_den.
Proof. unfold frac_ge_has. apply Z.leb_le. Qed.

(* never before the lifetime has passed: any sequence of reads at times < dtm + L, from a fresh cache *)
Lemma eval_young c dtm us now :
  0 < us -> now - dtm < us ->
  (c = FNone \/ (exists a, c = FFrac a us /\ a < us)) ->
  exists c', expired_eval c dtm (Span us) now = (EOk false, c') /\ (exists a, c' = FFrac a us /\ a < us).
Proof.
  intros Hus Hy Hc. destruct has_expired_range as [D [L1 [L2 G]]].
  assert (F : forall a, a < us -> frac_ge_has a us = false).
  { intros a Ha. unfold frac_ge_has. apply Z.leb_gt. nia. }
  assert (E : (us =? 0) = false) by lia.
  destruct Hc as [->|[a [-> Ha]]]; cbn [expired_eval]; rewrite ?(F a Ha), E.
  - rewrite F by lia. eexists. split; [reflexivity|]. eexists. split; [reflexivity|lia].
  - rewrite F by lia. eexists. split; [reflexivity|]. eexists. split; [reflexivity|lia].
Qed.

Lemma not_before_lifespan dtm us times :
  0 < us -> Forall (fun t => t - dtm < us) times ->
  Forall (fun r => r = EOk false) (expired_seq FNone dtm (Span us) times).
Proof.
  intros Hus. 
  assert (G : forall c, (c = FNone \/ (exists a, c = FFrac a us /\ a < us)) ->
              Forall (fun t => t - dtm < us) times ->
              Forall (fun r => r = EOk false) (expired_seq c dtm (Span us) times)).
  { induction times as [|t ts IH]; intros c Hc Hf; cbn [expired_seq]; [constructor|].
    inversion Hf as [|? ? Ht Hts]; subst.
    destruct (eval_young c dtm us t Hus Ht Hc) as [c' [E Hc']]. rewrite E.
    constructor; [reflexivity|]. apply IH; [right; exact Hc'|exact Hts]. }
  apply G. left. reflexivity.
Qed.

(* always once twice the lifetime plus the grace period has passed, whatever was cached *)
Lemma after_twice c dtm us now :
  0 < us -> c <> FCant -> 2 * us + MSG_GRACE_us <= now - dtm ->
  fst (expired_eval c dtm (Span us) now) = EOk true.
Proof.
  intros Hus Hc Hold. destruct has_expired_range as [D [L1 [L2 G]]].
  assert (T : frac_ge_has (now - dtm - MSG_GRACE_us) us = true) by (apply frac_ge_has_iff; nia).
  assert (E : (us =? 0) = false) by lia.
  destruct c as [| |a s]; cbn [expired_eval]; [rewrite E, T; reflexivity|congruence|].
  destruct (frac_ge_has a s); [reflexivity|]. rewrite E, T. reflexivity.
Qed.

(* a message whose cache is FCant was created with lifespan Never: with a positive span
   the cache never becomes FCant *)
Lemma span_never_cant c dtm us now :
  c <> FCant -> snd (expired_eval c dtm (Span us) now) <> FCant.
Proof.
  intros Hc. destruct c as [| |a s]; cbn [expired_eval]; [|congruence|].
  - destruct (us =? 0); cbn; discriminate.
  - destruct (frac_ge_has a s); [cbn; discriminate|]. destruct (us =? 0); cbn; discriminate.
Qed.

(* expiry never un-happens: in ANY sequence of evaluations -- even with a clock that jumps
   backwards -- once a read says expired, every later read says expired *)
Lemma eval_latched a s dtm l now : frac_ge_has a s = true ->
  expired_eval (FFrac a s) dtm l now = (EOk true, FFrac a s).
Proof. intros H. cbn [expired_eval]. rewrite H. reflexivity. Qed.

Lemma eval_true_latches c dtm l now c' :
  expired_eval c dtm l now = (EOk true, c') -> exists a s, c' = FFrac a s /\ frac_ge_has a s = true.
Proof.
  destruct c as [| |a s]; cbn [expired_eval].
  - destruct l as [|us]; [discriminate|]. destruct (us =? 0).
    + intros [= <-]. eexists _, _. split; [reflexivity|]. unfold frac_ge_has. apply Z.leb_le. lia.
    + intros [= H <-]. eexists _, _. split; [reflexivity|exact H].
  - discriminate.
  - destruct (frac_ge_has a s) eqn:E.
    + intros [= <-]. exists a, s. split; [reflexivity|exact E].
    + destruct l as [|us]; [discriminate|]. destruct (us =? 0).
      * intros [= <-]. eexists _, _. split; [reflexivity|]. unfold frac_ge_has. apply Z.leb_le. lia.
      * intros [= H <-]. eexists _, _. split; [reflexivity|exact H].
Qed.

Lemma latched_seq a s dtm l times : frac_ge_has a s = true ->
  Forall (fun r => r = EOk true) (expired_seq (FFrac a s) dtm l times).
Proof.
  intros H. induction times as [|t ts IH]; cbn [expired_seq]; [constructor|].
  rewrite (eval_latched a s dtm l t H). constructor; [reflexivity|exact IH].
Qed.

Lemma expiry_monotone times : forall c dtm l pre post,
  expired_seq c dtm l times = pre ++ EOk true :: post -> Forall (fun r => r = EOk true) post.
Proof.
  induction times as [|t ts IH]; intros c dtm l pre post H; cbn [expired_seq] in H.
  - destruct pre; discriminate.
  - destruct (expired_eval c dtm l t) as [r c'] eqn:E.
    destruct pre as [|p pre]; cbn [app] in H.
    + injection H as Hr Hp. subst r. destruct (eval_true_latches _ _ _ _ _ E) as [a [s [-> Hs]]].
      rewrite <- Hp. apply latched_seq, Hs.
    + injection H as _ Hp. eapply IH, Hp.
Qed.

(* evaluating expiry is total: it never raises (repaired); before, a zero countdown raised *)
Lemma expired_total c dtm l now : exists b, fst (expired_eval c dtm l now) = EOk b.
Proof.
  destruct c as [| |a s]; cbn [expired_eval].
  - destruct l as [|us]; [eexists; reflexivity|]. destruct (us =? 0); eexists; reflexivity.
  - eexists; reflexivity.
  - destruct (frac_ge_has a s); [eexists; reflexivity|].
    destruct l as [|us]; [eexists; reflexivity|]. destruct (us =? 0); eexists; reflexivity.
Qed.
Lemma zero_span_old_refuted dtm now : expired_eval_old FNone dtm (Span 0) now = EZeroDiv.
Proof. reflexivity. Qed.

(* ---------------------------------------------------------------- latest wins *)
Lemma sget_sput_same st k m : sget (sput st k m) k = Some m.
Proof.
  induction st as [|[k' m'] st IH]; cbn [sput sget]; [rewrite Z.eqb_refl; reflexivity|].
  destruct (k =? k') eqn:E; cbn [sget]; [rewrite Z.eqb_refl; reflexivity|]. rewrite E. exact IH.
Qed.

Lemma sget_sput_other st k k2 m : k2 <> k -> sget (sput st k m) k2 = sget st k2.
Proof.
  intros Hn. induction st as [|[k' m'] st IH]; cbn [sput sget].
  - destruct (k2 =? k) eqn:E; [apply Z.eqb_eq in E; contradiction|reflexivity].
  - destruct (k =? k') eqn:E; cbn [sget].
    + apply Z.eqb_eq in E. subst k'. destruct (k2 =? k) eqn:E2; [apply Z.eqb_eq in E2; contradiction|reflexivity].
    + destruct (k2 =? k'); [reflexivity|exact IH].
Qed.

(* whatever is interleaved (other codes, other devices, requests, writes), the stored message
   for a code is the last relevant one *)
Lemma latest_wins me code ms : forall st,
  sget (fold_left (handle me) ms st) code =
  match last_such (relevant me code) ms with Some m => Some m | None => sget st code end.
Proof.
  induction ms as [|m ms IH]; intros st; cbn [fold_left last_such]; [reflexivity|].
  rewrite IH. destruct (last_such (relevant me code) ms) as [y|]; [reflexivity|].
  unfold handle, relevant. destruct (stored_by me m && state_bearing m) eqn:E; cbn [andb].
  - destruct (s_code m =? code) eqn:Ec.
    + apply Z.eqb_eq in Ec. subst code. apply sget_sput_same.
    + apply sget_sput_other. intros ->. rewrite Z.eqb_refl in Ec. discriminate.
  - reflexivity.
Qed.

(* expired => reads unknown: NOT on the read that detects the expiry (refuted below), but on
   every read after the scheduled deletion ran *)
Lemma sget_sdel st m : sget st (s_code m) = Some m -> sget (sdel st m) (s_code m) = None \/
                       exists m2, sget (sdel st m) (s_code m) = Some m2 /\ smsg_eqb m2 m = false.
Proof.
  induction st as [|[k m'] st IH]; cbn [sget sdel]; [discriminate|].
  destruct (s_code m =? k) eqn:E.
  - intros [= ->]. apply Z.eqb_eq in E. subst k. rewrite Z.eqb_refl.
    assert (R : smsg_eqb m m = true) by (unfold smsg_eqb; rewrite !Z.eqb_refl; reflexivity).
    rewrite R. cbn [andb].
    clear IH. induction st as [|[k2 m2] st IH2]; cbn [sdel sget]; [left; reflexivity|].
    destruct ((k2 =? s_code m) && smsg_eqb m2 m) eqn:E2; [exact IH2|].
    cbn [sget]. destruct (s_code m =? k2) eqn:E3; [|exact IH2].
    right. exists m2. split; [reflexivity|]. apply Z.eqb_eq in E3. subst k2. rewrite Z.eqb_refl in E2. exact E2.
  - intros H. rewrite Z.eqb_sym in E. rewrite E. cbn [andb sget]. rewrite Z.eqb_sym in E. rewrite E. apply IH, H.
Qed.

Lemma expired_reads_unknown_partial st code m exp :
  NoDup (map fst st) ->
  sget st code = Some m -> s_code m = code -> exp m = true ->
  let '(_, dels) := read st code exp in
  fst (read (run_deletes st dels) code exp) = None.
Proof.
  intros Hnd H Hc E. unfold read at 1. rewrite H, E. cbn [run_deletes fold_left].
  subst code. unfold read.
  (* keys are unique, so after deleting m nothing is left under its code *)
  assert (G : sget (sdel st m) (s_code m) = None).
  { clear E. induction st as [|[k m'] st IH]; [discriminate|].
    inversion Hnd as [|? ? Hk Hnd']; subst. cbn [sget sdel] in *.
    destruct (s_code m =? k) eqn:Ek.
    - injection H as ->. apply Z.eqb_eq in Ek. subst k. rewrite Z.eqb_refl.
      assert (R : smsg_eqb m m = true) by (unfold smsg_eqb; rewrite !Z.eqb_refl; reflexivity).
      rewrite R. cbn [andb]. clear IH Hnd Hnd'.
      induction st as [|[k2 m2] st IH2]; [reflexivity|].
      cbn [sdel]. cbn [map fst] in Hk.
      destruct ((k2 =? s_code m) && smsg_eqb m2 m); [apply IH2; intros Hin; apply Hk; right; exact Hin|].
      cbn [sget]. destruct (s_code m =? k2) eqn:E3.
      + exfalso. apply Hk. left. apply Z.eqb_eq in E3. congruence.
      + apply IH2. intros Hin. apply Hk. right. exact Hin.
    - rewrite Z.eqb_sym in Ek. rewrite Ek. cbn [andb sget]. rewrite Z.eqb_sym in Ek. rewrite Ek.
      apply IH; assumption. }
  rewrite G. reflexivity.
Qed.

(* the read that finds the message expired still returns its value *)
Lemma first_read_stale_refuted :
  exists st code m exp, sget st code = Some m /\ exp m = true /\ fst (read st code exp) <> None.
Proof.
  exists [(1, {| s_code := 1; s_verb := 0; s_src := 1; s_dst := 1; s_ctx := 0; s_val := 2000 |})], 1.
  eexists. exists (fun _ => true). split; [reflexivity|]. split; [reflexivity|discriminate].
Qed.

(* the store keeps one message per code *)
Lemma sput_keys_nodup st k m : NoDup (map fst st) -> NoDup (map fst (sput st k m)).
Proof.
  induction st as [|[k' m'] st IH]; intros H; cbn [sput map fst]; [constructor; [intros []|constructor]|].
  inversion H as [|? ? Hk Hst]; subst.
  destruct (k =? k') eqn:E; cbn [map fst].
  - apply Z.eqb_eq in E. subst. constructor; assumption.
  - constructor; [|apply IH, Hst].
    intros Hin. apply Hk. clear IH H Hst Hk.
    induction st as [|[k2 m2] st IH2]; cbn [sput map fst] in *.
    + destruct Hin as [Hin|[]]. apply Z.eqb_neq in E. congruence.
    + destruct (k =? k2) eqn:E2; cbn [map fst] in *; [apply Z.eqb_eq in E2; subst k2; exact Hin|].
      destruct Hin as [Hin|Hin]; [left; exact Hin|right; apply IH2, Hin].
Qed.

Lemma store_keys_nodup me ms : forall st, NoDup (map fst st) -> NoDup (map fst (fold_left (handle me) ms st)).
Proof.
  induction ms as [|m ms IH]; intros st H; cbn [fold_left]; [exact H|].
  apply IH. unfold handle. destruct (stored_by me m && state_bearing m); [apply sput_keys_nodup, H|exact H].
Qed.

(* ---- deleting an expired message removes that message and nothing else ---- *)
Lemma sdel_keeps_others : forall st m k m', sget st k = Some m' -> smsg_eqb m' m = false -> sget (sdel st m) k = Some m'.
Proof.
  induction st as [|[k0 m0] t IH]; intros m k m' H E; cbn [sget sdel] in *; [discriminate|].
  destruct (k =? k0) eqn:Ek.
  - injection H as <-. rewrite E, andb_false_r. cbn [sget]. rewrite Ek. reflexivity.
  - destruct ((k0 =? s_code m) && smsg_eqb m0 m); [apply IH; assumption|].
    cbn [sget]. rewrite Ek. apply IH; assumption.
Qed.
Lemma sdel_absent : forall st m k, sget st k = None -> sget (sdel st m) k = None.
Proof.
  induction st as [|[k0 m0] t IH]; intros m k H; cbn [sget sdel] in *; [reflexivity|].
  destruct (k =? k0) eqn:Ek; [discriminate|].
  destruct ((k0 =? s_code m) && smsg_eqb m0 m); [apply IH; exact H|]. cbn [sget]. rewrite Ek. apply IH; exact H.
Qed.

(* ---------------------------------------------------------------- one zone's element out of a (merged) array *)
Lemma fget_fset d k v k' : fget (fset d k v) k' = if k' =? k then Some v else fget d k'.
Proof.
  induction d as [|[k0 v0] t IH]; cbn [fset fget].
  - destruct (k' =? k); reflexivity.
  - destruct (k =? k0) eqn:E; cbn [fget].
    + apply Z.eqb_eq in E. subst k0. destruct (k' =? k); reflexivity.
    + destruct (k' =? k0) eqn:E2; [|exact IH].
      apply Z.eqb_eq in E2. subst k0. assert (k' =? k = false) as -> by (rewrite Z.eqb_sym; exact E). reflexivity.
Qed.
Lemma fget_fmerge : forall e d k, fget (fmerge d e) k = match fget (fmerge [] e) k with Some v => Some v | None => fget d k end.
Proof.
  unfold fmerge. induction e as [|[k0 v0] e IH] using rev_ind; intros d k; [reflexivity|].
  rewrite !fold_left_app. cbn [fold_left fst snd]. rewrite !fget_fset. destruct (k =? k0); [reflexivity|apply IH].
Qed.
Lemma fget_pick_from : forall arr d z k,
  fget (pick_from d arr z) k = match fget (pick_from [] arr z) k with Some v => Some v | None => fget d k end.
Proof.
  unfold pick_from. induction arr as [|[z0 e] arr IH] using rev_ind; intros d z k; [reflexivity|].
  rewrite !fold_left_app. cbn [fold_left fst snd]. destruct (z0 =? z); [|apply IH].
  rewrite fget_fmerge. rewrite (fget_fmerge e (fold_left _ arr [])). rewrite IH.
  destruct (fget (fmerge [] e) k); reflexivity.
Qed.
(* what is read for a zone from prev ++ this is, key by key, what `this` says, and what `prev` says only where `this` says nothing *)
Theorem merged_array_newest_wins prev this z k :
  fget (pick (prev ++ this) z) k = match fget (pick this z) k with Some v => Some v | None => fget (pick prev z) k end.
Proof. unfold pick, pick_from. rewrite fold_left_app. apply fget_pick_from. Qed.
