import logging, sys, itertools, random
logging.disable(logging.CRITICAL)
from ramses_rf.system.faultlog import FaultLog
class T: id="01:000001"; _gwy=None
def step(fl, log, i):
    if i < len(log):
        if fl._map.get(i)!=log[i]:
            fl._map = fl._insert_into_map(i, log[i])
    else:
        fl._map = fl._insert_into_map(i, None)
random.seed(2)
cnt=0
for trial in range(300000):
    fl=FaultLog(T()); log=[]; n=0; ops=[]
    for _ in range(random.randint(1,8)):
        if random.random()<0.5:
            n+=1; log.insert(0,f"{n:04d}"); d=random.random()<0.5; ops.append(('new',d))
            if d:
                before=dict(fl._map)
                step(fl,log,0)
                # announcement pushes known entries down by one
                exp={0:log[0], **{k+1:v for k,v in before.items() if k+1<=0x3E}}
                if before.get(0)!=log[0] and dict(fl._map)!=exp and all(before[k]==log[k+1] for k in before if k+1<len(log)):
                    # only count when belief before was *correct* wrt old log
                    print("PUSHDOWN", ops, before, dict(fl._map), log); cnt+=1
        else:
            i=random.randint(0,5); ops.append(('RP',i)); step(fl,log,i)
    # read-through from top, up to first null
    before=dict(fl._map)
    R=random.randint(1,6)
    for i in range(R):
        step(fl,log,i)
        if i>=len(log): break
    got={k:v for k,v in fl._map.items() if k<min(R,len(log))}
    exp={k:log[k] for k in range(min(R,len(log)))}
    if got!=exp:
        print("READTHROUGH", ops, "before",before,"after",dict(fl._map),"log",log,"R",R); cnt+=1
    extra=[(k,v) for k,v in fl._map.items() if not(k<len(log) and log[k]==v)]
    if cnt>=4: break
print("done",cnt)
