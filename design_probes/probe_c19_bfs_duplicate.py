import logging, itertools, sys
logging.disable(logging.CRITICAL)
from ramses_rf.system.faultlog import FaultLog
from collections import OrderedDict
class T: id="01:000001"; _gwy=None
fl=FaultLog(T())
def ok(m):
    return all(m[a]>m[b] for a in m for b in m if a<b) and len(set(m.values()))==len(m)
# BFS over (log_len n, map) states; ops: new(delivered/lost), RP(i) for i in 0..n (n => null)
from collections import deque
start=(0, ())
seen={start:None}; q=deque([start]); MAXN=7; found=None; depth={start:0}
while q:
    s=q.popleft(); n,mt=s; m=OrderedDict(mt)
    if depth[s]>=11: continue
    succ=[]
    if n<MAXN:
        n2=n+1; v=f"{n2:02d}"
        succ.append((("new",False),(n2,mt)))
        fl._map=OrderedDict(m); nm=fl._insert_into_map(0,v) if m.get(0)!=v else m
        succ.append((("new",True),(n2,tuple(nm.items()))))
    log=[f"{i:02d}" for i in range(n,0,-1)]
    for i in range(0,n+1):
        dtm=log[i] if i<n else None
        if dtm is not None and m.get(i)==dtm: continue
        fl._map=OrderedDict(m); nm=fl._insert_into_map(i,dtm)
        succ.append((("RP",i),(n,tuple(nm.items()))))
    for op,t in succ:
        if t in seen: continue
        seen[t]=(s,op); depth[t]=depth[s]+1
        if not ok(OrderedDict(t[1])):
            found=t; break
        q.append(t)
    if found: break
print("states",len(seen),"found",found)
if found:
    path=[]; t=found
    while seen[t] is not None:
        s,op=seen[t]; path.append((op,t)); t=s
    for op,t in reversed(path): print(op, "->", t)
