import asyncio, logging, io, glob, random, collections, sys, re, traceback
sys.path.insert(0, __import__('os').path.dirname(__file__))
logging.disable(logging.CRITICAL)
from regen import gen
from ramses_rf import Gateway
from ramses_tx.ramses import CODES_SCHEMA
rnd=random.Random(21)
logs={f:[l.rstrip("\n") for l in open(f) if l[:2]=="20"] for f in glob.glob("/repo/tests/tests/systems/*/packet.log")}
def mutate_payload(line):
    # regenerate payload within the (verb, code) regex
    m=re.match(r"^(\S+) (...) (..) (...) (\S+) (\S+) (\S+) (....) (\d{3}) (\S+)(.*)$", line)
    if not m: return line
    dtm,rssi,verb,seqn,a0,a1,a2,code,ln,pl,rest=m.groups()
    rx=CODES_SCHEMA.get(code,{}).get(verb if verb!="I" else " I")
    if verb in("I","W"): verb=" "+verb
    rx=CODES_SCHEMA.get(code,{}).get(verb)
    if not rx: return line
    for _ in range(5):
        p=gen(rx,rnd)
        if len(p)%2==0 and 2<=len(p)<=96: break
    else: return line
    # extreme values
    if rnd.random()<0.3: p=p[:2]+rnd.choice(["0000","FFFF","7FFF","7EFF"])+p[6:] if len(p)>=6 else p
    return f"{dtm} {rssi} {verb} {seqn} {a0} {a1} {a2} {code} {len(p)//2:03d} {p}"
async def trial(lines, eav):
    txt="\n".join(lines)+"\n"
    g=Gateway(None, input_file=io.TextIOWrapper(io.BytesIO(txt.encode())), config={"enable_eavesdrop":eav,"disable_discovery":True})
    errs=[]
    asyncio.get_event_loop().set_exception_handler(lambda l,c: errs.append(type(c.get('exception')).__name__+": "+str(c.get('exception'))[:70]))
    out=[]
    try:
        await g.start()
    except Exception as e:
        out.append(('start',type(e).__name__,str(e)[:80],'start'))
    for _ in range(5): await asyncio.sleep(0)
    for v in ("schema","params","status","known_list"):
        try: getattr(g,v)
        except Exception as e: out.append((v,type(e).__name__,str(e)[:80], traceback.extract_tb(e.__traceback__)[-1].name))
    try: g.get_state()
    except Exception as e: out.append(("get_state",type(e).__name__,str(e)[:80], traceback.extract_tb(e.__traceback__)[-1].name))
    paused = g._engine_state is not None
    try:
        await g.stop()
    except Exception as e:
        out.append(('stop',type(e).__name__,str(e)[:80],'stop'))
    return out, errs, paused
async def main():
    views=collections.Counter(); loopx=collections.Counter(); ex={}
    files=list(logs)
    for t in range(150):
        base=list(logs[rnd.choice(files)])
        n=len(base)
        a=rnd.randrange(0,max(1,n-300)); lines=base[a:a+rnd.randint(50,300)]
        k=rnd.choice(["none","dup","del","shuffle","splice","mutate","mutate"])
        if k=="dup": lines=[l for l in lines for _ in range(rnd.choice([1,1,2]))]
        elif k=="del": lines=[l for l in lines if rnd.random()<0.7]
        elif k=="shuffle":
            ts=[l[:26] for l in lines]; body=[l[26:] for l in lines]; rnd.shuffle(body); lines=[a+b for a,b in zip(ts,body)]
        elif k=="splice":
            other=logs[rnd.choice(files)]; lines=sorted(lines+other[:100], key=lambda l:l[:26])
        elif k=="mutate": lines=[mutate_payload(l) if rnd.random()<0.2 else l for l in lines]
        out,errs,paused=await trial(lines, rnd.random()<0.5)
        for o in out: views[(o[0],o[1],o[3])]+=1; ex.setdefault((o[0],o[1],o[3]),o[2])
        for e in errs: loopx[e.split(":")[0]]+=1; ex.setdefault(("loop",e.split(":")[0]),e)
        if paused: views[("ENGINE LEFT PAUSED",)]+=1
    print("view failures:"); [print("  ",k,v,"|",ex.get(k,"")) for k,v in views.most_common()]
    print("loop exceptions:"); [print("  ",k,v,"|",ex.get(("loop",k),"")) for k,v in loopx.most_common(12)]
asyncio.run(main())
