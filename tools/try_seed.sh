#!/bin/bash
# usage: tools/try_seed.sh <PROP> <mutation-dir> [name] -- verify a seeded change and run our check against it
set -u
P=$1; M=$2; NAME=${3:-$P}
cd /repo && git status --short | grep -q . && { echo "repo not clean"; exit 2; }
echo "--- demo on clean tree:"; PYTHONPATH=/repo/src timeout 300 /venv/bin/python $M/demo.py > /tmp/demo_clean.out 2>&1; echo "rc=$? $(tail -1 /tmp/demo_clean.out)"
git -C /repo apply $M/patch.diff || { echo "patch does not apply"; exit 2; }
echo "--- demo with the change:"; PYTHONPATH=/repo/src timeout 300 /venv/bin/python $M/demo.py > /tmp/demo_mut.out 2>&1; echo "rc=$? $(tail -1 /tmp/demo_mut.out)"
echo "--- test suite with the change:"; (cd /repo && timeout 900 /venv/bin/python -m pytest -q -p no:cacheprovider --timeout=900 2>&1 | tail -3)
echo "--- our check:"; (cd /verif && VERIF_EVIDENCE_DIR=/tmp/verif_mut_evidence timeout 1800 ./check $P --tier quick 2>&1 | grep -E "VIOLATION|rc=" | cut -c1-220)
git -C /repo checkout -- . ; git -C /repo status --short
