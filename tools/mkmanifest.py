"""Regenerate MANIFEST.json from the table below (kept valid at all times)."""
import json
from pathlib import Path

V = Path(__file__).resolve().parent.parent
props = [json.loads(l) for l in (V / "properties.jsonl").read_text().splitlines() if l.strip()]

# id -> (technique, level text, level note, design ref)
CLAIMED = {
    "C04": (
        "Coq proof (exhaustive vm_compute sweeps of 2^16/2^8 domains with PrimFloat; lia for dates/ids) + whole-domain correspondence with helpers.py",
        "25 theorems in coq/props/C04.v about the codec model coq/model/M_Codecs.v: temperature/percent/double/flag/"
        "setpoint round trips over their whole finite domains (bound in the statement), no-silent-wrap for every binary64 "
        "value, date-time / packed-timestamp round trips for every valid date, id bijection over the 24-bit space incl. the "
        "text forms. The model is tied to /repo on every run by comparing it with the live Python functions over the same "
        "whole domains (block hashes) and on sampled dates/ids; the property itself is re-evaluated on the implementation "
        "over the same domains to produce a concrete failing input.",
        "Trusted: Coq kernel + VM (PrimFloat primitives = hardware binary64), CPython float semantics, the harness; "
        "modelled not verified: strftime/strptime/datetime() (as valid_dt + fixed-width decimal fields), isinstance checks. "
        "Open finding: ids outside tt<=63,n<2^18 are wrapped (KNOWN_FINDINGS.json).",
        "6 (C04)",
    ),
    "C10": (
        "Coq proof (soundness/completeness of the filter for every configuration, by case analysis; memo invariant by induction over look-up histories) + correspondence sweep on real protocol/gateway objects",
        "11 theorems in coq/props/C10.v about coq/model/M_Filter.v (= _is_wanted_addrs, _set_active_hgi, select_device_filter_mode, "
        "get_device.check_filter_lists with its _unwanted memo): blocked never passes, unlisted dropped when enforced, allowed always "
        "passes (an exact iff), for arbitrary lists/active gateway/enforcement and both directions; the gateway memo never blocks an "
        "allowed id after any look-up history (partial: except the hard-coded 01:000001, refuted with a witness). Tie: the model is "
        "evaluated on the same configurations x address pairs as real ReadProtocol/PortProtocol objects (all 10x10x2 combinations per "
        "configuration), real packets/commands through pkt_received/send_cmd, and look-up histories through a real Gateway. Oracle O5: after a cache RESTORE (which relaxes the known list for its own temporary protocol when the list names no gateway) no unlisted / blocked id of the cache has given rise to a device and look-ups are filtered as before.",
        "Trusted: Coq kernel, harness, CPython. Modelled not verified: ids as integers, logging side effects ignored, the dispatcher's "
        "handling of LookupError is exercised only end-to-end (oracle). Open finding: 01:000001 hard-coded as unwanted.",
        "6 (C10)",
    ),
    "C19": (
        "Coq proof (invariants by induction over arbitrary message histories; prefix lemmas; refutations by computed witnesses) + correspondence on the real FaultLog + breadth-first history search",
        "18 theorems in coq/props/C19.v about coq/model/M_Faultlog.v (the read-through LOOP of get_faultlog: from the top with limit 64 it asks for every slot down to the first empty one, slot 3F of a full log included -- C19_read_through_asks_every_slot, C19_full_log_read_to_the_last_slot, tied to the slots the real get_faultlog() asks a scripted controller for over logs of 2..64+ entries; = FaultLog._insert_into_map/_process_msg over an association-list "
        "OrderedDict): for EVERY message history no entry is invented, the view never raises (map values = keys of the entry store), "
        "indices are unique; read-through from an empty view and push-down on a gap-free view are proved (_partial); the full "
        "no-duplicates / push-down / read-through statements are REFUTED with witnesses that are replayed on the implementation "
        "(KNOWN_FINDINGS.json). Against the property's 64-deep log (LOG_DEPTH is the property's constant, MAXIDX is regenerated from "
        "FaultLog._MAX_LOG_IDX): the cut-off is the last slot, NO history puts an entry at an index beyond the log, and for a completely "
        "known log of any length a delivered announcement leaves the view equal to the controller's new log. For EVERY history without "
        "loss (new entries announced and delivered, replies for indexes not beyond the position reached; any interleaving, re-reads, the "
        "log filling to its full depth) the view is exactly the controller's log down to the position reached, and a read-through from "
        "there reaches the whole log -- the property's positive clauses at full strength; only histories WITH losses or skipped reads "
        "fall under the refuted statements. "
        "Tie: _insert_into_map on random+reachable maps and whole histories of real 0418 messages through "
        "the real class are compared with the model (maps incl. order, entry store); the oracle enumerates controller-consistent "
        "histories breadth-first on the real function and classifies every violation by cause; a second oracle drives the real class "
        "with real 0418 messages against an independently simulated 64-deep controller log (clean histories around the full depth: "
        "exact equality after read-throughs and announcements; random histories with losses: index bound, views total).",
        "Trusted: Coq kernel, harness. Modelled not verified: timestamps as integers (string order within one century), the "
        "controller simulator, get_faultlog's send loop (only its message processing is modelled). FAULTLOG_MAX_LOG_IDX is regenerated.",
        "6 (C19)",
    ),
    "C14": (
        "Coq proof (threshold theorems over the regenerated HAS_EXPIRED/grace constants with lia/nia; latch monotonicity and latest-wins by induction over arbitrary read/message sequences) + correspondence on real Message/_MessageDB objects + replay-gateway oracle",
        "20 theorems in coq/props/C14.v about coq/model/M_Store.v and M_StoreDeferred.v (DEFERRED deletion: for ANY interleaving of arrivals, reads that find the held "
        "message expired or live, and loop turns, what an entity holds for a code is the newest arrival, and the newest arrival is held unless a read found that very "
        "message expired -- C14_held_is_latest, C14_latest_never_lost, invariant by induction over event lists; the rule the code had before 71c64db, 'any message equal "
        "in content', is refuted with the history that lost the newest I|1F09; tied to the real _MessageDB._handle_msg / _msg_value_msg / call_soon / _delete_msg on a real "
        "controller entity over random histories; the deferred deletion of an expired message removes THAT message and nothing else -- a sibling zone's or the controller's fresher message of the same code stays -- tied to _delete_msg on real controller / system / zone stores; reading a zone out of an array payload merged from two packets takes, key by key, the LATER packet's element -- C14_merged_array_newest_wins, tied to the real _msg_value_msg(zone_idx=) over random arrays with a zone absent / once / twice; = Message._expired with its cached fraction, _MessageDB._handle_msg, "
        "_msg_value with the deferred delete): never expired before L, always after 2L+grace (for whatever HAS_EXPIRED/grace the source "
        "says now, provided 1 <= HAS_EXPIRED <= 2 -- itself a checked obligation), expiry never un-happens in any evaluation sequence "
        "even with a backwards clock, evaluation is total (zero countdown repaired), the stored message per code is the last relevant "
        "one under arbitrary interleaving, expired => unknown after the deferred delete (_partial; the first read is refuted, KNOWN). "
        "Tie: real Message objects of 30 kinds under a controlled clock and real _handle_msg on random sequences compared with the "
        "model; end-to-end oracle on replay gateways (zones x array/single forms x clock gaps).",
        "Trusted: Coq kernel, harness; float division age/lifespan >= 2.0 argued exact (lifespans < 2^52 us) not proved. Modelled not "
        "verified: the lifespan table (taken from the implementation as input), zone routing of array payloads to zone entities (exercised by the oracle only; the element selection itself is modelled).",
        "6 (C14)",
    ),
    "C01": (
        "Coq proof (chunking independence by induction over arbitrary read partitions; totality of the frame/packet constructor and reader as a filter-map by case analysis over every raise site; verified regex matcher on the regenerated COMMAND_REGEX) + correspondence on the real transports/constructors",
        "10 theorems in coq/props/C01.v about coq/model/M_Frame.v (= PortTransport._read_ready.bytes_read, transport._str/_normalise, "
        "Packet._partition, Frame.__init__ via the regenerated COMMAND_REGEX and a proved-correct derivative matcher, pkt_addrs, "
        "Frame._has_array with its assertions, pkt_lifespan, Packet.__init__, Packet.from_file, _frame_read, the reader loop): the "
        "lines delivered depend only on the concatenated bytes for EVERY partition into reads; for EVERY ASCII line the constructor "
        "ends in a packet, PacketInvalid or ValueError, so no line escapes _frame_read and a reader is exactly a filter-map of its "
        "lines (a bad line never stops later ones). Tie: the same generated lines (log lines, <=3-edit mutants, regex-generated "
        "payloads, chatter) through the real _frame_read and the model (frame text, rssi, src/dst, lifespan, outcome class); the "
        "same byte streams x partitions through the real _read_ready and the model. Oracle: exception classes leaving "
        "Packet.from_file/from_port/from_dict and Message(pkt), every partition vs a single read, log files with bad lines through a gateway; the last stage of the live path -- a real PortProtocol bound to a known gateway, strangers' gateways in the history, over a process lifetime that crosses one or two midnights: nothing escapes pkt_received and what is handed on does not depend on the date.",
        "Trusted: Coq kernel, translator (regex/table regeneration), harness. Modelled not verified: str.split fields = fixed columns "
        "after the regex matched; datetime.fromisoformat (its outcome is an input); the 109 payload parsers behind Message(pkt) are "
        "not modelled -- their exception fence is exercised by the oracle only; non-ASCII input only by the oracle.",
        "6 (C01)",
    ),
    "C02": (
        "Coq proof (parse/print identities for every accepted text and every well-formed frame, through a verified regex matcher and a column-peeling lemma decided on the regenerated COMMAND_REGEX) + correspondence on Command/Packet/_from_attrs and on the real packet logger + replay",
        "14 theorems in coq/props/C02.v about coq/model/M_Frame.v: the CLI short form (Command.from_cli: tokenisation, sequence-number detection by DEVICE_ID_REGEX.ANY, completion of one / two / three address tokens, payload cut) -- three address tokens are the three address fields of the frame built, fewer are completed as documented (C02_cli_triple_kept, C02_cli_short_forms, C02_cli_toks_triple_kept[_no_seqn]; tied by a from_cli correspondence on generated CLI strings of every shape); for a line frame[ < hint][ * evofw3-err][ # comment] (Packet._partition) whatever follows the first '#' is comment and nothing else -- it may contain '*', '<' or further '#' without changing the frame or becoming an error message (tied by a partition correspondence on annotated lines); print(parse s) = s for EVERY string the frame constructor accepts, "
        "parse(print f) = f for EVERY structurally valid frame, length field = byte count, _from_attrs preserves all fields; the fixed "
        "slice offsets are justified by a computed obligation on the regenerated COMMAND_REGEX (columns 2/3/9/9/9/4/3 separated by "
        "single spaces). Tie: Command(frame), Packet.from_port, Command._from_attrs on generated frames/attributes vs the model "
        "(printed text, every field, src/dst, outcome class); log lines written by the real packet logger and read back the way "
        "FileTransport does vs the model's replay_line. Oracle: str(Command(f)) == f, len, Packet/Command agreement, CLI short "
        "forms, EVERY sequence number (---, 000-255) in every spelling (text, int, empty/None) through _from_attrs and four CLI shapes, valid-by-construction frames never rejected, logged packets read back equal with the SAME timestamp.",
        "Trusted: Coq kernel, translator, harness. The log-line theorem is not stated in Coq (timestamp/partition text algebra): the "
        "log round trip is decided by correspondence + oracle on the real logger (TZ=UTC); from_cli is oracle-only.",
        "6 (C02)",
    ),
    "C07": (
        "Coq model of the send FSM on a mini event loop + invariant by induction over arbitrary runs (a caller is only ever handed its own command's echo or reply, while no internal assertion trips) + step lemmas (deadline armed at the call, the deadline wakes the caller, a wake-up always answers) + trace-equality correspondence with the real PortProtocol on a virtual-time loop + schedule oracle",
        "11 theorems in coq/props/C07.v about coq/model/M_Qos.v (EVERY CALLER ANSWERED, at run level and unconditionally -- coq/proof/P_QosCallers.v: in EVERY run, tripped assertions included, a caller still to be answered has its wait_for timer or its wake-up pending (invariant by induction through every callback and batch boundary), so a run at rest -- nothing ready, no timer armed -- holds no unanswered caller: C07_at_rest_all_answered, premises met: C07_all_answered_nonvacuous; ProtocolContext.set_state/_send_cmd/_check_buffer_for_cmd/send_cmd, the "
        "expiry task, the writer task, every 'Coding error' assert as an explicit Crash, on a loop model with _run_once batching and "
        "tie policies): every call is answered at once or arms a wake-up at now + min(timeout, 20 s) [the cap re-read from the source]; "
        "the wake-up of a waiting/timed-out caller always produces an answer; C07_result_belongs: in EVERY run (any events, tie policy, transport "
        "plan, number of steps) whose trace shows no tripped assertion (none reached the loop, none was handed to a caller -- those runs are C09's "
        "finding), every packet handed to a caller has the header of ITS frame (echo) or the header ITS frame asks for (reply): invariant 'the frame "
        "being matched is the frame of the command whose future will be resolved, the kept echo is that frame's' through every callback, plus "
        "monotonicity of the trace on every path incl. crashes; non-vacuity witness; the 0418 special case is in the model (packets carry the class of a null fault-log entry, RQ|0418 commands the class of their reply header): "
        "while a reply is awaited a packet with neither the awaited header nor the ADDRESSED controller's null entry changes nothing (C07_foreign_packet_ignored), that controller's null entry answers (C07_own_null_entry_answers). PARTIAL: after a tripped assertion ownership is only "
        "checked by the oracle; 'within the deadline' is per-step (armed / wakes / answers); the run-level theorem says 'answered once the run is at rest', not 'by the deadline'. Tie: ~100 (thorough 400+) generated schedules + 14 singled-out ones "
        "run on the real PortProtocol and on the model; traces (write times, answers with outcome class and packet, loop exceptions, "
        "final state, queue) must be EQUAL. Oracle: one answer per call, answered by the deadline, result is own echo/reply, error class "
        "inside the ProtocolError family; every other scenario's callers go through the gateway-level entry (Engine.async_send_cmd) around the same protocol; a fifth of the scenarios cancel one caller from outside.",
        "Trusted: Coq kernel, translator (FSM constants), harness (virtual-time loop = CPython's own _run_once with a clock-advancing selector, in-memory transport). Modelled not verified: asyncio semantics as assumed by the mini loop (time stands still within an iteration unless an explicit Stall event -- a callback that takes wall time -- moves it, in the model and on the virtual loop alike); threading.Lock, GC timing of never-retrieved task exceptions, the 0418 null-reply special case, the impersonation alert of PortProtocol.send_cmd. Liveness is only 'a wake-up is armed / a wake-up answers' -- that due timers run is the event loop's job.",
        "6 (C07-C09)",
    ),
    "C08": (
        "Coq invariant by induction over arbitrary event lists / tie policies / transport behaviours (Hoare-style triples over the step monad, holding at assertion crashes too) + computed ladder and refutation witness + trace-equality correspondence + schedule oracle",
        "14 theorems in coq/props/C08.v: the back-off is the PROTOCOL's, not the command's -- five single-attempt commands 10 s apart, all unanswered, are given up after 0.5, 1, 2, 4 and 4 s (C08_backoff_across_commands, computed; two such schedules run on the real FSM with the failure times the doubling rule gives); in EVERY reachable world tx_count <= tx_limit, limit >= 1 for a current command, back-off exponent "
        "<= 3 (so every wait is base x 2^k, k <= 3); limit = 1 + min(max_retries, MAX_RETRY_LIMIT) with the constant regenerated; the exact "
        "ladder (writes at +0, +0.5, +1.5, +3.5 s, failure at +7.5 s) by computation; 'never transmitted after the caller was answered' is "
        "REFUTED with a witness (transport-delayed write) that the oracle re-observes on the real FSM (KNOWN). PRIORITY THEN FIFO: in EVERY "
        "reachable world (crashes included) the send buffer is in (priority, arrival stamp) order with unique stamps (C08_queue_ordered: insertion keeps the order, "
        "the stamp only grows, every other callback leaves buffer and stamp alone), and the command that starts next is the first entry whose caller has not gone -- "
        "everything still waiting has a worse priority or the same priority and a later arrival (C08_next_is_least_pending); computed witness of an overtaking. "
        "ONE IN FLIGHT (coq/proof/P_QosSlot.v): in EVERY reachable world, while the command holding the FSM's slot has not had its caller answered (result, error, cancellation), NO next step of the machine -- any callback, crashes included -- gives the slot to another command, and the command being transmitted / awaited is the holder or nothing "
        "(C08_one_in_flight, C08_current_is_holder; premises met and the slot does change hands once the holder is answered: C08_one_in_flight_nonvacuous, C08_slot_changes_hands). A transport-delayed WRITE of an ended command can still reach the radio while the next one holds the slot (the refuted clause above).",
        "Trusted: Coq kernel, translator (FSM constants), harness (virtual-time loop = CPython's own _run_once with a clock-advancing selector, in-memory transport). Modelled not verified: asyncio semantics as assumed by the mini loop (time stands still within an iteration unless an explicit Stall event -- a callback that takes wall time -- moves it, in the model and on the virtual loop alike); threading.Lock, GC timing of never-retrieved task exceptions, the 0418 null-reply special case, the impersonation alert of PortProtocol.send_cmd. Liveness is only 'a wake-up is armed / a wake-up answers' -- that due timers run is the event loop's job.",
        "6 (C07-C09)",
    ),
    "C09": (
        "Coq invariant by induction over arbitrary runs (while waiting, something that will move the machine on is pending; at rest => not waiting, for every run without a tripped assertion) + refutation witness for the internal assertion (coincident timers) + the counter invariant holding across crashes + caller-answer lemmas + trace-equality correspondence + schedule oracle with a follow-up probe send",
        "7 theorems in coq/props/C09.v: NEVER WEDGED (coq/proof/P_QosAlive.v): in EVERY run -- any events (calls, packets, connection events, stalls, outside cancels), tie policy, transport behaviour, number of steps -- in which no internal assertion has tripped, once the run has come to rest (nothing ready to run, no timer armed) the state machine is idle or inactive, not waiting for an echo or a reply (C09_at_rest_not_waiting; premises met by runs that did wait: C09_at_rest_nonvacuous); the invariant behind it, by induction over arbitrary runs through every callback and the loop's batch boundaries: while it waits, a deferred effect_state or the live expiry task of that wait (about to start / sleeping with its timer armed / woken) is pending. the sender's own consistency check DOES trip (witness: echo timer and caller timeout in one loop "
        "iteration, timer first) -- KNOWN; the counter invariant holds in every reachable world, crashed or not; a woken caller is always "
        "answered; a caller cancelled from OUTSIDE (an outer wait_for such as the discovery poller's, a shutdown: the Cancel event of the model) has its future cancelled and its wake-up scheduled, is answered with the cancellation, "
        "and neither step touches the state machine (C09_cancel_schedules_wake, C09_cancelled_caller_answered) -- so a command in flight is then cleared by its expiry timer alone, which the correspondence and the oracle watch on generated schedules with such cancels; "
        "a delayed write that fails fails only the command still in flight (fail_write; the code's guard is fix f67cb97). PARTIAL: for runs WITH a tripped assertion, and for 'every caller answered' and 'a fresh command succeeds afterwards' at run level, the verdict is the oracle's, on "
        "the implementation after every generated episode (final state, pending queue entries, loop exceptions, a probe command to a "
        "responsive device), not by theorems. Four causes of tripped assertions are recorded as KNOWN findings (three fixed symptoms of a fifth are listed as fixed).",
        "Trusted: Coq kernel, translator (FSM constants), harness (virtual-time loop = CPython's own _run_once with a clock-advancing selector, in-memory transport). Modelled not verified: asyncio semantics as assumed by the mini loop (time stands still within an iteration unless an explicit Stall event -- a callback that takes wall time -- moves it, in the model and on the virtual loop alike); threading.Lock, GC timing of never-retrieved task exceptions, the 0418 null-reply special case, the impersonation alert of PortProtocol.send_cmd. Liveness is only 'a wake-up is armed / a wake-up answers' -- that due timers run is the event loop's job.",
        "6 (C07-C09)",
    ),
    "C17": (
        "Coq proof (record pack/unpack by lia; day grouping and reassembly by induction over arbitrary schedules / fragment sequences; zlib as a universally quantified function with its round-trip law as hypothesis; setpoint scaling by exhaustive PrimFloat computation) + component-wise correspondence + end-to-end oracle with real zlib",
        "7 theorems in coq/props/C17.v about coq/model/M_Sched.v (= _struct_pack/_struct_unpack, full_sched_to_fragz/fragz_to_full_sched, "
        "82-char chunking, Schedule._update_payload_set/_proc_payload_set): decode(encode s) = s for EVERY valid weekly schedule (any "
        "number of switchpoints), every fragment <= 82 hex chars, reassembly from the true fragments in ANY order with ANY repeats gives "
        "s or nothing, setpoint centi-degree scaling exact on all 65 536 words. Tie: _struct_pack/_struct_unpack, the decoder's day "
        "grouping on arbitrary record lists (through real zlib), the pre-compression blob of whole schedules, fragment chunking and the "
        "reassembly bookkeeping (zlib replaced by the identity on both sides) are compared with the model. Oracle: real round trips, "
        "fragment sizes, every write command decoded by the library's decoder, reassembly in random order with repeats.",
        "Trusted: Coq kernel, harness. zlib itself is not modelled (hypothesis of the theorems, real zlib in the oracle). The voluptuous "
        "validator is read as 'seven days 0-6, >= 1 switchpoint, 5-minute times, setpoint 5..35 on the 0.01 grid / bool' (valid_sched); "
        "the 'no schedule' reply and the shared EMPTY_PAYLOAD_SET list are not modelled.",
        "6 (C17)",
    ),
    "C20": (
        "Coq proof over the FINITE state space of a binding wait (one-step invariants decided by kernel computation over all 336 states x 5 events, lifted by induction to every history of instants) + correspondence with the real state classes on a virtual-time loop + two-ended handshake oracle",
        "17 theorems in coq/props/C20.v (C20_waits_as_stated: the waits the context methods default to and the state methods fall back to, re-read from the source by the translator on every run, are the stated 5 s for offer / accept and 3 s for confirm / addenda; C20_early_match_not_lost: the awaited packet, repeats of it and unrelated packets arriving BEFORE the role coroutine reaches its await -- its own send still pending -- end the wait at once with that packet) about coq/model/M_Bind.v and M_BindAttempts.v (several attempts on one context: an attempt can be "
        "abandoned -- the caller gives up, a send raises: BindContextBase._abandon_binding -- and retried; for EVERY history no abandoned state "
        "object keeps an armed timer, an abandon ends binding, and a new attempt on a non-binding context evolves exactly as a first attempt "
        "whatever happened before, so the single-wait theorems apply to every retry; the wrong order of the two statements of "
        "_abandon_binding is refuted with a witness) (incl. no event sequence leaves an exception in the loop -- repeats "
        "of the awaited packet within one loop iteration are ignored (fix c876120) -- and BindStateBase.is_phase: a packet belongs to at "
        "most one phase, so a third party's offer, self-addressed or broadcast, is never taken for the accept or confirm awaited; "
        "= BindStateBase._wait_for_fut_result / _handle_wait_timer_expired / "
        "_set_context_state, the states' call_later timers, rcvd_msg of the waiting states; the loop abstracted to instants with the "
        "wake-up hop): for EVERY history a wait that ended, ended with the awaited message (context advanced) or BindingFlowFailed "
        "(context DevHasFailedBinding = not binding, a new attempt may start) and nothing else; the wait is over in the instant its "
        "timer fires; repeated copies of the awaited packet are no-ops; the pre-repair code is refuted with the witness. PARTIAL: the "
        "role-level clauses (both ends report the same offer/accept/confirm under repeats; every attempt bounded; not binding "
        "afterwards; retry after a failure in a LATER phase than the first wait) are decided by the handshake oracle on real BindContexts over a delaying/repeating/losing medium, not "
        "by theorems. Tie: ~100 (thorough 400) single-wait schedules with packets placed around the 5.0/5.1 s timers, both tie "
        "policies, on the real state classes vs the model (outcome, successor state, loop exceptions); ~45 (thorough 125) two-attempt histories on ONE real "
        "context driven through wait_for_binding_request (first attempt given up at 1/64 s .. 4.5 s or timed out, retry 1/32 s .. 2 s later, offers and "
        "foreign packets around the old and new timers' due times) vs M_BindAttempts (outcome of the retry, context state); is_phase on real Commands of every (code, verb, destination kind, phase).",
        "Trusted: Coq kernel, harness (virtual loop, scripted medium routing packets as dispatcher.process_msg does). Modelled not "
        "verified: asyncio wait_for/shield semantics as 'a time-out before the waiter runs yields TimeoutError'; sending abstracted to "
        "echo-after-delay or ProtocolSendFailed; the vendor-specific code lists and the 10E0 ratify step only in the oracle.",
        "6 (C20)",
    ),
    "C18": (
        "Coq proof (lock discipline for every fault position and every history of transfers by case analysis / induction; version bookkeeping of the reassembly by induction) + correspondence and fault-injection oracle on real Schedule/Zone objects with a scripted controller",
        "17 theorems in coq/props/C18.v about coq/model/M_Transfer.v, M_SchedCache.v and M_LockWaiters.v (SEVERAL zones' transfers at once around the system-wide lock: for EVERY interleaving of starts, polls, fragment exchanges and ends -- completions, failures, callers giving up while WAITING for the lock or while holding it -- every fragment is exchanged under its own zone's lock, at most one transfer holds, and a transfer that ends while waiting changes neither the lock nor any other transfer: C18_exchanges_under_own_lock, C18_one_holder, C18_waiter_ending_releases_nothing; the slip 'obtain the lock inside the try' refuted with a witness; tied to the code by an AST obligation on both routines -- `await _obtain_lock` right before the `try ... finally _release_lock` -- and by replaying the lock events of every episode in the model, the lock after EACH event being the real tcs.zone_lock_idx; THE ZONE'S OWN MEMORY of its schedule -- _full_schedule / _sched_ver / _global_ver and the system's cached change counter against the controller's schedule and counter, under fetches and WRITES that fail at any exchange (before the controller has the whole set; after it has committed, the last reply lost; at the version query that follows), changes by others and overheard counters: in every reachable state the readings never run ahead of the controller and whenever the zone's version says 'current' what it remembers IS the controller's schedule (C18_cache_invariant), so a forced fetch that returns, returns the controller's schedule (C18_forced_fetch_is_current); remembering the new schedule BEFORE sending it is refuted with the three-step history (C18_early_assignment_refuted); tied to the code state by state: random histories of fetches / forced fetches / writes / changes with one exchange failing anywhere (raising, never answering, its reply lost after the controller acted) on real Schedule objects, the remembered schedule, both version readings, the controller's schedule and counter compared with the model after every step; OVERHEARD traffic, Schedule._handle_msg: acknowledgements of schedule writes -- this gateway's or "
        "another's -- and fragments arriving while the zone's own transfer holds the lock change nothing; hearing ANY traffic is feeding the reassembly exactly the "
        "fragments among it, so nothing but a fragment ever enters the set (fix 920e60e; tied to the real _handle_msg on real RP / I 0404 messages under the three lock "
        "states, and anchored in the source by AST); = _obtain_lock/_release_lock around Schedule._get_schedule / "
        "set_schedule with a fault -- an exchange raising, or the caller's timeout cancelling -- at any await; _update_payload_set over "
        "version-tagged fragments): whatever faults hit a transfer it never leaves the lock held; after ANY history of transfers the lock "
        "is free and no transfer ever waited for it; a schedule is only assembled from a full set of ONE version (under the idealisation "
        "that zlib's checksum rejects a mixed set); an UNDISTURBED fetch (the loop of _get_schedule against a controller holding one "
        "version) ends with that version within 2*total exchanges from ANY stale payload set, so nothing a failed, abandoned or "
        "overtaken transfer leaves behind can stop a later one; the pre-repair lock leak is the refuted witness. PARTIAL: 'always ends' "
        "for DISTURBED transfers rests on the caller's timeout (asyncio.wait_for), which is not in the model -- decided by the oracle; a WAITER that gives up while another zone's transfer holds the lock is in M_LockWaiters (above) and in the oracle (concurrent fetches and writes of three zones, the middle one abandoned while waiting: at every fragment exchange the lock is held by that fragment's zone). "
        "Tie: vfeed / fetch of the model are compared with the real _update_payload_set / _get_schedule on fragments of 5-7 versions "
        "of one zone's schedule (same and different fragment counts, one-fragment sets; slots, assembled version, number of exchanges). Oracle: a replay gateway's real zones, gwy.async_send_cmd "
        "replaced by a scripted controller (change counter, per-zone fragment sets), ONE fault (raise / never answer / schedule changed "
        "on the controller / schedule shrunk to one fragment) injected at EVERY await index in turn, then forced probe transfers of the SAME "
        "and of another zone which must return the controller's current schedule; changes between transfers; one-fragment schedules; "
        "concurrent transfers of 2-3 zones.",
        "Trusted: Coq kernel, harness (virtual loop, virtual datetime substituted into ramses_rf.system.heat). Not modelled: the "
        "dispatcher path by which overheard 0404 replies reach Schedule._handle_msg, threading.Lock (single-threaded use).",
        "6 (C18)",
    ),
    "C13": (
        "Coq proof (engine pause/resume automaton: every snapshot/restore, succeeding or raising, leaves every engine variable unchanged; invariant of all reachable states by induction) + step-by-step correspondence with the real Gateway + exploration of all public views over derived histories",
        "11 theorems in coq/props/C13.v about coq/model/M_Engine.v and M_TxRate.v (a view of the LIVE gateway: the transmit rate in Gateway.status, also evaluated inside every write -- for EVERY history of transmits a positive time apart, read at ANY later moment, it is a number: C13_tx_rate_total; the early-exit slip refuted; tied by correspondence:tx-rate on real PortTransport objects; M_Engine = Engine/Gateway._pause/_resume, get_state and "
        "_restore_cached_packets as pause; body; resume with the body free to raise): for every up engine and ANY sequence of snapshots "
        "and restores in any mix of successes and failures, handler / sending switch / discovery switch / writing flag / the transport's reading flag (has_tr, rd_paused: a packet is taken from the source only while reading) / saved tuple are "
        "exactly as before and the next packet reaches the same handler; a snapshot while a client holds the engine paused is refused and "
        "changes nothing; every reachable state is up or one resume away from up; the pre-repair code (no try/finally) is the refuted "
        "witness, and a _resume() that resumes reading only when sending is enabled is a second one (C13_merged_guard_refuted). PARTIAL: 'every public view returns without raising after any history' is NOT a theorem -- the several hundred view "
        "properties of the entity classes are not modelled; it is decided by exploration of the implementation (derived histories + a "
        "sweep regenerating every recorded packet shape from its schema regex in lowest/highest/random modes), and Message._expired's "
        "totality is C14's theorem. Tie: ~170 (thorough ~900) op sequences x 4 engine configurations (the fourth: a sending-enabled gateway not yet started, no transport) on real Gateways (read-only and "
        "writeable protocol) compared step by step with the automaton; bodies made to raise by an unreadable entity, a missing packet "
        "source, and cancellation at the await.",
        "Trusted: Coq kernel, harness. Modelled not verified: the body of get_state/restore as 'does not touch the engine variables'; "
        "threading.Lock around _engine_state (single-threaded use); transport pause_reading/resume_reading (no-ops for the file "
        "transport; not observed).",
        "6 (C13)",
    ),
    "C16": (
        "Coq proof (store = latest packet per slot under arrivals and slot clearings, snapshot = filter over the store: fixpoint, restore-into-same and restore-twice by induction over ANY event history, for ANY routing of packets to slots) + correspondence over OBSERVED slot writes on real gateways + the statement as an oracle on fresh gateways",
        "10 theorems in coq/props/C16.v (C16_snapshot_independent_of_earlier_reads: over the deferred-deletion store of M_StoreDeferred, for ANY interleaving of arrivals, honest reads and loop turns, what is live in a slot -- what a snapshot without expired packets shows -- is a function of the arrivals alone: snapshots taken at earlier prefixes cannot change a later one; implementation side: histories fed packet by packet with snapshots at five prefixes vs a gateway asked once) about coq/model/M_Snapshot.v (= _MessageDB._handle_msg slot discipline, get_state()'s flatten + "
        "wanted_msg + timestamp-keyed dict, _restore_cached_packets as replay): snapshot(replay(snapshot h)) = snapshot h for every "
        "history h of packet arrivals and slot clearings, every routing function and every clock of the fresh gateway not ahead of the "
        "original's; restoring into the gateway that holds the state, and restoring twice, give the same snapshot; a snapshot holds only "
        "packets of the history that the filter wants; the filter never wants a request, wants a write only if it is a 0404 longer than 7, "
        "and (include_expired off) wants no expired packet EXCEPT 313F -- the clause as the property states it is refuted by the code's "
        "own rule (known finding). PARTIAL: 'the identical schema' is not a theorem (no model of schema loading) -- decided by the oracle; "
        "routing is an arbitrary function of the packet in the theorems whereas the implementation's also depends on which entities exist. "
        "Tie: histories fed to a real gateway packet by packet, the slots written/cleared at each step observed, the model's snapshot "
        "over them = get_state()'s keys; 64 filter combinations observed through get_state(). Oracle: snapshot -> fresh Gateway (schema + "
        "packets) -> snapshot, twice, and into the same gateway, both include_expired settings, ~200 (thorough ~1400) histories incl. "
        "every recorded system verbatim and its prefixes.",
        "Trusted: Coq kernel, harness (slot observation by diffing _msgz_/_msgs_ after every packet). Modelled not verified: expiry "
        "verdicts are taken from the implementation (C14's subject); packet identity = timestamp + frame text, the trailing "
        "'# header (context)' comment of repr(pkt) is canonicalised away.",
        "6 (C16)",
    ),
    "C15": (
        "Coq proof (topology operations with the library's guards: structural invariant of every reachable state, nothing-moves and no-silent-move by induction over ANY request sequence; printed zone keys and zone count against the validator's regenerated regex and limits by a finite sweep lifted by lemma) + state-by-state correspondence on real entity objects + validator/reload/graph-walk oracle over histories and generated schemas",
        "12 theorems in coq/props/C15.v about coq/model/M_Topology.v (= Child.set_parent/_get_parent, Parent._add_child, "
        "MultiZone.get_htg_zone/Zone.__init__, get_dhw_zone): after ANY sequence of requests (any device type, parent, child id, role; "
        "accepted or refused) zone indexes are below max_zones, each zone's sensor/actuators, the DHW parts and the appliance control "
        "have that zone/DHW zone/system as their ONE parent and the parent's controller as theirs, hence a device is in at most one "
        "zone/role-holder under one controller; conversely a device that has a parent is recorded in one of that parent's role slots (never half-attached); a refused "
        "request changes no device and no slot; a sensor, parent or controller once set never changes; a request that succeeds on a "
        "placed device named its existing parent -- any other is answered with an error; for every max_zones the configuration "
        "validator admits (range regenerated) every zone key matches the schema validator's key regex (regenerated, verified matcher) "
        "and a controller's zones fit the validator's dict size limit (regenerated). PARTIAL: 'the reported schema validates' beyond "
        "zone keys/count, 're-loading reproduces controllers/zones/DHW/appliance control' and how packets become set_parent requests "
        "(000C/0005 handlers, eavesdropping, load_schema) are not theorems -- decided by the oracle. Tie: ~160 (thorough 600) random "
        "sequences of 25 requests on real Device/Zone/System objects vs the model, the whole topology compared after each. Oracle: "
        "derived histories (eavesdrop on/off, max_zones 1..16, whole or chunked): SCH_GLOBAL_SCHEMAS(shrink(schema)), graph walk, parents "
        "tracked across points, reload into a fresh gateway; generated validator-accepted schemas loaded and printed back.",
        "Trusted: Coq kernel, translator (SCH_ZON_IDX, SCH_TCS_ZONES length, max_zones range), harness. Modelled not verified: device "
        "classes as 9 type tags with PARENT_RULES transcribed; zone class promotion and UFH circuits not modelled.",
        "6 (C15)",
    ),
    "C12": (
        "Coq proof (abstract learner: soundness and monotonicity of learning from a conforming controller's replies by case analysis, completeness after two loss-free rounds from ANY true state by induction over the polling tables, hence 'losses only delay' for every loss pattern) + reply-by-reply correspondence on a real gateway + whole-gateway discovery oracle on a virtual loop",
        "5 theorems in coq/props/C12.v about coq/model/M_Discover.v (= the 0005/000C polling tables of SystemBase/MultiZone/StoredHw/Zone/"
        "DhwZone, the interpretation of the replies in MultiZone/Zone/DhwZone/StoredHw/SystemBase._handle_msg, and a conforming "
        "controller): for EVERY configuration (any zones 00-0B of the four classes, any sensors/actuators, any DHW parts, any appliance "
        "control) what is learnt from any reply is true of the configuration; nothing learnt is ever lost or replaced whatever reply "
        "arrives; after ANY loss patterns over any number of rounds, two loss-free rounds make the knowledge equal the configuration. "
        "PARTIAL: the model's round abstracts the implementation's timing (due times, 24 h interval, back-off, QoS) -- that a lost reply "
        "is really asked for again is decided by the oracle, which runs the whole Gateway (discovery on, no schema) for 0.3-52 virtual "
        "hours against a scripted controller under six loss patterns and checks at five probe times that the schema is contained in the "
        "configuration, contains the previous probe's, and finally equals it. UFH zones are outside quantifier and model. Tie: ~40 "
        "(thorough 160) generated configurations x shuffled request orders fed as RQ/RP pairs to a real gateway vs the model's learn after "
        "every reply; the 0005/000C requests written in loss-free runs = the model's polling tables.",
        "Trusted: Coq kernel, harness (virtual loop/datetime, in-memory transport, scripted controller). Modelled not verified: device "
        "ids as numbers; set_parent type rules (C15's model) assumed satisfied by the generated configurations.",
        "6 (C12)",
    ),
    "C11": (
        "Coq proof (exact integer models of the duty-cycle bucket, the write-gap semaphore and the MQTT token bucket with regenerated constants: window bounds for EVERY run by induction / telescoping, lia) + tick-exact correspondence with the real limiter code under a virtual perf_counter + window/order/integrity oracle",
        "17 theorems in coq/props/C11.v about coq/model/M_Regulate.v, M_RegulateK.v and M_SyncAvoid.v (SYNC-CYCLE AVOIDANCE, transport.avoid_system_syncs with its window constants and the two-sided shape of is_imminent re-read from the source: an announced sync holds a write only inside its window -- never once its time has come, whatever became of the controller that announced it; never earlier than the window -- and the wait loop ends at the window's end plus one sleep: C11_sync_never_held_once_due / _never_held_early / _held_inside_the_window / _hold_bounded / _window_as_stated; the one-sided test is refuted; tied by sync_run: the real track_system_syncs + avoid_system_syncs + write_frame on a virtual clock, every write no earlier than the model's release and within the rest of the cycle after it; = @limit_duty_cycle's refill/sleep/debit, PortTransport._leak_sem + "
        "BoundedSemaphore(1), MqttTransport.write_frame; RATE, CAPACITY, the frame-size formula, the gap and the token constants "
        "regenerated, the wrapper's shape checked by the translator): for every run of the wrapper under sequential use (any arrival "
        "times, frame sizes, extra delays) any stretch of consecutive writes hands the radio at most RATE x (first..last write) + one "
        "full bucket + its first frame; the computed sleep covers the shortfall and is not a tick longer; in any stretch of semaphore "
        "events (writes - 2) gaps fit into the time spanned by its ticks; an accepted MQTT write waits at most 1 s (over-budget ones "
        "are dropped), what any run accepts is covered by tokens in hand + refill + 1 s of debt, and the token invariant is preserved. "
        "CONCURRENT callers (M_RegulateK: every call is an arrival instant -- top-up, decision -- and a write instant -- debit --, arbitrarily "
        "interleaved, a write delayed for any time beyond its computed sleep, at most K calls pending at once, K ANY number): the level never falls "
        "below -(K-1) frames (invariant by induction over event lists with ghost bookkeeping of what others debited since a caller looked; the floor "
        "is reached, computed witness) and ANY stretch of ANY run hands the radio at most RATE x span + one bucket + one frame per call pending at its "
        "start + (K-1) frames (potential argument). PARTIAL: 'written once, unaltered' and 'in order' are not theorems -- decided by the oracle "
        "(order is refuted there: known finding). Tie: every real concurrent interleaving (~1000 writes per quick run) is a run of the concurrent "
        "model and every write finds EXACTLY the model's level in the closure's own bits_in_bucket; ~450 (thorough ~1800) "
        "admissions of sequential arrival patterns on the real chain vs the model's schedule, equal to the tick; the semaphore's "
        "release/write events are a valid run of the model; ~1400 MQTT accept/discard decisions and sleeps (exact ties at the discard "
        "threshold excepted, where binary64 is a hair below the exact value).",
        "Trusted: Coq kernel, translator (constants + AST shape check of limit_duty_cycle), harness (virtual loop on a 2^-20 s grid, on "
        "which the implementation's binary64 level arithmetic is exact; time.perf_counter substituted while the module is reloaded). "
        "Not modelled: avoid_system_syncs (wall-clock dependent, inert in the runs), _track_transmit_rate.",
        "11 (C11)",
    ),
    "C06": (
        "Coq proof (the header function over regenerated code tables: echo and reply recognition and their converses for ALL payloads, ids and codes by symbolic case analysis; the failing classes by computed witnesses) + frame-by-frame correspondence of header/rx_header + recognition/near-miss oracle with the protocol FSM's matching rule",
        "6 theorems in coq/props/C06.v about coq/model/M_Header.v (= pkt_header, Frame._ctx, _pkt_idx, _has_array, _has_ctl with "
        "CODES_WITH_ARRAYS, CODE_IDX_*, CODES_ONLY_FROM_CTL, the '^00' regex table, device types and roles regenerated): for every RQ/W "
        "frame the echo with any same-type gateway id has the same header and expects the same reply; for every request from a gateway "
        "to any device other than a type 12/22 thermostat (and other than 1FC9, 0009-to-OTB) every proper reply -- same code, reply "
        "verb, from the addressed device, repeating the context positions, not an array, any payload otherwise -- has exactly the "
        "expected header; conversely whatever carries the expected (or the request's own) header has the request's code, verb, device "
        "and context, so a packet differing in any of those is not taken for the reply/echo; the two classes where pairing fails are "
        "refuted by witnesses (known findings). PARTIAL: the FSM's matching rule on top of the headers (placeholder substitution, 0418 "
        "null-entry exception) is not in the Coq model: every echo / reply / near-miss decision of the oracle is taken by the REAL "
        "IsInIdle.cmd_sent -> WantEcho.pkt_rcvd -> WantRply.pkt_rcvd on a recording stand-in context, and the rule as the model states it "
        "is compared with each of those decisions (a correspondence of its own); that constructors' payloads put the context at the "
        "modelled positions is C03's subject. Tie: ~1000 (thorough ~5000) frames of every code x verb x 3 address shapes x 14 device types: model header and "
        "rx_header = Packet._hdr and pkt_header(rx_header=True), incl. the raising cases. Oracle, end to end: a real PortProtocol with the known list enforced (the placeholder 18:000730 not listed) and a dongle that rewrites the first address only -- frames whose echo still carries the placeholder are recognised as echoes, an ordinary request gets its reply.",
        "Trusted: Coq kernel, translator (tables), harness. Modelled not verified: addresses as (type, number); AssertionError inside "
        "_has_array as 'no context' (pkt_header's except clause).",
        "6 (C06)",
    ),
    "C05": (
        "Coq proof (array = list of its elements for ANY element decoder and any number of elements, by induction; the index a packet is filed under is carried in its frame, by case analysis of the header model; value ranges of the wire decoders by exhaustive PrimFloat sweeps lifted by lemma) + translator shape check of every array-capable parser + decoder oracle over regex-generated payloads of every code",
        "9 theorems in coq/props/C05.v. Three about decoders modelled in full (coq/model/M_ModeCmd.v: parser_2349 zone mode, parser_000a zone "
        "configuration, also parser_1f41 / parser_2e04 / parser_313f, tied to the real decoder on ~1250 (thorough 4500) W payloads assembled "
        "from valid, sentinel and invalid fields -- verdict and every decoded value): whatever a 2349 / 000A payload of hex digits decodes "
        "to, its temperatures are within -273.15..327.67, and the decoded zone mode does not depend on the index byte. Six about "
        "coq/model/M_Payload.v (+ M_Codecs, M_Header): decode_array f n (concat es) = map f es for "
        "every element decoder f, element length n > 0 and list es of elements; the k-th element reports the first byte of the k-th "
        "element; every regenerated element length is positive; pkt_idx returns payload[:2], payload[4:6] or one of the fixed ids a "
        "000C role / the DHW schedule stands for; every temperature a 16-bit word decodes to is within -273.15..327.67 and every ratio a "
        "byte decodes to within 0..1 (2^16 / 2^8 sweeps). The tie of the array theorem to the code is the translator: on every run it "
        "checks that each of the 8 array-capable parsers is a comprehension `for i in range(0, len(payload), N)` over slices within the "
        "element, N = 2 x CODES_WITH_ARRAYS, with the element index at [i:i+2], and that a helper which decodes the whole single-element "
        "payload gets the whole element in the array path (this is what failed for 2249 before fix 072cff6). PARTIAL: 'JSON-serialisable', "
        "'the same whatever was decoded before' and per-field decoding of the ~109 parsers are not theorems -- decided by the oracle on "
        "payloads generated from every (verb, code) regex in lowest/highest/random modes: json.dumps, decode again / after others / in "
        "reverse order, arrays of 1..8 elements vs their elements, reported indexes vs the frame, ranges by key name; plus a byte sweep: "
        "one real-world packet per (code, verb, length) carrying a ratio or temperature (the repository's parser logs), every byte set to "
        "boundary values (all 256 in the thorough tier). The two decoders the range theorems are about (hex_to_percent at both "
        "resolutions, hex_to_temp) are compared with the model over their whole domains inside this check.",
        "Trusted: Coq kernel (PrimFloat primitives in the two range sweeps), translator (element lengths + AST shape), harness. "
        "Modelled not verified: element decoders other than the 30C9/2309 temperature arrays (which are compared bit for bit).",
        "6 (C05)",
    ),
    "C03": (
        "Coq proof (payload builders of a core set of constructors vs the REGENERATED payload regexes through the verified regex matcher: finite sweeps lifted by lemma for indexes / log entries / OpenTherm ids / fragment headers, symbolic-string matching with a soundness theorem for payloads with arbitrary data fields, builder-then-decoder equalities for the mode / time / configuration commands; refuted classes by witnesses) + whole-domain correspondence with the real constructors + oracle over all 45 constructors",
        "32 theorems in coq/props/C03.v. The getters with a fixed payload (M_Command.fgetter: get_schedule_version / get_system_language / get_system_time / get_system_mode and the three DHW getters): for a DHW index 00/01 built, accepted by the regenerated RQ regex and registered under RQ|code; over every index 0..255 accepted exactly when the getter takes no index or the index is 00/01 (C03_fixed_getters_valid / _idx; get_dhw_mode(dhw_idx=2) refuted: the recorded dhw-idx-let-through root), tied by correspondence:fixed-getters (payload or refusal, verb|code, decoder's verdict). put_co2_level / parser_1298 and put_indoor_humidity / parser_12a0 (M_ParamCmd): accepted by the regenerated I|1298 / I|12A0 regexes; every whole number of ppm below 7FFF comes back, None and 32767 read as no sensor, 32768 up as a sensor fault (the constructor checks no range); whole percents 0..100 and None by a sweep. set_tpi_params / parser_1100 (M_ParamCmd): built with arguments in the decoder's domain => accepted by the regenerated W|1100 regex and decoded to "
        "exactly what was asked (minutes in quarters, band width via C04's codec), and the refuted class: the constructor checks none of its numeric arguments (KNOWN). Three about coq/model/M_ParamCmd.v (set_dhw_params / parser_10a0, set_mix_valve_params / parser_1030, put_sensor_temp and put_dhw_temp / parser_30c9, parser_1260: built => accepted and decoded back, for every argument combination not refused and every temperature word). Nine about coq/model/M_ModeCmd.v (= set_zone_mode, set_dhw_mode, set_system_mode, set_system_time, "
        "set_zone_config with _normalise_mode / _normalise_until, AND the decoders parser_2349 / parser_1f41 / parser_2e04 / parser_313f / "
        "parser_000a): for every zone 0..15, every mode argument, EVERY setpoint word, every valid end time (years 1..9999, leap days) and "
        "every duration below FFFFFF, whatever set_zone_mode does not refuse is in the language of the regenerated W|2349 regex (symbolic "
        "matching: one kernel computation per payload shape covers every hex data field, coq/lib/RegexSym.v, soundness proved) and the "
        "decoder returns exactly the normalised mode, that word's temperature, the duration and the end time to the minute; the same for "
        "set_system_mode (modes 00..07), set_system_time (to the second, DST flag) and set_zone_config (min/max on the 0.01 grid, three "
        "flags); for set_dhw_mode the same EXCEPT three classes refuted by witnesses (countdown mode, temporary override without an end "
        "time, a DHW index other than 00/01: built and then rejected by the library's own decoder -- known findings). Eleven about "
        "coq/model/M_Command.v (= _check_idx, the six zone getters with a regex, get_mix_valve_params, "
        "set_zone_setpoint, get_system_log_entry, get_opentherm_data, get_schedule_fragment) against PAYLOAD_REGEXES and API_MAP regenerated "
        "from ramses.py / command.py: for every zone index 0..15 the getters' payload is in the language of the regex of the RQ|code they "
        "are registered under and the index reads back; every other index 0..255 is refused except the three domain ids (refuted: known "
        "finding); for every index and EVERY setpoint word set_zone_setpoint's payload is accepted for W|2309 and the word reads back "
        "(with C04_temp_encode_decode: the setpoint at wire resolution); whatever get_system_log_entry builds is one of the 64 entries and "
        "accepted; all 256 OpenTherm ids give an accepted RQ|3220 carrying the id; every fragment request not refused is accepted; "
        "RQ|1030 has no regex at all (refuted). PARTIAL: 19 of 45 constructors are modelled (9 of them together with their decoders); the others, "
        "the decoders' own value checks beyond the regex for those, and 'decodes to the values passed in' for names / fan / bind commands are decided by the oracle: every constructor "
        "of CODE_API_MAP over argument grids (in and out of domain): verb|code as registered, Message._from_cmd accepts, decoded values = "
        "arguments at wire resolution. Tie: the models' payloads = the real constructors' over 256 indexes x 6 getters, 70 log indexes, "
        "256 OpenTherm ids, 10 setpoints (incl. refusals); ~5900 (thorough ~19000) argument combinations of the five mode/time/config constructors "
        "(indexes incl. 16 and domain ids, modes None/0..5, setpoints, end times incl. 29 Feb and years 1/9999, durations 0..FFFFFE, flags): payload or "
        "refusal, the real decoder's verdict (Message._from_cmd) and every decoded value vs the model.",
        "Trusted: Coq kernel, translator (regex ASTs, API map), harness. Modelled not verified: hex_from_temp via C04's theorem (setpoint "
        "k/100 -> word k mod 2^16).",
        "6 (C03)",
    ),
}

NOT_YET = "not claimed yet: the Coq model and correspondence harness for this property are not built in this revision (planned in DESIGN.md section 6)"

checks = []
for p in props:
    pid = p["id"]
    if pid in CLAIMED:
        tech, text, note, ref = CLAIMED[pid]
        checks.append({
            "property_id": pid,
            "quick_cmd": f"./check {pid} --tier quick",
            "thorough_cmd": f"./check {pid} --tier thorough",
            "evidence_file": f"/verif/evidence/{pid}.json",
            "replay_cmd_template": f"./check {pid} --replay {{path}}",
            "engine": "coq+harness",
            "level_claimed": {"category": "proof", "text": text, "design_ref": f"DESIGN.md section {ref}"},
            "level_note": note,
            "technique": tech,
        })
manifest = {
    "version": 1,
    "setup_cmd": "cd /verif && ./check --setup",
    "hooks": {
        "guard": "RAMSES_RF_VERIF",
        "enable": "no source hooks: the harness substitutes clocks/transports from outside; nothing in /repo is guarded",
        "baseline_off_cmd": "cd /repo && /venv/bin/python -m pytest -ra -q -p no:cacheprovider --timeout=900 --continue-on-collection-errors",
        "source_commits": [],
        "add_only": True,
    },
    "engines": [
        {"name": "coq", "path": "/verif/coq", "serves_properties": sorted(CLAIMED), "kind_free_text": "Coq 8.16.1 models (model/), proofs (proof/), property theorems (props/), regenerated constants (gen/)"},
        {"name": "translator", "path": "/verif/tools/gen_all.py", "serves_properties": sorted(CLAIMED), "kind_free_text": "re-reads constants/tables from /repo into coq/gen on every run (fail-closed)"},
        {"name": "harness", "path": "/verif/harness", "serves_properties": sorted(CLAIMED), "kind_free_text": "correspondence (model vs implementation, same inputs) + oracle on the implementation + verdict/evidence"},
    ],
    "checks": checks,
    "notes": "fix: commits in /repo are listed in KNOWN_FINDINGS.json (status=fixed). See DESIGN.md.",
    "not_applicable": [{"property_id": p["id"], "reason": NOT_YET} for p in props if p["id"] not in CLAIMED],
}
(V / "MANIFEST.json").write_text(json.dumps(manifest, indent=1) + "\n")
print("claimed:", sorted(CLAIMED))
