#!/usr/bin/env python3
"""usage: tools/save_seed4.py <PROP> <first-result> <strengthening> <now>  -- copy /tmp/mut4_<PROP> to seeded/<PROP>-4, remove the worktree /tmp/wt4_<PROP>"""
import json, os, shutil, subprocess, sys
pid, first, stren, now = sys.argv[1:5]
rnd = os.environ.get("ROUND", "4")
src = f"/tmp/mut{rnd}_{pid}"
dst = f"/verif/seeded/{pid}-{rnd}"
os.makedirs(dst, exist_ok=True)
for f in ("patch.diff", "demo.py"):
    shutil.copy(f"{src}/{f}", dst)
m = json.load(open(f"{src}/meta.json"))
m.update({"round": int(rnd), "verified_by_us": "demo passes on the unchanged tree and fails with the change; the test suite passes with the change (only the baseline failure test_known_list_bad[5], flaky tests_rf aside); tools/try_seed4.sh (the check ran against the scratch worktree, /repo untouched)",
          "our_check_first_result": first, "strengthening": stren, "our_check_now": now})
json.dump(m, open(f"{dst}/meta.json", "w"), indent=1)
subprocess.run(["git", "-C", "/repo", "worktree", "remove", "--force", f"/tmp/wt{rnd}_{pid}"])
shutil.rmtree(src, ignore_errors=True)
print("saved", dst)
