import asyncio, logging, sys
sys.path.insert(0, __import__('os').path.dirname(__file__))
logging.disable(logging.CRITICAL)
from vloop import VLoop
from ramses_tx.protocol import PortProtocol
from ramses_tx.command import Command
from ramses_tx.packet import Packet
from ramses_tx.typing import QosParams
from ramses_tx import exceptions as exc
from datetime import datetime as dt

class FakeTransport:
    def __init__(self, loop, proto): self.loop=loop; self.proto=proto; self.writes=[]; self.extra={'active_gwy':'18:111111','is_evofw3':True}
    def get_extra_info(self, k, d=None): return self.extra.get(k,d)
    async def write_frame(self, frame, disable_tx_limits=False):
        self.writes.append((self.loop.time(), frame))
    def is_closing(self): return False

async def main(loop):
    errs=[]
    loop.set_exception_handler(lambda l,c: errs.append(c))
    proto = PortProtocol(lambda m: None)
    tr = FakeTransport(loop, proto)
    proto.connection_made(tr, ramses=True)
    await asyncio.sleep(0)
    cmd = Command.get_zone_temp("01:145038","01")
    # caller timeout coincides with first echo timer: 0.5
    t0=loop.time()
    try:
        r = await proto.send_cmd(cmd, qos=QosParams(max_retries=3, timeout=0.5, wait_for_reply=False))
        print("result", r)
    except Exception as e:
        print("caller got", type(e).__name__, "at", loop.time()-t0)
    n_at_answer=len(tr.writes)
    await asyncio.sleep(5)
    print("writes", [(round(t-t0,3)) for t,f in tr.writes], "writes_when_answered", n_at_answer, "state", proto._context.state, "errs", errs)

import vloop; loop=vloop.VLoopLIFO(); asyncio.set_event_loop(loop)
loop.run_until_complete(main(loop))
