(* C17 -- Schedules survive the wire format.  Statements only.
   zlib is NOT modelled: [compress]/[decompress] are universally quantified functions with the
   round-trip law (and "compress yields bytes") as hypotheses of the theorems that need them. *)
From Coq Require Import ZArith List Bool Arith Lia PrimFloat.
From RV Require Import Py PyFloat M_Codecs P_Codecs M_Sched P_Sched.
Import ListNotations.
Open Scope Z_scope.

Theorem C17_unpack_pack : forall r, rec_ok r = true -> unpack (pack r) = Some r.
Proof. exact unpack_pack. Qed.

(* day grouping: the decoder rebuilds exactly the days that were flattened *)
Theorem C17_decode_raw_of : forall s, valid_sched s -> decode_raw (raw_of s) = Some s.
Proof. exact decode_raw_of. Qed.

(* encode -> fragments -> decode is the identity on every valid weekly schedule *)
Theorem C17_sched_roundtrip : forall compress decompress,
  (forall b, decompress (compress b) = Some b) -> (forall b, Forall (fun x => 0 <= x < 256) (compress b)) ->
  forall s, valid_sched s -> decode decompress (encode compress s) = Some s.
Proof. exact sched_roundtrip. Qed.

(* every fragment is at most 82 hex characters (41 bytes): it fits one 48-byte frame with its 7-byte header *)
Theorem C17_fragment_fits : forall blob, Forall (fun c => (length c <= 82)%nat) (fragments_of blob).
Proof. exact fragment_fits. Qed.

(* reassembly from the controller's fragments in ANY order with ANY repeats: the schedule or nothing *)
Theorem C17_reassembly_any_order : forall compress decompress,
  (forall b, decompress (compress b) = Some b) -> (forall b, Forall (fun x => 0 <= x < 256) (compress b)) ->
  forall s, valid_sched s -> forall ks ps last,
  Forall (fun k => (k < length (encode compress s))%nat) ks -> partial_of compress s ps -> (last = None \/ last = Some s) ->
  let r := snd (feed_frags decompress ps last (map (true_frag compress s) ks)) in r = None \/ r = Some s.
Proof. exact reassembly_any_order. Qed.

(* setpoints: centi-degrees <-> the float the schedule holds (all 65 536 words, PrimFloat) *)
Theorem C17_setpoint_scaling : forall w, 0 <= w < 65536 -> sched_pack_setpoint (sched_unpack_setpoint w) = Some w.
Proof. exact sched_setpoint_roundtrip. Qed.

Example C17_nonvacuous :
  valid_sched {| z_idx := 1; z_days := [(0, [(360, 2000); (1320, 1650)]); (1, [(420, 2100)]); (6, [(0, 500)])] |}.
Proof.
  split; [cbn; lia|]. split; [|vm_compute; reflexivity].
  eexists _, _. split; [reflexivity|]. split; [discriminate|]. cbn. repeat split; try lia; discriminate.
Qed.
