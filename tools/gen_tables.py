"""Tables re-read from /repo (extended per property as models need them)."""

from __future__ import annotations


def generate(write, Fail) -> None:  # noqa: N803
    pass
