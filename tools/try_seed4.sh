#!/bin/bash
# usage: tools/try_seed4.sh <PROP> [tier] -- confirm a round-4 seeded change left applied in /tmp/wt4_<PROP> (files in /tmp/mut4_<PROP>) and run our check
# against that worktree (/repo itself is untouched)
set -u
P=$1; T=${2:-quick}; R=${ROUND:-4}; W=/tmp/wt${R}_$P; M=/tmp/mut${R}_$P
git -C $W diff --stat -- src | tail -1
echo "--- demo on the unchanged tree:"; PYTHONPATH=/repo/src timeout 300 /venv/bin/python $M/demo.py > /tmp/demo_clean_$P.out 2>&1; echo "rc=$? $(tail -1 /tmp/demo_clean_$P.out)"
echo "--- demo with the change:"; PYTHONPATH=$W/src timeout 300 /venv/bin/python $M/demo.py > /tmp/demo_mut_$P.out 2>&1; echo "rc=$? $(tail -1 /tmp/demo_mut_$P.out)"
echo "--- test suite with the change:"; (cd $W && PYTHONPATH=$W/src timeout 900 /venv/bin/python -m pytest -q -p no:cacheprovider --timeout=900 2>&1 | tail -3)
echo "--- our check:"; (cd /verif && VERIF_REPO=$W VERIF_EVIDENCE_DIR=/tmp/verif_mut_evidence timeout 3000 ./check $P --tier $T 2>&1 | grep -E "^VIOLATION|rc=" | cut -c1-260)
