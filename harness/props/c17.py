"""C17 -- schedules survive the wire format: theorems + component-wise correspondence with
schedule.py (pack/unpack, day grouping, pre-compression blob, reassembly) + end-to-end oracle with real zlib."""

from __future__ import annotations

import logging
import re
import zlib

from .. import common
from ..common import Ctx

THEOREMS = ["C17_unpack_pack", "C17_decode_raw_of", "C17_sched_roundtrip", "C17_fragment_fits",
            "C17_reassembly_any_order", "C17_setpoint_scaling", "C17_nonvacuous"]

PRELUDE = ("From Coq Require Import ZArith List Bool Arith.\nFrom RV Require Import M_Sched P_Sched.\n"
           "Import ListNotations.\nOpen Scope Z_scope.\nSet Printing Width 1000000.\nSet Printing Depth 1000000.\n"
           "Definition showr (r : srec) : list Z := [s_idx r; s_dow r; s_tod r; s_val r].\n"
           "Definition shows (o : option sched) : list (list Z) := match o with None => [[-1]] | Some s =>\n"
           "  [z_idx s] :: map (fun d => fst d :: flat_map (fun p => [fst p; snd p]) (snd d)) (z_days s) end.\n"
           "Definition idc (b : list Z) : list Z := b.\nDefinition idd (b : list Z) : option (list Z) := Some b.\n")


def parse_nested(out: str):
    m = re.search(r"=\s*(\[.*\])\s*:\s*list", out, flags=re.S)
    if not m:
        raise ValueError("cannot parse: " + out[:300])
    return eval(m.group(1).replace(";", ","), {"__builtins__": {}})  # noqa: S307


def zl(xs) -> str:
    return "[" + "; ".join(str(x) for x in xs) + "]"


def gen_schedule(rng, dhw: bool, max_sp: int = 6):
    days = []
    for d in range(7):
        n = rng.choice([1, 1, 2, 3, max_sp, rng.randint(1, max_sp)])
        times = set(rng.sample(range(288), n))
        if rng.random() < 0.4:        # the ends of the day: 00:00 (the first switchpoint of Monday packs to the lowest record there is) and 23:55
            times = set(list(times)[:max(0, n - 2)]) | {0, 287} if n >= 2 else {rng.choice([0, 287])}
        times = sorted(times)
        sps = []
        for t in times:
            tod = f"{(t * 5) // 60:02d}:{(t * 5) % 60:02d}"
            if dhw:
                sps.append({"time_of_day": tod, "enabled": (rng.random() < 0.5) if t else (rng.random() < 0.25)})
            else:
                k = rng.choice([500, 3500, 869 + 1, 1983, 3329, 1999, rng.randint(500, 3500)])
                sps.append({"time_of_day": tod, "heat_setpoint": k / 100})
        days.append({"day_of_week": d, "switchpoints": sps})
    return days


def canon(full) -> list:
    """A decoded/encoded schedule as nested ints: [[idx], [dow, tod, val, tod, val...], ...]."""
    out = [[int(full["zone_idx"], 16) if full["zone_idx"] != "HW" else 0]]
    for d in full["schedule"]:
        row = [d["day_of_week"]]
        for sp in d["switchpoints"]:
            h, m = sp["time_of_day"].split(":")
            row.append(int(h) * 60 + int(m))
            row.append(int(bool(sp["enabled"])) if "enabled" in sp else int(round(sp["heat_setpoint"] * 100)))
        out.append(row)
    return out


def run(ctx: Ctx) -> None:
    logging.disable(logging.CRITICAL)
    from ramses_rf.system import schedule as S  # noqa: PLC0415
    from ramses_tx.command import Command  # noqa: PLC0415
    from ramses_tx.message import Message  # noqa: PLC0415

    rng = ctx.rng
    thorough = ctx.tier == "thorough"
    ctx.rule = ("records over the full byte / uint16 ranges; raw record lists incl. out-of-order days; weekly schedules with 1..6 "
                "switchpoints a day at any of the 288 five-minute times, setpoints anywhere on the 0.01 grid in [5, 35] (incl. the "
                "values binary floating point mis-truncates) or on/off states, zones 00-0B and DHW; fragment sets fed in random "
                "order with repeats; non-trivial = a schedule of 7 days; distinct = by schedule / record list")
    ctx.assumptions += ["zlib is not modelled: the theorems take compress/decompress as arbitrary functions satisfying decompress(compress b) = b",
                        "the 'zone has no schedule' reply (total_frags None) is not modelled (the reassembly of fetched fragments, incl. one-fragment sets, is C18's model)"]
    ctx.trusted.append("primitive binary64 operations of the Coq VM (setpoint scaling theorem)")
    built = ctx.build("C17", THEOREMS)
    files = {}

    # ---------------------------------------------------------- X1: _struct_pack / _struct_unpack
    recs = [(0, 0, 0, 0), (255, 255, 65535, 65535), (11, 6, 1435, 3500), (0, 0, 0, 1)] + [
        (rng.randrange(256), rng.randrange(256), rng.randrange(65536), rng.randrange(65536)) for _ in range(300)]
    impl_pack, impl_unpack = [], []
    for i, d, t, v in recs:
        raw = S.struct.pack("<xxxxBxxxBxxxHxxHxx", i, d, t, v)
        impl_pack.append(list(raw))
        impl_unpack.append(list(S._struct_unpack(raw)))
        ctx.case(("rec", i, d, t, v), True, "record")
    # _struct_pack proper, on validator-style inputs
    for _ in range(200):
        i, d, t = rng.randrange(12), rng.randrange(7), rng.randrange(288) * 5
        k = rng.randint(500, 3500)
        raw = S._struct_pack({"zone_idx": f"{i:02X}"}, {"day_of_week": d}, {"time_of_day": f"{t // 60:02d}:{t % 60:02d}", "heat_setpoint": k / 100})
        recs.append((i, d, t, k))
        impl_pack.append(list(raw))
        impl_unpack.append(list(S._struct_unpack(raw)))
        ctx.case(("rec", i, d, t, k), True, "record")
    rl = "[" + "; ".join(f"{{| s_idx := {i}; s_dow := {d}; s_tod := {t}; s_val := {v} |}}" for i, d, t, v in recs) + "]"
    files["x1"] = PRELUDE + f"Eval vm_compute in (map (fun r => pack r ++ match unpack (pack r) with Some q => showr q | None => [-1] end) {rl})."

    # ---------------------------------------------------------- X2: the decoder's day grouping on arbitrary record lists
    dec_cases, dec_impl = [], []
    for _ in range(400 if thorough else 120):
        n = rng.randint(1, 14)
        style = rng.random()
        rs = []
        day = 0 if style < 0.7 else rng.randrange(4)
        for _ in range(n):
            if rng.random() < 0.35:
                day = day + rng.choice([1, 1, 2]) if style < 0.85 else rng.randrange(7)
            rs.append((rng.choice([0, 1, 11]), day % 256, rng.randrange(288) * 5, rng.choice([0, 1, 500, 2000, 3500, rng.randrange(65536)])))
        raw = b"".join(S.struct.pack("<xxxxBxxxBxxxHxxHxx", *r) for r in rs)
        blob = zlib.compress(raw).hex().upper()
        frs = [blob[i:i + 82] for i in range(0, len(blob), 82)]
        try:
            dec_impl.append(canon(S.fragz_to_full_sched(frs)))
        except Exception as err:  # noqa: BLE001
            dec_impl.append([[-1]])
            ctx.dist["decode-raises:" + type(err).__name__] += 1
        ctx.case(("raw", tuple(rs)), len({r[1] for r in rs}) > 1, "record-list")
        dec_cases.append(zl(list(raw)))
    files["x2"] = PRELUDE + "Eval vm_compute in (map (fun raw => shows (decode_raw raw)) " + common.coq_list(dec_cases, ";\n ") + ")."

    # ---------------------------------------------------------- X3 + O: whole schedules
    enc_cases, enc_impl, chunk_cases = [], [], []
    nsched = 300 if thorough else 80
    # schedules whose compressed form is cut (or ends) on a byte a decoder might take for a marker: a fragment ending in FF (the "no schedule" reply
    # carries FF), in 00, in 7F -- found by search (about one schedule in a hundred each), then put through everything below like any other
    wanted_ends = {"FF": 3, "00": 2, "7F": 1}
    special = []
    for _ in range(6000):
        if not any(wanted_ends.values()):
            break
        d_hw = rng.random() < 0.2
        cand = gen_schedule(rng, d_hw)
        try:
            fz = S.full_sched_to_fragz({**dict(S.SCH_FULL_SCHEDULE({"zone_idx": "HW" if d_hw else "03", "schedule": cand})), **({"zone_idx": "00"} if d_hw else {})})
        except Exception:  # noqa: BLE001
            continue
        hit = next((e for e in wanted_ends if wanted_ends[e] and any(f.endswith(e) for f in fz)), None)
        if hit:
            wanted_ends[hit] -= 1
            special.append((d_hw, cand))
    for k in range(nsched):
        dhw = rng.random() < 0.25
        idx = "HW" if dhw else f"{rng.randrange(12):02X}"
        days = gen_schedule(rng, dhw)
        if special:
            dhw, days = special.pop()
            idx = "HW" if dhw else "03"
            ctx.dist["schedule:a-fragment-ends-in-a-marker-byte"] += 1
        outer = {"zone_idx": idx, "schedule": days}
        try:
            checked = S.SCH_FULL_SCHEDULE(outer)
        except Exception as err:  # noqa: BLE001
            ctx.dist["validator-rejects:" + type(err).__name__] += 1
            continue
        full = dict(checked)
        if dhw:
            full["zone_idx"] = "00"  # as set_schedule does before encoding
        ctx.case(("sched", idx, repr(days)), True, "schedule:" + ("dhw" if dhw else "zone"))
        frs = S.full_sched_to_fragz(full)
        case = {"zone_idx": idx, "schedule": days}
        if any(len(f) > 82 or not f for f in frs):
            ctx.violation("fragment-too-long", "a schedule fragment does not fit a single frame", {**case, "lengths": [len(f) for f in frs]})
        back = S.fragz_to_full_sched(frs)
        if back != full:
            diff = next(((a, b) for da, db in zip(back["schedule"], full["schedule"])
                         for a, b in zip(da["switchpoints"], db["switchpoints"]) if a != b), None)
            ctx.violation("schedule-roundtrip-differs", "encode -> fragments -> decode yields a different schedule", {**case, "first_difference": diff})
        # the write commands are frames the decoder accepts
        for n, f in enumerate(frs, 1):
            try:
                cmd = Command.set_schedule_fragment("01:145038", "HW" if dhw else idx, n, len(frs), f)
                msg = Message._from_cmd(cmd)
                if msg.payload.get("fragment") != f or msg.payload.get("frag_number") != n or msg.payload.get("total_frags") != len(frs):
                    ctx.violation("write-fragment-decodes-differently", "a schedule write command decodes to other values", {**case, "frag": n})
            except Exception as err:  # noqa: BLE001
                ctx.violation(f"write-fragment-rejected:{type(err).__name__}", "a schedule write command is rejected by the library's own decoder",
                              {**case, "frag": n, "error": repr(err)[:200]})
        # reassembly from reply payloads in random order with repeats
        sch = S.Schedule.__new__(S.Schedule)
        sch.idx = "HW" if dhw else idx
        sch._full_schedule = {}
        sch._payload_set = [None]
        order = list(range(len(frs))) + [rng.randrange(len(frs)) for _ in range(rng.randint(0, 4))]
        rng.shuffle(order)
        steps = []
        for n in order:
            sch._payload_set = sch._update_payload_set(sch._payload_set, {"frag_number": n + 1, "total_frags": len(frs), "fragment": frs[n]})
            got = sch._full_schedule.get("schedule") if sch._full_schedule else None
            steps.append([1 if x is not None else 0 for x in sch._payload_set] + [2 if got is not None else 3])
            if got is not None and got != days:
                ctx.violation("reassembly-yields-other-schedule", "fragments received out of order / repeated reassemble to a different schedule",
                              {**case, "order": order})
        if (sch._full_schedule.get("schedule") if sch._full_schedule else None) != days:
            ctx.violation("reassembly-incomplete", "all fragments were received but no schedule resulted", {**case, "order": order})
        # what was decoded / reassembled belongs to whoever asked: after the reassembly above (which marks a hot-water schedule in place) and after an
        # application has edited the schedule it was handed, decoding the SAME fragments again -- directly, and in a fresh object -- gives the
        # schedule the fragments encode
        import copy  # noqa: PLC0415
        want = copy.deepcopy(full)
        for victim in (back, sch._full_schedule):
            try:
                if victim and victim.get("schedule"):
                    victim["schedule"][0]["switchpoints"] = []
                    victim["zone_idx"] = "0F"
            except Exception:  # noqa: BLE001
                pass
        again = S.fragz_to_full_sched(frs)
        if again != want:
            ctx.violation("decode-depends-on-earlier-results", "decoding the same fragments again, after an earlier result was edited in place (by the reassembly itself or by its "
                          "caller), yields a schedule other than the one the fragments encode", {**case, "decoded": str(again)[:300]})
        sch_b = S.Schedule.__new__(S.Schedule)
        sch_b.idx = "HW" if dhw else idx
        sch_b._full_schedule = {}
        sch_b._payload_set = [None]
        for n in range(len(frs)):
            sch_b._payload_set = sch_b._update_payload_set(sch_b._payload_set, {"frag_number": n + 1, "total_frags": len(frs), "fragment": frs[n]})
        if (sch_b._full_schedule.get("schedule") if sch_b._full_schedule else None) != days:
            ctx.violation("reassembly-depends-on-earlier-results", "a fresh object reassembling the same fragments, after an earlier result was edited in place, does not "
                          "report the schedule the fragments encode", {**case})
        sch._full_schedule = {}
        sch._payload_set = [None]
        for n in range(len(frs)):       # the first object again holds the schedule (the next step starts from there)
            sch._payload_set = sch._update_payload_set(sch._payload_set, {"frag_number": n + 1, "total_frags": len(frs), "fragment": frs[n]})
        # ... and the SAME object then receives the packets of a changed schedule (any order, repeats): once all have arrived it holds the new one
        days2 = gen_schedule(rng, dhw)
        try:
            full2 = dict(S.SCH_FULL_SCHEDULE({"zone_idx": idx, "schedule": days2}))
        except Exception:  # noqa: BLE001
            full2 = None
        if full2 is not None and days2 != days:
            if dhw:
                full2["zone_idx"] = "00"
            frs2 = S.full_sched_to_fragz(full2)
            order2 = list(range(len(frs2))) + [rng.randrange(len(frs2)) for _ in range(rng.randint(0, 3))]
            rng.shuffle(order2)
            ctx.case(("resched", idx, repr(days2), tuple(order2)), True, "reassembly-after-a-previous-schedule")
            for n in order2:
                sch._payload_set = sch._update_payload_set(sch._payload_set, {"frag_number": n + 1, "total_frags": len(frs2), "fragment": frs2[n]})
            got = sch._full_schedule.get("schedule") if sch._full_schedule else None
            if got != days2:
                sig = "reassembly-keeps-the-previous-schedule" if got == days else "reassembly-yields-other-schedule:after-a-previous-schedule" if got is not None else "reassembly-incomplete:after-a-previous-schedule"
                ctx.violation(sig, "every packet of the changed schedule was received (after the previous one had been reassembled) but the object does not hold the new schedule",
                              {"zone_idx": idx, "previous": days, "schedule": days2, "fragments_before": len(frs), "fragments_now": len(frs2), "order": order2})
        # model: pre-compression blob + reassembly pattern (with identity 'compression')
        raw = zlib.decompress(bytes.fromhex("".join(frs)))
        enc_impl.append([list(raw)])
        chunk_cases.append((len("".join(frs)), [len(f) for f in frs]))
        sterm = (f"{{| z_idx := {int(full['zone_idx'], 16)}; z_days := [" + "; ".join(
            "(" + str(r[0]) + ", [" + "; ".join(f"({r[i]}, {r[i + 1]})" for i in range(1, len(r), 2)) + "])" for r in canon(full)[1:]) + "] |}")
        enc_cases.append(sterm)
    files["x5"] = (PRELUDE + "Eval vm_compute in (map (fun n => map (fun c => Z.of_nat (length c)) (fragments_of (repeat 0 n))) "
                   + "[" + "; ".join(f"{n}%nat" for n, _ in chunk_cases) + "]).")
    files["x3"] = PRELUDE + "Eval vm_compute in (map (fun s => [raw_of s]) " + common.coq_list(enc_cases, ";\n ") + ")."

    # ---------------------------------------------------------- X4: reassembly bookkeeping vs model
    # (zlib replaced by the identity on BOTH sides for this comparison only)
    ra_cases, ra_impl = [], []
    real = S.zlib.decompress
    S.zlib.decompress = lambda b: bytes(b)
    try:
        for _ in range(120 if thorough else 40):
            days = gen_schedule(rng, False, 3)
            full = {"zone_idx": "01", "schedule": days}
            s_c = canon(full)
            sterm = ("{| z_idx := 1; z_days := [" + "; ".join(
                "(" + str(r[0]) + ", [" + "; ".join(f"({r[i]}, {r[i + 1]})" for i in range(1, len(r), 2)) + "])" for r in s_c[1:]) + "] |}")
            raw = b"".join(S._struct_pack(full, d, sp) for d in days for sp in d["switchpoints"])
            hexblob = raw.hex().upper()
            frs = [hexblob[i:i + 82] for i in range(0, len(hexblob), 82)]
            order = [rng.randrange(len(frs)) for _ in range(rng.randint(1, 2 * len(frs) + 2))]
            if rng.random() < 0.6:
                order += list(range(len(frs)))
            sch = S.Schedule.__new__(S.Schedule)
            sch.idx = "01"
            sch._full_schedule = {}
            sch._payload_set = [None]
            pat = []
            for n in order:
                sch._payload_set = sch._update_payload_set(sch._payload_set, {"frag_number": n + 1, "total_frags": len(frs), "fragment": frs[n]})
                pat.append([1 if x is not None else 0 for x in sch._payload_set] + [2 if sch._full_schedule else 3])
            ra_impl.append(pat)
            ctx.case(("reasm", tuple(order), len(frs)), True, "reassembly")
            ra_cases.append((sterm, order))
    finally:
        S.zlib.decompress = real
    files["x4"] = PRELUDE + (
        "Definition pat (ps : pset) (r : option sched) : list Z := map (fun o => match o with Some _ => 1 | None => 0 end) ps ++ [match r with Some _ => 2 | None => 3 end].\n"
        "Fixpoint trace (ps : pset) (last : option sched) (fs : list frag) : list (list Z) := match fs with [] => [] | f :: t =>\n"
        "  let '(ps', r) := update_set idd ps f in let last' := match r with Some s => Some s | None => last end in pat ps' last' :: trace ps' last' t end.\n"
        "Eval vm_compute in (map (fun x : sched * list nat => trace [None] None (map (true_frag idc (fst x)) (snd x))) "
        + common.coq_list([f"({st}, {zl(o)}%nat)" for st, o in ra_cases], ";\n ") + ").")

    if built:
        res = common.coq_eval("C17", files, timeout=600)
        # x1
        rc, out = res["x1"]
        if rc:
            ctx.obligation("correspondence:struct-pack-unpack", False, "correspondence", out[-400:])
        else:
            m = parse_nested(out)
            exp = [a + b for a, b in zip(impl_pack, impl_unpack)]
            bad = [i for i, (x, y) in enumerate(zip(m, exp)) if list(x) != list(y)]
            ctx.obligation("correspondence:struct-pack-unpack", not bad and len(m) == len(exp), "correspondence",
                           f"{len(bad)} differ; first record {recs[bad[0]]}: model {m[bad[0]]} implementation {exp[bad[0]]}" if bad else "")
        rc, out = res["x2"]
        if rc:
            ctx.obligation("correspondence:day-grouping", False, "correspondence", out[-400:])
        else:
            m = parse_nested(out)
            bad = [i for i, (x, y) in enumerate(zip(m, dec_impl)) if [list(r) for r in x] != y]
            ctx.obligation("correspondence:day-grouping", not bad and len(m) == len(dec_impl), "correspondence",
                           f"{len(bad)} differ; first: model {m[bad[0]]} implementation {dec_impl[bad[0]]}" if bad else "")
        rc, out = res["x3"]
        if rc:
            ctx.obligation("correspondence:pre-compression-blob", False, "correspondence", out[-400:])
        else:
            m = parse_nested(out)
            bad = [i for i, (x, y) in enumerate(zip(m, enc_impl)) if [list(r) for r in x] != y]
            ctx.obligation("correspondence:pre-compression-blob", not bad and len(m) == len(enc_impl), "correspondence",
                           f"{len(bad)} differ; first schedule {enc_cases[bad[0]][:300]}" if bad else "")
        rc, out = res["x5"]
        if rc:
            ctx.obligation("correspondence:fragment-chunking", False, "correspondence", out[-400:])
        else:
            m = parse_nested(out)
            bad = [i for i, (x, y) in enumerate(zip(m, chunk_cases)) if list(x) != y[1]]
            ctx.obligation("correspondence:fragment-chunking", not bad and len(m) == len(chunk_cases), "correspondence",
                           f"{len(bad)} differ; first: blob of {chunk_cases[bad[0]][0]} hex chars: model {m[bad[0]]} implementation {chunk_cases[bad[0]][1]}" if bad else "")
        rc, out = res["x4"]
        if rc:
            ctx.obligation("correspondence:reassembly-bookkeeping", False, "correspondence", out[-400:])
        else:
            m = parse_nested(out)
            bad = [i for i, (x, y) in enumerate(zip(m, ra_impl)) if [list(r) for r in x] != y]
            ctx.obligation("correspondence:reassembly-bookkeeping", not bad and len(m) == len(ra_impl), "correspondence",
                           f"{len(bad)} differ; first: order {ra_cases[bad[0]][1]} model {m[bad[0]]} implementation {ra_impl[bad[0]]}" if bad else "")
    else:
        for n in ("struct-pack-unpack", "day-grouping", "pre-compression-blob", "fragment-chunking", "reassembly-bookkeeping"):
            ctx.obligation(f"correspondence:{n}", False, "correspondence", "model not built")


def replay(case: dict) -> int:
    print(case.get("signature"), case.get("case"))
    return 0
