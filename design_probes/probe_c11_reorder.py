import asyncio, logging, sys, time
sys.path.insert(0, __import__('os').path.dirname(__file__))
logging.disable(logging.CRITICAL)
from vloop import VLoop
loop=VLoop(); asyncio.set_event_loop(loop)
time.perf_counter = lambda: loop.time()      # before importing transport
import ramses_tx.transport as tr
from collections import deque
tr.perf_counter = lambda: loop.time()
class T(tr.PortTransport):
    def __init__(self):
        self._loop=loop; self._leaker_sem=asyncio.BoundedSemaphore(); self._disable_sending=False; self._closing=False
        self._transmit_times=deque(maxlen=99); self._outbound_rule={}; self._inbound_rule={}; self.out=[]
        self._leaker_task=loop.create_task(self._leak_sem())
    def _write(self, data): self.out.append((round(loop.time(),3), data))
def frame(n, tag): return f"RQ --- 18:000730 01:145038 --:------ {tag} {n:03d} " + "00"*n
async def main():
    t=T()
    # drain the bucket: 23040 bits; each 48-byte frame = 330+960=1290 bits -> 17 frames
    for i in range(18): await t.write_frame(frame(48,"AAAA"))
    n0=len(t.out); print("drained at", loop.time(), "writes", n0)
    a=asyncio.create_task(t.write_frame(frame(48,"BBBB")))   # big: must sleep
    await asyncio.sleep(1.0)
    b=asyncio.create_task(t.write_frame(frame(1,"CCCC")))    # small, arrives later
    await asyncio.gather(a,b)
    print([ (x[0], x[1][37:41]) for x in t.out[n0:]])
    t._leaker_task.cancel()
loop.run_until_complete(main())
