"""Deterministic virtual-time asyncio loop: CPython's own _run_once with a selector that
advances a virtual clock instead of blocking.  Tie policy among equal deadlines: fifo / lifo."""

from __future__ import annotations

import asyncio
import math
import selectors


class _NullSelector(selectors.BaseSelector):
    def __init__(self, loop):
        self._loop = loop
        self._map = {}
        self.idle_spins = 0

    def register(self, fileobj, events, data=None):
        fd = fileobj if isinstance(fileobj, int) else fileobj.fileno()
        k = selectors.SelectorKey(fileobj, fd, events, data)
        self._map[fd] = k
        return k

    def unregister(self, fileobj):
        fd = fileobj if isinstance(fileobj, int) else fileobj.fileno()
        return self._map.pop(fd)

    def select(self, timeout=None):
        if timeout is None:
            raise RuntimeError("virtual loop deadlock: no timers and nothing ready")
        if timeout > 0:
            # advance, then snap to the 2^-20 s grid (timer deadlines carry a tiny tie-breaking offset)
            x = (self._loop._vtime + timeout) * 1048576.0
            # ceil mode: a timer never fires before its deadline (the 1e-3 tick allowance absorbs the tie-breaking offsets)
            self._loop._vtime = (math.ceil(x - 1e-3) if self._loop._ceil else round(x)) / 1048576.0
            self.idle_spins = 0
        else:
            self.idle_spins += 1
            if self.idle_spins > 2_000_000:
                raise RuntimeError("virtual loop is spinning without advancing time")
        return []

    def get_map(self):
        return self._map

    def close(self):
        pass


class VLoop(asyncio.SelectorEventLoop):
    """fifo ties (heap order of (when, insertion)); lifo=True: later-scheduled timers of equal deadline fire first."""

    def __init__(self, lifo: bool = False, ceil: bool = False):
        self._vtime = 0.0
        self._lifo = lifo
        self._ceil = ceil
        self._n = 0
        super().__init__(selector=_NullSelector(self))
        self._clock_resolution = 1e-6   # > half a grid step (2^-21 s): a deadline snapped downwards is still due

    def time(self):
        return self._vtime

    def call_at(self, when, callback, *args, context=None):
        # equal deadlines: force first-scheduled-first (fifo) or last-scheduled-first (lifo)
        self._n += 1
        off = self._n * 2.0**-44
        return super().call_at(when - off if self._lifo else when + off, callback, *args, context=context)
