(* P_ModeDecode -- value ranges of the modelled decoders (parser_2349, parser_000a): every temperature they return for a payload of
   upper-case hex digits (what the frame regex admits) lies within the physical wire range. *)
From Coq Require Import ZArith String Ascii List Bool Lia PrimFloat.
From RV Require Import Py PyStr PyFloat M_Codecs M_Payload M_ModeCmd P_Codecs P_Payload.
Import ListNotations.
Open Scope Z_scope.

Lemma forallb_firstn {A} (f : A -> bool) n l : forallb f l = true -> forallb f (firstn n l) = true.
Proof.
  revert l; induction n as [|n IH]; intros [|x l] H; cbn; try reflexivity.
  cbn in H. apply andb_prop in H as [H1 H2]. rewrite H1. exact (IH l H2).
Qed.
Lemma forallb_skipn {A} (f : A -> bool) n l : forallb f l = true -> forallb f (skipn n l) = true.
Proof.
  revert l; induction n as [|n IH]; intros [|x l] H; cbn; try reflexivity; try exact H.
  cbn in H. apply andb_prop in H as [_ H2]. exact (IH l H2).
Qed.
Lemma slice_hex a b p : forallb is_hex_upper p = true -> forallb is_hex_upper (slice a b p) = true.
Proof. intro H. unfold slice. apply forallb_firstn, forallb_skipn, H. Qed.
Lemma slice_len a b (p : str) : (List.length (slice a b p) <= b - a)%nat.
Proof. unfold slice. apply firstn_le_length. Qed.

Lemma temp_s_range s t : forallb is_hex_upper s = true -> (List.length s <= 4)%nat -> hex_to_temp_s s = Ok (TNum t) -> temp_in_range t = true.
Proof.
  intros Hs Hl H. unfold hex_to_temp_s in H. destruct (int16 s) as [w|] eqn:E; [|discriminate].
  destruct (hexN_int16 s w Hs E) as [_ B]. apply (temp_range w t); [|exact H].
  split; [lia|]. apply Z.lt_le_trans with (16 ^ Z.of_nat (List.length s)); [lia|].
  change 65536 with (16 ^ 4). apply Z.pow_le_mono_r; lia.
Qed.

Lemma parser_2349_setpoint p z : parser_2349 p = Ok z -> hex_to_temp_s (slice 2 6 p) = Ok (zm_setpoint z).
Proof.
  unfold parser_2349, parser_2349_fields. intros H.
  destruct (negb _); [discriminate|]. destruct (mode_of _) as [m|]; [|discriminate].
  destruct (hex_to_temp_s (slice 2 6 p)) as [t|e]; cbn [bind] in H; [|discriminate].
  match type of H with bind ?x _ = _ => destruct x as [d|]; cbn [bind] in H; [|discriminate] end.
  match type of H with bind ?x _ = _ => destruct x as [u|]; cbn [bind] in H; [|discriminate] end.
  injection H as <-. reflexivity.
Qed.

Theorem zone_mode_setpoint_in_range p z t : forallb is_hex_upper p = true -> parser_2349 p = Ok z -> zm_setpoint z = TNum t -> temp_in_range t = true.
Proof.
  intros Hp H Ht. apply parser_2349_setpoint in H. rewrite Ht in H.
  apply (temp_s_range (slice 2 6 p) t (slice_hex 2 6 p Hp)); [|exact H]. pose proof (slice_len 2 6 p). lia.
Qed.

Lemma parser_000a_temps p z : parser_000a p = Ok z -> hex_to_temp_s (slice 4 8 p) = Ok (zc_min z) /\ hex_to_temp_s (slice 8 12 p) = Ok (zc_max z).
Proof.
  unfold parser_000a. intros H. destruct (negb _); [discriminate|]. destruct (int16 (slice 2 4 p)) as [b|]; [|discriminate].
  destruct (hex_to_temp_s (slice 4 8 p)) as [a|]; cbn [bind] in H; [|discriminate].
  destruct (hex_to_temp_s (slice 8 12 p)) as [c|]; cbn [bind] in H; [|discriminate].
  injection H as <-. split; reflexivity.
Qed.

Theorem zone_config_temps_in_range p z : forallb is_hex_upper p = true -> parser_000a p = Ok z ->
  (forall t, zc_min z = TNum t -> temp_in_range t = true) /\ (forall t, zc_max z = TNum t -> temp_in_range t = true).
Proof.
  intros Hp H. destruct (parser_000a_temps p z H) as [A B]. split; intros t Ht.
  - rewrite Ht in A. apply (temp_s_range (slice 4 8 p) t (slice_hex 4 8 p Hp)); [|exact A]. pose proof (slice_len 4 8 p). lia.
  - rewrite Ht in B. apply (temp_s_range (slice 8 12 p) t (slice_hex 8 12 p Hp)); [|exact B]. pose proof (slice_len 8 12 p). lia.
Qed.

(* the zone a 2349 / 000A element is filed under is the first byte of the frame's payload, whatever the rest decodes to: the decoders
   never look at it (their result does not depend on it) *)
Theorem zone_mode_ignores_idx x y r : List.length x = 2%nat -> List.length y = 2%nat -> parser_2349 (x ++ r) = parser_2349 (y ++ r).
Proof.
  intros Lx Ly. unfold parser_2349. rewrite !app_length, Lx, Ly.
  rewrite !(slice_app_right _ _ x r) by lia. rewrite !(slice_app_right _ _ y r) by lia. rewrite Lx, Ly. reflexivity.
Qed.
