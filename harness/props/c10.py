"""C10 -- device filters: theorems + correspondence with the real protocols / gateway."""

from __future__ import annotations

import asyncio
import io
import itertools
import logging
import re

from .. import common
from ..common import Ctx

THEOREMS = [
    "C10_blocked_never_passes", "C10_unlisted_dropped", "C10_allowed_always_passes", "C10_wanted_iff",
    "C10_active_gateway_never_blocked", "C10_enforce_needs_known_list", "C10_no_device_for_blocked",
    "C10_no_device_for_unlisted", "C10_allowed_after_any_history_partial", "C10_hardcoded_unwanted_refuted",
    "C10_nonvacuous",
]

IDS = ["01:000001", "04:000002", "13:000003", "18:111111", "18:222222", "18:000730",
       "63:262142", "--:------", "32:000004", "10:000005"]
LISTABLE = [i for i in IDS if i not in ("63:262142", "--:------")]

PRELUDE = ("From Coq Require Import ZArith List Bool.\nFrom RV Require Import Py M_Filter.\n"
           "Import ListNotations.\nOpen Scope Z_scope.\nSet Printing Width 1000000.\nSet Printing Depth 1000000.\n")


def zid(i: str | None) -> str:
    if i is None:
        return "None"
    if i == "--:------":
        return "(-1)"
    return str(int(i[:2]) * 10**6 + int(i[3:]))


def zlist(ids) -> str:
    return "[" + "; ".join(zid(i) for i in ids) + "]"


def bits(bs) -> int:
    acc = 1
    for b in bs:
        acc = 2 * acc + (1 if b else 0)
    return acc


def gen_cfg(rng):
    known = {i: {} for i in rng.sample(LISTABLE, rng.randint(0, 5))}
    if rng.random() < 0.4:
        for k in known:
            if k[:2] == "18" and rng.random() < 0.7:
                known[k] = {"class": "HGI"}
    block = {i: {} for i in rng.sample(LISTABLE, rng.randint(0, 3))}  # may overlap known
    if rng.random() < 0.15:      # whatever block list is configured: the schema admits the all-devices address too (it matches the device-id pattern)
        block["63:262142"] = {}
    if rng.random() < 0.08:
        known["63:262142"] = {}
    enforce_cfg = rng.random() < 0.6
    active = rng.choice([None, "18:111111", "18:222222", "18:000730", "01:000001"])
    return known, block, enforce_cfg, active


def reference(known, block, enforce, eff_active, src, dst, sending) -> bool:
    """The property's own statement, evaluated from the configuration (the oracle)."""
    ids = {src, dst}
    if any(i in block for i in ids):
        return False
    if not enforce:
        return True

    def allowed(i):
        return (i in known or i == eff_active or i in ("63:262142", "--:------")
                or (sending and i == "18:000730"))

    return all(allowed(i) for i in ids)


async def _run(ctx: Ctx, built: bool) -> None:
    from ramses_tx.typing import QosParams  # noqa: PLC0415
    from ramses_rf import Gateway  # noqa: PLC0415
    from ramses_tx import exceptions as exc  # noqa: PLC0415
    from ramses_tx.command import Command  # noqa: PLC0415
    from ramses_tx.packet import Packet  # noqa: PLC0415
    from ramses_tx.protocol import PortProtocol, ReadProtocol  # noqa: PLC0415
    from ramses_tx.schemas import select_device_filter_mode  # noqa: PLC0415
    from datetime import datetime as dt  # noqa: PLC0415

    rng = ctx.rng
    thorough = ctx.tier == "thorough"
    ncfg = 3000 if thorough else 500

    # ---------------- X1/O1: the filter function on real protocol objects, all id pairs
    coq_cfgs, impl_tables = [], []
    for n in range(ncfg):
        known, block, enforce_cfg, active = gen_cfg(rng)
        enforce = select_device_filter_mode(enforce_cfg, known, block)
        cls = PortProtocol if n % 2 else ReadProtocol
        p = cls(lambda m: None, enforce_include_list=enforce, exclude_list=block, include_list=known)
        if active:
            p._set_active_hgi(active)
        eff_active = active if active and active not in block else None
        if p._active_hgi != eff_active:
            ctx.violation("active-hgi-blocked", "a block-listed id became the active gateway",
                          {"block": list(block), "active": active})
        res = []
        for src, dst in itertools.product(IDS, IDS):
            for sending in (False, True):
                got = p._is_wanted_addrs(src, dst, sending=sending)
                res.append(got)
                exp = reference(known, block, enforce, eff_active, src, dst, sending)
                nontriv = (src in block or dst in block or enforce)
                ctx.case((tuple(known), tuple(block), enforce, active, src, dst, sending), nontriv,
                         "blocked" if (src in block or dst in block) else ("enforced" if enforce else "open"))
                if got != exp:
                    case = {"known_list": list(known), "block_list": list(block), "enforce": enforce,
                            "active_gateway": active, "src": src, "dst": dst, "sending": sending,
                            "delivered": got, "property_says": exp}
                    if exp is False:
                        sig = "filter-unsound:" + ("blocked-passes" if (src in block or dst in block) else "unlisted-passes")
                        what = "a packet with a blocked/unlisted address passes the filter"
                    else:
                        sig = "filter-overblocks"
                        what = "a packet all of whose addresses are allowed is dropped"
                    ctx.violation(sig, what, case)
        impl_tables.append(bits(res))
        sel = "true" if enforce_cfg else "false"
        coq_cfgs.append(
            f"(set_active' {{| f_exclude := {zlist(block)}; f_include := {zlist(known)}; "
            f"f_enforce := select_mode {sel} {zlist(known)}; f_active := None |}} {('(Some ' + zid(active) + ')') if active else 'None'})")
    files = {}
    shard = 125
    for k in range(0, ncfg, shard):
        body = (PRELUDE + "Definition set_active' c (a : option Z) := match a with Some d => set_active c d | None => c end.\n"
                f"Definition ids := {zlist(IDS)}.\n"
                "Eval vm_compute in (map (fun c => wanted_table c ids) " + common.coq_list(coq_cfgs[k:k + shard], ";\n ") + ").")
        files[f"x1_{k // shard}"] = body

    # ---------------- X2: glue -- histories on ONE protocol instance: packets before the gateway id is known,
    # connection_made(), then the same and other packets again; pkt_received -> msg_handler ; send_cmd -> radio
    glue_cases, glue_impl = [], []
    loop = asyncio.get_running_loop()

    class Tr:
        def __init__(self, gw):
            self.gw = gw

        def get_extra_info(self, k, d=None):
            return {"active_gwy": self.gw, "is_evofw3": True}.get(k, d)

        def is_closing(self):
            return False

    for n in range(300 if thorough else 80):
        known, block, enforce_cfg, active = gen_cfg(rng)
        enforce = select_device_filter_mode(enforce_cfg, known, block)
        got_msgs: list = []
        pp = PortProtocol(got_msgs.append, enforce_include_list=enforce, exclude_list=block, include_list=known)
        reached: list = []

        async def fake_send(cmd, *a, reached=reached, **k):
            reached.append(cmd)
            return cmd

        pp._send_cmd = fake_send  # the path to the transport
        pp._pause_writing = False
        res = []
        base_pairs = [rng.sample([i for i in IDS if i != "--:------"], 2) for _ in range(6)]
        if active:
            base_pairs.append([active, "63:262142"])   # e.g. the signature echo
            base_pairs.append([active, rng.choice(LISTABLE)])
        coq_steps = []
        for phase in (0, 1):
            if phase == 1 and active:
                pp.connection_made(Tr(active), ramses=True)   # the real path to _set_active_hgi
                await asyncio.sleep(0)
            eff_active = active if (phase == 1 and active and active not in block) else None
            pairs = base_pairs + ([rng.sample(LISTABLE, 2) for _ in range(3)] if phase else [])
            for src, dst in pairs:
                if src == dst or dst == "--:------":
                    continue
                frame = f" I --- {src} {dst} --:------ 0008 002 00C8"
                try:
                    pkt = Packet(dt.now(), "000 " + frame)
                except Exception:  # noqa: BLE001
                    continue
                before = len(got_msgs)
                pp.pkt_received(pkt)
                for _ in range(3):
                    await asyncio.sleep(0)
                delivered = len(got_msgs) > before
                res.append(delivered)
                exp = reference(known, block, enforce, eff_active, src, dst, False)
                ctx.case(("glue-rx", tuple(known), tuple(block), enforce, active, phase, src, dst), True, "glue-receive")
                if delivered != exp:
                    ctx.violation("receive-path:" + ("unsound" if not exp else "overblocks"),
                                  "pkt_received delivers/drops against the configured lists (history on one protocol instance)",
                                  {"known_list": list(known), "block_list": list(block), "enforce": enforce,
                                   "active_gateway": active, "gateway_known_yet": bool(phase), "frame": frame, "delivered": delivered,
                                   "packets_before": [list(x) for x in base_pairs] if phase else []})
                coq_steps.append((phase, src, dst, False))
                if dst == "63:262142":
                    continue
                cmd = Command(f"RQ --- {src} {dst} --:------ 0008 001 00")
                n0 = len(reached)
                try:
                    await pp.send_cmd(cmd)
                    outcome = any(c is cmd for c in reached[n0:])
                except exc.ProtocolError:
                    outcome = any(c is cmd for c in reached[n0:])
                res.append(outcome)
                exp = reference(known, block, enforce, eff_active, src, dst, True)
                ctx.case(("glue-tx", tuple(known), tuple(block), enforce, active, phase, src, dst), True, "glue-send")
                if outcome != exp:
                    ctx.violation("send-path:" + ("unsound" if not exp else "overblocks"),
                                  "send_cmd reaches/refuses the radio against the configured lists",
                                  {"known_list": list(known), "block_list": list(block), "enforce": enforce,
                                   "active_gateway": active, "gateway_known_yet": bool(phase), "cmd": str(cmd), "reached_radio": outcome})
                coq_steps.append((phase, src, dst, True))
        glue_impl.append(bits(res))
        sel = "true" if enforce_cfg else "false"
        cfg0 = (f"{{| f_exclude := {zlist(block)}; f_include := {zlist(known)}; "
                f"f_enforce := select_mode {sel} {zlist(known)}; f_active := None |}}")
        act = ('(Some ' + zid(active) + ')') if active else 'None'
        glue_cases.append(f"({cfg0}, {act}, [" + "; ".join(
            f"({'true' if ph else 'false'}, {zid(a)}, {zid(b)}, {'true' if sd else 'false'})" for ph, a, b, sd in coq_steps) + "])")
    files["x2_glue"] = (PRELUDE + "Definition set_active' c (a : option Z) := match a with Some d => set_active c d | None => c end.\n"
                        "Eval vm_compute in (map (fun x : fcfg * option Z * list (bool * Z * Z * bool) => match x with (c, a, steps) => "
                        "bits_of (map (fun st : bool * Z * Z * bool => match st with (ph, s, d, sending) => "
                        "wanted (if ph then set_active' c a else c) sending s d end) steps) end) "
                        + common.coq_list(glue_cases, ";\n ") + ").")

    # ---------------- O2b: the same filter while a command is IN FLIGHT (the real send path, a transport that echoes nothing): a packet that carries
    #                  the very header of the command being sent -- an RQ's header names the destination, not the sender -- is still filtered by the
    #                  lists of the configuration, whoever it comes from
    for n in range(120 if thorough else 40):
        known, block, enforce_cfg, active = gen_cfg(rng)
        enforce = select_device_filter_mode(enforce_cfg, known, block)
        got_msgs = []
        pp = PortProtocol(got_msgs.append, disable_qos=False, enforce_include_list=enforce, exclude_list=block, include_list=known)

        class Silent(Tr):
            async def write_frame(self, frame, disable_tx_limits=False):
                return None

        pp.connection_made(Silent(active), ramses=True)
        await asyncio.sleep(0)
        eff_active = active if (active and active not in block) else None
        dst = rng.choice([d for d in LISTABLE if d[:2] == "01"] or LISTABLE)
        cmd = Command(f"RQ --- 18:000730 {dst} --:------ 1F09 001 00")
        task = asyncio.ensure_future(pp.send_cmd(cmd, qos=QosParams(max_retries=0, timeout=3)))
        for _ in range(4):
            await asyncio.sleep(0)
        in_flight = pp._context._cmd is cmd
        for src in rng.sample([i for i in IDS if i not in ("--:------", "63:262142") and i != dst], 5):
            frame = f"RQ --- {src} {dst} --:------ 1F09 001 00"
            try:
                pkt = Packet(dt.now(), "045 " + frame)
            except Exception:  # noqa: BLE001
                continue
            before = len(got_msgs)
            pp.pkt_received(pkt)
            for _ in range(3):
                await asyncio.sleep(0)
            delivered = len(got_msgs) > before
            exp = reference(known, block, enforce, eff_active, src, dst, False)
            ctx.case(("glue-rx-in-flight", tuple(known), tuple(block), enforce, active, src, dst, in_flight), in_flight, "glue-receive:command-in-flight")
            if delivered != exp:
                ctx.violation("receive-path:" + ("unsound" if not exp else "overblocks") + (":while-a-command-with-that-header-is-in-flight" if in_flight else ""),
                              "pkt_received delivers/drops against the configured lists while a command with the packet's own header is being sent",
                              {"known_list": list(known), "block_list": list(block), "enforce": enforce, "active_gateway": active, "command_in_flight": str(cmd) if in_flight else None,
                               "frame": frame, "delivered": delivered})
                break
        task.cancel()
        try:
            await task
        except BaseException:  # noqa: BLE001, S110
            pass
        try:
            pp.connection_lost(None)
        except AssertionError:
            pass
    # ---------------- X3/O3: gateway stage -- get_device over look-up histories
    gw_cases, gw_impl = [], []
    for n in range(120 if thorough else 40):
        known, block, enforce_cfg, _ = gen_cfg(rng)
        known = {k: v for k, v in known.items() if k not in block} if rng.random() < 0.5 else known
        f = io.TextIOWrapper(io.BytesIO(b""))
        try:
            gwy = Gateway(None, input_file=f, known_list=known, block_list=block,
                          config={"enforce_known_list": enforce_cfg})
        except Exception as err:  # noqa: BLE001  (configuration refused by the schema: not a case)
            ctx.dist["gateway-config-refused:" + type(err).__name__] += 1
            continue
        await gwy.start()
        enforce = gwy._enforce_known_list
        proto_hgi = gwy._protocol.hgi_id
        hgi = getattr(gwy.hgi, "id", None)
        devs = [rng.choice(LISTABLE) for _ in range(14)]
        res = []
        for d in devs:
            try:
                dev = gwy.get_device(d)
                ok = dev is not None and dev.id == d
            except LookupError:
                ok = False
            res.append(ok)
            ctx.case(("gw", tuple(known), tuple(block), enforce, d), True, "gateway-lookup")
            allowed = d not in block and (not enforce or d in known or d == hgi)
            if ok and not allowed and d != proto_hgi:
                ctx.violation("gateway-device-for-filtered-id", "get_device created a device for a blocked/unlisted id",
                              {"known_list": list(known), "block_list": list(block), "enforce": enforce, "device": d})
            if not ok and allowed:
                ctx.violation("gateway-refuses-allowed-id" + (":01:000001-hardcoded-unwanted" if d == "01:000001" else ""),
                              "get_device refused an allowed id",
                              {"known_list": list(known), "block_list": list(block), "enforce": enforce, "device": d,
                               "history": devs})
        blocked_present = [d.id for d in gwy.devices if d.id in block and d.id != proto_hgi]
        if blocked_present:
            ctx.violation("gateway-holds-blocked-device", "gwy.devices contains a block-listed id",
                          {"block_list": list(block), "present": blocked_present})
        await gwy.stop()
        gw_impl.append(bits(res))
        gw_cases.append(
            f"({{| g_exclude := {zlist(block)}; g_include := {zlist(known)}; g_enforce := {str(bool(enforce)).lower()}; "
            f"g_hgi := {('Some ' + zid(hgi)) if hgi else 'None'} |}}, {('Some ' + zid(proto_hgi)) if proto_hgi else 'None'}, {zlist(devs)})")
    files["x3_gateway"] = (PRELUDE + "Eval vm_compute in (map (fun x : gcfg * option Z * list Z => match x with (g, h, devs) => lookup_trace g h devs end) "
                           + common.coq_list(gw_cases, ";\n ") + ").")

    # ---------------- O4: end to end -- a packet file through a gateway with lists
    for n in range(40 if thorough else 12):
        known, block, enforce_cfg, _ = gen_cfg(rng)
        lines, pairs = [], []
        for k in range(30):
            src, dst = rng.sample(LISTABLE, 2)
            pairs.append((src, dst))
            lines.append(f"2026-01-01T12:00:{k:02d}.000000 045  I --- {src} {dst} --:------ 0008 002 00C8")
        f = io.TextIOWrapper(io.BytesIO(("\n".join(lines) + "\n").encode()))
        try:
            gwy = Gateway(None, input_file=f, known_list=known, block_list=block,
                          config={"enforce_known_list": enforce_cfg})
        except Exception:  # noqa: BLE001
            continue
        seen: list = []
        await gwy.start()
        gwy._protocol.add_handler(seen.append)
        for _ in range(5):
            await asyncio.sleep(0.01)
        enforce = gwy._enforce_known_list
        present = {d.id for d in gwy.devices}
        ctx.case(("e2e", tuple(known), tuple(block), enforce), True, "gateway-end-to-end")
        bad = [d for d in present if d in block]
        if bad:
            ctx.violation("gateway-holds-blocked-device", "a block-listed id gave rise to a device",
                          {"known_list": list(known), "block_list": list(block), "devices": sorted(present)})
        if enforce:
            bad = [d for d in present if d not in known and d != getattr(gwy.hgi, "id", None) and d != gwy._protocol.hgi_id]
            if bad:
                ctx.violation("gateway-holds-unlisted-device", "an unlisted id gave rise to a device although the known list is enforced",
                              {"known_list": list(known), "block_list": list(block), "devices": sorted(present)})
        await gwy.stop()

    # ---------------- O5: the same lists after a cache RESTORE (which relaxes the known list for its own temporary protocol when the list names no
    # gateway): packets of unlisted / blocked ids in the cache give rise to no device, and look-ups afterwards are filtered as before
    import datetime as _dtm  # noqa: PLC0415
    for n in range(40 if thorough else 14):
        known, block, enforce_cfg, _ = gen_cfg(rng)
        if n % 2 == 0:      # a known list that names no gateway (no 18: entry of class HGI): the case the restore relaxes its own filter for
            known = {k: v for k, v in known.items() if not k.startswith("18:")}
            enforce_cfg = True if known else enforce_cfg
        now = _dtm.datetime.now()
        pkts = {}
        for k in range(24):
            src, dst = rng.sample(LISTABLE, 2)
            pkts[(now - _dtm.timedelta(seconds=60 - k)).isoformat(timespec="microseconds")] = f"045  I --- {src} {dst} --:------ 0008 002 00C8"
        try:
            gwy = Gateway(None, input_file=io.TextIOWrapper(io.BytesIO(b"")), known_list=known, block_list=block, config={"enforce_known_list": enforce_cfg})
        except Exception:  # noqa: BLE001
            continue
        await gwy.start()
        enforce = gwy._enforce_known_list
        hgis = {getattr(gwy.hgi, "id", None), gwy._protocol.hgi_id}
        try:
            await gwy._restore_cached_packets(pkts)
        except Exception as err:  # noqa: BLE001
            ctx.dist["restore-raises:" + type(err).__name__] += 1
        for _ in range(5):
            await asyncio.sleep(0)
        ctx.case(("restore", tuple(known), tuple(block), enforce), True, "gateway-after-restore")
        case = {"known_list": list(known), "block_list": list(block), "enforce_known_list": bool(enforce), "cached_packets": list(pkts.values())}
        present = {d.id for d in gwy.devices}
        bad = sorted(d for d in present if d in block and d not in hgis)
        if bad:
            ctx.violation("restore-gives-rise-to-blocked-device", "a block-listed id in the restored cache gave rise to a device", {**case, "devices": bad})
        if enforce:
            bad = sorted(d for d in present if d not in known and d not in hgis)
            if bad:
                ctx.violation("restore-gives-rise-to-unlisted-device", "an unlisted id in the restored cache gave rise to a device although the known list is enforced", {**case, "devices": bad})
        for d in rng.sample(LISTABLE, 8):
            if d in present:
                continue
            try:
                ok = gwy.get_device(d) is not None
            except LookupError:
                ok = False
            allowed = d not in block and (not enforce or d in known or d in hgis)
            if ok and not allowed:
                ctx.violation("gateway-device-for-filtered-id:after-a-restore", "after a cache restore get_device creates a device for a blocked / unlisted id",
                              {**case, "device": d})
        await gwy.stop()

    # ---------------- run the model, compare
    if built:
        res = common.coq_eval("C10", files, timeout=600)
        x1_model: list[int] = []
        ok_all = True
        for k in range(0, ncfg, shard):
            rc, out = res[f"x1_{k // shard}"]
            if rc:
                ok_all = False
                ctx.obligation("correspondence:is_wanted_addrs", False, "correspondence", out[-500:])
                break
            x1_model += [int(x) for x in re.findall(r"-?\d+", re.search(r"=\s*\[(.*?)\]\s*:\s*list Z", out, re.S).group(1))]
        if ok_all:
            bad = [i for i, (a, b) in enumerate(zip(x1_model, impl_tables)) if a != b]
            ctx.obligation("correspondence:is_wanted_addrs", not bad and len(x1_model) == len(impl_tables), "correspondence",
                           f"{len(bad)} of {len(impl_tables)} configurations differ, first: {coq_cfgs[bad[0]]}" if bad else "")
        for name, impl in (("x2_glue", glue_impl), ("x3_gateway", gw_impl)):
            rc, out = res[name]
            if rc:
                ctx.obligation(f"correspondence:{name}", False, "correspondence", out[-500:])
                continue
            model = [int(x) for x in re.findall(r"-?\d+", re.search(r"=\s*\[(.*?)\]\s*:\s*list Z", out, re.S).group(1))]
            bad = [i for i, (a, b) in enumerate(zip(model, impl)) if a != b]
            ctx.obligation(f"correspondence:{name}", not bad and len(model) == len(impl), "correspondence",
                           f"{len(bad)} of {len(impl)} cases differ (first index {bad[0]})" if bad else "")
    else:
        for name in ("is_wanted_addrs", "x2_glue", "x3_gateway"):
            ctx.obligation(f"correspondence:{name}", False, "correspondence", "model not built")


def run(ctx: Ctx) -> None:
    logging.disable(logging.CRITICAL)
    ctx.rule = ("random configurations (known list 0-5 ids with/without class HGI, block list 0-3 ids possibly overlapping, "
                "enforce on/off, active gateway none/listed/foreign/placeholder/non-HGI) x all ordered pairs of 10 ids "
                "(listed, unlisted, blocked, gateways, placeholder, broadcast, null) x receive/send; plus real packets/commands "
                "through ReadProtocol/PortProtocol and look-up histories through a real Gateway; non-trivial = a list is in play "
                "(an address is blocked or the known list is enforced)")
    ctx.assumptions += ["device ids are modelled as integers tt*10^6+nnnnnn; logging/warn_foreign_hgi has no effect on the result"]
    built = ctx.build("C10", THEOREMS)
    asyncio.run(_run(ctx, built))


def replay(case: dict) -> int:
    print(case)
    return 0
