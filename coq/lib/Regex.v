(* Regex: a verified Brzozowski-derivative matcher for the regex subset used by
   ramses_tx (COMMAND_REGEX and the per-code payload regexes of ramses.py).
   [matches r s = true <-> lang r s] is proved; [pmatches] is re.match without a final '$'
   (some prefix of s is in the language). *)
From Coq Require Import List Bool Ascii Arith Lia.
Import ListNotations.

Inductive re := Emp | Eps | Chr (f : ascii -> bool) | Cat (a b : re) | Alt (a b : re) | Star (a : re).

Inductive lang : re -> list ascii -> Prop :=
| LEps : lang Eps []
| LChr f c : f c = true -> lang (Chr f) [c]
| LCat a b s t : lang a s -> lang b t -> lang (Cat a b) (s ++ t)
| LAltL a b s : lang a s -> lang (Alt a b) s
| LAltR a b s : lang b s -> lang (Alt a b) s
| LStar0 a : lang (Star a) []
| LStarS a s t : lang a s -> lang (Star a) t -> lang (Star a) (s ++ t).

Fixpoint nullable (r : re) : bool :=
  match r with
  | Emp => false | Eps => true | Chr _ => false
  | Cat a b => nullable a && nullable b
  | Alt a b => nullable a || nullable b
  | Star _ => true
  end.

(* smart constructors keep derivatives small *)
Definition mkCat (a b : re) : re :=
  match a, b with
  | Emp, _ => Emp | _, Emp => Emp | Eps, _ => b | _, Eps => a | _, _ => Cat a b end.
Definition mkAlt (a b : re) : re :=
  match a, b with Emp, _ => b | _, Emp => a | _, _ => Alt a b end.

Fixpoint deriv (c : ascii) (r : re) : re :=
  match r with
  | Emp | Eps => Emp
  | Chr f => if f c then Eps else Emp
  | Cat a b => if nullable a then mkAlt (mkCat (deriv c a) b) (deriv c b) else mkCat (deriv c a) b
  | Alt a b => mkAlt (deriv c a) (deriv c b)
  | Star a => mkCat (deriv c a) (Star a)
  end.

Fixpoint matches (r : re) (s : list ascii) : bool :=
  match s with [] => nullable r | c :: s' => matches (deriv c r) s' end.

Lemma emp_inv s : lang Emp s -> False.  Proof. intro H; inversion H. Qed.
Lemma eps_inv s : lang Eps s -> s = [].  Proof. intro H; inversion H; reflexivity. Qed.
Lemma chr_inv f s : lang (Chr f) s -> exists c, s = [c] /\ f c = true.
Proof. intro H; inversion H; subst; eauto. Qed.
Lemma cat_inv a b w : lang (Cat a b) w -> exists s t, w = s ++ t /\ lang a s /\ lang b t.
Proof. intro H; inversion H; subst; eauto. Qed.
Lemma alt_inv a b w : lang (Alt a b) w -> lang a w \/ lang b w.
Proof. intro H; inversion H; subst; auto. Qed.

Lemma nullable_spec r : nullable r = true <-> lang r [].
Proof.
  induction r as [| |f|a IHa b IHb|a IHa b IHb|a IHa]; cbn; split; intro H; try discriminate.
  - destruct (emp_inv _ H).
  - constructor.
  - reflexivity.
  - apply chr_inv in H as (c & E & _). discriminate.
  - apply andb_true_iff in H as [H1 H2]. change (@nil ascii) with (@nil ascii ++ []).
    constructor; [apply IHa|apply IHb]; assumption.
  - apply cat_inv in H as (s & t & E & Hs & Ht). symmetry in E. apply app_eq_nil in E as [-> ->].
    apply andb_true_iff; split; [apply IHa|apply IHb]; assumption.
  - apply orb_true_iff in H as [H|H]; [apply LAltL, IHa|apply LAltR, IHb]; assumption.
  - apply alt_inv in H as [H|H]; apply orb_true_iff; [left; apply IHa|right; apply IHb]; assumption.
  - constructor.
  - reflexivity.
Qed.

Lemma cat_emp_l b s : lang (Cat Emp b) s <-> False.
Proof. split; [intro H; apply cat_inv in H as (x & y & _ & Hx & _); destruct (emp_inv _ Hx)|tauto]. Qed.
Lemma cat_emp_r a s : lang (Cat a Emp) s <-> False.
Proof. split; [intro H; apply cat_inv in H as (x & y & _ & _ & Hy); destruct (emp_inv _ Hy)|tauto]. Qed.
Lemma cat_eps_l b s : lang (Cat Eps b) s <-> lang b s.
Proof. split; intro H.
  - apply cat_inv in H as (x & y & -> & Hx & Hy). apply eps_inv in Hx as ->. exact Hy.
  - change s with ([] ++ s). constructor; [constructor|exact H]. Qed.
Lemma cat_eps_r a s : lang (Cat a Eps) s <-> lang a s.
Proof. split; intro H.
  - apply cat_inv in H as (x & y & -> & Hx & Hy). apply eps_inv in Hy as ->. rewrite app_nil_r. exact Hx.
  - rewrite <- (app_nil_r s). constructor; [exact H|constructor]. Qed.

Lemma emp_false s : lang Emp s <-> False.
Proof. split; [apply emp_inv|tauto]. Qed.
Lemma mkCat_spec a b s : lang (mkCat a b) s <-> lang (Cat a b) s.
Proof.
  destruct a, b; cbn [mkCat];
    rewrite ?cat_emp_l, ?cat_emp_r, ?cat_eps_l, ?cat_eps_r, ?emp_false; tauto.
Qed.

Lemma alt_emp_l b s : lang (Alt Emp b) s <-> lang b s.
Proof. split; intro H; [apply alt_inv in H as [H|H]; [destruct (emp_inv _ H)|exact H]|apply LAltR; exact H]. Qed.
Lemma alt_emp_r a s : lang (Alt a Emp) s <-> lang a s.
Proof. split; intro H; [apply alt_inv in H as [H|H]; [exact H|destruct (emp_inv _ H)]|apply LAltL; exact H]. Qed.
Lemma mkAlt_spec a b s : lang (mkAlt a b) s <-> lang (Alt a b) s.
Proof.
  destruct a; cbn [mkAlt]; rewrite ?alt_emp_l; try tauto;
    destruct b; rewrite ?alt_emp_r; tauto.
Qed.

Lemma star_cons a c s : lang (Star a) (c :: s) -> exists s1 s2, s = s1 ++ s2 /\ lang a (c :: s1) /\ lang (Star a) s2.
Proof.
  intro H. remember (Star a) as r eqn:Er. remember (c :: s) as w eqn:Ew.
  revert s Ew. induction H as [| | | | | |a' u t Hu IHu Ht IHt]; intros s' Ew; try discriminate.
  injection Er as ->. destruct u as [|c' u].
  - cbn in Ew. apply IHt; auto.
  - cbn in Ew. injection Ew as -> <-. exists u, t. auto.
Qed.

Lemma deriv_spec r : forall c s, lang (deriv c r) s <-> lang r (c :: s).
Proof.
  induction r as [| |f|a IHa b IHb|a IHa b IHb|a IHa]; intros c s; cbn [deriv].
  - split; intro H; destruct (emp_inv _ H).
  - split; intro H; [destruct (emp_inv _ H)|apply eps_inv in H; discriminate].
  - destruct (f c) eqn:E; split; intro H.
    + apply eps_inv in H as ->. constructor; exact E.
    + apply chr_inv in H as (c' & E' & _). injection E' as <- ->. constructor.
    + destruct (emp_inv _ H).
    + apply chr_inv in H as (c' & E' & F). injection E' as <- ->. congruence.
  - destruct (nullable a) eqn:N.
    + rewrite mkAlt_spec. split; intro H.
      * apply alt_inv in H as [H|H].
        -- apply mkCat_spec, cat_inv in H as (x & y & -> & Hx & Hy). apply IHa in Hx.
           change (c :: x ++ y) with ((c :: x) ++ y). constructor; assumption.
        -- apply IHb in H. change (c :: s) with ([] ++ c :: s). constructor; [apply nullable_spec; exact N|exact H].
      * apply cat_inv in H as (x & y & E & Hx & Hy). destruct x as [|c0 x].
        -- cbn in E. subst y. apply LAltR. apply IHb. exact Hy.
        -- cbn in E. injection E as <- ->. apply LAltL. apply mkCat_spec. constructor; [apply IHa; exact Hx|exact Hy].
    + rewrite mkCat_spec. split; intro H.
      * apply cat_inv in H as (x & y & -> & Hx & Hy). apply IHa in Hx.
        change (c :: x ++ y) with ((c :: x) ++ y). constructor; assumption.
      * apply cat_inv in H as (x & y & E & Hx & Hy). destruct x as [|c0 x].
        -- apply nullable_spec in Hx. congruence.
        -- cbn in E. injection E as <- ->. constructor; [apply IHa; exact Hx|exact Hy].
  - rewrite mkAlt_spec. split; intro H.
    + apply alt_inv in H as [H|H]; [apply LAltL, IHa|apply LAltR, IHb]; assumption.
    + apply alt_inv in H as [H|H]; [apply LAltL, IHa|apply LAltR, IHb]; assumption.
  - rewrite mkCat_spec. split; intro H.
    + apply cat_inv in H as (x & y & -> & Hx & Hy). apply IHa in Hx.
      change (c :: x ++ y) with ((c :: x) ++ y). constructor; assumption.
    + apply star_cons in H as (s1 & s2 & -> & H1 & H2). constructor; [apply IHa; exact H1|exact H2].
Qed.

Theorem matches_correct : forall s r, matches r s = true <-> lang r s.
Proof.
  induction s as [|c s IH]; intro r; cbn.
  - apply nullable_spec.
  - rewrite IH. apply deriv_spec.
Qed.

(* counted repetition {m,n}, derived *)
Fixpoint pow (n : nat) (r : re) : re := match n with O => Eps | S n' => Cat r (pow n' r) end.
Fixpoint upto (n : nat) (r : re) : re := match n with O => Eps | S n' => Alt Eps (Cat r (upto n' r)) end.
Definition rep (m n : nat) (r : re) : re := Cat (pow m r) (upto (n - m) r).
Definition opt (r : re) : re := Alt Eps r.

(* character classes as lists of inclusive code-point ranges *)
Definition in_ranges (rs : list (nat * nat)) (c : ascii) : bool :=
  let n := nat_of_ascii c in existsb (fun r => (fst r <=? n) && (n <=? snd r)) rs.
Definition Cls (rs : list (nat * nat)) : re := Chr (in_ranges rs).
Definition Lit (c : ascii) : re := Chr (fun x => Ascii.eqb x c).
Fixpoint LitS (s : list ascii) : re := match s with [] => Eps | c :: t => Cat (Lit c) (LitS t) end.
(* '.' (no DOTALL): anything but a newline *)
Definition AnyC : re := Chr (fun x => negb (Ascii.eqb x "010"%char)).

(* re.match(pattern_without_$, s): some prefix matches *)
Fixpoint pmatches (r : re) (s : list ascii) : bool :=
  nullable r || match s with [] => false | c :: s' => pmatches (deriv c r) s' end.

Lemma pmatches_correct : forall s r, pmatches r s = true <-> exists p q, s = p ++ q /\ lang r p.
Proof.
  induction s as [|c s IH]; intro r; cbn [pmatches].
  - rewrite orb_false_r, nullable_spec. split.
    + intros H. exists [], []. split; [reflexivity|exact H].
    + intros [p [q [E H]]]. symmetry in E. apply app_eq_nil in E as [-> _]. exact H.
  - rewrite orb_true_iff, nullable_spec, IH. split.
    + intros [H|[p [q [E H]]]].
      * exists [], (c :: s). split; [reflexivity|exact H].
      * exists (c :: p), q. split; [cbn; f_equal; exact E|apply deriv_spec; exact H].
    + intros [p [q [E H]]]. destruct p as [|c' p].
      * left. exact H.
      * right. cbn in E. injection E as <- ->. exists p, q. split; [reflexivity|apply deriv_spec; exact H].
Qed.

Lemma lang_pow_app r n s t : lang (pow n r) s -> lang r t -> lang (pow (S n) r) (t ++ s).
Proof. intros Hs Ht. cbn [pow]. constructor; assumption. Qed.

(* ---------------------------------------------------------------- fixed-width prefixes *)
(* width r = Some n: every string of L(r) has length n (conservative) *)
Fixpoint width (r : re) : option nat :=
  match r with
  | Emp => None
  | Eps => Some 0
  | Chr _ => Some 1
  | Cat a b => match width a, width b with Some x, Some y => Some (x + y) | _, _ => None end
  | Alt a b => match width a, width b with Some x, Some y => if Nat.eqb x y then Some x else None | _, _ => None end
  | Star _ => None
  end.

Lemma width_sound : forall r n s, width r = Some n -> lang r s -> length s = n.
Proof.
  induction r as [| |f|a IHa b IHb|a IHa b IHb|a IHa]; intros n s W H; cbn [width] in W; try discriminate.
  - injection W as <-. apply eps_inv in H. subst. reflexivity.
  - injection W as <-. apply chr_inv in H as (c & -> & _). reflexivity.
  - destruct (width a) as [x|]; [|discriminate]. destruct (width b) as [y|]; [|discriminate].
    injection W as <-. apply cat_inv in H as (u & v & -> & Hu & Hv).
    rewrite app_length, (IHa x u eq_refl Hu), (IHb y v eq_refl Hv). reflexivity.
  - destruct (width a) as [x|]; [|discriminate]. destruct (width b) as [y|]; [|discriminate].
    destruct (Nat.eqb x y) eqn:E; [|discriminate]. injection W as <-. apply Nat.eqb_eq in E. subst y.
    apply alt_inv in H as [H|H]; [apply (IHa x s eq_refl H)|apply (IHb x s eq_refl H)].
Qed.

Lemma cat_split a b n s : width a = Some n -> lang (Cat a b) s -> lang a (firstn n s) /\ lang b (skipn n s).
Proof.
  intros W H. apply cat_inv in H as (u & v & -> & Hu & Hv).
  pose proof (width_sound a n u W Hu) as L. subst n.
  rewrite firstn_app, Nat.sub_diag, firstn_all, skipn_app, Nat.sub_diag, skipn_all. cbn [firstn skipn app].
  rewrite app_nil_r. split; assumption.
Qed.

(* peel a right-nested concatenation into columns of the given widths *)
Fixpoint peel (ws : list nat) (r : re) : option (list re * re) :=
  match ws with
  | [] => Some ([], r)
  | w :: ws' =>
      match r with
      | Cat a b =>
          match width a with
          | Some n => if Nat.eqb n w then
                        match peel ws' b with Some (cs, rest) => Some (a :: cs, rest) | None => None end
                      else None
          | None => None
          end
      | _ => None
      end
  end.

Fixpoint cols (ws : list nat) (s : list ascii) : list (list ascii) :=
  match ws with [] => [] | w :: ws' => firstn w s :: cols ws' (skipn w s) end.
Fixpoint skip_all (ws : list nat) (s : list ascii) : list ascii :=
  match ws with [] => s | w :: ws' => skip_all ws' (skipn w s) end.

Lemma peel_sound : forall ws r cs rest s,
  peel ws r = Some (cs, rest) -> lang r s -> Forall2 lang cs (cols ws s) /\ lang rest (skip_all ws s).
Proof.
  induction ws as [|w ws IH]; intros r cs rest s P H; cbn [peel cols skip_all] in *.
  - injection P as <- <-. split; [constructor|exact H].
  - destruct r as [| |f|a b|a b|a]; try discriminate.
    destruct (width a) as [n|] eqn:W; [|discriminate].
    destruct (Nat.eqb n w) eqn:E; [|discriminate]. apply Nat.eqb_eq in E. subst n.
    destruct (peel ws b) as [[cs' rest']|] eqn:Pb; [|discriminate]. injection P as <- <-.
    destruct (cat_split a b w s W H) as [Ha Hb].
    destruct (IH b cs' rest' (skipn w s) Pb Hb) as [F R].
    split; [constructor; assumption|exact R].
Qed.

(* a component that accepts exactly the one-character string [c] *)
Definition only_char (n : nat) (r : re) : bool :=
  match r with
  | Chr f => forallb (fun k => negb (f (ascii_of_nat k)) || Nat.eqb k n) (seq 0 256)
  | _ => false
  end.

Lemma only_char_sound n r s : only_char n r = true -> lang r s -> s = [ascii_of_nat n].
Proof.
  destruct r as [| |f| | |]; try discriminate. cbn [only_char]. intros F H.
  apply chr_inv in H as (c & -> & Hc). f_equal.
  rewrite forallb_forall in F. specialize (F (nat_of_ascii c)).
  rewrite ascii_nat_embedding, Hc in F. cbn [negb orb] in F.
  assert (Hin : In (nat_of_ascii c) (seq 0 256)) by (apply in_seq; pose proof (nat_ascii_bounded c); lia).
  apply F, Nat.eqb_eq in Hin. rewrite <- Hin. symmetry. apply ascii_nat_embedding.
Qed.
