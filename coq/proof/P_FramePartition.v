(* P_FramePartition -- Packet._partition: whatever follows the first '#' of a line is comment and nothing else: it can contain
   '*', '<' or further '#' without changing the frame, without becoming an evofw3 error message. *)
From Coq Require Import List Bool Ascii String.
From RV Require Import Py PyStr M_Codecs M_Frame.
Import ListNotations.

Definition lacks (c : ascii) (s : str) : Prop := Forall (fun x => Ascii.eqb x c = false) s.

Lemma partition_at_absent c s : lacks c s -> partition_at c s = (s, false, []).
Proof.
  induction s as [|x t IH]; intro H; cbn [partition_at]; [reflexivity|].
  inversion H as [|x' t' Hx Ht]; subst. rewrite Hx, (IH Ht). reflexivity.
Qed.
Lemma partition_at_first c s r : lacks c s -> partition_at c (s ++ c :: r) = (s, true, r).
Proof.
  induction s as [|x t IH]; intro H; cbn [partition_at app].
  - rewrite Ascii.eqb_refl. reflexivity.
  - inversion H as [|x' t' Hx Ht]; subst. rewrite Hx, (IH Ht). reflexivity.
Qed.

(* frame # comment *)
Theorem comment_is_opaque fr c : lacks "#"%char fr -> lacks "*"%char fr -> lacks "<"%char fr ->
  pkt_partition (fr ++ "#"%char :: c) = (strip fr, [], strip c).
Proof.
  intros H1 H2 H3. unfold pkt_partition. rewrite (partition_at_first _ fr c H1), (partition_at_absent _ fr H2), (partition_at_absent _ fr H3). reflexivity.
Qed.
(* frame < hint # comment *)
Theorem hint_and_comment fr h c : lacks "#"%char fr -> lacks "*"%char fr -> lacks "<"%char fr -> lacks "#"%char h -> lacks "*"%char h ->
  pkt_partition (fr ++ "<"%char :: h ++ "#"%char :: c) = (strip fr, [], strip c).
Proof.
  intros H1 H2 H3 H4 H5. unfold pkt_partition.
  assert (L1 : lacks "#"%char (fr ++ "<"%char :: h)) by (apply Forall_app; split; [exact H1 | constructor; [reflexivity | exact H4]]).
  replace (fr ++ "<"%char :: h ++ "#"%char :: c) with ((fr ++ "<"%char :: h) ++ "#"%char :: c) by (rewrite <- app_assoc; reflexivity).
  rewrite (partition_at_first _ _ c L1).
  assert (L2 : lacks "*"%char (fr ++ "<"%char :: h)) by (apply Forall_app; split; [exact H2 | constructor; [reflexivity | exact H5]]).
  rewrite (partition_at_absent _ _ L2), (partition_at_first _ fr h H3). reflexivity.
Qed.
(* an evofw3 error message is only what follows a '*' that comes BEFORE the first '#' *)
Theorem error_before_comment fr e c : lacks "#"%char fr -> lacks "*"%char fr -> lacks "<"%char fr -> lacks "#"%char e ->
  pkt_partition (fr ++ "*"%char :: e ++ "#"%char :: c) = (strip fr, strip e, strip c).
Proof.
  intros H1 H2 H3 H4. unfold pkt_partition.
  assert (L1 : lacks "#"%char (fr ++ "*"%char :: e)) by (apply Forall_app; split; [exact H1 | constructor; [reflexivity | exact H4]]).
  replace (fr ++ "*"%char :: e ++ "#"%char :: c) with ((fr ++ "*"%char :: e) ++ "#"%char :: c) by (rewrite <- app_assoc; reflexivity).
  rewrite (partition_at_first _ _ c L1), (partition_at_first _ fr e H2), (partition_at_absent _ fr H3). reflexivity.
Qed.
