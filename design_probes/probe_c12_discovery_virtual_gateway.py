import asyncio, logging, sys, datetime as _dt
sys.path.insert(0, __import__('os').path.dirname(__file__))
logging.disable(logging.CRITICAL)
from vloop import VLoop
import ramses_tx.gateway as txgw
import ramses_tx.transport as tr
from ramses_tx.transport import _FullTransport
from ramses_tx.packet import Packet
from ramses_rf import Gateway

EPOCH=_dt.datetime(2026,1,1,12,0,0)
class VDT(_dt.datetime):
    _loop=None
    @classmethod
    def now(cls, tz=None):
        cls._tick=getattr(cls,'_tick',0)+1
        return EPOCH+_dt.timedelta(seconds=cls._loop.time(), microseconds=cls._tick)

class _Abs:
    def __init__(self, name, protocol, loop=None):
        self._protocol=protocol; self._loop=loop or asyncio.get_event_loop()
class MemTransport(_FullTransport, _Abs):
    def __init__(self, name, protocol, controller=None, **kw):
        super().__init__(name, protocol, **kw)
        self.writes=[]; self.controller=controller
        self._extra['active_gwy']="18:111111"
        self._loop.call_soon(lambda: self._make_connection("18:111111"))
    def _dt_now(self): return VDT.now()
    async def write_frame(self, frame, disable_tx_limits=False):
        t=self._loop.time(); self.writes.append((t,frame))
        # echo
        echo = frame.replace("18:000730","18:111111")
        self._loop.call_later(0.01, self.rx, "000 "+echo)
        if self.controller:
            for dly,rp in self.controller(echo):
                self._loop.call_later(dly, self.rx, "045 "+rp)
    def rx(self, line):
        self._frame_read(VDT.now().isoformat(timespec="microseconds"), line)

def controller(frame):
    # frame: 'RQ --- 18:111111 01:145038 --:------ 0005 002 0008'
    f=frame.split()
    verb,code,payload=f[0],f[5],f[7]
    out=[]
    if verb=="RQ" and code=="0005":
        zt=payload[2:4]
        mask={"08":"0300","04":"0300"}.get(zt,"0000")
        out.append((0.05, f"RP --- 01:145038 18:111111 --:------ 0005 004 00{zt}{mask}"))
    if verb=="RQ" and code=="000C":
        idx,role=payload[:2],payload[2:4]
        if role in("08","00") and idx in("00","01"):
            dev={"00":"10E4A1","01":"10E4A2"}[idx]
            out.append((0.05, f"RP --- 01:145038 18:111111 --:------ 000C 006 {idx}{role}00{dev}"))
        elif role=="04" and idx in("00","01"):
            dev={"00":"88E4A1","01":"88E4A2"}[idx]
            out.append((0.05, f"RP --- 01:145038 18:111111 --:------ 000C 006 {idx}{role}00{dev}"))
    return out

async def main(loop):
    errs=[]
    loop.set_exception_handler(lambda l,c: errs.append((loop.time(), repr(c.get('exception')))))
    VDT._loop=loop
    import ramses_rf.entity_base as eb, ramses_rf.system.heat as heat, ramses_tx.protocol_fsm as fsm
    eb.dt=VDT; heat.dt=VDT; fsm.dt=VDT
    holder={}
    async def factory(protocol, **kw):
        kw.pop('port_name',None); kw.pop('port_config',None); kw.pop('packet_log',None)
        t=MemTransport("mem", protocol, controller=controller, disable_sending=kw.get('disable_sending',False), loop=kw.get('loop'))
        holder['t']=t
        await protocol.wait_for_connection_made(timeout=3)
        return t
    txgw.transport_factory=factory
    gwy=Gateway("/dev/mem", config={"disable_discovery":False,"enforce_known_list":False}, **{"01:145038":{}})
    await gwy.start()
    await asyncio.sleep(4000)
    t=holder['t']
    print("n writes", len(t.writes))
    [print(round(w[0],2), w[1][41:]) for w in t.writes if " 000C " in w[1] or " 0005 " in w[1]]
    import json; print(json.dumps(gwy.schema, indent=0)[:1500])
    print("errs", errs[:5])
    await gwy.stop()
loop=VLoop(); asyncio.set_event_loop(loop)
loop.run_until_complete(main(loop))
