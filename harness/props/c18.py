"""C18 -- schedule transfers under faults: real Schedule/Zone objects of a replay gateway, a scripted
controller behind gwy.async_send_cmd, a fault injected at every await; the lock model in Coq."""

from __future__ import annotations

import asyncio
import datetime as _dt
import io
import logging
import re

from .. import common
from ..common import Ctx
from ..vloop import VLoop
from .c17 import gen_schedule

THEOREMS = ["C18_lock_released_at_exit", "C18_others_proceed", "C18_single_version", "C18_never_mixed",
            "C18_lock_leak_refuted", "C18_lock_leak_repaired"]

PRELUDE = ("From Coq Require Import List Bool Arith.\nFrom RV Require Import M_Transfer.\nImport ListNotations.\n"
           "Set Printing Width 1000000.\nSet Printing Depth 1000000.\n"
           "Definition oc (o : outcome) : nat := match o with Completed => 1 | Failed => 2 | Abandoned => 3 | LockTimeout => 4 end.\n"
           "Definition show (r : lockst * list outcome) : list nat := (match fst r with None => 99 | Some z => z end) :: map oc (snd r).\n")

CTL = "01:145038"
EPOCH = _dt.datetime(2026, 1, 1, 12)


class Controller:
    """A scripted controller: per-zone schedules (with versions), a global change counter, a fault plan."""

    def __init__(self, S, rng, nzones):
        self.S = S
        self.counter = 5
        self.zones = {}
        self.rng = rng
        for z in range(nzones):
            self.new_schedule(z, bump=False)
        self.calls = []           # (zone or None, kind)
        self.plan = {}            # call index -> "raise" | "hang" | ("bump", zone)
        self.hang = None

    def new_schedule(self, z, bump=True):
        days = gen_schedule(self.rng, False, 3)
        full = {"zone_idx": f"{z:02X}", "schedule": days}
        self.zones[z] = (days, self.S.full_sched_to_fragz(full))
        if bump:
            self.counter += 1

    async def send(self, cmd, **kw):
        from ramses_tx import exceptions as exc  # noqa: PLC0415
        from ramses_tx.packet import Packet  # noqa: PLC0415

        n = len(self.calls)
        zone = int(cmd.payload[:2], 16) if cmd.code == "0404" else None
        self.calls.append((zone, cmd.code, cmd.payload))
        act = self.plan.get(n)
        if act == "raise":
            raise exc.ProtocolSendFailed("scripted loss")
        if act == "hang":
            await asyncio.get_running_loop().create_future()   # never answers: only the caller's timeout ends this
        if isinstance(act, tuple) and act[0] == "bump":
            self.new_schedule(act[1])
        await asyncio.sleep(1 / 64)
        now = _dt.datetime.now()
        if cmd.code == "0006":
            return Packet.from_port(now, f"045 RP --- {CTL} 18:000730 --:------ 0006 004 0005{self.counter:04X}")
        k = int(cmd.payload[10:12], 16)
        frs = self.zones[zone][1]
        if k > len(frs):
            k = len(frs)
        f = frs[k - 1]
        pl = f"{zone:02X}200008{len(f) // 2:02X}{k:02X}{len(frs):02X}{f}"
        return Packet.from_port(now, f"045 RP --- {CTL} 18:000730 --:------ 0404 {len(pl) // 2:03d} {pl}")


def episode(scn):
    """One episode on a fresh replay gateway; returns observations."""
    import ramses_rf.system.heat as heat  # noqa: PLC0415
    import ramses_rf.system.schedule as S  # noqa: PLC0415
    from ramses_rf import Gateway  # noqa: PLC0415

    loop = VLoop()
    asyncio.set_event_loop(loop)

    class VDT(_dt.datetime):
        @classmethod
        def now(cls, tz=None):
            return EPOCH + _dt.timedelta(seconds=loop.time())

    real_dt = heat.dt
    heat.dt = VDT
    obs = {}

    async def main():
        import random  # noqa: PLC0415
        txt = f"2026-01-01T12:00:00.000000 045 RP --- {CTL} 18:111111 --:------ 0005 004 00080700\n"
        gwy = Gateway(None, input_file=io.TextIOWrapper(io.BytesIO(txt.encode())), config={"disable_discovery": True})
        await gwy.start()
        for _ in range(5):
            await asyncio.sleep(0)
        ctl = Controller(S, random.Random(scn["seed"]), 3)
        ctl.plan = {int(k): (tuple(v) if isinstance(v, list) else v) for k, v in scn["plan"].items()}
        gwy.async_send_cmd = ctl.send
        zones = {int(z.idx, 16): z for z in gwy.tcs.zones}
        results = []

        async def fetch(z, timeout):
            try:
                r = await zones[z]._schedule.get_schedule(force_io=scn.get("force_io", False), timeout=timeout)
                ok = any(r == d for d in versions_seen[z])
                return ("completed" if ok else "wrong-schedule", r)
            except TimeoutError as err:
                return ("lock-timeout" if "lock" in str(err) else "abandoned", None)
            except Exception as err:  # noqa: BLE001
                import traceback; obs.setdefault("tb", traceback.format_exc()[-600:]); return ("failed:" + type(err).__name__, None)

        # every schedule version a zone ever had during the episode
        versions_seen = {z: [ctl.zones[z][0]] for z in ctl.zones}
        orig_new = ctl.new_schedule

        def new_schedule(z, bump=True):
            orig_new(z, bump)
            versions_seen.setdefault(z, []).append(ctl.zones[z][0])

        ctl.new_schedule = new_schedule
        for step in scn["steps"]:
            if step[0] == "fetch":
                results.append(await fetch(step[1], step[2]))
            elif step[0] == "together":
                results.extend(await asyncio.gather(*(fetch(z, step[2]) for z in step[1])))
            obs.setdefault("lock_after", []).append(gwy.tcs.zone_lock_idx)
        obs["results"] = [(k, None) for k, _ in results]
        obs["calls"] = len(ctl.calls)
        obs["nfrags"] = {z: len(v[1]) for z, v in ctl.zones.items()}
        await gwy.stop()

    try:
        loop.run_until_complete(main())
    finally:
        heat.dt = real_dt
        asyncio.set_event_loop(None)
        loop.close()
    return obs


def run(ctx: Ctx) -> None:
    logging.disable(logging.CRITICAL)
    rng = ctx.rng
    thorough = ctx.tier == "thorough"
    ctx.rule = ("episodes on real Schedule/Zone objects with a scripted controller: zone 0 fetches its schedule with ONE fault (the "
                "exchange raises ProtocolSendFailed / never answers so that the caller's timeout cancels the transfer / the controller "
                "changes the schedule and bumps its counter) injected at EVERY await index in turn, then zone 1 fetches (the probe); plus "
                "concurrent fetches of 2-3 zones; non-trivial = a fault was injected; distinct = by (seed, fault kind, position)")
    ctx.assumptions += ["a mixed set of fragments fails to decompress (zlib's checksum): the 'never a mixed schedule' theorem is under that idealisation",
                        "the model has the lock discipline and the version bookkeeping of the reassembly, not the RQ/RP exchanges themselves"]
    built = ctx.build("C18", THEOREMS)
    scns = []
    seeds = [rng.randrange(10**6) for _ in range(3 if thorough else 1)]
    for seed in seeds:
        base = episode({"seed": seed, "plan": {}, "steps": [("fetch", 0, 30)]})
        n_aw = base["calls"]                      # awaits of an undisturbed fetch: version query + fragments
        for pos in range(n_aw):
            for kind in ("raise", "hang", ["bump", 0], ["bump", 1]):
                scns.append({"seed": seed, "plan": {str(pos): kind}, "steps": [("fetch", 0, 30), ("fetch", 1, 400)], "n_aw": n_aw, "pos": pos, "kind": kind})
        scns.append({"seed": seed, "plan": {}, "steps": [("together", [0, 1, 2], 400)], "n_aw": n_aw, "pos": None, "kind": "concurrent"})
        scns.append({"seed": seed, "plan": {"1": "raise"}, "steps": [("together", [0, 1], 400), ("fetch", 2, 400)], "n_aw": n_aw, "pos": 1, "kind": "concurrent+raise"})
        scns.append({"seed": seed, "plan": {"2": "hang"}, "steps": [("together", [0, 1], 20), ("fetch", 2, 400)], "n_aw": n_aw, "pos": 2, "kind": "concurrent+hang"})
    coq_cases, impl_rows = [], []
    for s in scns:
        o = episode(s)
        res = [r[0] for r in o["results"]]
        ctx.case(("episode", s["seed"], repr(s["plan"]), repr(s["steps"])), bool(s["plan"]), "episode:" + (s["kind"] if isinstance(s["kind"], str) else "bump"))
        case = {"seed": s["seed"], "fault": s["plan"], "steps": s["steps"], "results": res, "lock_after_each_step": o["lock_after"], "requests": o["calls"]}
        if any(x is not None for x in o["lock_after"]):
            ctx.violation("lock-left-behind", "a schedule transfer ended (failed, abandoned or completed) with the schedule lock still held", case, "fault-sequence")
        if "lock-timeout" in res:
            ctx.violation("later-transfer-blocked", "a later transfer for another zone could not obtain the lock", case, "fault-sequence")
        if "wrong-schedule" in res:
            ctx.violation("mixed-or-wrong-schedule", "a fetch returned a schedule that the controller never had for that zone", case, "fault-sequence")
        if len(s["steps"]) == 2 and s["steps"][1][0] == "fetch" and res[-1] != "completed":
            ctx.violation("probe-transfer-fails", "after a disturbed transfer, an undisturbed transfer of another zone does not complete", case, "fault-sequence")
        if s["kind"] == "concurrent" and any(r != "completed" for r in res):
            ctx.violation("concurrent-transfers-fail", "undisturbed concurrent transfers of several zones do not all complete", case, "fault-sequence")
        # model: only the single-fault, sequential episodes (fault kinds raise/hang map to Raises/Cancelled)
        if s["kind"] in ("raise", "hang"):
            faults = ["Proceed"] * s["pos"] + ["Raises" if s["kind"] == "raise" else "Cancelled"]
            probe = ["Proceed"] * 4
            coq_cases.append(f"show (transfers true None [(0, [{'; '.join(faults)}]); (1, [{'; '.join(probe)}])])")
            code = {"completed": 1, "abandoned": 3, "lock-timeout": 4}
            impl_rows.append([99 if o["lock_after"][-1] is None else int(o["lock_after"][-1], 16)]
                             + [code.get(r, 2 if r.startswith("failed") else 9) for r in res])
    if built:
        files = {"x": PRELUDE + "".join(f"Eval vm_compute in ({c}).\n" for c in coq_cases)}
        res = common.coq_eval("C18", files, timeout=300)
        rc, out = res["x"]
        if rc:
            ctx.obligation("correspondence:lock-discipline", False, "correspondence", out[-400:])
        else:
            rows = [eval(o.replace(";", ","), {"__builtins__": {}}) for o in re.findall(r"=\s*(\[.*?\])\s*:\s*list nat", out, flags=re.S)]  # noqa: S307
            bad = [i for i, (a, b) in enumerate(zip(rows, impl_rows)) if list(a) != list(b)]
            ctx.obligation("correspondence:lock-discipline", not bad and len(rows) == len(impl_rows), "correspondence",
                           f"{len(bad)} of {len(impl_rows)} differ; first: {coq_cases[bad[0]]} model {rows[bad[0]]} implementation {impl_rows[bad[0]]}" if bad else "")
    else:
        ctx.obligation("correspondence:lock-discipline", False, "correspondence", "model not built")


def replay(case: dict) -> int:
    print(case.get("signature"), case.get("case"))
    return 0
