"""Tables re-read from /repo: regexes (as verified-matcher ASTs), code tables."""

from __future__ import annotations

import re

import re._parser as sp

VERBS = [" I", "RQ", "RP", " W"]


def regex_to_coq(pattern: str, Fail) -> tuple[str, str]:  # noqa: N803
    """Python regex -> (Rp, Rf): Coq terms of type Regex.re such that
    re.match(pattern, s) succeeds  <->  some prefix of s is in L(Rp)  or  s is in L(Rf).

    Rf collects the (top-level alternatives of the) pattern that end with '$', Rp the others.
    Fail-closed: only the constructs listed in DESIGN.md section 3 are accepted.
    """
    tree = list(sp.parse(pattern))
    if len(tree) == 1 and str(tree[0][0]) == "BRANCH":
        branches = [list(b) for b in tree[0][1][1]]
    else:
        branches = [tree]

    def cls(ranges):
        return "(Cls [" + "; ".join(f"({a},{b})" for a, b in ranges) + "]%nat)"

    def seq(p):
        parts = [one(op, av) for op, av in p]
        if not parts:
            return "Eps"
        out = parts[-1]
        for x in reversed(parts[:-1]):
            out = f"(Cat {x} {out})"
        return out

    def one(op, av):
        op = str(op)
        if op == "LITERAL":
            if not 0 <= av < 128:
                raise Fail(f"non-ascii literal in regex {pattern!r}")
            return cls([(av, av)])
        if op == "ANY":
            return "AnyC"
        if op == "IN":
            rs = []
            for o, a in av:
                o = str(o)
                if o == "LITERAL":
                    rs.append((a, a))
                elif o == "RANGE":
                    rs.append((a[0], a[1]))
                elif o == "CATEGORY" and str(a) == "CATEGORY_DIGIT":
                    rs.append((48, 57))
                else:
                    raise Fail(f"unsupported class item {o} {a} in regex {pattern!r}")
            return cls(rs)
        if op == "SUBPATTERN":
            return seq(av[3])
        if op == "BRANCH":
            alts = [seq(b) for b in av[1]]
            out = alts[-1]
            for x in reversed(alts[:-1]):
                out = f"(Alt {x} {out})"
            return out
        if op in ("MAX_REPEAT", "MIN_REPEAT"):
            lo, hi, sub = av
            inner = seq(sub)
            if str(hi) == "MAXREPEAT":
                return f"(Cat (pow {int(lo)} {inner}) (Star {inner}))"
            return f"(rep {int(lo)} {int(hi)} {inner})"
        raise Fail(f"unsupported regex construct {op} in {pattern!r}")

    rp, rf = [], []
    for items in branches:
        if items and str(items[0][0]) == "AT" and str(items[0][1]) == "AT_BEGINNING":
            items = items[1:]
        if items and str(items[-1][0]) == "AT" and str(items[-1][1]) == "AT_END":
            rf.append(seq(items[:-1]))
        else:
            rp.append(seq(items))

    def alt(xs):
        if not xs:
            return "Emp"
        out = xs[-1]
        for x in reversed(xs[:-1]):
            out = f"(Alt {x} {out})"
        return out

    return alt(rp), alt(rf)


def generate(write, Fail) -> None:  # noqa: N803
    from ramses_tx.const import COMMAND_REGEX  # noqa: PLC0415
    from ramses_tx.ramses import CODES_SCHEMA  # noqa: PLC0415

    out = ["From RV Require Import Regex.", ""]
    rp, rf = regex_to_coq(COMMAND_REGEX.pattern, Fail)
    if rp != "Emp":
        raise Fail("COMMAND_REGEX is expected to end with '$'")
    out.append(f"Definition COMMAND_RE : re := {rf}.")
    rows = []
    for code, d in sorted(CODES_SCHEMA.items()):
        if not isinstance(code, str) or len(code) != 4:
            raise Fail(f"unexpected code key {code!r}")
        try:
            zcode = int(code, 16)
        except ValueError:
            zcode = -1  # e.g. the puzzle code is hex too; anything else is not a wire code
            raise Fail(f"non-hex code {code!r}") from None
        for verb in VERBS:
            if verb in d:
                rp, rf = regex_to_coq(d[verb], Fail)
                name = f"RX_{code}_{VERBS.index(verb)}"
                out.append(f"Definition {name}_p : re := {rp}.")
                out.append(f"Definition {name}_f : re := {rf}.")
                rows.append(f"({zcode}, {VERBS.index(verb)}, {name}_p, {name}_f)")
    out.append("")
    out.append("(* (code, verb index [I;RQ;RP;W], Rp, Rf): re.match succeeds iff a prefix is in L(Rp) or the whole payload in L(Rf) *)")
    out.append("Definition PAYLOAD_REGEXES : list (Z * Z * re * re) :=\n  [" + ";\n   ".join(rows) + "].")
    out.append(f"Definition KNOWN_CODES : list Z := [{'; '.join(str(int(c, 16)) for c in sorted(CODES_SCHEMA))}].")
    # --- schema validator (C15): the zone-index key regex and the range the max_zones option may take ---
    import ramses_rf.schemas as rsch  # noqa: PLC0415
    import voluptuous as vol  # noqa: PLC0415

    zi = getattr(rsch, "SCH_ZON_IDX", None)
    if not isinstance(zi, vol.Match):
        raise Fail("ramses_rf.schemas.SCH_ZON_IDX is expected to be a vol.Match")
    rp, rf = regex_to_coq(zi.pattern.pattern, Fail)
    if rp != "Emp":
        raise Fail("SCH_ZON_IDX is expected to end with '$'")
    out.append(f"Definition ZONE_IDX_RE : re := {rf}.")
    rng = None
    for k, v in rsch.SCH_GATEWAY_DICT.items():
        if str(k) == "max_zones" and isinstance(v, vol.All):
            rng = next((x for x in v.validators if isinstance(x, vol.Range)), None)
    if rng is None or not isinstance(rng.max, int) or not isinstance(rng.min, int):
        raise Fail("SCH_GATEWAY_DICT[max_zones] is expected to be vol.All(int, vol.Range(min, max))")
    zl = rsch.SCH_TCS_ZONES
    ln = next((x for x in getattr(zl, "validators", []) if isinstance(x, vol.Length)), None)
    if ln is None or not isinstance(ln.max, int):
        raise Fail("SCH_TCS_ZONES is expected to be vol.All(vol.Schema(...), vol.Length(min, max))")
    out.append(f"Definition ZONES_MAX_LEN : Z := {ln.max}.")
    out.append(f"Definition MAX_ZONES_MIN : Z := {rng.min}.")
    out.append(f"Definition MAX_ZONES_MAX : Z := {rng.max}.")
    write("GenRegex.v", "\n".join(out) + "\n")
    gen_code_tables(write, Fail)


def _us(t) -> int:
    return (t.days * 86400 + t.seconds) * 10**6 + t.microseconds


def gen_code_tables(write, Fail) -> None:  # noqa: N803
    from datetime import timedelta as td  # noqa: PLC0415

    from ramses_tx import packet as P  # noqa: PLC0415
    from ramses_tx.const import DEV_TYPE_MAP  # noqa: PLC0415
    from ramses_tx.opentherm import PARAMS_DATA_IDS, SCHEMA_DATA_IDS, STATUS_DATA_IDS  # noqa: PLC0415
    from ramses_tx.ramses import (  # noqa: PLC0415
        CODE_IDX_ARE_COMPLEX,
        CODE_IDX_ARE_NONE,
        CODE_IDX_ARE_SIMPLE,
        CODES_ONLY_FROM_CTL,
        CODES_SCHEMA,
        CODES_WITH_ARRAYS,
        RQ_IDX_COMPLEX,
        RQ_NO_PAYLOAD,
        SZ_LIFESPAN,
    )

    def zl(xs):
        return "[" + "; ".join(str(x) for x in xs) + "]"

    def codes(xs):
        return zl(sorted(int(str(c), 16) for c in xs))

    out = []
    rows = []
    for code, v in CODES_WITH_ARRAYS.items():
        if not (isinstance(v, list | tuple) and isinstance(v[0], int) and v[0] > 0):
            raise Fail(f"CODES_WITH_ARRAYS[{code}] has an unexpected shape: {v!r}")
        rows.append(f"({int(str(code), 16)}, {v[0]})")
    out.append(f"Definition CODES_WITH_ARRAYS : list (Z * Z) := [{'; '.join(rows)}].")
    rows = []
    for code, v in sorted(CODES_SCHEMA.items()):
        ls = v.get(SZ_LIFESPAN)
        if isinstance(ls, td):
            rows.append(f"({int(code, 16)}, {_us(ls)})")
    out.append(f"Definition LIFESPAN_TABLE : list (Z * Z) := [{'; '.join(rows)}].")
    for name in ("_TD_SECS_000", "_TD_SECS_360", "_TD_MINS_005", "_TD_MINS_060", "_TD_MINS_360", "_TD_DAYS_001"):
        if not isinstance(getattr(P, name, None), td):
            raise Fail(f"ramses_tx.packet.{name}: name not found (anchor missing)")
        out.append(f"Definition PKT{name}_us : Z := {_us(getattr(P, name))}.")
    # the OpenTherm lifespans are '<td> * 2.1' in the source: emit the products Python computes
    out.append(f"Definition OT_SCHEMA_us : Z := {_us(P._TD_MINS_360 * 2.1)}.")
    out.append(f"Definition OT_PARAMS_us : Z := {_us(P._TD_MINS_060 * 2.1)}.")
    out.append(f"Definition OT_STATUS_us : Z := {_us(P._TD_MINS_005 * 2.1)}.")
    out.append(f"Definition OT_SCHEMA_IDS : list Z := {zl(sorted(int(k) for k in SCHEMA_DATA_IDS))}.")
    out.append(f"Definition OT_PARAMS_IDS : list Z := {zl(sorted(int(k) for k in PARAMS_DATA_IDS))}.")
    out.append(f"Definition OT_STATUS_IDS : list Z := {zl(sorted(int(k) for k in STATUS_DATA_IDS))}.")
    out.append(f"Definition CODE_IDX_ARE_COMPLEX : list Z := {codes(CODE_IDX_ARE_COMPLEX)}.")
    out.append(f"Definition CODE_IDX_ARE_SIMPLE : list Z := {codes(CODE_IDX_ARE_SIMPLE)}.")
    out.append(f"Definition CODE_IDX_ARE_NONE : list Z := {codes(CODE_IDX_ARE_NONE)}.")
    out.append(f"Definition RQ_NO_PAYLOAD : list Z := {codes(RQ_NO_PAYLOAD)}.")
    out.append(f"Definition RQ_IDX_COMPLEX : list Z := {codes(RQ_IDX_COMPLEX)}.")
    out.append(f"Definition CODES_ONLY_FROM_CTL : list Z := {codes(CODES_ONLY_FROM_CTL)}.")
    from ramses_tx.ramses import CODE_IDX_DOMAIN  # noqa: PLC0415

    out.append(f"Definition CODE_IDX_DOMAIN : list Z := {codes(CODE_IDX_DOMAIN)}.")
    # (code, verb index [I;RQ;RP;W]) whose payload regex begins with ^00: _pkt_idx insists on index 00 for these when the code has no index
    VERBS = (" I", "RQ", "RP", " W")
    rows = [f"({int(c, 16)}, {VERBS.index(v)})" for c, d in sorted(CODES_SCHEMA.items()) for v in VERBS if isinstance(d.get(v), str) and d[v][:3] == "^00"]
    out.append(f"Definition SCHEMA_STARTS_00 : list (Z * Z) := [{'; '.join(rows)}].")
    from ramses_tx.const import DEV_ROLE_MAP  # noqa: PLC0415

    for nm in ("APP", "HTG", "DHW"):
        out.append(f"Definition ROLE_{nm} : Z := {int(getattr(DEV_ROLE_MAP, nm), 16)}.")
    for nm in ("CTL", "UFC", "PRG", "DTS", "DT2", "OTB", "HGI", "HCW"):
        out.append(f"Definition DEVTYPE_{nm} : Z := {int(getattr(DEV_TYPE_MAP, nm))}.")
    out.append(f"Definition ARRAY_ELEM_CHARS : list (Z * Z) := [{'; '.join(array_shapes(Fail))}].")
    # the API map: (verb index, code, constructor name as character codes)
    from ramses_tx.command import CODE_API_MAP  # noqa: PLC0415

    rows = []
    for key, fn in CODE_API_MAP.items():
        verb, code = key.split("|")
        if verb not in VERBS or not re.fullmatch(r"[0-9A-F]{4}", code):
            raise Fail(f"CODE_API_MAP key {key!r} is not 'verb|code'")
        rows.append(f"({VERBS.index(verb)}, {int(code, 16)}, [{'; '.join(str(ord(c)) for c in fn.__name__)}])")
    out.append(f"Definition API_MAP : list (Z * Z * list Z) := [{'; '.join(rows)}].")
    write("GenTables.v", "\n".join(out) + "\n")


def array_shapes(Fail) -> list[str]:  # noqa: N803
    """Check the array branch of every array-capable parser and return (code, element length in chars).

    The branch must be `[<elt> for i in range(0, len(payload), N)]` with N = 2 x CODES_WITH_ARRAYS[code][0]; every slice of
    payload in <elt> must be payload[i + a : i + b] with 0 <= a < b <= N; the element's index must be payload[i : i + 2];
    and a helper that decodes the whole payload in the single-element path must get the whole element (from i) in the array path.
    """
    import ast  # noqa: PLC0415
    import inspect  # noqa: PLC0415

    import ramses_tx.parsers as P  # noqa: PLC0415
    from ramses_tx.ramses import CODES_WITH_ARRAYS  # noqa: PLC0415

    def off(node):   # i -> 0, i + k -> k
        if isinstance(node, ast.Name) and node.id == "i":
            return 0
        if isinstance(node, ast.BinOp) and isinstance(node.op, ast.Add) and isinstance(node.left, ast.Name) and node.left.id == "i" and isinstance(node.right, ast.Constant):
            return int(node.right.value)
        return None

    rows = []
    for code, v in CODES_WITH_ARRAYS.items():
        fn_name = f"parser_{str(code).lower()}"
        if not hasattr(P, fn_name):
            raise Fail(f"ramses_tx.parsers.{fn_name} not found")
        fn = ast.parse(inspect.getsource(getattr(P, fn_name))).body[0]
        comps = [n for n in ast.walk(fn) if isinstance(n, ast.ListComp) and any(
            isinstance(g.iter, ast.Call) and getattr(g.iter.func, "id", "") == "range" and "payload" in ast.unparse(g.iter) for g in n.generators)]
        if len(comps) != 1:
            raise Fail(f"{fn_name}: expected exactly one list comprehension over the payload, found {len(comps)}")
        comp = comps[0]
        g = comp.generators[0]
        if ast.unparse(g.target) != "i" or len(g.iter.args) != 3 or ast.unparse(g.iter.args[0]) != "0" or ast.unparse(g.iter.args[1]) != "len(payload)" or not isinstance(g.iter.args[2], ast.Constant):
            raise Fail(f"{fn_name}: the array loop is not `for i in range(0, len(payload), N)`: {ast.unparse(g.iter)}")
        n = int(g.iter.args[2].value)
        if n != 2 * int(v[0]):
            raise Fail(f"{fn_name}: the array loop steps by {n} characters but CODES_WITH_ARRAYS says {v[0]} bytes per element")
        slices = []
        for node in ast.walk(comp.elt):
            if isinstance(node, ast.Subscript) and isinstance(node.value, ast.Name) and node.value.id == "payload":
                if not isinstance(node.slice, ast.Slice) or node.slice.lower is None or node.slice.upper is None:
                    raise Fail(f"{fn_name}: unbounded slice of payload in the array element: {ast.unparse(node)}")
                a, b = off(node.slice.lower), off(node.slice.upper)
                if a is None or b is None or not 0 <= a < b <= n:
                    raise Fail(f"{fn_name}: slice {ast.unparse(node)} is not within the element (0..{n})")
                slices.append((a, b))
        if (0, 2) not in slices and (0, n) not in slices:
            raise Fail(f"{fn_name}: neither payload[i : i + 2] (the element's index) nor the whole element payload[i : i + {n}] in the array element")
        # helpers that see the WHOLE payload in the single-element path must see the whole element in the array path
        whole = {ast.unparse(c.func) for c in ast.walk(fn) if isinstance(c, ast.Call) and len(c.args) >= 1 and ast.unparse(c.args[0]) == "payload"
                 and not any(c is x for x in ast.walk(comp))}
        for c in ast.walk(comp.elt):
            if isinstance(c, ast.Call) and ast.unparse(c.func) in whole and c.args and isinstance(c.args[0], ast.Subscript):
                a, b = off(c.args[0].slice.lower), off(c.args[0].slice.upper)
                if (a, b) != (0, n):
                    raise Fail(f"{fn_name}: {ast.unparse(c.func)}() decodes the whole payload of a single element but gets {ast.unparse(c.args[0])} of an array element (expected payload[i : i + {n}])")
        rows.append(f"({int(str(code), 16)}, {n})")
    return rows
