(* M_Regulate -- transmit regulation (ramses_tx/transport.py): the duty-cycle token bucket of
   @limit_duty_cycle, the one-write-token-per-gap semaphore of PortTransport, the MQTT token bucket.
   Time is in ticks of 2^-20 s (the virtual loop's grid); levels are in 2^-20 bit, so that the fill rate
   (bits per second) is the same number in level-units per tick and every quantity is an integer.
   Definitions only; proofs are in proof/P_Regulate.v. *)
From Coq Require Import ZArith List Bool Lia.
From RV Require Import GenConsts.
Import ListNotations.
Open Scope Z_scope.

Definition TICKS_PER_S : Z := 1048576.
(* FILL_RATE = TX_RATE_AVAIL * max_duty_cycle bits/s; BUCKET_CAPACITY = FILL_RATE * time_window bits *)
Definition RATE : Z := TX_RATE_AVAIL * MAX_DUTY_CYCLE_RATE_num / MAX_DUTY_CYCLE_RATE_den.
Definition CAPACITY : Z := RATE * DUTY_CYCLE_DURATION * TICKS_PER_S.
Definition frame_size (payload_chars : Z) : Z := (FRAME_BASE_BITS + payload_chars * FRAME_BITS_PER_CHAR) * TICKS_PER_S.

(* ---- the duty-cycle bucket under sequential use (one write_frame at a time, as the protocol FSM uses it) ---- *)
Record req := mkReq { r_arr : Z; r_size : Z; r_wr : Z }.   (* arrival (refill + decision), frame size, the write itself *)

Section Bucket.
  Variables R CAP : Z.

  Definition refill (b last t : Z) : Z := Z.min (b + R * (t - last)) CAP.
  (* how long the wrapper sleeps: (size - level) / R seconds, i.e. the least whole number of ticks covering it *)
  Definition sleep_ticks (l size : Z) : Z := if l <? size then (size - l + R - 1) / R else 0.

  (* a run of the wrapper: b = bits_in_bucket, last = last_time_bit_added, prev = when the previous write_frame returned *)
  Fixpoint valid (b last prev : Z) (rs : list req) : Prop :=
    match rs with
    | [] => True
    | r :: rest =>
        prev <= r_arr r /\ last <= r_arr r /\
        let l := refill b last (r_arr r) in
        r_arr r <= r_wr r /\ r_size r - l <= R * (r_wr r - r_arr r) /\      (* it slept (at least) until the level covered the frame *)
        valid (l - r_size r) (r_arr r) (r_wr r) rest
    end.

  (* the implementation's own schedule when nothing else delays a write: written as soon as the sleep ends *)
  Fixpoint schedule (b last : Z) (arrs : list (Z * Z)) : list req :=
    match arrs with
    | [] => []
    | (a, s) :: rest =>
        let l := refill b last a in
        mkReq a s (a + sleep_ticks l s) :: schedule (l - s) a rest
    end.

  Definition bits (rs : list req) : Z := fold_right (fun r acc => r_size r + acc) 0 rs.
End Bucket.

(* ---- the write-gap semaphore: BoundedSemaphore(1), released by a task every MIN_INTER_WRITE_GAP ---- *)
Inductive gev := GTick (t : Z) | GWrite (t : Z).
Definition gtime (e : gev) : Z := match e with GTick t | GWrite t => t end.
Fixpoint gvalid (tok : bool) (evs : list gev) : bool :=
  match evs with
  | [] => true
  | GTick _ :: r => gvalid true r              (* release(): the value never exceeds 1 *)
  | GWrite _ :: r => tok && gvalid false r     (* acquire() *)
  end.
Definition nwrites (evs : list gev) : Z := Z.of_nat (length (filter (fun e => match e with GWrite _ => true | _ => false end) evs)).
Definition ticks (evs : list gev) : list Z := flat_map (fun e => match e with GTick t => [t] | _ => [] end) evs.
(* consecutive ticks are at least G apart *)
Fixpoint spaced (G : Z) (ts : list Z) : Prop :=
  match ts with t1 :: ((t2 :: _) as r) => t1 + G <= t2 /\ spaced G r | _ => True end.

(* ---- the MQTT token bucket; tokens in units of 1/(TIME_WINDOW * 2^20) token, so the rate is MAX_TOKENS units per tick ---- *)
Definition TOKEN : Z := DUTY_CYCLE_DURATION * TICKS_PER_S.       (* one token *)
Definition TRATE : Z := MAX_TRANSMIT_RATE_TOKENS.                 (* units per tick *)
Definition TRATE_S : Z := TRATE * TICKS_PER_S.                    (* tokens (in units) gained per second *)
Record mq := mkMq { m_tok : Z; m_max : Z; m_ts : Z }.
Definition mq0 (t : Z) : mq := mkMq (2 * MAX_TRANSMIT_RATE_TOKENS * TOKEN) (2 * MAX_TRANSMIT_RATE_TOKENS * TOKEN) t.
(* one write_frame at time t: the new state, whether the frame was accepted, and how long it then sleeps (ticks) *)
Definition mq_write (s : mq) (t : Z) : mq * bool * Z :=
  let tok := Z.min (m_tok s + (t - m_ts s) * TRATE) (m_max s) in
  if tok <? TOKEN - TRATE_S then (mkMq tok (m_max s) t, false, 0)
  else
    let tok' := tok - TOKEN in
    let mx := if MAX_TRANSMIT_RATE_TOKENS * TOKEN <? m_max s then Z.max (Z.min (m_max s) tok') (MAX_TRANSMIT_RATE_TOKENS * TOKEN) else m_max s in
    (mkMq tok' mx t, true, if tok' <? 0 then (0 - tok' + TRATE - 1) / TRATE else 0).
Fixpoint mq_run (s : mq) (ts : list Z) : list (bool * Z) :=
  match ts with [] => [] | t :: r => let '(s', acc, slp) := mq_write s t in (acc, slp) :: mq_run s' r end.
Fixpoint mq_accepted (s : mq) (ts : list Z) : Z :=
  match ts with [] => 0 | t :: r => let '(s', acc, _) := mq_write s t in (if acc then 1 else 0) + mq_accepted s' r end.
Fixpoint mq_final (s : mq) (ts : list Z) : mq :=
  match ts with [] => s | t :: r => let '(s', _, _) := mq_write s t in mq_final s' r end.
