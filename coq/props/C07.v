(* C07 -- Every send completes in bounded time.  Statements only (partial: see DESIGN.md). *)
From Coq Require Import ZArith List Bool Arith.
From RV Require Import GenConsts M_Qos P_Qos P_QosOwner P_QosAlive P_QosCallers.
Import ListNotations.
Open Scope Z_scope.

(* a call is answered at once, or a wake-up is armed for now + min(timeout, 20 s) *)
Theorem C07_deadline_armed_at_call : forall cmds w c,
  exists w', caller_start cmds w c = Ok w' /\
    (has_done c (trace w') \/
     (aget CNone c (callers w') = CWaiting /\
      In (now w + Z.min (timeout (cmds c)) SEND_LIMIT, seq w, CbCallerTimer c) (timers w'))).
Proof. exact caller_start_deadline. Qed.

(* when it fires for a caller still waiting, the caller's wake-up is pending or scheduled *)
Theorem C07_deadline_wakes_caller : forall w c,
  aget CNone c (callers w) = CWaiting ->
  exists w', caller_timer w c = Ok w' /\ aget CNone c (callers w') = CTimedOut /\
             (fut_done (fut_of w c) = true \/ In (CbCallerWake c) (ready w')).
Proof. exact caller_timer_wakes. Qed.

(* and the wake-up always answers: with a packet or an error, never nothing *)
Theorem C07_wake_answers : forall w c,
  aget CNone c (callers w) = CWaiting \/ aget CNone c (callers w) = CTimedOut ->
  exists w', caller_wake w c = Ok w' /\ has_done c (trace w').
Proof. exact caller_wake_answers. Qed.

(* the cap itself comes from the source *)
Theorem C07_send_limit_is_sources : SEND_LIMIT = FSM_SEND_TIMEOUT_LIMIT_us.
Proof. reflexivity. Qed.

(* ... and is the 20 s the property states (the model's clock counts microseconds) *)
Theorem C07_cap_is_20_seconds : SEND_LIMIT = 20 * 1000000.
Proof. reflexivity. Qed.

(* never another command's packet: in EVERY run (any events, tie policy, transport behaviour, number of steps) in which no internal
   assertion of the FSM has tripped -- none reached the event loop, none was handed to a caller; the runs in which one does are C09's
   finding -- every packet a caller is handed is the echo of ITS frame, the reply ITS frame asks for, or (for an RQ|0418) the addressed
   controller's null log entry *)
Theorem C07_result_belongs : forall cmds plan lifo fuel evs,
  let w := fst (run cmds plan lifo fuel (world0 evs)) in
  clean_tr (trace w) = true -> forall t c p, In (Done t c (OkPkt p)) (trace w) -> belongs cmds p c.
Proof. exact result_belongs. Qed.

(* the hypothesis is met by ordinary runs, and such runs do hand packets to callers *)
Theorem C07_result_belongs_nonvacuous :
  let tr := fst (fst (simulate (cmd_a 0 20000000) echoed false 5000 [(0, ConnMade); (15625, Call 0%nat)])) in
  clean_tr tr = true /\ exists t p, In (Done t 0%nat (OkPkt p)) tr.
Proof. exact result_belongs_nonvacuous. Qed.

(* "never another command's packet", the near-equal headers: while a reply is awaited, a packet that carries neither the awaited header nor is a
   null fault-log entry of the ADDRESSED controller changes nothing (a neighbour controller's null entry does not complete an RQ|0418) ... *)
Theorem C07_foreign_packet_ignored : forall cmds w p k e h,
  state (cx w) = WantRply -> sent (cx w) = Some k -> echo (cx w) = Some e -> rx_hdr (cmds k) = Some h ->
  p_hdr p <> h -> null_ok (cmds k) p = false -> pkt_rcvd cmds w p = Ok w.
Proof. exact foreign_packet_ignored. Qed.
(* ... and the addressed controller's null entry (index 00 whatever index was asked for) does answer it *)
Theorem C07_own_null_entry_answers : forall cmds w p k e h,
  state (cx w) = WantRply -> sent (cx w) = Some k -> echo (cx w) = Some e -> rx_hdr (cmds k) = Some h ->
  p_hdr p <> tx_hdr (cmds k) -> null_ok (cmds k) p = true -> pkt_rcvd cmds w p = set_state w Idle (HRes p).
Proof. exact own_null_entry_answers. Qed.

(* "every caller has been answered" at run level (coq/proof/P_QosCallers.v): in EVERY run -- any events (calls, packets, connection events, stalls,
   outside cancels), tie policy, transport behaviour, number of steps, tripped assertions INCLUDED -- a caller still to be answered has something pending
   that will answer it: its wait_for timer while it waits (and its wake-up as soon as its future is settled), its wake-up once the timer has fired
   or it has been cancelled from outside.  So once the run has come to rest (nothing ready to run, no timer armed) no caller is left waiting: every
   caller that started has been answered. *)
Theorem C07_at_rest_all_answered : forall cmds plan lifo fuel evs c,
  let w := fst (run cmds plan lifo fuel (world0 evs)) in
  ready w = [] -> timers w = [] -> aget CNone c (callers w) = CNone \/ aget CNone c (callers w) = CDone.
Proof. exact at_rest_all_answered. Qed.
(* premises met, with callers that were answered: a command echoed after 10 ms, and one nobody answers *)
Theorem C07_all_answered_nonvacuous :
  (let w := fst (run (cmd_a 0 20000000) echoed false 5000 (world0 [(0, ConnMade); (15625, Call 0%nat)])) in
   ready w = [] /\ timers w = [] /\ aget CNone 0%nat (callers w) = CDone /\ has_done 0%nat (trace w)) /\
  (let w := fst (run (cmd_a 3 20000000) silent false 5000 (world0 [(0, ConnMade); (15625, Call 0%nat)])) in
   ready w = [] /\ timers w = [] /\ aget CNone 0%nat (callers w) = CDone /\ has_done 0%nat (trace w)).
Proof. exact all_answered_nonvacuous. Qed.
