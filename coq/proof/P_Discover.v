From Coq Require Import List Bool Arith Lia.
From RV Require Import M_Discover.
Import ListNotations.

(* ---- what is known is true of the configuration; information only grows; everything is known ---- *)
Definition zsound (g : cfg) (i : nat) (kz : kzone) : Prop :=
  exists cz, c_zones g i = Some cz /\
    (forall c, kz_cls kz = Some c -> c = cz_cls cz) /\
    (forall d, kz_sensor kz = Some d -> cz_sensor cz = Some d) /\
    incl (kz_acts kz) (cz_acts cz).
Definition osound (k c : option nat) : Prop := forall d, k = Some d -> c = Some d.
Record sound (g : cfg) (k : known) : Prop := mkSound {
  s_zones : forall i kz, k_zones k i = Some kz -> zsound g i kz;
  s_ds : osound (k_dhw_sensor k) (c_dhw_sensor g);
  s_dv : osound (k_dhw_valve k) (c_dhw_valve g);
  s_hv : osound (k_htg_valve k) (c_htg_valve g);
  s_app : osound (k_app k) (c_app g) }.

Definition zle (a b : kzone) : Prop :=
  (forall c, kz_cls a = Some c -> kz_cls b = Some c) /\
  (forall d, kz_sensor a = Some d -> kz_sensor b = Some d) /\
  incl (kz_acts a) (kz_acts b).
Definition ole (a b : option nat) : Prop := forall d, a = Some d -> b = Some d.
Record le (a b : known) : Prop := mkLe {
  l_zones : forall i kz, k_zones a i = Some kz -> exists kz', k_zones b i = Some kz' /\ zle kz kz';
  l_ds : ole (k_dhw_sensor a) (k_dhw_sensor b);
  l_dv : ole (k_dhw_valve a) (k_dhw_valve b);
  l_hv : ole (k_htg_valve a) (k_htg_valve b);
  l_app : ole (k_app a) (k_app b) }.

Record complete (g : cfg) (k : known) : Prop := mkComplete {
  c_all : forall i cz, c_zones g i = Some cz ->
    exists kz, k_zones k i = Some kz /\ kz_cls kz = Some (cz_cls cz) /\ kz_sensor kz = cz_sensor cz /\ incl (cz_acts cz) (kz_acts kz);
  c_ds : k_dhw_sensor k = c_dhw_sensor g;
  c_dv : k_dhw_valve k = c_dhw_valve g;
  c_hv : k_htg_valve k = c_htg_valve g;
  c_ap : k_app k = c_app g }.

Definition wf (g : cfg) : Prop := forall i cz, c_zones g i = Some cz -> i < N.

Lemma zle_refl z : zle z z.
Proof. repeat split; auto. apply incl_refl. Qed.
Lemma zle_trans a b c : zle a b -> zle b c -> zle a c.
Proof. intros (A1 & A2 & A3) (B1 & B2 & B3). repeat split; auto. eapply incl_tran; eauto. Qed.
Lemma le_refl k : le k k.
Proof. constructor; [intros i kz H; exists kz; split; [exact H | apply zle_refl] | | | |]; intros d H; exact H. Qed.
Lemma le_trans a b c : le a b -> le b c -> le a c.
Proof.
  intros [A1 A2 A3 A4 A5] [B1 B2 B3 B4 B5]. constructor; [| intros d H; auto | intros d H; auto | intros d H; auto | intros d H; auto].
  intros i kz H. destruct (A1 i kz H) as (kz1 & H1 & L1). destruct (B1 i kz1 H1) as (kz2 & H2 & L2).
  exists kz2; split; [exact H2 | eapply zle_trans; eauto].
Qed.

(* ---- upd_zone ---- *)
Lemma upd_zone_same k i f : k_zones (upd_zone k i f) i = Some (f (match k_zones k i with Some z => z | None => mkKz None None [] end)).
Proof. cbn. rewrite Nat.eqb_refl. reflexivity. Qed.
Lemma upd_zone_other k i f j : j <> i -> k_zones (upd_zone k i f) j = k_zones k j.
Proof. intros H. cbn. destruct (j =? i) eqn:E; [apply Nat.eqb_eq in E; contradiction | reflexivity]. Qed.

Definition empty_kz := mkKz None None [].
Lemma zsound_empty g i cz : c_zones g i = Some cz -> zsound g i empty_kz.
Proof. intros H. exists cz. repeat split; cbn; try discriminate; auto. intros x []. Qed.

(* updating zone i with a function that keeps it sound and only adds information *)
Lemma upd_zone_sound g k i f : sound g k ->
  (forall kz, (k_zones k i = Some kz \/ (k_zones k i = None /\ kz = empty_kz)) -> zsound g i (f kz)) ->
  sound g (upd_zone k i f).
Proof.
  intros [S1 S2 S3 S4 S5] Hf. constructor; cbn [upd_zone k_dhw_sensor k_dhw_valve k_htg_valve k_app]; auto.
  intros j kz H. destruct (Nat.eq_dec j i) as [->|Hne].
  - rewrite upd_zone_same in H. injection H as <-. apply Hf. destruct (k_zones k i) as [z|]; [left; reflexivity | right; split; reflexivity].
  - rewrite upd_zone_other in H by exact Hne. apply S1; exact H.
Qed.
Lemma upd_zone_le k i f : (forall kz, zle kz (f kz)) -> le k (upd_zone k i f).
Proof.
  intros Hf. constructor; cbn [upd_zone k_dhw_sensor k_dhw_valve k_htg_valve k_app]; [| intros d H; exact H | intros d H; exact H | intros d H; exact H | intros d H; exact H].
  intros j kz H. destruct (Nat.eq_dec j i) as [->|Hne].
  - exists (f kz). rewrite upd_zone_same, H. split; [reflexivity | apply Hf].
  - exists kz. rewrite upd_zone_other by exact Hne. split; [exact H | apply zle_refl].
Qed.

(* ---- the pieces of learn ---- *)
Lemma set_cls_le c z : zle z (set_cls c z).
Proof. repeat split; cbn; auto; [intros c0 H; rewrite H; reflexivity | apply incl_refl]. Qed.
Lemma set_sensor_le d z : zle z (set_sensor d z).
Proof. repeat split; cbn; auto; [intros d0 H; rewrite H; reflexivity | apply incl_refl]. Qed.

Lemma add_acts_spec l : forall a x, In x (fold_left (fun a d => if mem d a then a else a ++ [d]) l a) <-> In x a \/ In x l.
Proof.
  induction l as [|d l IH]; intros a x; cbn [fold_left].
  - split; [intros H; left; exact H | intros [H|[]]; exact H].
  - rewrite IH. destruct (mem d a) eqn:E.
    + split; [intros [H|H]; [left; exact H | right; right; exact H] | intros [H|[<-|H]]; [left; exact H | | right; exact H]].
      left. unfold mem in E. apply existsb_exists in E as (y & Hy & Ey). apply Nat.eqb_eq in Ey. subst. exact Hy.
    + rewrite in_app_iff. cbn. split.
      * intros [[H|[<-|[]]]|H]; [left; exact H | right; left; reflexivity | right; right; exact H].
      * intros [H|[<-|H]]; [left; left; exact H | left; right; left; reflexivity | right; exact H].
Qed.
Lemma add_acts_le l z : zle z (add_acts l z).
Proof. repeat split; cbn; auto. intros x Hx. apply add_acts_spec. left; exact Hx. Qed.
Lemma add_acts_in l z x : In x (kz_acts (add_acts l z)) <-> In x (kz_acts z) \/ In x l.
Proof. cbn. apply add_acts_spec. Qed.

Lemma zmask_in g p i : In i (zmask g p) <-> i < N /\ exists z, c_zones g i = Some z /\ p z = true.
Proof.
  unfold zmask. rewrite filter_In, in_seq. split.
  - intros [H1 H2]. split; [lia|]. destruct (c_zones g i) as [z|]; [exists z; split; [reflexivity | exact H2] | discriminate].
  - intros [H1 (z & Hz & Hp)]. split; [lia|]. rewrite Hz. exact Hp.
Qed.
Lemma cls_eqb_eq a b : cls_eqb a b = true <-> a = b.
Proof. destruct a, b; cbn; split; intros H; try discriminate; reflexivity. Qed.

(* a fold of zone updates over a list of indexes *)
Lemma fold_upd_sound g f l : forall k, sound g k ->
  (forall i kz, In i l -> (exists cz, c_zones g i = Some cz) -> zsound g i kz -> zsound g i (f kz)) ->
  (forall i, In i l -> exists cz, c_zones g i = Some cz) ->
  sound g (fold_left (fun k i => upd_zone k i f) l k).
Proof.
  induction l as [|i l IH]; intros k Hs Hf Hin; [exact Hs|]. cbn [fold_left]. apply IH.
  - apply upd_zone_sound; [exact Hs|]. intros kz [Hk|[Hk ->]].
    + apply Hf; [left; reflexivity | apply Hin; left; reflexivity | apply (s_zones g k Hs i kz Hk)].
    + destruct (Hin i (or_introl eq_refl)) as [cz Hcz]. apply Hf; [left; reflexivity | exists cz; exact Hcz | apply (zsound_empty g i cz Hcz)].
  - intros j kz Hj. apply Hf. right; exact Hj.
  - intros j Hj. apply Hin. right; exact Hj.
Qed.
Lemma fold_upd_le f l : (forall kz, zle kz (f kz)) -> forall k, le k (fold_left (fun k i => upd_zone k i f) l k).
Proof.
  intros Hf. induction l as [|i l IH]; intros k; [apply le_refl|]. cbn [fold_left].
  eapply le_trans; [apply upd_zone_le; exact Hf | apply IH].
Qed.
Lemma fold_upd_has f l : forall k i, In i l -> (forall kz, zle kz (f kz)) ->
  exists kz0 kz, k_zones (fold_left (fun k i => upd_zone k i f) l k) i = Some kz /\ zle (f kz0) kz.
Proof.
  induction l as [|j l IH]; intros k i Hin Hf; [contradiction|]. cbn [fold_left].
  destruct (in_dec Nat.eq_dec i l) as [Hl|Hl]; [apply IH; assumption|].
  destruct Hin as [->|Hin]; [|contradiction].
  pose proof (fold_upd_le f l Hf (upd_zone k i f)) as [L _ _ _ _].
  destruct (L i _ (upd_zone_same k i f)) as (kz' & H1 & H2). eexists; exists kz'. split; [exact H1 | exact H2].
Qed.

(* ---- learning from a conforming controller's reply is sound, and never loses anything ---- *)
Lemma first_set_le o l : ole o (first_set o l).
Proof. intros d H. subst o. reflexivity. Qed.
Lemma first_set_sound o c : osound o c -> osound (first_set o (olist c)) c.
Proof.
  intros Hs d H. destruct o as [x|]; [apply Hs; exact H|]. destruct c as [y|]; cbn in H; [exact H | discriminate].
Qed.

Theorem learn_le : forall k q r, le k (learn k q r).
Proof.
  intros k q r. destruct q as [c| |i ro|i| | | |], r as [l|l]; cbn [learn]; try apply le_refl.
  - apply fold_upd_le. apply set_cls_le.
  - apply fold_upd_le. intros kz; apply zle_refl.
  - destruct l as [|d l]; [apply le_refl|]. apply upd_zone_le. intros kz. destruct ro as [c|].
    + eapply zle_trans; [apply add_acts_le | apply set_cls_le].
    + apply add_acts_le.
  - destruct l as [|d l]; [apply le_refl|]. apply upd_zone_le. intros kz. apply set_sensor_le.
  - constructor; cbn; try (intros d H; exact H); [intros i kz H; exists kz; split; [exact H | apply zle_refl] | apply first_set_le].
  - constructor; cbn; try (intros d H; exact H); [intros i kz H; exists kz; split; [exact H | apply zle_refl] | apply first_set_le].
  - constructor; cbn; try (intros d H; exact H); [intros i kz H; exists kz; split; [exact H | apply zle_refl] | apply first_set_le].
  - constructor; cbn; try (intros d H; exact H); [intros i kz H; exists kz; split; [exact H | apply zle_refl] | apply first_set_le].
Qed.

Theorem learn_sound : forall g k q, sound g k -> sound g (learn k q (reply g q)).
Proof.
  intros g k q Hs. destruct q as [c| |i ro|i| | | |]; cbn [learn reply].
  - apply fold_upd_sound; [exact Hs | |].
    + intros i kz Hin _ (cz & Hcz & H1 & H2 & H3). apply zmask_in in Hin as (_ & z & Hz & Hp). apply cls_eqb_eq in Hp.
      exists cz. split; [exact Hcz|]. repeat split; cbn; auto.
      intros c0 H. destruct (kz_cls kz) as [c1|] eqn:E; [apply H1; exact H|]. injection H as <-. congruence.
    + intros i Hin. apply zmask_in in Hin as (_ & z & Hz & _). exists z; exact Hz.
  - apply fold_upd_sound; [exact Hs | |].
    + intros i kz _ _ H. exact H.
    + intros i Hin. apply zmask_in in Hin as (_ & z & Hz & _). exists z; exact Hz.
  - destruct (c_zones g i) as [z|] eqn:Ez; [|exact Hs].
    set (l := match ro with None => cz_acts z | Some c => if cls_eqb (cz_cls z) c then cz_acts z else [] end).
    assert (Hl : incl l (cz_acts z)) by (unfold l; destruct ro as [c|]; [destruct (cls_eqb (cz_cls z) c); [apply incl_refl | intros x []] | apply incl_refl]).
    destruct l as [|d l'] eqn:El; [exact Hs|]. rewrite <- El.
    apply upd_zone_sound; [exact Hs|]. intros kz Hk.
    assert (Hz : zsound g i kz).
    { destruct Hk as [Hk|[_ ->]]; [apply (s_zones g k Hs i kz Hk) | apply (zsound_empty g i z Ez)]. }
    destruct Hz as (cz & Hcz & H1 & H2 & H3). rewrite Ez in Hcz. injection Hcz as <-.
    assert (Ha : zsound g i (add_acts l kz)).
    { exists z. split; [exact Ez|]. repeat split; cbn [add_acts kz_cls kz_sensor]; auto.
      intros x Hx. apply add_acts_in in Hx as [Hx|Hx]; [apply H3; exact Hx | apply Hl; rewrite <- El; exact Hx]. }
    destruct ro as [c|]; [|exact Ha].
    destruct Ha as (cz & Hcz & A1 & A2 & A3). exists cz. split; [exact Hcz|]. repeat split; cbn; auto.
    intros c0 H. cbn in A1. destruct (kz_cls kz) as [c1|] eqn:E; [apply A1; exact H|]. injection H as <-.
    rewrite Ez in Hcz. injection Hcz as <-. unfold l in El. destruct (cls_eqb (cz_cls z) c) eqn:Ec; [apply cls_eqb_eq in Ec; congruence | discriminate].
  - destruct (c_zones g i) as [z|] eqn:Ez; [|exact Hs]. destruct (cz_sensor z) as [d|] eqn:Ed; cbn [olist]; [|exact Hs].
    apply upd_zone_sound; [exact Hs|]. intros kz Hk.
    assert (Hz : zsound g i kz).
    { destruct Hk as [Hk|[_ ->]]; [apply (s_zones g k Hs i kz Hk) | apply (zsound_empty g i z Ez)]. }
    destruct Hz as (cz & Hcz & H1 & H2 & H3). exists cz. split; [exact Hcz|]. repeat split; cbn; auto.
    intros d0 H. destruct (kz_sensor kz) as [d1|] eqn:E; [apply H2; exact H|]. injection H as <-. congruence.
  - destruct Hs as [S1 S2 S3 S4 S5]. constructor; cbn; auto. apply first_set_sound; exact S2.
  - destruct Hs as [S1 S2 S3 S4 S5]. constructor; cbn; auto. apply first_set_sound; exact S3.
  - destruct Hs as [S1 S2 S3 S4 S5]. constructor; cbn; auto. apply first_set_sound; exact S4.
  - destruct Hs as [S1 S2 S3 S4 S5]. constructor; cbn; auto. apply first_set_sound; exact S5.
Qed.

(* ---- what answering a request establishes (and keeps established as more is learnt) ---- *)
Definition established (g : cfg) (q : rq) (k : known) : Prop :=
  match q with
  | RqZones c => forall i cz, c_zones g i = Some cz -> i < N -> cz_cls cz = c ->
                   exists kz, k_zones k i = Some kz /\ exists c', kz_cls kz = Some c'
  | RqSensors => True
  | RqZoneAct i ro => forall cz d, c_zones g i = Some cz -> (ro = None \/ ro = Some (cz_cls cz)) -> In d (cz_acts cz) ->
                   exists kz, k_zones k i = Some kz /\ In d (kz_acts kz)
  | RqZoneSen i => forall cz d, c_zones g i = Some cz -> cz_sensor cz = Some d ->
                   exists kz, k_zones k i = Some kz /\ exists d', kz_sensor kz = Some d'
  | RqDhwSensor => forall d, c_dhw_sensor g = Some d -> exists d', k_dhw_sensor k = Some d'
  | RqDhwValve => forall d, c_dhw_valve g = Some d -> exists d', k_dhw_valve k = Some d'
  | RqHtgValve => forall d, c_htg_valve g = Some d -> exists d', k_htg_valve k = Some d'
  | RqApp => forall d, c_app g = Some d -> exists d', k_app k = Some d'
  end.

Lemma established_mono g q k k' : le k k' -> established g q k -> established g q k'.
Proof.
  intros [L1 L2 L3 L4 L5] H. destruct q as [c| |i ro|i| | | |]; cbn [established] in *; auto.
  - intros i cz Hz Hi Hc. destruct (H i cz Hz Hi Hc) as (kz & Hk & c' & Hc'). destruct (L1 i kz Hk) as (kz' & Hk' & (Z1 & _ & _)).
    exists kz'; split; [exact Hk' | exists c'; apply Z1; exact Hc'].
  - intros cz d Hz Hr Hd. destruct (H cz d Hz Hr Hd) as (kz & Hk & Hin). destruct (L1 i kz Hk) as (kz' & Hk' & (_ & _ & Z3)).
    exists kz'; split; [exact Hk' | apply Z3; exact Hin].
  - intros cz d Hz Hd. destruct (H cz d Hz Hd) as (kz & Hk & d' & Hd'). destruct (L1 i kz Hk) as (kz' & Hk' & (_ & Z2 & _)).
    exists kz'; split; [exact Hk' | exists d'; apply Z2; exact Hd'].
  - intros d Hd. destruct (H d Hd) as (d' & Hd'). exists d'. apply L2; exact Hd'.
  - intros d Hd. destruct (H d Hd) as (d' & Hd'). exists d'. apply L3; exact Hd'.
  - intros d Hd. destruct (H d Hd) as (d' & Hd'). exists d'. apply L4; exact Hd'.
  - intros d Hd. destruct (H d Hd) as (d' & Hd'). exists d'. apply L5; exact Hd'.
Qed.

Lemma learn_establishes g k q : established g q (learn k q (reply g q)).
Proof.
  destruct q as [c| |i ro|i| | | |]; cbn [established learn reply]; auto.
  - intros i cz Hz Hi Hc.
    assert (Hin : In i (zmask g (fun z => cls_eqb (cz_cls z) c))).
    { apply zmask_in. split; [exact Hi|]. exists cz. split; [exact Hz | apply cls_eqb_eq; exact Hc]. }
    destruct (fold_upd_has (set_cls c) _ k i Hin (set_cls_le c)) as (kz0 & kz & Hk & (Z1 & _ & _)).
    exists kz. split; [exact Hk|]. cbn in Z1. destruct (kz_cls kz0) as [c0|]; [exists c0 | exists c]; apply Z1; reflexivity.
  - intros cz d Hz Hr Hd. rewrite Hz.
    assert (El : match ro with None => cz_acts cz | Some c => if cls_eqb (cz_cls cz) c then cz_acts cz else [] end = cz_acts cz).
    { destruct Hr as [->| ->]; [reflexivity|]. assert (E : cls_eqb (cz_cls cz) (cz_cls cz) = true) by (apply cls_eqb_eq; reflexivity). rewrite E. reflexivity. }
    rewrite El. destruct (cz_acts cz) as [|a l] eqn:Ea; [contradiction|]. rewrite <- Ea in *.
    eexists. split; [apply upd_zone_same|]. destruct ro as [c|]; cbn [set_cls kz_acts]; apply add_acts_in; right; exact Hd.
  - intros cz d Hz Hd. rewrite Hz, Hd. cbn [olist]. eexists. split; [apply upd_zone_same|]. cbn.
    destruct (kz_sensor _) as [d0|]; [exists d0 | exists d]; reflexivity.
  - intros d Hd. rewrite Hd. cbn. destruct (k_dhw_sensor k) as [x|]; eexists; reflexivity.
  - intros d Hd. rewrite Hd. cbn. destruct (k_dhw_valve k) as [x|]; eexists; reflexivity.
  - intros d Hd. rewrite Hd. cbn. destruct (k_htg_valve k) as [x|]; eexists; reflexivity.
  - intros d Hd. rewrite Hd. cbn. destruct (k_app k) as [x|]; eexists; reflexivity.
Qed.

(* ---- one round ---- *)
Lemma fold_round (g : cfg) (lost : rq -> bool) : forall (L : list rq) (k : known), sound g k ->
  let k' := fold_left (fun (k : known) (q : rq) => if lost q then k else learn k q (reply g q)) L k in
  sound g k' /\ le k k' /\ (forall q, In q L -> lost q = false -> established g q k').
Proof.
  induction L as [|q L IH]; intros k Hs; cbn [fold_left].
  - split; [exact Hs | split; [apply le_refl | intros q []]].
  - set (k1 := if lost q then k else learn k q (reply g q)).
    assert (Hs1 : sound g k1) by (unfold k1; destruct (lost q); [exact Hs | apply learn_sound; exact Hs]).
    assert (Hl1 : le k k1) by (unfold k1; destruct (lost q); [apply le_refl | apply learn_le]).
    destruct (IH k1 Hs1) as (A & B & C). split; [exact A | split; [eapply le_trans; eauto |]].
    intros q' [<-|Hin] Hlost; [|apply C; assumption].
    apply (established_mono g q k1 _ B). unfold k1. rewrite Hlost. apply learn_establishes.
Qed.

Theorem round_sound g lost k : sound g k -> sound g (round g lost k) /\ le k (round g lost k).
Proof. intros Hs. destruct (fold_round g lost (requests k) k Hs) as (A & B & _). split; assumption. Qed.

Theorem rounds_sound g losses : forall k, sound g k -> sound g (rounds g losses k) /\ le k (rounds g losses k).
Proof.
  induction losses as [|lost ls IH]; intros k Hs; [split; [exact Hs | apply le_refl]|].
  cbn [rounds fold_left]. destruct (round_sound g lost k Hs) as [A B]. destruct (IH _ A) as [C D].
  split; [exact C | eapply le_trans; eauto].
Qed.

Lemma k0_sound g : sound g k0.
Proof. constructor; cbn; [intros i kz H; discriminate | | | |]; intros d H; discriminate. Qed.

Lemma in_requests_zone k i z : i < N -> k_zones k i = Some z ->
  In (RqZoneAct i (kz_cls z)) (requests k) /\ In (RqZoneSen i) (requests k).
Proof.
  intros Hi Hz. unfold requests. split; apply in_or_app; right; apply in_flat_map; exists i;
    (split; [apply in_seq; lia | rewrite Hz; cbn; auto]).
Qed.

(* after one loss-free round every zone of the configuration is known with its class, and the DHW parts and
   the appliance control are known *)
Lemma after_one_round g k : wf g -> sound g k ->
  let k1 := round g no_loss k in
  sound g k1 /\
  (forall i cz, c_zones g i = Some cz -> exists kz, k_zones k1 i = Some kz /\ kz_cls kz = Some (cz_cls cz)) /\
  k_dhw_sensor k1 = c_dhw_sensor g /\ k_dhw_valve k1 = c_dhw_valve g /\ k_htg_valve k1 = c_htg_valve g /\ k_app k1 = c_app g.
Proof.
  intros Hwf Hs. destruct (fold_round g no_loss (requests k) k Hs) as (A & B & C). fold (round g no_loss k) in A, B, C.
  set (k1 := round g no_loss k) in *.
  assert (Hreq : forall q, In q [RqApp; RqDhwValve; RqHtgValve; RqZones RAD; RqZones VAL; RqZones MIX; RqZones ELE; RqSensors; RqDhwSensor] -> established g q k1).
  { intros q Hq. apply C; [unfold requests; apply in_or_app; left; exact Hq | reflexivity]. }
  assert (Hopt : forall (ko co : option nat), osound ko co -> (forall d, co = Some d -> exists d', ko = Some d') -> ko = co).
  { intros ko co Hso He. destruct co as [d|].
    - destruct (He d eq_refl) as (d' & Hd'). rewrite Hd'. symmetry. apply Hso. exact Hd'.
    - destruct ko as [x|]; [specialize (Hso x eq_refl); discriminate | reflexivity]. }
  split; [exact A|]. split.
  - intros i cz Hz. assert (Hq : In (RqZones (cz_cls cz)) [RqApp; RqDhwValve; RqHtgValve; RqZones RAD; RqZones VAL; RqZones MIX; RqZones ELE; RqSensors; RqDhwSensor])
      by (destruct (cz_cls cz); cbn; auto 10).
    pose proof (Hreq _ Hq) as E. cbn [established] in E. destruct (E i cz Hz (Hwf i cz Hz) eq_refl) as (kz & Hk & c' & Hc').
    exists kz. split; [exact Hk|]. destruct (s_zones g k1 A i kz Hk) as (cz' & Hz' & S1 & _). rewrite Hz in Hz'. injection Hz' as <-.
    rewrite Hc'. f_equal. apply S1. exact Hc'.
  - destruct A as [S1 S2 S3 S4 S5]. repeat split.
    + apply Hopt; [exact S2|]. apply (Hreq RqDhwSensor). cbn; auto 10.
    + apply Hopt; [exact S3|]. apply (Hreq RqDhwValve). cbn; auto 10.
    + apply Hopt; [exact S4|]. apply (Hreq RqHtgValve). cbn; auto 10.
    + apply Hopt; [exact S5|]. apply (Hreq RqApp). cbn; auto 10.
Qed.

(* from ANY sound state of knowledge, two loss-free rounds reconstruct the configuration *)
Theorem two_rounds_complete g k : wf g -> sound g k ->
  sound g (round g no_loss (round g no_loss k)) /\ complete g (round g no_loss (round g no_loss k)).
Proof.
  intros Hwf Hs. destruct (after_one_round g k Hwf Hs) as (A1 & Z1 & P1 & P2 & P3 & P4).
  set (k1 := round g no_loss k) in *.
  destruct (fold_round g no_loss (requests k1) k1 A1) as (A2 & B2 & C2). fold (round g no_loss k1) in A2, B2, C2.
  set (k2 := round g no_loss k1) in *. split; [exact A2|].
  destruct B2 as [L1 L2 L3 L4 L5]. pose proof A2 as [S1 S2 S3 S4 S5].
  assert (Hopt : forall (k1o k2o co : option nat), k1o = co -> ole k1o k2o -> osound k2o co -> k2o = co).
  { intros a b c -> Hle Hso. destruct c as [d|]; [apply Hle; reflexivity | destruct b as [x|]; [specialize (Hso x eq_refl); discriminate | reflexivity]]. }
  constructor; [| eapply Hopt; eauto | eapply Hopt; eauto | eapply Hopt; eauto | eapply Hopt; eauto].
  intros i cz Hz. destruct (Z1 i cz Hz) as (kz1 & Hk1 & Hc1). pose proof (Hwf i cz Hz) as Hi.
  destruct (in_requests_zone k1 i kz1 Hi Hk1) as [Ra Rs]. rewrite Hc1 in Ra.
  destruct (L1 i kz1 Hk1) as (kz2 & Hk2 & (Z2c & _ & _)).
  destruct (S1 i kz2 Hk2) as (cz' & Hz' & T1 & T2 & T3). rewrite Hz in Hz'. injection Hz' as <-.
  exists kz2. split; [exact Hk2|]. split; [apply Z2c; exact Hc1|]. split.
  - destruct (cz_sensor cz) as [d|] eqn:Ed.
    + pose proof (C2 _ Rs eq_refl) as E. cbn [established] in E. destruct (E cz d Hz Ed) as (kz & Hk & d' & Hd').
      rewrite Hk2 in Hk. injection Hk as <-. rewrite Hd'. symmetry. apply T2. exact Hd'.
    + destruct (kz_sensor kz2) as [x|] eqn:Ex; [specialize (T2 x eq_refl); discriminate | reflexivity].
  - intros d Hd. pose proof (C2 _ Ra eq_refl) as E. cbn [established] in E.
    destruct (E cz d Hz (or_intror eq_refl) Hd) as (kz & Hk & Hin). rewrite Hk2 in Hk. injection Hk as <-. exact Hin.
Qed.

(* lost requests or replies only delay: whatever was lost during any number of earlier rounds, nothing wrong was
   learnt, nothing learnt was lost, and two loss-free rounds later the configuration is reconstructed *)
Theorem loss_only_delays g losses : wf g ->
  let k := rounds g (losses ++ [no_loss; no_loss]) k0 in sound g k /\ complete g k.
Proof.
  intros Hwf. unfold rounds. rewrite fold_left_app. cbn [fold_left].
  destruct (rounds_sound g losses k0 (k0_sound g)) as [Hs _]. apply two_rounds_complete; assumption.
Qed.

(* non-vacuity: a configuration, the first round's replies all lost, then two rounds *)
Definition ex_cfg : cfg :=
  mkCfg (fun i => match i with 1 => Some (mkCz RAD (Some 21) [22; 23]) | 4 => Some (mkCz ELE None [24]) | 9 => Some (mkCz MIX (Some 1) []) | _ => None end)
        (Some 30) None (Some 31) (Some 32).
Example ex_discovery :
  let k := rounds ex_cfg [fun _ => true; no_loss; no_loss] k0 in
  k_zones k 1 = Some (mkKz (Some RAD) (Some 21) [22; 23]) /\ k_zones k 4 = Some (mkKz (Some ELE) None [24]) /\
  k_zones k 9 = Some (mkKz (Some MIX) (Some 1) []) /\ k_zones k 0 = None /\ k_dhw_sensor k = Some 30 /\ k_app k = Some 32 /\
  k_zones (rounds ex_cfg [no_loss] k0) 1 = Some (mkKz (Some RAD) None []).
Proof. vm_compute. repeat split; reflexivity. Qed.
Example ex_cfg_wf : wf ex_cfg.
Proof. intros i cz H. unfold N. destruct i as [|[|[|[|[|[|[|[|[|[|i]]]]]]]]]]; cbn in H; try discriminate; lia. Qed.
