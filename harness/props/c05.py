"""C05 -- decoded payloads are JSON-able, deterministic, element-wise and index-consistent.

Coq: an array payload is the list of its elements for any element decoder (and the translator checks on every run that
each array-capable parser IS such a comprehension over whole elements of the regenerated length); the index a packet is
filed under is carried in its frame; the ranges of the wire decoders by exhaustive sweeps.  Tie: the model's temperature
arrays vs parser_30c9 / parser_2309 element by element (bit-exact), the regenerated element lengths vs the decoder.
Oracle: the statement on the real decoder for regex-generated payloads of every code: JSON-able, the same in any decode
order and on repetition, arrays of 1..8 elements vs their elements, indexes vs the frame, ranges."""

from __future__ import annotations

import datetime as _dt
import json
import logging
import re

from .. import common
from ..common import Ctx
from ..regen import gen
from .c04 import float_code

THEOREMS = ["C05_array_elementwise", "C05_array_index", "C05_elem_chars_positive", "C05_idx_from_frame", "C05_temp_range", "C05_ratio_range",
            "C05_zone_mode_setpoint_in_range", "C05_zone_config_temps_in_range", "C05_zone_mode_ignores_idx"]

PRELUDE = ("From Coq Require Import ZArith String List Bool.\nFrom RV Require Import Py PyStr M_Codecs M_CodecsShow M_Payload.\nImport ListNotations.\nOpen Scope Z_scope.\n"
           "Set Printing Width 1000000.\nSet Printing Depth 1000000.\n"
           "Definition show (p : str * result tempv) : list Z := [match int16 (fst p) with Some z => z | None => -1 end; res_code tempv_code (snd p)].\n"
           "Definition arr (s : string) : list (list Z) := map show (decode_array elem_temp 6 (lit s)).\n")

D = _dt.datetime(2026, 1, 1, 12)
ARRAYS = {  # code: (element bytes, source device, element generator)
    "0009": (3, "01:145038", lambda r, i: f"{i:02X}" + r.choice(["00", "01"]) + r.choice(["00", "FF"])),
    "000A": (6, "01:145038", lambda r, i: f"{i:02X}" + r.choice(["00", "10", "13"]) + r.choice(["01F4", "0000"]) + r.choice(["0DAC", "0BB8"])),
    "2309": (3, "01:145038", lambda r, i: f"{i:02X}" + r.choice(["07D0", "7FFF", "7EFF", "01F4", "0000", f"{r.randrange(0, 0x0DAC):04X}"])),
    "30C9": (3, "01:145038", lambda r, i: f"{i:02X}" + r.choice(["07D0", "7FFF", "0834", "FF9C", "8000", "0000", "7EFF", "FFFF", "0001", f"{r.randrange(0, 65536):04X}"])),
    "2249": (7, "23:100224", lambda r, i: f"{i:02X}" + r.choice(["07D0", "7EFF"]) + r.choice(["0834", "7EFF"]) + f"{r.randrange(0, 65536):04X}"),
    "22C9": (6, "02:044328", lambda r, i: f"{i:02X}" + "01F40A28" + r.choice(["01", "02"])),
    "3150": (2, "02:044328", lambda r, i: f"{i:02X}" + r.choice(["00", "7A", "C8", "6A", "EF", f"{r.randrange(0, 201):02X}"])),
}
RATIO_KEYS = re.compile(r"(^|_)(demand|modulation_level|battery_level|humidity|fan_speed)$|^percent|_percent$|^percentage$", re.I)
TEMP_KEYS = re.compile(r"(^|_)(temperature|temperatures|temp|setpoint|setpoint_now|setpoint_next|setpoint_bounds)$", re.I)


def decode(line, dtm=D):
    from ramses_tx.message import Message  # noqa: PLC0415
    from ramses_tx.packet import Packet  # noqa: PLC0415

    return Message(Packet.from_port(dtm, line)).payload


def as_list(x):
    return x if isinstance(x, list) else [x]


def tempv_code(v) -> int:
    if v is None:
        return 1
    if v is False:
        return 2
    return 3 + 4 * float_code(float(v))


def walk(x, path=()):
    if isinstance(x, dict):
        for k, v in x.items():
            yield from walk(v, path + (str(k),))
    elif isinstance(x, list | tuple):
        for i, v in enumerate(x):
            yield from walk(v, path + (str(i),))
    else:
        yield path, x


def run(ctx: Ctx) -> None:
    logging.disable(logging.CRITICAL)
    from ramses_tx.ramses import CODES_SCHEMA, CODES_WITH_ARRAYS  # noqa: PLC0415

    thorough = ctx.tier == "thorough"
    rng = ctx.rng
    ctx.rule = ("(a) arrays of 1..8 elements of the seven array-capable per-zone codes (element values incl. sentinels and random words) vs the decode of each element "
                "on its own, in order, and the index each element reports vs its own first byte; 30C9/2309 arrays bit-exact against the model's decode_array; "
                "(b) payloads generated from the per-verb/code regex of EVERY known code (lowest/highest/random modes), three address shapes: the decoded payload is "
                "JSON-serialisable, identical when decoded again, after other packets, and in the reverse order; any zone_idx/domain_id/ufh_idx it reports is the one in "
                "the frame; ratios within 0..1 and temperatures within the wire range; (c) byte sweep: one real-world packet (the repository's parser logs, plus decodable generated ones) "
                "per (code, verb, length) that carries a ratio or a temperature, every byte set to boundary values (00 01 32 63 64 65 7E 7F 80 C7 C8 C9 EE EF F0 FE FF + random; all 256 "
                "in the thorough tier), same range checks; (a') hex_to_percent (both resolutions) and hex_to_temp against the model over their whole domains; "
                "non-trivial = the packet decoded; distinct = by frame")
    ctx.assumptions += ["per-element decoding inside the ~109 parsers is not modelled beyond the two temperature arrays; the element-wise theorem is for any element decoder, and "
                        "its tie to the code is the translator's shape check of the array branch of each parser",
                        "which keys hold ratios / temperatures is decided by name (…_demand, modulation_level, battery_level, …_humidity, …_fan_speed, percent… / temperature(s), …_temp, setpoint…)"]
    built = ctx.build("C05", THEOREMS)

    # (a) arrays vs elements
    coq_cases, impl_rows = [], []
    # ... from the device that normally broadcasts them AND from devices of every other type in the same (self-addressed) shape: whether a
    # payload is an array is decided by verb, code and length, not by who sent it (a programmer or a thermostat relaying a controller's array)
    other_types = ["01", "02", "03", "04", "07", "10", "13", "18", "23", "30", "34"]
    for code, (n, src0, g) in ARRAYS.items():
      for src in [src0] + [f"{t}:1{int(t):02d}999" for t in other_types if t != src0[:2]]:
        for k in (1, 2, 3, 4, 5, 8):
            for rep in range((40 if thorough else 5) if src == src0 else 2):
                idxs = rng.sample(range(0, 8), k)
                # an element of another alternative of the code's regex (3150: the FC domain among zones), anywhere in the array: always once per
                # sender and length (first, then last), otherwise at random; what the regex does not admit is skipped below
                if rep < 2:
                    idxs[0 if rep == 0 else -1] = 0xFC
                elif rng.random() < 0.4:
                    idxs[rng.randrange(k)] = rng.choice([0xFC, 0xFC, 0xF9, 0xFA, 0x0B, 0x0F])
                es = [g(rng, i) for i in idxs]
                line = f"045  I --- {src} --:------ {src} {code} {len(es) * n:03d} {''.join(es)}"
                ctx.case(("array", line), True, f"array:{code}:{k}")
                if len(es) * n > 48 or not re.match(CODES_SCHEMA[code][" I"], "".join(es)):
                    continue          # not a payload the schema regex accepts (e.g. at most 2 x 2249, 4 x 22C9)
                singles = []
                for e in es:          # each element on its own, as the device that normally reports it sends it
                    try:
                        singles.append(decode(f"045  I --- {src0} --:------ {src0} {code} {n:03d} {e}"))
                    except Exception as err:  # noqa: BLE001
                        singles.append(("EXC", type(err).__name__))
                try:
                    arr = decode(line)
                except Exception as err:  # noqa: BLE001
                    if src != src0:
                        continue          # the library may refuse an array from an unusual sender; what it does decode must be element-wise
                    if not any(isinstance(x, tuple) for x in singles):     # every element decodes on its own, the array does not
                        ctx.violation(f"array-not-decodable-though-its-elements-are:{code}:{type(err).__name__}", f"{line}: {err}", {"line": line}, "input")
                    continue
                if src != src0 and k == 1:
                    continue          # one element from an unusual sender is not an array (and what its first byte means depends on the sender)
                if any(isinstance(x, tuple) for x in singles):
                    ctx.violation(f"array-decodes-though-an-element-does-not:{code}", f"{line} decodes, but one of its elements on its own does not: {singles}", {"line": line}, "input")
                    continue
                flat = [x for s in singles for x in as_list(s)]
                if k > 1 and (not isinstance(arr, list) or len(arr) != k):
                    ctx.violation(f"array-is-not-a-list-of-its-elements:{code}", f"{line} decodes to {str(arr)[:300]}", {"line": line, "decoded": str(arr)}, "input")
                    continue
                def norm(ds):         # the name of the index key is the sender's business (zone_idx / ufx_idx / domain_id), its value is the frame's
                    if src == src0:
                        return ds
                    return [{("idx" if kk in ("zone_idx", "domain_id", "ufh_idx", "ufx_idx") else kk): vv for kk, vv in d.items()} if isinstance(d, dict) else d for d in ds]
                if json.dumps(norm(as_list(arr)), sort_keys=True, default=str) != json.dumps(norm(flat), sort_keys=True, default=str):
                    ctx.violation(f"array-differs-from-its-elements:{code}", f"{line}: array {str(as_list(arr))[:300]} vs elements {str(flat)[:300]}",
                                  {"line": line, "array": str(arr), "elements": str(flat)}, "input")
                for e, d in zip(es, as_list(arr)):
                    got = next((d[kk] for kk in ("zone_idx", "domain_id", "ufh_idx", "ufx_idx") if isinstance(d, dict) and kk in d), None)
                    if got is not None and got != e[:2]:
                        ctx.violation(f"element-reports-another-index:{code}", f"{line}: element {e} reports index {got}", {"line": line}, "input")
                if code in ("30C9", "2309") and isinstance(arr, list):
                    key = "temperature" if code == "30C9" else "setpoint"
                    coq_cases.append(f'arr "{"".join(es)}"')
                    impl_rows.append([[int(d["zone_idx"], 16), 16 * tempv_code(d[key])] for d in arr])
    if built:
        res = common.coq_eval("C05", {"x": PRELUDE + "".join(f"Eval vm_compute in ({c}).\n" for c in coq_cases)
                                      + "Eval vm_compute in (map (fun p => [fst p; snd p]) GenTables.ARRAY_ELEM_CHARS).\n"}, timeout=600)
        rc, out = res["x"]
        got = [eval(o.replace(";", ","), {"__builtins__": {}}) for o in re.findall(r"=\s*(\[.*?\])\s*:\s*list \(list Z\)", out, flags=re.S)]  # noqa: S307
        if rc or len(got) != len(impl_rows) + 1:
            ctx.obligation("correspondence:temperature-arrays", False, "correspondence", f"rc={rc} {len(got)} results for {len(impl_rows) + 1}: {out[-300:]}")
        else:
            bad = [(c, g, m) for c, g, m in zip(coq_cases, got, impl_rows) if [list(x) for x in g] != m]
            ctx.obligation("correspondence:temperature-arrays", not bad, "correspondence",
                           f"{len(bad)} of {len(impl_rows)} differ; first: {bad[0][0]} model {bad[0][1]} implementation {bad[0][2]}" if bad else f"{len(impl_rows)} 30C9/2309 arrays agree bit for bit")
            want = sorted([int(str(c), 16), 2 * int(v[0])] for c, v in CODES_WITH_ARRAYS.items())
            ctx.obligation("correspondence:element-lengths", sorted(list(x) for x in got[-1]) == want, "correspondence", f"model {got[-1]} decoder {want}")
    else:
        ctx.obligation("correspondence:temperature-arrays", False, "correspondence", "model not built")
        ctx.obligation("correspondence:element-lengths", False, "correspondence", "model not built")

    # (a') the two decoders the range theorems are about, over their WHOLE domains (both percent resolutions, all 65 536 temperature words)
    import ramses_tx.helpers as H  # noqa: PLC0415

    from . import c04  # noqa: PLC0415

    codes = c04.impl_codes(H)
    suites = {"pct_hi": ("blocks (pct_code true) 1 256", c04.block_hashes(lambda b: codes["pct"](True, b), 1, 256)),
              "pct_lo": ("blocks (pct_code false) 1 256", c04.block_hashes(lambda b: codes["pct"](False, b), 1, 256)),
              "temp_words": ("blocks temp_code 256 256", c04.block_hashes(codes["temp"], 256, 256))}
    if built:
        res = common.coq_eval("C05c", {n: c04.PRELUDE + f"Eval vm_compute in ({e})." for n, (e, _) in suites.items()}, timeout=600)
        for n, (e, impl) in suites.items():
            rc, out = res[n]
            model = c04.parse_zlist(out) if rc == 0 else []
            bad = [i for i, (a, b) in enumerate(zip(model, impl)) if a != b]
            detail = ""
            if rc or bad or len(model) != len(impl):
                detail = f"rc={rc}; {len(bad)} of {len(impl)} blocks of 256 inputs differ (first block {bad[:1]})"
                if n.startswith("pct"):
                    hr = n == "pct_hi"
                    outs = {f"{b:02X}": c04.call(H.hex_to_percent, f"{b:02X}", hr) for b in range(256)}
                    wrong = {k: str(v[1]) for k, v in outs.items() if v[0] == "ok" and v[1] is not None and not 0.0 <= v[1] <= 1.0}
                    detail += f"; hex_to_percent(high_res={hr}) outside 0..1 for bytes {sorted(wrong)[:4]}..{sorted(wrong)[-1:]} ({len(wrong)} bytes)" if wrong else ""
            ctx.obligation(f"correspondence:decoder:{n}", not detail, "correspondence", detail)
            ctx.evaluations += len(impl) * 256
    else:
        for n in suites:
            ctx.obligation(f"correspondence:decoder:{n}", False, "correspondence", "model not built")

    parser_models(ctx, built, thorough)
    # (b) every code: JSON-able, deterministic, index-consistent, ranges
    devs = ["01:145038", "13:123456", "10:123456", "07:123456", "22:123456", "04:123456", "02:123456", "30:123456", "32:123456", "18:111111", "23:123456"]
    lines = []
    for code, d in sorted(CODES_SCHEMA.items()):
        for verb in (" I", "RQ", "RP", " W"):
            if verb not in d:
                continue
            for _ in range(60 if thorough else 6):
                pl = gen(d[verb], rng, mode=rng.choice(["rand", "rand", "lo", "hi", "rand-lo", "rand-hi"]))
                if len(pl) % 2 or not 2 <= len(pl) <= 96:
                    continue
                src, dst = rng.choice(devs), rng.choice(devs)
                if verb == " I" and rng.random() < 0.5:
                    a = f"{src} --:------ {src}"
                elif src == dst:
                    continue
                else:
                    a = f"{src} {dst} --:------"
                seqn = rng.choice(["---", "---", "---", "034", "127"])     # some packets carry a sequence number
                lines.append(f"045 {verb} {seqn} {a} {code} {len(pl) // 2:03d} {pl}")
    for code, (n, _src, g) in ARRAYS.items():          # the single-element forms of the array codes, from a zone device to its controller
        for i in range(4):
            lines.append(f"045  I --- 04:123456 --:------ 01:145038 {code} {n:03d} {g(rng, i)}")
            lines.append(f"045  I --- 22:123456 --:------ 01:145038 {code} {n:03d} {g(rng, i)}")
    for code, (n, _src, g) in ARRAYS.items():          # ... and arrays of two / three elements from senders no array comes from (a zone device, a stranger)
        for k in (2, 3):
            els = "".join(g(rng, i) for i in range(1, k + 1))
            lines.append(f"045  I --- 04:029390 --:------ 01:145038 {code} {k * n:03d} {els}")
            lines.append(f"045  I --- 30:123456 --:------ 30:123456 {code} {k * n:03d} {els}")
    lines.append("045  I --- 10:123456 13:123456 --:------ 0009 006 FA0000F900FF")       # the recorded finding's witness: an array sent to ANOTHER device
    # ONE packet object decoded again, decoded after its header / repr has been looked at, and a fresh object looked at first: the outcome (the payload,
    # or being refused) is the same each time -- nothing a packet memoises about itself changes what it decodes to
    from ramses_tx.message import Message  # noqa: PLC0415
    from ramses_tx.packet import Packet  # noqa: PLC0415

    def outcome(pkt):
        try:
            return json.dumps(Message(pkt).payload, sort_keys=True, default=str)
        except Exception as err:  # noqa: BLE001
            return "refused" if "Invalid" in type(err).__name__ else "EXC:" + type(err).__name__

    for ln in lines:
        try:
            pkt, pkt2 = Packet.from_port(D, ln), Packet.from_port(D, ln)
        except Exception:  # noqa: BLE001
            continue
        def look(p):
            for attr in ("__repr__", "_hdr", "_ctx", "_idx"):
                try:
                    _ = repr(p) if attr == "__repr__" else getattr(p, attr)
                except Exception:  # noqa: BLE001, S110
                    pass

        outs = [outcome(pkt), outcome(pkt)]
        look(pkt)
        outs.append(outcome(pkt))
        look(pkt2)
        outs.append(outcome(pkt2))
        if len(set(outs)) > 1:
            ctx.violation(f"decode-depends-on-what-the-packet-object-has-been-through:{ln.split()[6]}",
                          f"{ln}: first decode / second decode of the same object / after its header was looked at / a fresh object looked at first: {[o[:80] for o in outs]}",
                          {"line": ln, "outcomes": outs}, "history")
    first = {}
    for ln in lines:
        try:
            first[ln] = decode(ln)
        except Exception:  # noqa: BLE001
            first[ln] = None
    decodable = [ln for ln in lines if first[ln] is not None]
    order2 = list(reversed(decodable))
    second = {}
    for ln in order2 + decodable:          # again, in the reverse order, and once more in the original order
        try:
            second.setdefault(ln, []).append(decode(ln))
        except Exception as err:  # noqa: BLE001
            second.setdefault(ln, []).append(("EXC", type(err).__name__))
    # ... and once more with the WALL CLOCK somewhere else (7 h 13 min 5 s on, a different day for some): a payload is a function of the packet --
    # its text and its own timestamp -- not of when it happens to be decoded
    import sys  # noqa: PLC0415
    shifted = {}
    mods = [m for name, m in list(sys.modules.items()) if name.startswith(("ramses_tx", "ramses_rf")) and isinstance(getattr(m, "dt", None), type) and issubclass(m.dt, _dt.datetime)]
    saved_dt = [(m, m.dt) for m in mods]

    def shifted_clock(base):
        class Shifted(base):
            @classmethod
            def now(cls, tz=None):
                return base.now(tz) + _dt.timedelta(hours=7 + 24 * 40, minutes=13, seconds=5)
        return Shifted

    try:
        for m, base in saved_dt:
            m.dt = shifted_clock(base)
        for ln in decodable:
            try:
                shifted[ln] = decode(ln)
            except Exception as err:  # noqa: BLE001
                shifted[ln] = ("EXC", type(err).__name__)
    finally:
        for m, base in saved_dt:
            m.dt = base
    for ln in decodable:
        a, b = json.dumps(first[ln], sort_keys=True, default=str), json.dumps(shifted[ln], sort_keys=True, default=str)
        if a != b:
            ctx.violation(f"decode-depends-on-the-clock:{ln.split()[6]}", f"{ln} decoded to {a[:200]}, and with the wall clock 40 days 7 h 13 min 5 s on to {b[:200]}",
                          {"line": ln, "first": a, "with_the_clock_moved": b}, "history")
    for ln in lines:
        code = ln.split()[6]
        p = first[ln]
        ctx.case(("decode", ln), p is not None, f"decode:{ln.split()[1] if ln[4] != ' ' else 'I'}")
        if p is None:
            continue
        try:
            js = json.dumps(p, sort_keys=True)
        except (TypeError, ValueError) as err:
            bad_t = sorted({type(v).__name__ for _, v in walk(p) if not isinstance(v, str | int | float | bool | type(None))})
            ctx.violation(f"payload-not-json:{code}:{','.join(bad_t)}", f"{ln}: {err}", {"line": ln, "payload": str(p)[:500]}, "input")
            continue
        for again in second.get(ln, []):
            if json.dumps(again, sort_keys=True, default=str) != js:
                ctx.violation(f"decode-depends-on-history:{code}", f"{ln} decoded to {js[:200]} first and to {str(again)[:200]} after other packets / in another order",
                              {"line": ln, "first": js, "again": str(again)}, "history")
                break
        payload = ln.split()[-1]
        if "seqx_num" in js and " --- " in ln[:12]:
            ctx.violation(f"payload-carries-a-sequence-number-not-in-the-frame:{code}", f"{ln} decodes to {js[:200]}", {"line": ln, "payload": js[:400]}, "history")
        for d in as_list(p):
            if not isinstance(d, dict):
                continue
            for kk in ("zone_idx", "domain_id", "ufh_idx", "ufx_idx"):
                v = d.get(kk)
                if isinstance(v, str) and len(v) == 2 and v not in payload and v not in ("HW", "FC", "F9", "FA"):
                    ctx.violation(f"reported-index-not-in-frame:{code}:{kk}", f"{ln} reports {kk}={v}", {"line": ln, "payload": js[:400]}, "input")
        for path, v in walk(p):
            if isinstance(v, bool) or not isinstance(v, int | float) or not path:
                continue
            key = next((k for k in reversed(path) if not k.isdigit()), "")
            if RATIO_KEYS.search(key) and not 0.0 <= v <= 1.0 and "fault" not in key:
                ctx.violation(f"ratio-out-of-range:{code}:{key}={v}", f"{ln}: {key} = {v}", {"line": ln, "payload": js[:400]}, "input")
            if TEMP_KEYS.search(key) and not key.startswith("_") and isinstance(v, float) and not -273.15 <= v <= 327.67:
                ctx.violation(f"temperature-out-of-range:{code}:{key}", f"{ln}: {key} = {v}", {"line": ln, "payload": js[:400]}, "input")
    # ---- byte sweep around real-world packets: every byte of a decodable packet that carries a ratio or a temperature takes
    #      boundary values (all 256 in the thorough tier), so each numeric field is driven over its whole wire range
    import glob  # noqa: PLC0415
    import os  # noqa: PLC0415

    import ramses_tx  # noqa: PLC0415

    seeds = {}
    logs = sorted(glob.glob(os.path.join(os.path.dirname(os.path.dirname(os.path.dirname(ramses_tx.__file__))), "tests", "tests", "parsers", "*.log")))
    cand = []
    for path in logs:
        with open(path, encoding="utf-8") as fh:
            for raw in fh:
                m = re.match(r"^\d{4}-\d\d-\d\dT[\d:.]+ (\.\.\.|\d{3}) (.{2} (?:---|\d{3}) \S+ \S+ \S+ [0-9A-F]{4} \d{3} [0-9A-F]+)", raw)
                if m:
                    cand.append("045 " + m.group(2))
    cand += [ln for ln in decodable]
    for ln in cand:
        f = ln.split()
        key = (f[-3], ln[4:6], len(f[-1]))
        if len(seeds.get(key, [])) >= 1:
            continue
        try:
            p = decode(ln)
        except Exception:  # noqa: BLE001, S112
            continue
        if any((RATIO_KEYS.search(k) or TEMP_KEYS.search(k)) for path, v in walk(p) for k in path if not k.isdigit()):
            seeds.setdefault(key, []).append(ln)
    vals = list(range(256)) if thorough else [0x00, 0x01, 0x32, 0x63, 0x64, 0x65, 0x7E, 0x7F, 0x80, 0xC7, 0xC8, 0xC9, 0xE5, 0xE6, 0xE7, 0xEE, 0xEF, 0xF0, 0xFE, 0xFF, rng.randrange(256)]
    n_sweep = 0
    for key, lns in sorted(seeds.items()):
        for ln in lns:
            head, pl = ln.rsplit(" ", 1)
            for i in range(0, len(pl), 2):
                for b in vals:
                    alt = f"{head} {pl[:i]}{b:02X}{pl[i + 2:]}"
                    try:
                        p = decode(alt)
                    except Exception:  # noqa: BLE001, S112
                        continue
                    n_sweep += 1
                    for path, v in walk(p):
                        if isinstance(v, bool) or not isinstance(v, int | float) or not path:
                            continue
                        k = next((x for x in reversed(path) if not x.isdigit()), "")
                        if RATIO_KEYS.search(k) and not 0.0 <= v <= 1.0 and "fault" not in k:
                            ctx.violation(f"ratio-out-of-range:{key[0]}:{k}={v}", f"{alt}: {k} = {v}", {"line": alt, "payload": str(p)[:400], "swept_from": ln}, "input")
                        if TEMP_KEYS.search(k) and not k.startswith("_") and isinstance(v, float) and not -273.15 <= v <= 327.67:
                            ctx.violation(f"temperature-out-of-range:{key[0]}:{k}", f"{alt}: {k} = {v}", {"line": alt, "payload": str(p)[:400], "swept_from": ln}, "input")
            ctx.case(("sweep", ln), True, "decode:byte-sweep-seed")
    ctx.evaluations += n_sweep
    ctx.extra["byte_sweep"] = {"seed_packets": sum(len(v) for v in seeds.values()), "values_per_byte": len(vals), "packets_decoded": n_sweep}
    # shared mutable state: the same payload from another device, decoded before and after a packet that carries a sequence number
    seen = set()
    for ln in decodable:
        f = ln.split()
        if f[2] != "---":
            continue
        with_seqn = ln.replace(" --- ", " 057 ", 1)
        try:
            before = json.dumps(decode(ln), sort_keys=True, default=str)
            decode(with_seqn)
            after = json.dumps(decode(ln), sort_keys=True, default=str)
        except Exception:  # noqa: BLE001, S112
            continue
        ctx.case(("seqn-probe", ln), True, "decode:before-and-after-a-numbered-packet")
        if before != after:
            ctx.violation(f"decode-depends-on-history:{f[6]}", f"{ln} decoded to {before[:200]}, then -- after the same payload was decoded with sequence number 057 -- to {after[:200]}",
                          {"line": ln, "first": before, "again": after}, "history")
    ctx.extra["packets_decoded"] = len(decodable)


def parser_models(ctx: Ctx, built: bool, thorough: bool) -> None:
    """The decoders modelled in M_ModeCmd (parser_2349 / 1f41 / 2e04 / 313f / 000a) against the real decoder on payloads assembled
    from fields -- mode bytes, temperature words, duration and date-time fields, valid, sentinel and invalid -- NOT only on what the
    constructors build: the verdict (decoded / rejected) and every decoded value."""
    import datetime as _dt  # noqa: PLC0415

    from . import c03  # noqa: PLC0415

    rng = ctx.rng
    n = 900 if thorough else 250

    def dtm12():
        r = rng.random()
        if r < 0.2:
            return "FF" * 6
        if r < 0.75:
            y, mth = rng.choice([2024, 2025, 1, 9999, 2100]), rng.randrange(1, 13)
            return f"{rng.randrange(0, 60):02X}{rng.randrange(0, 24) | rng.choice([0, 0, 0x20, 0xE0]):02X}{rng.randrange(1, 29):02X}{mth:02X}{y:04X}"
        if r < 0.9:     # not a date: month 13 / day 0 / 30 Feb / minute 60 / hour 24
            return rng.choice(["00000D0107E8", "0000000107E8", "00001E0207E8", "3C00010107E8", "0018010107E8", "00001D0207E9"])
        return "".join(rng.choice("0123456789ABCDEF") for _ in range(12))

    def word():
        return rng.choice(["7FFF", "7EFF", "31FF", "0000", "07D0", "0866", "FFFF", "8000", "954C", "954D", "954B", f"{rng.randrange(0, 65536):04X}"])

    def dur():
        return rng.choice(["FFFFFF", "FFFFFF", "000000", "00003C", "FFFFFE", f"{rng.randrange(0, 1 << 24):06X}"])

    cases = []
    for _ in range(n):
        m = rng.choice(["00", "01", "02", "03", "04", "04", "05"])
        cases.append(("2349", f"{rng.randrange(0, 16):02X}" + word() + m + dur() + rng.choice(["", "", dtm12()]), "both 0x2349 sh2349 parser_2349"))
        cases.append(("1F41", rng.choice(["00", "00", "01"]) + rng.choice(["00", "01", "FF"]) + rng.choice(["00", "01", "02", "03", "04", "04", "05"])
                      + rng.choice(["FFFFFF", "FFFFFF", "FFFFFF", "00003C"]) + rng.choice(["", "", dtm12()]), "both 0x1F41 sh1f41 parser_1f41"))
        cases.append(("2E04", f"0{rng.randrange(0, 8)}" + dtm12() + rng.choice(["00", "01"]), "both 0x2E04 sh2e04 parser_2e04"))
        cases.append(("313F", "00" + rng.choice(["60", "60", "FC", "38"]) + f"{rng.randrange(0, 60) | rng.choice([0, 0x80]):02X}" + dtm12(), "both 0x313F sh313f parser_313f"))
        cases.append(("000A", f"{rng.randrange(0, 16):02X}" + f"{rng.choice([0, 1, 2, 3, 16, 17, 19, 0x13, 0xFF, rng.randrange(0, 256)]):02X}" + word() + word(), "both 0x000A sh000a parser_000a"))

    def tz(t):
        return [0] if t is None else ([1] if t is False else [2, round(t * 100)])

    def dz(sx):
        if sx is None:
            return [0]
        d = _dt.datetime.fromisoformat(sx)
        return [1, d.year, d.month, d.day, d.hour, d.minute, d.second]

    def real(code, pl):
        try:
            p = decode(f"045  W --- 18:111111 01:145038 --:------ {code} {len(pl) // 2:03d} {pl}")
        except Exception:  # noqa: BLE001
            return [9]
        if code == "2349":
            return [1, c03.MODES[p["mode"]]] + tz(p["setpoint"]) + ([1, p["duration"]] if "duration" in p else [0]) + ([1] + dz(p["until"]) if "until" in p else [0])
        if code == "1F41":
            return [1, c03.MODES[p["mode"]]] + ([1, {None: 2, True: 1, False: 0}[p["active"]]] if "active" in p else [0]) + ([1] + dz(p["until"]) if "until" in p else [0])
        if code == "2E04":
            return [1, c03.SYSMODES[p["system_mode"]]] + ([1] + dz(p["until"]) if "until" in p else [0])
        if code == "313F":
            return [1] + dz(p["datetime"]) + [1 if p["is_dst"] else 0]
        return [1] + tz(p["min_temp"]) + tz(p["max_temp"]) + [int(p["local_override"]), int(p["openwindow_function"]), int(p["multiroom_mode"])]

    impl = []
    for code, pl, _ in cases:
        r = real(code, pl)
        impl.append(r)
        ctx.case(("parser-model", code, pl), r != [9], f"decoder:{code}:" + ("decoded" if r != [9] else "rejected"))
    if not built:
        ctx.obligation("correspondence:decoder-models", False, "correspondence", "model not built")
        return

    def lit(sx):
        return 'Some (lit "' + sx + '")'

    shard = 400
    files = {f"p{k // shard}": c03.MC_PRELUDE + "".join(f"Eval vm_compute in ({t} ({lit(pl)})).\n" for _, pl, t in cases[k:k + shard]) for k in range(0, len(cases), shard)}
    res = common.coq_eval("C05pm", files, timeout=900)
    bad, total = [], 0
    for k in range(0, len(cases), shard):
        rc, out = res[f"p{k // shard}"]
        rows = [eval(o.replace(";", ","), {"__builtins__": {}}) for o in re.findall(r"=\s*(\[.*?\])\s*:\s*list \(list Z\)", out, flags=re.S)]  # noqa: S307
        mine = cases[k:k + shard]
        if rc or len(rows) != len(mine):
            bad.append(f"rc={rc}, {len(rows)} results for {len(mine)} cases: {out[-300:]}")
            continue
        for (code, pl, _), r, row in zip(mine, impl[k:k + shard], rows):
            total += 1
            if list(row[1]) != r:
                bad.append(f"W|{code} {pl}: model {list(row[1])} implementation {r}")
    ctx.obligation("correspondence:decoder-models", not bad, "correspondence", f"{len(bad)} of {total} differ; first: {bad[0][:500]}" if bad else
                   f"{total} W|2349/1F41/2E04/313F/000A payloads assembled from valid, sentinel and invalid fields: verdict and decoded values agree")


def replay(case: dict) -> int:
    print(case.get("signature"), str(case.get("case"))[:2000])
    return 0
