(* M_StoreDeferred -- the entity's message store under DEFERRED deletion (ramses_rf/entity_base.py): a read that finds the stored message
   expired only SCHEDULES its removal (`loop.call_soon(self._delete_msg, msg)`); packets that arrive before the loop turns are stored first
   (in a replay or a restore, many of them), and only then do the scheduled removals run.  A message has an identity (the object: one per
   arrival) and a content (what Message.__eq__ compares: addresses, verb, code, payload) -- the controller repeats the same content every cycle.
   Definitions only; proofs are in proof/P_StoreDeferred.v. *)
From Coq Require Import ZArith List Bool.
Import ListNotations.
Open Scope Z_scope.

Record dmsg := mkD { d_id : Z; d_code : Z; d_content : Z }.
Definition dstore := list (Z * dmsg).          (* code -> the message held *)

Fixpoint dget (st : dstore) (k : Z) : option dmsg :=
  match st with [] => None | (k', m) :: t => if k =? k' then Some m else dget t k end.
Fixpoint dput (st : dstore) (k : Z) (m : dmsg) : dstore :=
  match st with
  | [] => [(k, m)]
  | (k', m') :: t => if k =? k' then (k, m) :: t else (k', m') :: dput t k m
  end.
Fixpoint ddrop (st : dstore) (k : Z) : dstore :=
  match st with [] => [] | (k', m') :: t => if k =? k' then t else (k', m') :: ddrop t k end.

(* _delete_msg as repaired: the entry goes only if it IS that message *)
Definition del_is (st : dstore) (m : dmsg) : dstore :=
  match dget st (d_code m) with
  | Some m' => if d_id m' =? d_id m then ddrop st (d_code m) else st
  | None => st
  end.
(* _delete_msg as it was: `if msg in obj._msgs_.values()` -- any message EQUAL in content *)
Definition del_eq (st : dstore) (m : dmsg) : dstore :=
  match dget st (d_code m) with
  | Some m' => if d_content m' =? d_content m then ddrop st (d_code m) else st
  | None => st
  end.

Inductive dev :=
| DArrive (m : dmsg)                  (* _handle_msg: the newest message takes the code's place *)
| DRead (code : Z) (expired : bool)   (* _msg_value_msg: when what is held has expired, its removal is scheduled *)
| DTurn.                              (* the event loop turns: the scheduled removals run *)

Record dstate := mkS { s_store : dstore; s_pending : list dmsg; s_sched : list dmsg (* ghost: everything ever scheduled *) }.
Definition dinit : dstate := mkS [] [] [].

Section Rule.
  Variable del : dstore -> dmsg -> dstore.
  Definition dstep (s : dstate) (e : dev) : dstate :=
    match e with
    | DArrive m => mkS (dput (s_store s) (d_code m) m) (s_pending s) (s_sched s)
    | DRead code expired =>
        match dget (s_store s) code with
        | Some m => if expired then mkS (s_store s) (s_pending s ++ [m]) (m :: s_sched s) else s
        | None => s
        end
    | DTurn => mkS (fold_left del (s_pending s) (s_store s)) [] (s_sched s)
    end.
  Definition drun (evs : list dev) : dstate := fold_left dstep evs dinit.
End Rule.

(* the arrivals of a history, oldest first, and the latest one for a code *)
Definition arrivals (evs : list dev) : list dmsg := flat_map (fun e => match e with DArrive m => [m] | _ => [] end) evs.
Fixpoint latest (ms : list dmsg) (code : Z) : option dmsg :=
  match ms with
  | [] => None
  | m :: t => match latest t code with Some x => Some x | None => if d_code m =? code then Some m else None end
  end.
