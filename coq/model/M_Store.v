(* M_Store: message expiry (Message._expired) and the per-entity message store
   (entity_base._MessageDB._handle_msg / _msg_value) -- C14.
   Times and lifespans are integer microseconds; HAS_EXPIRED and the grace period come
   from the regenerated constants. *)
From Coq Require Import ZArith List Bool.
From RV Require Import GenConsts.
Import ListNotations.
Open Scope Z_scope.

(* ---------------------------------------------------------------- expiry *)
(* pkt._lifespan: False (cannot expire; also what a zero timedelta turns into) or a
   positive duration.  1F09 takes it from the payload (remaining_seconds). *)
Inductive lifespan := Never | Span (us : Z).

(* the cached _fraction_expired: not yet computed / CANT_EXPIRE / age and span of the last computation *)
Inductive fcache := FNone | FCant | FFrac (age span : Z).

(* fraction >= HAS_EXPIRED, on exact rationals: age/span >= num/den *)
Definition frac_ge_has (age span : Z) : bool := HAS_EXPIRED_num * span <=? age * HAS_EXPIRED_den.

Inductive eres := EOk (b : bool) | EZeroDiv.

(* fraction_expired(lifespan): a zero lifespan yields HAS_EXPIRED itself (repaired: it used
   to be a ZeroDivisionError, see expired_eval_old) *)
Definition zero_span_result (c : fcache) : eres * fcache := (EOk true, FFrac HAS_EXPIRED_num HAS_EXPIRED_den).

(* one evaluation of msg._expired at time [now] for a message stamped [dtm] *)
Definition expired_eval (c : fcache) (dtm : Z) (l : lifespan) (now : Z) : eres * fcache :=
  match c with
  | FCant => (EOk false, c)
  | FFrac a s => if frac_ge_has a s then (EOk true, c) else
      match l with
      | Never => (EOk false, FCant)
      | Span us => if us =? 0 then zero_span_result c else
          let a' := now - dtm - MSG_GRACE_us in (EOk (frac_ge_has a' us), FFrac a' us)
      end
  | FNone =>
      match l with
      | Never => (EOk false, FCant)
      | Span us => if us =? 0 then zero_span_result c else
          let a' := now - dtm - MSG_GRACE_us in (EOk (frac_ge_has a' us), FFrac a' us)
      end
  end.

(* a sequence of evaluations at the given times *)
Fixpoint expired_seq (c : fcache) (dtm : Z) (l : lifespan) (times : list Z) : list eres :=
  match times with
  | [] => []
  | t :: ts => let '(r, c') := expired_eval c dtm l t in r :: expired_seq c' dtm l ts
  end.

(* ---------------------------------------------------------------- the store *)
(* a stored message, as far as attribute reads are concerned *)
Record smsg := { s_code : Z; s_verb : Z (* 0=I 1=RQ 2=RP 3=W *); s_src : Z; s_dst : Z;
                 s_ctx : Z; s_val : Z (* identifies the payload *) }.

Definition ALL_DEV : Z := 63262142.
Definition CODE_1FC9 : Z := 0x1FC9.

(* _handle_msg of entity [me]: is the message stored at all? *)
Definition stored_by (me : Z) (m : smsg) : bool :=
  (s_src m =? me) || ((s_dst m =? me) && negb (s_verb m =? 1)) ||
  ((s_dst m =? ALL_DEV) && (s_code m =? CODE_1FC9)).

(* _msgs_[code] = msg  only for I / RP *)
Definition state_bearing (m : smsg) : bool := (s_verb m =? 0) || (s_verb m =? 2).

Definition store := list (Z * smsg).     (* code -> message, association list *)

Fixpoint sput (st : store) (k : Z) (m : smsg) : store :=
  match st with
  | [] => [(k, m)]
  | (k', m') :: t => if k =? k' then (k, m) :: t else (k', m') :: sput t k m
  end.
Fixpoint sget (st : store) (k : Z) : option smsg :=
  match st with [] => None | (k', m) :: t => if k =? k' then Some m else sget t k end.

Definition handle (me : Z) (st : store) (m : smsg) : store :=
  if stored_by me m && state_bearing m then sput st (s_code m) m else st.

Definition relevant (me code : Z) (m : smsg) : bool :=
  stored_by me m && state_bearing m && (s_code m =? code).

Fixpoint last_such {A} (p : A -> bool) (l : list A) : option A :=
  match l with
  | [] => None
  | x :: t => match last_such p t with Some y => Some y | None => if p x then Some x else None end
  end.

(* _msg_value: None when nothing is stored.  When the stored message has expired the code
   still returns its value on this read and only SCHEDULES the deletion (loop.call_soon);
   the deletion runs before the next loop iteration's reads. *)
Definition smsg_eqb (a b : smsg) : bool :=
  (s_code a =? s_code b) && (s_verb a =? s_verb b) && (s_src a =? s_src b) && (s_dst a =? s_dst b) &&
  (s_ctx a =? s_ctx b) && (s_val a =? s_val b).

Definition read (st : store) (code : Z) (is_expired : smsg -> bool) : option Z * list smsg :=
  match sget st code with
  | Some m => (Some (s_val m), if is_expired m then [m] else [])
  | None => (None, [])
  end.

Fixpoint sdel (st : store) (m : smsg) : store :=
  match st with
  | [] => []
  | (k, m') :: t => if (k =? s_code m) && smsg_eqb m' m then sdel t m else (k, m') :: sdel t m
  end.
Definition run_deletes (st : store) (dels : list smsg) : store := fold_left sdel dels st.

(* the 1F09 ZeroDivisionError before the repair *)
Definition expired_eval_old (c : fcache) (dtm : Z) (l : lifespan) (now : Z) : eres :=
  match c, l with
  | FNone, Span us => if us =? 0 then EZeroDiv else fst (expired_eval c dtm l now)
  | _, _ => fst (expired_eval c dtm l now)
  end.

(* ---------------------------------------------------------------- reading one zone's element out of an array payload *)
(* _msg_value_msg(msg, zone_idx=z) on a list payload: `{k: v for d in msg.payload for k, v in d.items() if d.get(idx) == val}` -- every element
   of that zone is merged into one dict, a later element overriding an earlier one key by key.  (The gateway merges consecutive 000A / 22C9
   array fragments of one controller into ONE payload, prev.payload + this.payload, so a zone can be in it twice.) *)
Definition fields := list (Z * Z).                         (* key -> value *)
Fixpoint fget (d : fields) (k : Z) : option Z :=
  match d with [] => None | (k', v) :: t => if k =? k' then Some v else fget t k end.
Fixpoint fset (d : fields) (k v : Z) : fields :=
  match d with [] => [(k, v)] | (k', v') :: t => if k =? k' then (k, v) :: t else (k', v') :: fset t k v end.
Definition fmerge (d : fields) (e : fields) : fields := fold_left (fun d kv => fset d (fst kv) (snd kv)) e d.
Definition pick_from (d : fields) (arr : list (Z * fields)) (z : Z) : fields :=
  fold_left (fun d e => if fst e =? z then fmerge d (snd e) else d) arr d.
Definition pick (arr : list (Z * fields)) (z : Z) : fields := pick_from [] arr z.
