From Coq Require Import ZArith String Ascii List Bool PrimFloat Lia.
From RV Require Import Py PyStr PyFloat GenTables M_Codecs P_Codecs M_Payload.
Import ListNotations.
Open Scope Z_scope.

(* ---- arrays are the list of their elements ---- *)
Lemma chunks_concat {A} (f : str -> A) (n : nat) : (0 < n)%nat -> forall es fuel,
  Forall (fun e => List.length e = n) es -> (List.length (concat es) <= fuel)%nat ->
  chunks fuel n (concat es) = es.
Proof.
  intros Hn. induction es as [|e es IH]; intros fuel Hf Hl.
  - cbn. destruct fuel; reflexivity.
  - inversion Hf as [|x l He Hes]; subst. cbn [concat] in *.
    destruct fuel as [|k]; [rewrite app_length in Hl; lia|].
    destruct e as [|c e']; [cbn in Hn; lia|].
    change ((c :: e') ++ concat es) with (c :: (e' ++ concat es)). cbn [chunks].
    change (c :: (e' ++ concat es)) with ((c :: e') ++ concat es).
    rewrite firstn_app, Nat.sub_diag, firstn_O, app_nil_r, firstn_all.
    rewrite skipn_app, Nat.sub_diag, skipn_all. cbn [skipn app].
    rewrite IH; [reflexivity | exact Hes |]. rewrite app_length in Hl. cbn [List.length] in *. lia.
Qed.

Theorem array_elementwise {A} (f : str -> A) (n : nat) es : (0 < n)%nat ->
  Forall (fun e => List.length e = n) es -> decode_array f n (concat es) = map f es.
Proof. intros Hn Hf. unfold decode_array. rewrite (chunks_concat f n Hn es _ Hf (le_n _)). reflexivity. Qed.

(* the index an element reports is the one it carries, whatever its neighbours are *)
Theorem array_index {A} (g : str -> A) (n : nat) es k e : (0 < n)%nat ->
  Forall (fun e => List.length e = n) es -> nth_error es k = Some e ->
  nth_error (decode_array (elem g) n (concat es)) k = Some (slice 0 2 e, g e).
Proof.
  intros Hn Hf Hk. rewrite (array_elementwise (elem g) n es Hn Hf). rewrite nth_error_map, Hk. reflexivity.
Qed.

(* every array-capable code has a positive element length (regenerated table) *)
Lemma elem_chars_pos : forallb (fun p => 0 <? snd p) ARRAY_ELEM_CHARS = true.
Proof. vm_compute. reflexivity. Qed.

(* ---- value ranges of the wire decoders: every temperature a word can decode to, every ratio a byte can ---- *)
Lemma temp_range_all : forallb (fun w => match hex_to_temp w with Ok (TNum t) => temp_in_range t | _ => true end) words16 = true.
Proof. vm_compute. reflexivity. Qed.
Theorem temp_range : forall w t, 0 <= w < 65536 -> hex_to_temp w = Ok (TNum t) -> temp_in_range t = true.
Proof.
  intros w t Hw H. pose proof (proj1 (forallb_forall _ _) temp_range_all w (in_words16 w Hw)) as A. cbv beta in A. rewrite H in A. exact A.
Qed.
Lemma ratio_range_all : forallb (fun b => match hex_to_percent b true with Ok (Some r) => ratio_in_range r | _ => true end) bytes8 = true
                     /\ forallb (fun b => match hex_to_percent b false with Ok (Some r) => ratio_in_range r | _ => true end) bytes8 = true.
Proof. split; vm_compute; reflexivity. Qed.
Theorem ratio_range : forall b hr r, 0 <= b < 256 -> hex_to_percent b hr = Ok (Some r) -> ratio_in_range r = true.
Proof.
  intros b hr r Hb H. destruct hr.
  - pose proof (proj1 (forallb_forall _ _) (proj1 ratio_range_all) b (in_bytes8 b Hb)) as A. cbv beta in A. rewrite H in A. exact A.
  - pose proof (proj1 (forallb_forall _ _) (proj2 ratio_range_all) b (in_bytes8 b Hb)) as A. cbv beta in A. rewrite H in A. exact A.
Qed.

(* non-vacuity *)
Example array_example :
  decode_array elem_temp 6 (lit "0007D0017FFF0208FC") =
    [(lit "00", hex_to_temp 2000); (lit "01", hex_to_temp 32767); (lit "02", hex_to_temp 2300)] /\
  hex_to_temp 2000 = Ok (TNum 20%float) /\ hex_to_temp 32767 = Ok TNone.
Proof. vm_compute. repeat split; reflexivity. Qed.

(* ---- the index a packet reports is carried in its frame ---- *)
From RV Require Import M_Header.
Theorem idx_from_frame : forall f s, pkt_idx f = IStr s ->
  s = slice 0 2 (f_payload f) \/ s = slice 4 6 (f_payload f) \/
  (f_code f = C_000C /\ (s = lit "FC" \/ s = lit "F9" \/ s = lit "FA")) \/ (f_code f = C_0404 /\ s = lit "HW").
Proof.
  intros f s H. unfold pkt_idx, p2 in H.
  repeat match type of H with
         | context[if ?b then _ else _] => destruct b eqn:?
         | context[match has_array f with _ => _ end] => destruct (has_array f) as [[|]|]
         end; try discriminate; injection H as <-; auto;
    match goal with
    | E : (f_code f =? C_000C) = true |- _ => apply Z.eqb_eq in E; right; right; left; split; [exact E | auto]
    | E : (f_code f =? C_0404) = true |- _ => apply Z.eqb_eq in E; right; right; right; split; [exact E | reflexivity]
    end.
Qed.
