"""C18 -- schedule transfers under faults: real Schedule/Zone objects of a replay gateway, a scripted
controller behind gwy.async_send_cmd, a fault injected at every await; the lock model in Coq."""

from __future__ import annotations

import asyncio
import datetime as _dt
import io
import json
import logging
import re

from .. import common
from ..common import Ctx
from ..vloop import VLoop
from .c17 import gen_schedule

THEOREMS = ["C18_lock_released_at_exit", "C18_others_proceed", "C18_single_version", "C18_never_mixed",
            "C18_undisturbed_fetch_completes", "C18_fetch_examples", "C18_lock_leak_refuted", "C18_lock_leak_repaired",
            "C18_acknowledgements_change_nothing", "C18_only_fragments_are_stored",
            "C18_forced_fetch_is_current", "C18_cache_invariant", "C18_early_assignment_refuted",
            "C18_exchanges_under_own_lock", "C18_one_holder", "C18_waiter_ending_releases_nothing", "C18_lock_inside_try_refuted"]

PRELUDE = ("From Coq Require Import List Bool Arith.\nFrom RV Require Import M_Transfer.\nImport ListNotations.\n"
           "Set Printing Width 1000000.\nSet Printing Depth 1000000.\n"
           "Definition oc (o : outcome) : nat := match o with Completed => 1 | Failed => 2 | Abandoned => 3 | LockTimeout => 4 end.\n"
           "Definition show (r : lockst * list outcome) : list nat := (match fst r with None => 99 | Some z => z end) :: map oc (snd r).\n")

CTL = "01:145038"
EPOCH = _dt.datetime(2026, 1, 1, 12)


class Controller:
    """A scripted controller: per-zone schedules (with versions), a global change counter, a fault plan."""

    def __init__(self, S, rng, nzones):
        self.S = S
        self.counter = 5
        self.zones = {}
        self.rng = rng
        for z in range(nzones):
            self.new_schedule(z, bump=False)
        self.calls = []           # (zone or None, kind)
        self.verbs = []           # verb of each call
        self.plan = {}            # call index -> "raise" | "hang" | ("bump", zone)
        self.hang = None
        self.gwy = None           # when set: every reply is ALSO heard by all entities, through the gateway's own message handler (as on the air)
        self.rx_buf = {}          # fragments of a write under way, per zone
        self.dispatch_errors = []
        self.on_write = None      # called with the zone when a complete write has replaced its schedule
        self.tcs = None           # when set: who holds the system's transfer lock is noted at every fragment exchange
        self.lock_at_call = []    # (zone of the 0404 exchange, tcs.zone_lock_idx at that moment)
        self.on_exchange = None

    def new_schedule(self, z, bump=True, days=None):
        days = days or gen_schedule(self.rng, False, 3)
        full = {"zone_idx": f"{z:02X}", "schedule": days}
        self.zones[z] = (days, self.S.full_sched_to_fragz(full))
        if bump:
            self.counter += 1

    async def send(self, cmd, **kw):
        from ramses_tx import exceptions as exc  # noqa: PLC0415
        from ramses_tx.packet import Packet  # noqa: PLC0415

        zone = int(cmd.payload[:2], 16) if cmd.code == "0404" else None
        if kw.pop("_internal", False):
            n = -1
        else:
            n = len(self.calls)
            self.calls.append((zone, cmd.code, cmd.payload))
            self.verbs.append(cmd.verb)
            if zone is not None and self.tcs is not None:
                self.lock_at_call.append((zone, self.tcs.zone_lock_idx))
                if self.on_exchange:
                    self.on_exchange(zone)
        act = self.plan.get(n)
        waits = bool(kw.get("wait_for_reply"))            # as the protocol FSM reads it: None / False = the echo is enough
        if act == "raise":
            raise exc.ProtocolSendFailed("scripted loss")
        if act == "lost-on-air":      # the dongle echoes the frame, the controller never hears it (every retransmission lost): a caller that waits
            if waits:                 # for the reply gets the protocol's error; one that does not is handed the echo and is none the wiser
                raise exc.ProtocolSendFailed("scripted loss on the air: no reply to any transmission")
            return Packet.from_port(_dt.datetime.now(), "000 " + str(cmd).replace("18:000730", "18:111111"))
        if act == "hang":
            await asyncio.get_running_loop().create_future()   # never answers: only the caller's timeout ends this
        if isinstance(act, tuple) and act[0] == "bump":
            self.new_schedule(act[1])
        if isinstance(act, tuple) and act[0] == "shrink":
            self.new_schedule(act[1], days=small_schedule(self.rng))
        await asyncio.sleep(1 / 64)
        now = _dt.datetime.now()
        if not waits:                 # the caller does not wait for the reply: it gets its echo back; the controller still acts and answers on the air
            echo = Packet.from_port(now, "000 " + str(cmd).replace("18:000730", "18:111111"))
            try:
                await self.send(cmd, **{**kw, "wait_for_reply": True, "_internal": True})
            except exc.ProtocolSendFailed:
                pass
            return echo
        if cmd.code == "0006":
            if act == "reply-lost":
                raise exc.ProtocolSendFailed("scripted loss of the reply")
            return self.heard(Packet.from_port(now, f"045 RP --- {CTL} 18:000730 --:------ 0006 004 0005{self.counter:04X}"))
        k = int(cmd.payload[10:12], 16)
        if cmd.verb == " W":      # a fragment being written: stored, acknowledged with an I (no fragment; the last one says total 00)
            total = int(cmd.payload[12:14], 16)
            buf = self.rx_buf.setdefault(zone, {})
            if k == 1:
                buf.clear()
            buf[k] = cmd.payload[14:]
            last = k == total
            if last and len(buf) == total:
                frs = [buf[i] for i in range(1, total + 1)]
                self.zones[zone] = (self.S.fragz_to_full_sched(frs)["schedule"], frs)
                self.counter += 1
                buf.clear()
                if self.on_write:
                    self.on_write(zone)
            body = f"{cmd.payload[:10]}{k:02X}{0 if last else total:02X}"
            if act == "reply-lost":       # the controller HAS the fragment (and has committed the set, if it was the last one); its acknowledgement never arrives
                raise exc.ProtocolSendFailed("scripted loss of the acknowledgement")
            return self.heard(Packet.from_port(now, f"045  I --- {CTL} 18:000730 --:------ 0404 007 {body}"))
        if act == "reply-lost":
            raise exc.ProtocolSendFailed("scripted loss of the reply")
        frs = self.zones[zone][1]
        if k > len(frs):
            k = len(frs)
        f = frs[k - 1]
        pl = f"{zone:02X}200008{len(f) // 2:02X}{k:02X}{len(frs):02X}{f}"
        return self.heard(Packet.from_port(now, f"045 RP --- {CTL} 18:000730 --:------ 0404 {len(pl) // 2:03d} {pl}"))

    def heard(self, pkt):
        """The reply is on the air: every entity hears it through the gateway's own handler, besides the caller getting it back."""
        if self.gwy is not None:
            from ramses_tx.message import Message  # noqa: PLC0415
            try:
                self.gwy._msg_handler(Message(pkt))
            except Exception as err:  # noqa: BLE001
                self.dispatch_errors.append(f"{type(err).__name__}: {err}"[:120])
        return pkt


def small_schedule(rng):
    """A schedule that fits in ONE fragment (one switchpoint a day, the same every day)."""
    tod, sp = f"{rng.randrange(5, 23):02d}:{rng.choice((0, 10, 20, 30, 40, 50)):02d}", rng.randrange(10, 50) / 2
    return [{"day_of_week": d, "switchpoints": [{"time_of_day": tod, "heat_setpoint": sp}]} for d in range(7)]


def episode(scn):
    """One episode on a fresh replay gateway; returns observations."""
    import ramses_rf.system.heat as heat  # noqa: PLC0415
    import ramses_rf.system.schedule as S  # noqa: PLC0415
    from ramses_rf import Gateway  # noqa: PLC0415

    loop = VLoop()
    asyncio.set_event_loop(loop)

    class VDT(_dt.datetime):
        @classmethod
        def now(cls, tz=None):
            return EPOCH + _dt.timedelta(seconds=loop.time())

    real_dt = heat.dt
    heat.dt = VDT
    obs = {}

    async def main():
        import random  # noqa: PLC0415
        txt = f"2026-01-01T12:00:00.000000 045 RP --- {CTL} 18:111111 --:------ 0005 004 00080700\n"
        gwy = Gateway(None, input_file=io.TextIOWrapper(io.BytesIO(txt.encode())), config={"disable_discovery": True})
        await gwy.start()
        for _ in range(5):
            await asyncio.sleep(0)
        ctl = Controller(S, random.Random(scn["seed"]), 3)
        ctl.plan = {int(k): (tuple(v) if isinstance(v, list) else v) for k, v in scn["plan"].items()}
        gwy.async_send_cmd = ctl.send
        ctl.tcs = gwy.tcs
        # the lock as the transfers see it, event by event (for M_LockWaiters): a transfer reaches the lock / has obtained it / exchanges a fragment / is over
        lock_events = obs.setdefault("lock_events", [])
        tcs = gwy.tcs

        def lock_now():
            return None if tcs.zone_lock_idx is None else int(tcs.zone_lock_idx, 16)

        real_obtain = tcs._obtain_lock

        async def obtain(idx):
            z = int(idx, 16)
            lock_events.append(("start", z, lock_now()))
            await real_obtain(idx)
            lock_events.append(("obtained", z, lock_now()))

        tcs._obtain_lock = obtain
        ctl.on_exchange = lambda z: lock_events.append(("exchange", z, lock_now()))
        if scn.get("dispatch"):
            ctl.gwy = gwy
        zones = {int(z.idx, 16): z for z in gwy.tcs.zones}
        results = []

        async def fetch(z, timeout, force=False, probe=False):
            try:
                n0 = len(versions_seen[z])
                r = await zones[z]._schedule.get_schedule(force_io=force or scn.get("force_io", False), timeout=timeout)
                ok = any(r == d for d in versions_seen[z])
                if ok and probe and r != versions_seen[z][-1] and len(versions_seen[z]) == n0:
                    return ("stale-schedule", r)      # an undisturbed, forced fetch must return the CURRENT schedule
                return ("completed" if ok else "wrong-schedule", r)
            except TimeoutError as err:
                return ("lock-timeout" if "lock" in str(err) else "abandoned", None)
            except Exception as err:  # noqa: BLE001
                import traceback; obs.setdefault("tb", traceback.format_exc()[-600:]); return ("failed:" + type(err).__name__, None)

        # every schedule version a zone ever had during the episode
        versions_seen = {z: [ctl.zones[z][0]] for z in ctl.zones}
        orig_new = ctl.new_schedule

        def new_schedule(z, bump=True, days=None):
            orig_new(z, bump, days)
            versions_seen.setdefault(z, []).append(ctl.zones[z][0])

        ctl.new_schedule = new_schedule
        ctl.on_write = lambda z: versions_seen.setdefault(z, []).append(ctl.zones[z][0])

        written_days = []

        async def write(z, timeout):
            days = gen_schedule(ctl.rng, False, 3)
            written_days.append(days)
            try:
                r = await asyncio.wait_for(zones[z]._schedule.set_schedule(days), timeout)
                return ("written" if r == days and ctl.zones[z][0] == days else "write-returns-other-schedule", r)
            except TimeoutError as err:
                return ("lock-timeout" if "lock" in str(err) else "write-abandoned", None)
            except Exception as err:  # noqa: BLE001
                return ("write-failed:" + type(err).__name__, None)

        def ending(fn):          # ... and is over, however it ended
            async def wrapped(z, *a, **k):
                try:
                    return await fn(z, *a, **k)
                finally:
                    lock_events.append(("end", z, lock_now()))
            return wrapped

        fetch, write = ending(fetch), ending(write)
        for z in scn.get("small", ()):
            ctl.new_schedule(z, bump=False, days=small_schedule(ctl.rng))
            versions_seen[z] = [ctl.zones[z][0]]
        sched0 = zones[0]._schedule
        obs["cache"] = []

        def cache_obs(n_before, cached_ok):
            full = sched0._full_schedule or {}
            obs["cache"].append({"cache": full.get("schedule"), "sver": sched0._sched_ver, "gver": sched0._global_ver, "csched": ctl.zones[0][0], "cver": ctl.counter,
                                 "calls": [(c[1], ctl.verbs[n_before + i]) for i, c in enumerate(ctl.calls[n_before:])], "first_call": n_before, "cached_ok": cached_ok})

        for step in scn["steps"]:
            n_before = len(ctl.calls)
            m6 = getattr(gwy.tcs, "_msg_0006", None)
            cached_ok = bool(m6 is not None and m6.dtm > VDT.now() - _dt.timedelta(minutes=3))
            if step[0] in ("bump", "shrink"):
                (ctl.new_schedule(step[1]) if step[0] == "bump" else ctl.new_schedule(step[1], days=small_schedule(ctl.rng)))
                cache_obs(n_before, cached_ok)
                continue
            if step[0] == "fetch":
                results.append(await fetch(step[1], step[2]))
            elif step[0] == "probe":
                results.append(await fetch(step[1], step[2], force=True, probe=True))
            elif step[0] == "set":
                results.append(await write(step[1], step[2]))
            elif step[0] == "set-invalid":      # a schedule the validator refuses (or that cannot be packed): an error, nothing sent, nothing left behind
                bad_days = [[{"day_of_week": 0, "switchpoints": [{"time_of_day": "07:03", "heat_setpoint": 40.0}]}],
                            [{"day_of_week": 0, "switchpoints": []}],
                            [{"day_of_week": 300, "switchpoints": [{"time_of_day": "07:00", "heat_setpoint": 20.0}]}],
                            "not a schedule"][step[2] % 4]
                try:
                    await asyncio.wait_for(zones[step[1]]._schedule.set_schedule(bad_days), 30)
                    results.append(("invalid-schedule-accepted", None))
                except TimeoutError:
                    results.append(("write-abandoned", None))
                except Exception as err:  # noqa: BLE001
                    results.append(("refused:" + type(err).__name__, None))
            elif step[0] == "together":
                results.extend(await asyncio.gather(*(fetch(z, step[2]) for z in step[1])))
            elif step[0] == "mixed":           # fetches and writes of several zones at once, each with its own patience, started a moment apart
                async def later(k, op, z, t):
                    await asyncio.sleep(k / 256)
                    return await (write(z, t) if op == "set" else fetch(z, t))
                results.extend(await asyncio.gather(*(later(k, op, z, t) for k, (op, z, t) in enumerate(step[1]))))
            obs.setdefault("lock_after", []).append(gwy.tcs.zone_lock_idx)
            cache_obs(n_before, cached_ok)
        obs["results"] = [(k, None) for k, _ in results]
        obs["written_days"] = list(written_days)
        obs["initial_sched"] = versions_seen[0][0]
        obs["nfrags_written"] = [len(S.full_sched_to_fragz({"zone_idx": "00", "schedule": d})) for d in written_days]
        obs["calls"] = len(ctl.calls)
        obs["lock_at_call"] = list(ctl.lock_at_call)
        obs["verbs"] = list(ctl.verbs)
        obs["codes"] = [c[1] for c in ctl.calls]
        obs["dispatch_errors"] = ctl.dispatch_errors[:5]
        try:          # every public view right after the transfers (for C13: a fetch leaves nothing behind that a view trips over)
            from .. import gw as _gw  # noqa: PLC0415
            obs["views_bad"] = [list(b) for b in _gw.read_views(gwy)[1]]
        except Exception as err:  # noqa: BLE001
            obs["views_bad"] = [["gateway", "read_views", type(err).__name__, str(err)[:100], ""]]
        obs["nfrags"] = {z: len(v[1]) for z, v in ctl.zones.items()}
        await gwy.stop()

    try:
        loop.run_until_complete(main())
    finally:
        heat.dt = real_dt
        asyncio.set_event_loop(None)
        loop.close()
    return obs


def reassembly(seed, n_seq, n_fetch):
    """Drive the real Schedule._update_payload_set / _get_schedule with fragments of several VERSIONS of one zone's
    schedule (same and different fragment counts, one-fragment versions); returns what the model must reproduce."""
    import random  # noqa: PLC0415

    import ramses_rf.system.schedule as S  # noqa: PLC0415
    from ramses_rf import Gateway  # noqa: PLC0415
    from ramses_tx.message import Message  # noqa: PLC0415
    from ramses_tx.packet import Packet  # noqa: PLC0415

    rnd = random.Random(seed)
    loop = VLoop()
    asyncio.set_event_loop(loop)
    out = {"feeds": [], "fetches": [], "errors": []}

    # versions: group candidate schedules by fragment count; keep those whose fragments differ pairwise at every slot
    cands = {}
    for _ in range(40):
        days = gen_schedule(rnd, False, 3)
        frs = S.full_sched_to_fragz({"zone_idx": "00", "schedule": days})
        cands.setdefault(len(frs), []).append((days, frs))
    main_t = max(cands, key=lambda t: len(cands[t]))
    vers = cands[main_t][:3] + [v for t, l in sorted(cands.items()) if t != main_t for v in l[:1]][:2]
    for _ in range(2):
        days = small_schedule(rnd)
        vers.append((days, S.full_sched_to_fragz({"zone_idx": "00", "schedule": days})))
    seen = set()
    versions = []
    for days, frs in vers:
        if any((k, f) in seen for k, f in enumerate(frs)):
            continue
        seen |= set(enumerate(frs))
        versions.append((days, frs))
    out["totals"] = [len(f) for _, f in versions]

    def payload(v, k):
        frs = versions[v][1]
        f = frs[k]
        pl = f"00200008{len(f) // 2:02X}{k + 1:02X}{len(frs):02X}{f}"
        return Message(Packet.from_port(_dt.datetime.now(), f"045 RP --- {CTL} 18:000730 --:------ 0404 {len(pl) // 2:03d} {pl}")).payload

    def tag(p):
        if p is None:
            return None
        for v, (_, frs) in enumerate(versions):
            k = p["frag_number"] - 1
            if k < len(frs) and frs[k] == p["fragment"] and p["total_frags"] == len(frs):
                return v
        return -1

    def assembled(sched):
        fs = sched._full_schedule
        if not fs:
            return None
        for v, (days, _) in enumerate(versions):
            if fs.get("schedule") == days:
                return v
        return -1

    async def main():
        txt = f"2026-01-01T12:00:00.000000 045 RP --- {CTL} 18:111111 --:------ 0005 004 00080100\n"
        gwy = Gateway(None, input_file=io.TextIOWrapper(io.BytesIO(txt.encode())), config={"disable_discovery": True})
        await gwy.start()
        for _ in range(5):
            await asyncio.sleep(0)
        zone = gwy.tcs.zones[0]
        # (a) arbitrary fragment sequences through _update_payload_set
        for _ in range(n_seq):
            sched = S.Schedule(zone)
            seq = []
            sticky = rnd.randrange(len(versions))
            for _ in range(rnd.randrange(1, 14)):
                v = sticky if rnd.random() < 0.6 else rnd.randrange(len(versions))
                seq.append((v, rnd.randrange(len(versions[v][1]))))
            try:
                for v, k in seq:
                    sched._payload_set = sched._update_payload_set(sched._payload_set, payload(v, k))
                out["feeds"].append((seq, [tag(p) for p in sched._payload_set], assembled(sched)))
            except Exception as err:  # noqa: BLE001
                out["errors"].append(("feed", seq, type(err).__name__ + ": " + str(err)[:80]))
                out["feeds"].append((seq, None, None))
        # (c) what is OVERHEARD: fragments and write acknowledgements through the real Schedule._handle_msg, with the lock free / another zone's / this zone's
        def ack_msg(k, total):
            return Message(Packet.from_port(_dt.datetime.now(), f"045  I --- {CTL} 18:222222 --:------ 0404 007 0020000800{k + 1:02X}{total:02X}"))

        def frag_msg(v, k):
            frs = versions[v][1]
            f = frs[k]
            pl = f"00200008{len(f) // 2:02X}{k + 1:02X}{len(frs):02X}{f}"
            return Message(Packet.from_port(_dt.datetime.now(), f"045 RP --- {CTL} 18:222222 --:------ 0404 {len(pl) // 2:03d} {pl}"))

        out["heard"] = []
        for _ in range(max(20, n_seq // 4)):
            sched = S.Schedule(zone)
            seq = []
            sticky = rnd.randrange(len(versions))
            for _ in range(rnd.randrange(1, 12)):
                mine = rnd.random() < 0.2
                if rnd.random() < 0.35:
                    v = rnd.randrange(len(versions))
                    tot = len(versions[v][1])
                    k = rnd.randrange(tot)
                    seq.append((mine, "ack", k, rnd.choice((tot, 0 if k == tot - 1 else tot))))
                else:
                    v = sticky if rnd.random() < 0.7 else rnd.randrange(len(versions))
                    seq.append((mine, "frag", v, rnd.randrange(len(versions[v][1]))))
            saved = gwy.tcs.zone_lock_idx
            try:
                for mine, kind, a, b in seq:
                    gwy.tcs.zone_lock_idx = zone.idx if mine else rnd.choice((None, "07"))
                    sched._handle_msg(ack_msg(a, b) if kind == "ack" else frag_msg(a, b))
                out["heard"].append((seq, [tag(p) if p is None or "fragment" in p else -9 for p in sched._payload_set], assembled(sched)))
            except Exception as err:  # noqa: BLE001
                out["errors"].append(("heard", seq, type(err).__name__ + ": " + str(err)[:80]))
                out["heard"].append((seq, None, None))
            finally:
                gwy.tcs.zone_lock_idx = saved
        # (b) the fetch loop from arbitrary stale sets, against a controller that holds one version throughout
        for _ in range(n_fetch):
            sched = S.Schedule(zone)
            zone._schedule = sched
            cur = rnd.randrange(len(versions))
            n = rnd.choice((1, 2, 3, 4, len(versions[cur][1]), len(versions[cur][1])))
            stale = []
            for k in range(n):
                opts = [v for v in range(len(versions)) if k < len(versions[v][1])]
                v = rnd.choice(opts) if opts and rnd.random() < 0.75 else None
                stale.append(v)
            sched._payload_set = [None if v is None else payload(v, k) for k, v in enumerate(stale)]
            calls = []

            async def send(cmd, **kw):
                await asyncio.sleep(1 / 64)
                if cmd.code == "0006":
                    return Packet.from_port(_dt.datetime.now(), f"045 RP --- {CTL} 18:000730 --:------ 0006 004 00050007")
                k = int(cmd.payload[10:12], 16)
                calls.append(k)
                frs = versions[cur][1]
                f = frs[min(k, len(frs)) - 1]
                pl = f"00200008{len(f) // 2:02X}{min(k, len(frs)):02X}{len(frs):02X}{f}"
                return Packet.from_port(_dt.datetime.now(), f"045 RP --- {CTL} 18:000730 --:------ 0404 {len(pl) // 2:03d} {pl}")

            gwy.async_send_cmd = send
            try:
                r = await sched.get_schedule(force_io=True, timeout=60)
                got = next((v for v, (days, _) in enumerate(versions) if r == days), -1)
                out["fetches"].append((stale, cur, got, len(calls)))
            except Exception as err:  # noqa: BLE001
                out["errors"].append(("fetch", (stale, cur), type(err).__name__ + ": " + str(err)[:80]))
                out["fetches"].append((stale, cur, -2, len(calls)))
        await gwy.stop()

    try:
        loop.run_until_complete(main())
    finally:
        asyncio.set_event_loop(None)
        loop.close()
    return out


def handle_msg_shape() -> str:
    """The reassembly model (vfeed) is fed FRAGMENTS only: Schedule._handle_msg must drop 0404 payloads that carry none (fix 920e60e).  AST."""
    import ast  # noqa: PLC0415
    import inspect  # noqa: PLC0415

    import ramses_rf.system.schedule as S  # noqa: PLC0415

    tree = ast.parse(inspect.getsource(S))
    cls = next((n for n in ast.walk(tree) if isinstance(n, ast.ClassDef) and n.name == "Schedule"), None)
    fn = next((n for n in ast.walk(cls) if isinstance(n, ast.FunctionDef) and n.name == "_handle_msg"), None) if cls else None
    if fn is None:
        return "Schedule._handle_msg not found"
    upd = [i for i, n in enumerate(fn.body) if "_update_payload_set" in ast.unparse(n)]
    if not upd:
        return "Schedule._handle_msg no longer feeds _update_payload_set"
    before = fn.body[:upd[0]]
    ok = any(isinstance(n, ast.If) and "SZ_FRAGMENT not in msg.payload" in ast.unparse(n.test) and any(isinstance(x, ast.Return) for x in n.body) for n in before)
    inline = "SZ_FRAGMENT in msg.payload" in ast.unparse(fn.body[upd[0]])
    return "" if ok or inline else "Schedule._handle_msg hands payloads without a fragment (write acknowledgements) to _update_payload_set"


def run(ctx: Ctx) -> None:
    logging.disable(logging.CRITICAL)
    rng = ctx.rng
    thorough = ctx.tier == "thorough"
    why = handle_msg_shape()
    ctx.obligation("translator:only-fragments-reach-the-reassembly", not why, "translator", why or "Schedule._handle_msg returns when the payload carries no fragment")
    ctx.rule = ("episodes on real Schedule/Zone objects with a scripted controller: zone 0 fetches its schedule with ONE fault (the "
                "exchange raises ProtocolSendFailed / never answers so that the caller's timeout cancels the transfer / the controller "
                "changes the schedule and bumps its counter) injected at EVERY await index in turn, then zone 1 fetches (the probe); plus "
                "concurrent fetches of 2-3 zones; non-trivial = a fault was injected; distinct = by (seed, fault kind, position)")
    ctx.assumptions += ["a mixed set of fragments fails to decompress (zlib's checksum): the 'never a mixed schedule' theorem is under that idealisation",
                        "the model has the lock discipline and the version bookkeeping of the reassembly, not the RQ/RP exchanges themselves"]
    built = ctx.build("C18", THEOREMS)
    scns = []
    seeds = [rng.randrange(10**6) for _ in range(3 if thorough else 1)]
    PROBES = [("probe", 0, 400), ("probe", 1, 400)]     # afterwards: the SAME zone and another zone, undisturbed
    for seed in seeds:
        base = episode({"seed": seed, "plan": {}, "steps": [("fetch", 0, 30)]})
        n_aw = base["calls"]                      # awaits of an undisturbed fetch: version query + fragments
        for pos in range(n_aw):
            for kind in ("raise", "hang", ["bump", 0], ["bump", 1], ["shrink", 0]):
                scns.append({"seed": seed, "plan": {str(pos): kind}, "steps": [("fetch", 0, 30)] + PROBES, "n_aw": n_aw, "pos": pos, "kind": kind})
        # the schedule changes BETWEEN two transfers (same number of fragments / down to one fragment / up again)
        scns.append({"seed": seed, "plan": {}, "steps": [("fetch", 0, 30), ("bump", 0)] + PROBES, "n_aw": n_aw, "pos": None, "kind": "change-between"})
        scns.append({"seed": seed, "plan": {}, "steps": [("fetch", 0, 30), ("shrink", 0)] + PROBES + [("bump", 0)] + PROBES, "n_aw": n_aw, "pos": None, "kind": "shrink-between"})
        scns.append({"seed": seed, "plan": {}, "small": [0, 1], "steps": [("fetch", 0, 30)] + PROBES, "n_aw": n_aw, "pos": None, "kind": "one-fragment"})
        scns.append({"seed": seed, "plan": {}, "steps": [("together", [0, 1, 2], 400)], "n_aw": n_aw, "pos": None, "kind": "concurrent"})
        scns.append({"seed": seed, "plan": {"1": "raise"}, "steps": [("together", [0, 1], 400), ("fetch", 2, 400)], "n_aw": n_aw, "pos": 1, "kind": "concurrent+raise"})
        scns.append({"seed": seed, "plan": {"2": "hang"}, "steps": [("together", [0, 1], 20), ("fetch", 2, 400)], "n_aw": n_aw, "pos": 2, "kind": "concurrent+hang"})
        # one zone's transfer under way, a second zone's queued behind it and GIVEN UP by its caller while still waiting for the lock, a third zone's
        # waiting too: the transfers that remain run one after the other, each holding the lock for as long as it talks to the controller
        for ops in ([("set", 0, 400), ("set", 1, 0.02), ("fetch", 2, 400)], [("fetch", 0, 400), ("fetch", 1, 0.02), ("set", 2, 400)],
                    [("set", 0, 400), ("fetch", 1, 0.03), ("set", 2, 400)], [("fetch", 0, 400), ("set", 1, 0.03), ("fetch", 2, 400)]):
            scns.append({"seed": seed, "plan": {}, "steps": [("mixed", ops)] + PROBES, "dispatch": True, "n_aw": n_aw, "pos": None, "kind": "concurrent+waiter-gives-up"})
    # a transfer WAITS OUT the whole three minutes for the lock while another zone's transfer hangs on it -- and the holder lets go (its caller's
    # timeout) within a few milliseconds of the waiter's deadline, before or after: whichever of the two the waiter does (get the lock and carry on,
    # or give up with the lock's TimeoutError), nothing is left behind
    for seed in seeds[:1]:
        for ms in (-6, -4, -2, -1, 1, 2, 3, 5, 7):
            t_hold = 180.0 + 1 / 256 + ms / 1000
            scns.append({"seed": seed, "plan": {"1": "hang"}, "steps": [("mixed", [("fetch", 0, t_hold), ("set", 1, 400)])] + PROBES, "n_aw": n_aw, "pos": 1,
                         "kind": "lock-deadline-race"})
    # WRITES: zone 0 fetches, then writes a new schedule (every reply is also heard by all entities, as on the air), with one fault at each of the
    # write's exchanges in turn (or none); then another zone's schedule changes and both zones are fetched, undisturbed
    for seed in seeds:
        wsteps = [("fetch", 0, 30), ("set", 0, 30), ("bump", 1)] + PROBES
        base = episode({"seed": seed, "plan": {}, "steps": wsteps, "dispatch": True})
        wpos = [i for i, (v, c) in enumerate(zip(base["verbs"], base["codes"])) if v == " W"]
        after = [wpos[-1] + 1] if wpos and wpos[-1] + 1 < base["calls"] else []          # the version query that follows the last fragment
        scns.append({"seed": seed, "plan": {}, "steps": wsteps, "dispatch": True, "n_aw": base["calls"], "pos": None, "kind": "write"})
        # ... and the same with NOTHING changing on the controller afterwards (its change counter stands still: whatever the failed write left in the
        # zone's cache is not refreshed by a counter bump): the probes must still return the controller's schedules
        wquiet = [("fetch", 0, 30), ("set", 0, 30)] + PROBES
        for pos in wpos + after:
            for kind in ("raise", "hang", "lost-on-air"):
                scns.append({"seed": seed, "plan": {str(pos): kind}, "steps": wsteps, "dispatch": True, "n_aw": base["calls"], "pos": pos, "kind": "write+" + kind})
                scns.append({"seed": seed, "plan": {str(pos): kind}, "steps": wquiet, "dispatch": True, "n_aw": base["calls"], "pos": pos, "kind": "write+" + kind + "+quiet"})
                scns.append({"seed": seed, "plan": {str(pos): kind}, "steps": [("fetch", 0, 30), ("set", 0, 30), ("fetch", 0, 400), ("fetch", 1, 400)], "dispatch": True,
                             "n_aw": base["calls"], "pos": pos, "kind": "write+" + kind + "+quiet-unforced"})
        scns.append({"seed": seed, "plan": {}, "steps": [("fetch", 0, 30), ("bump", 0)] + PROBES, "dispatch": True, "n_aw": n_aw, "pos": None, "kind": "change-between"})
        # a write REFUSED for what it is asked to write (a setpoint / time of day outside the schema, no switchpoints, a day that cannot be packed, not a
        # schedule at all): an error to the caller, then both zones are fetched, undisturbed
        for k in range(4):
            scns.append({"seed": seed, "plan": {}, "steps": [("fetch", 1, 30), ("set-invalid", 0, k), ("bump", 1)] + PROBES, "n_aw": n_aw, "pos": None, "kind": "write-refused"})
    coq_cases, impl_rows = [], []
    lock_cases = []
    for s in scns:
        o = episode(s)
        if o.get("lock_events"):
            lock_cases.append((s, o["lock_events"]))
        res = [r[0] for r in o["results"]]
        ctx.case(("episode", s["seed"], repr(s["plan"]), repr(s["steps"])), bool(s["plan"]), "episode:" + (s["kind"] if isinstance(s["kind"], str) else "bump"))
        case = {"seed": s["seed"], "fault": s["plan"], "steps": s["steps"], "results": res, "lock_after_each_step": o["lock_after"], "requests": o["calls"]}
        if any(x is not None for x in o["lock_after"]):
            ctx.violation("lock-left-behind", "a schedule transfer ended (failed, abandoned or completed) with the schedule lock still held", case, "fault-sequence")
        if "lock-timeout" in res and s["kind"] != "lock-deadline-race":      # (there, giving up after three minutes behind a hung transfer is the right answer)
            ctx.violation("later-transfer-blocked", "a later transfer for another zone could not obtain the lock", case, "fault-sequence")
        for e in o.get("dispatch_errors", []):
            ctx.violation("reply-heard-by-the-entities-raises:" + e.split(":")[0], "a schedule reply, delivered to the entities as the dispatcher does, raised: " + e, case, "fault-sequence")
        if s["kind"] == "write" and res[1] != "written":
            ctx.violation("undisturbed-write-fails", "an undisturbed schedule write does not end with the controller holding the new schedule", case, "fault-sequence")
        if "invalid-schedule-accepted" in res:
            ctx.violation("invalid-schedule-accepted", "a schedule outside the schema was written without an error", case, "fault-sequence")
        if "write-returns-other-schedule" in res:
            ctx.violation("write-returns-other-schedule", "a schedule write returned although the controller does not hold that schedule", case, "fault-sequence")
        if "wrong-schedule" in res:
            ctx.violation("mixed-or-wrong-schedule", "a fetch returned a schedule that the controller never had for that zone", case, "fault-sequence")
        fetches = []          # the step each result belongs to
        for st in s["steps"]:
            fetches += ([st] if st[0] in ("fetch", "probe", "set", "set-invalid") else [("fetch", z, st[2]) for z in st[1]] if st[0] == "together"
                        else [(op, z, t) for op, z, t in st[1]] if st[0] == "mixed" else [])
        for st, r in zip(fetches, res):
            if st[0] == "probe" and r == "stale-schedule":
                ctx.violation("probe-returns-stale-schedule", "an undisturbed, forced fetch returns an earlier version of the zone's schedule, not the controller's current one", case, "fault-sequence")
            elif st[0] == "probe" and r != "completed":
                which = "the same zone" if st[1] == 0 else "another zone"
                ctx.violation(f"probe-transfer-fails:{'same' if st[1] == 0 else 'other'}-zone", f"after a disturbed transfer or a change on the controller, an undisturbed transfer of {which} does not complete", case, "fault-sequence")
        if s["kind"] in ("change-between", "shrink-between", "one-fragment") and res[0] != "completed":
            ctx.violation("undisturbed-transfer-fails", "an undisturbed first transfer does not return the controller's schedule", case, "fault-sequence")
        # whoever talks to the controller about a zone's schedule holds the system's transfer lock FOR THAT ZONE at that moment
        wrong = [(z, held) for z, held in o.get("lock_at_call", []) if held != f"{z:02X}"]
        if wrong:
            ctx.violation("fragment-exchanged-without-the-lock", f"a fragment of zone {wrong[0][0]:02X} was exchanged while the transfer lock was held by {wrong[0][1]!r}",
                          {**case, "exchanges_without_the_lock": wrong[:6]}, "fault-sequence")
        if s["kind"] == "concurrent+waiter-gives-up":
            ops = s["steps"][0][1]
            for (op, z, t), r in zip(ops, res):
                if t >= 100 and r not in ("completed", "written"):
                    ctx.violation("transfer-disturbed-by-a-waiter-that-gave-up", f"the {op} of zone {z:02X} ended with {r} although only ANOTHER zone's caller gave up", case, "fault-sequence")
        if s["kind"] == "concurrent" and any(r != "completed" for r in res):
            ctx.violation("concurrent-transfers-fail", "undisturbed concurrent transfers of several zones do not all complete", case, "fault-sequence")
        # model: only the single-fault, sequential episodes (fault kinds raise/hang map to Raises/Cancelled)
        if s["kind"] in ("raise", "hang"):
            faults = ["Proceed"] * s["pos"] + ["Raises" if s["kind"] == "raise" else "Cancelled"]
            probe = ["Proceed"] * 4
            coq_cases.append(f"show (transfers true None [(0, [{'; '.join(faults)}]); (0, [{'; '.join(probe)}]); (1, [{'; '.join(probe)}])])")
            code = {"completed": 1, "abandoned": 3, "lock-timeout": 4}
            impl_rows.append([99 if o["lock_after"][-1] is None else int(o["lock_after"][-1], 16)]
                             + [code.get(r, 2 if r.startswith("failed") else 9) for r in res])
    if built:
        files = {"x": PRELUDE + "".join(f"Eval vm_compute in ({c}).\n" for c in coq_cases)}
        res = common.coq_eval("C18", files, timeout=300)
        rc, out = res["x"]
        if rc:
            ctx.obligation("correspondence:lock-discipline", False, "correspondence", out[-400:])
        else:
            rows = [eval(o.replace(";", ","), {"__builtins__": {}}) for o in re.findall(r"=\s*(\[.*?\])\s*:\s*list nat", out, flags=re.S)]  # noqa: S307
            bad = [i for i, (a, b) in enumerate(zip(rows, impl_rows)) if list(a) != list(b)]
            ctx.obligation("correspondence:lock-discipline", not bad and len(rows) == len(impl_rows), "correspondence",
                           f"{len(bad)} of {len(impl_rows)} differ; first: {coq_cases[bad[0]]} model {rows[bad[0]]} implementation {impl_rows[bad[0]]}" if bad else "")
    else:
        ctx.obligation("correspondence:lock-discipline", False, "correspondence", "model not built")

    cache_correspondence(ctx, built, 120 if thorough else 40)
    lock_waiters_correspondence(ctx, built, lock_cases)
    # ---- the reassembly itself: model vupdate/vfeed/fetch against the real _update_payload_set / _get_schedule
    ra = reassembly(rng.randrange(10**6), 600 if thorough else 150, 300 if thorough else 80)
    tot = ra["totals"]
    for e in ra["errors"]:
        ctx.violation(f"reassembly-raises:{e[0]}:{e[2].split(':')[0]}", "reassembling fragments (any versions, any order) raises instead of starting over", {"versions_fragment_counts": tot, "input": e[1], "error": e[2]}, "fragment-sequence")
    opt = lambda v: "None" if v is None else f"Some {v}"   # noqa: E731
    feed_cases = ["vshow (vfeed [None] None [" + "; ".join(f"({tot[v]}, {k}, {v})" for v, k in seq) + "])" for seq, _, _ in ra["feeds"]]
    heard_cases = ["vshow (hear_all ([None], None) [" + "; ".join(
        f"({'true' if mine else 'false'}, " + (f"HAck {b} {a}" if kind == "ack" else f"HFrag {tot[a]} {b} {a}") + ")" for mine, kind, a, b in seq) + "])" for seq, _, _ in ra["heard"]]
    for seq, slots, last in ra["heard"]:
        ctx.case(("heard", repr(seq)), any(k == "ack" for _, k, _, _ in seq), "reassembly:overheard")
        if slots and -9 in slots:
            ctx.violation("non-fragment-stored-as-a-fragment", "a 0404 payload that carries no fragment (the acknowledgement of a write) sits in the zone's fragment set",
                          {"versions_fragment_counts": tot, "heard(lock mine, kind, a, b)": [list(x) for x in seq], "slots": slots}, "fragment-sequence")
    fetch_cases = ["fshow (fetch [" + "; ".join(opt(v) for v in stale) + f"] {tot[cur]} {cur})" for stale, cur, _, _ in ra["fetches"]]
    for seq, slots, last in ra["feeds"]:
        ctx.case(("feed", repr(seq)), len({v for v, _ in seq}) > 1, "reassembly:feed")
        if last == -1 or (slots and -1 in slots):
            ctx.violation("assembled-unknown-schedule", "a schedule was assembled that is no version the controller ever had", {"versions_fragment_counts": tot, "fragments(version,slot)": seq, "slots": slots}, "fragment-sequence")
    for stale, cur, got, n in ra["fetches"]:
        ctx.case(("fetchloop", repr(stale), cur), any(v is not None and v != cur for v in stale), "reassembly:fetch-loop")
        if got != cur:
            ctx.violation("fetch-from-stale-set-fails" if got == -2 else "fetch-from-stale-set-wrong-version",
                          "an undisturbed fetch that starts from stale fragments does not end with the controller's current schedule",
                          {"versions_fragment_counts": tot, "stale_slots(version)": stale, "controller_version": cur, "got": got, "exchanges": n}, "fragment-sequence")
        elif n > 2 * tot[cur]:
            ctx.violation("fetch-needs-more-than-2T-exchanges", "an undisturbed fetch needs more fragment exchanges than the proved bound", {"stale": stale, "cur": cur, "exchanges": n}, "fragment-sequence")
    if built:
        pre = PRELUDE + ("Definition vo (o : option nat) : nat := match o with None => 0 | Some v => S v end.\n"
                         "Definition vshow (r : vset * option nat) : list nat := vo (snd r) :: map vo (fst r).\n"
                         "Definition fshow (r : fres) : list nat := match r with Got w n => [1; w; n] | Stuck => [2] | OutOfFuel => [3] end.\n")
        files = {"ra": pre + "".join(f"Eval vm_compute in ({c}).\n" for c in feed_cases + fetch_cases + heard_cases)}
        rc, out = common.coq_eval("C18r", files, timeout=300)["ra"]
        if rc:
            ctx.obligation("correspondence:reassembly", False, "correspondence", out[-400:])
            ctx.obligation("correspondence:fetch-loop", False, "correspondence", out[-400:])
        else:
            rows = [eval(o.replace(";", ","), {"__builtins__": {}}) for o in re.findall(r"=\s*(\[.*?\])\s*:\s*list nat", out, flags=re.S)]  # noqa: S307
            vo = lambda v: 0 if v is None else v + 1   # noqa: E731
            exp_feed = [None if slots is None else [vo(last)] + [vo(x) for x in slots] for _, slots, last in ra["feeds"]]
            exp_fetch = [[1, got, n] if got >= 0 else [9] for _, _, got, n in ra["fetches"]]
            exp_heard = [None if slots is None else [vo(last)] + [vo(x) for x in slots] for _, slots, last in ra["heard"]]
            ok_len = len(rows) == len(exp_feed) + len(exp_fetch) + len(exp_heard)
            badh = [i for i, (a, b) in enumerate(zip(rows[len(exp_feed) + len(exp_fetch):], exp_heard)) if list(a) != b]
            ctx.obligation("correspondence:overheard-traffic", ok_len and not badh, "correspondence",
                           f"{len(badh)} of {len(exp_heard)} overheard sequences differ; first: {heard_cases[badh[0]]} model {rows[len(exp_feed) + len(exp_fetch) + badh[0]]} implementation {exp_heard[badh[0]]} (fragment counts {tot})" if badh
                           else f"{len(exp_heard)} sequences of fragments and write acknowledgements through the real Schedule._handle_msg (lock free / another zone's / this zone's) agree with hear_all")
            badf = [i for i, (a, b) in enumerate(zip(rows, exp_feed)) if list(a) != b]
            badl = [i for i, (a, b) in enumerate(zip(rows[len(exp_feed):], exp_fetch)) if list(a) != b]
            ctx.obligation("correspondence:reassembly", ok_len and not badf, "correspondence",
                           f"{len(badf)} of {len(exp_feed)} fragment sequences differ; first: {feed_cases[badf[0]]} model {rows[badf[0]]} implementation {exp_feed[badf[0]]} (fragment counts {tot})" if badf else "")
            ctx.obligation("correspondence:fetch-loop", ok_len and not badl, "correspondence",
                           f"{len(badl)} of {len(exp_fetch)} fetches differ; first: {fetch_cases[badl[0]]} model {rows[len(exp_feed) + badl[0]]} implementation {exp_fetch[badl[0]]} (fragment counts {tot})" if badl else "")
    else:
        ctx.obligation("correspondence:reassembly", False, "correspondence", "model not built")
        ctx.obligation("correspondence:fetch-loop", False, "correspondence", "model not built")
        ctx.obligation("correspondence:overheard-traffic", False, "correspondence", "model not built")


def lock_shape() -> str:
    """Both transfer routines do `await self.tcs._obtain_lock(...)` as the statement right BEFORE the try whose finally releases the lock (the
    structure M_LockWaiters has: a transfer that ends while waiting does not reach the finally)."""
    import ast  # noqa: PLC0415
    import inspect  # noqa: PLC0415

    import ramses_rf.system.schedule as S  # noqa: PLC0415

    tree = ast.parse(inspect.getsource(S))
    cls = next((n for n in ast.walk(tree) if isinstance(n, ast.ClassDef) and n.name == "Schedule"), None)
    for name in ("_get_schedule", "set_schedule"):
        fn = next((n for n in ast.walk(cls) if isinstance(n, ast.AsyncFunctionDef) and n.name == name), None) if cls else None
        if fn is None:
            return f"Schedule.{name} not found"
        sites = [i for i, n in enumerate(fn.body) if "_obtain_lock" in ast.unparse(n)]
        if len(sites) != 1 or isinstance(fn.body[sites[0]], ast.Try) or "_obtain_lock" not in ast.unparse(fn.body[sites[0]]).split("\n")[0]:
            return f"Schedule.{name}: the lock is no longer obtained by one top-level statement of its own"
        nxt = fn.body[sites[0] + 1] if sites[0] + 1 < len(fn.body) else None
        if not (isinstance(nxt, ast.Try) and any("_release_lock" in ast.unparse(x) for x in nxt.finalbody)):
            return f"Schedule.{name}: `await _obtain_lock` is not directly followed by the try whose finally releases the lock"
        if sum("_release_lock" in ast.unparse(n) for n in ast.walk(fn) if isinstance(n, ast.Call)) != 1:
            return f"Schedule.{name}: the lock is released at another place than that finally"
    return ""


def lock_waiters_correspondence(ctx: Ctx, built: bool, cases) -> None:
    """M_LockWaiters against the real lock: the events of every episode (a transfer reaches the lock, has obtained it, exchanges a fragment, is over)
    are replayed in the model; the lock after EACH event must be the real tcs.zone_lock_idx at that moment."""
    why = lock_shape()
    ctx.obligation("translator:lock-obtained-before-the-try", not why, "translator", why or "_get_schedule and set_schedule: `await _obtain_lock` then `try ... finally _release_lock`")
    if not built:
        ctx.obligation("correspondence:lock-waiters", False, "correspondence", "model not built")
        return
    name = {"start": "EStart", "obtained": "EPoll", "exchange": "EExchange", "end": "EEnd"}
    src = ("From Coq Require Import List Bool Arith.\nFrom RV Require Import M_LockWaiters.\nImport ListNotations.\nSet Printing Width 1000000.\nSet Printing Depth 1000000.\n"
           "Definition show (l : list (option nat)) : list nat := map (fun o => match o with None => 99 | Some z => z end) l.\n")
    for _s, evs in cases:
        src += "Eval vm_compute in (show (locks false init [" + "; ".join(f"{name[k]} {z}" for k, z, _ in evs) + "])).\n"
    rc, out = common.coq_eval("C18w", {"w": src}, timeout=300)["w"]
    rows = [eval(o.replace(";", ","), {"__builtins__": {}}) for o in re.findall(r"=\s*(\[.*?\])\s*:\s*list nat", out, flags=re.S)]  # noqa: S307
    if rc or len(rows) != len(cases):
        ctx.obligation("correspondence:lock-waiters", False, "correspondence", f"rc={rc} {len(rows)} results for {len(cases)}: {out[-300:]}")
        return
    bad = []
    for (s, evs), row in zip(cases, rows):
        real = [99 if lk is None else lk for _, _, lk in evs]
        if list(row) != real:
            k = next(i for i, (a, b) in enumerate(zip(row, real)) if a != b)
            bad.append((s, evs[:k + 1], row[k], real[k]))
    n_ev = sum(len(e) for _, e in cases)
    n_wait = sum(1 for _, e in cases for i, (k, z, _) in enumerate(e) if k == "end" and any(k2 == "start" and z2 == z for k2, z2, _ in e[:i])
                 and not any(k2 == "obtained" and z2 == z for k2, z2, _ in e[:i]))
    ctx.obligation("correspondence:lock-waiters", not bad, "correspondence",
                   (f"{len(bad)} of {len(cases)} episodes differ; first: steps {bad[0][0]['steps']} fault {bad[0][0]['plan']}: after the events {bad[0][1][-4:]} the model's lock is "
                    f"{bad[0][2]}, tcs.zone_lock_idx is {bad[0][3]} (99 = free)") if bad
                   else f"{len(cases)} episodes, {n_ev} lock events ({n_wait} transfers ended while still waiting for the lock): the lock after every event is the model's")


def cache_correspondence(ctx: Ctx, built: bool, n: int) -> None:
    """M_SchedCache against real Schedule objects, state by state: random sequences of fetches (forced or not), writes and changes on the controller,
    with ONE exchange failing (raising / never answering / its reply lost after the controller acted) at a random position; after every step the
    zone's remembered schedule, its two version readings, the controller's schedule and counter are compared with the model's."""
    rng = ctx.rng
    cases, impl, descr = [], [], []
    for trial in range(n):
        steps = [("fetch", 0, 30)]
        for _ in range(rng.randint(2, 6)):
            steps.append(rng.choice([("fetch", 0, 30), ("probe", 0, 30), ("set", 0, 30), ("set", 0, 30), ("bump", 0), ("bump", 1), ("fetch", 0, 30)]))
        seed = rng.randrange(10**6)
        base = episode({"seed": seed, "plan": {}, "steps": steps})
        plan = {}
        if base["calls"] and rng.random() < 0.8:
            plan = {str(rng.randrange(base["calls"])): rng.choice(["raise", "hang", "reply-lost", "reply-lost"])}
        o = episode({"seed": seed, "plan": plan, "steps": steps})
        fault = next(iter(plan.items()), (None, None))
        fpos = int(fault[0]) if fault[0] is not None else None
        # schedule ids as the model numbers them: 1 = the controller's first; every change on the controller and every write takes the next number
        ops, rows, wi = [], [], 0
        for st, c in zip(steps, o.get("cache", [])):
            calls = c["calls"]
            failed_at = fpos - c["first_call"] if fpos is not None and c["first_call"] <= fpos < c["first_call"] + len(calls) else None
            if st[0] in ("fetch", "probe"):
                ios = [("false" if (failed_at is not None and j == failed_at) else "true") for j, (code, _) in enumerate(calls) if code == "0006"]
                frag_fail = failed_at is not None and calls[failed_at][0] == "0404"
                ops.append(f"OFetch {'true' if st[0] == 'probe' else 'false'} {'true' if c['cached_ok'] else 'false'} [{'; '.join(ios)}] {'false' if frag_fail else 'true'}")
            elif st[0] == "set":
                ws = [j for j, (code, verb) in enumerate(calls) if code == "0404" and verb == " W"]
                w, vq = "WAllOk", "true"
                if failed_at is not None and calls[failed_at][0] == "0404":
                    last = failed_at == ws[-1] if ws else False
                    # did the controller get the whole set?  only when the LAST fragment's acknowledgement was lost after it acted
                    w = "WCommittedButReplyLost" if (last and fault[1] == "reply-lost" and len(ws) == o["nfrags_written"][wi]) else "WFailsEarly"
                elif failed_at is not None and calls[failed_at][0] == "0006":
                    vq = "false"
                ops.append(f"OWrite {w} {vq}")
                wi += 1
            elif st[0] == "bump":
                ops.append("OCtlChange" if st[1] == 0 else "OOtherChange")
            rows.append(c)
        if len(rows) != len(steps):
            continue
        # map schedules to the model's numbers by replaying the numbering rule
        nxt, wi = 2, 0
        by_days = {}

        def key(d):
            return json.dumps(d, sort_keys=True)

        by_days[key(base["initial_sched"])] = 1
        for st in steps:
            if st[0] == "set":
                by_days[key(o["written_days"][wi])] = nxt
                wi += 1
                nxt += 1
            elif st[0] == "bump" and st[1] == 0:
                nxt += 1          # the controller's new schedule: numbered when it is seen below
        nxt2, wi = 2, 0
        seq = []
        for st, c in zip(steps, rows):
            if st[0] == "set":
                nxt2 += 1
            elif st[0] == "bump" and st[1] == 0:
                by_days[key(c["csched"])] = nxt2
                nxt2 += 1
            rel = lambda v: 0 if not v else v - 4   # noqa: E731
            seq.append([by_days.get(key(c["cache"]), -1) if c["cache"] is not None else 0, rel(c["sver"]), rel(c["gver"]), by_days.get(key(c["csched"]), -1), rel(c["cver"])])
        cases.append("tr (M_SchedCache.init) [" + "; ".join(ops) + "]")
        impl.append(seq)
        descr.append({"steps": [list(x) for x in steps], "fault": plan})
        ctx.case(("cache", seed, repr(steps), repr(plan)), bool(plan), "schedule-cache-history")
    if not built:
        ctx.obligation("correspondence:remembered-schedule", False, "correspondence", "model not built")
        return
    pre = ("From Coq Require Import ZArith List Bool.\nFrom RV Require Import M_SchedCache.\nImport ListNotations.\nOpen Scope Z_scope.\n"
           "Set Printing Width 1000000.\nSet Printing Depth 1000000.\n"
           "Definition ob (s : st) : list Z := [match cache s with Some c => c | None => 0 end; sver s; gver s; csched s; cver s].\n"
           "Fixpoint tr (s : st) (ops : list op) : list (list Z) := match ops with [] => [] | o :: r => let s1 := fst (step false s o) in ob s1 :: tr s1 r end.\n")
    rc, out = common.coq_eval("C18cache", {"x": pre + "".join(f"Eval vm_compute in ({c}).\n" for c in cases)}, timeout=300)["x"]
    if rc:
        ctx.obligation("correspondence:remembered-schedule", False, "correspondence", out[-400:])
        return
    got = [[list(r) for r in eval(x.replace(";", ","), {"__builtins__": {}})] for x in re.findall(r"=\s*(\[.*?\])\s*:\s*list \(list Z\)", out, flags=re.S)]  # noqa: S307
    bad = [i for i, (a, b) in enumerate(zip(got, impl)) if a != b]
    ctx.obligation("correspondence:remembered-schedule", not bad and len(got) == len(impl), "correspondence",
                   f"{len(bad)} of {len(impl)} histories differ; first: {descr[bad[0]]} ops {cases[bad[0]]}: model (cache, sver, gver, controller's schedule, counter) per step {got[bad[0]]}, real objects {impl[bad[0]]}"[:1500]
                   if bad or len(got) != len(impl)
                   else f"{len(impl)} histories of fetches / forced fetches / writes / changes with one exchange failing anywhere: the zone's remembered schedule, its version readings, the controller's schedule and counter agree with M_SchedCache after every step")


def replay(case: dict) -> int:
    print(case.get("signature"), case.get("case"))
    return 0
