import logging, itertools, datetime as dt
logging.disable(logging.CRITICAL)
from ramses_tx.command import Command, CODE_API_MAP
from ramses_tx.message import Message
from ramses_tx import exceptions as exc
CTL="01:145038"
def chk(name, fn, *a, expect=None, **k):
    try:
        c=fn(*a,**k)
    except Exception as e:
        return ("REFUSED", type(e).__name__)
    try:
        m=Message._from_cmd(c)
    except Exception as e:
        return ("BADFRAME", str(c), type(e).__name__)
    return ("OK", c.verb, c.code, m.payload)
res=[]
# registered verb/code
for key,fn in CODE_API_MAP.items():
    pass
print("get_zone_setpoint", chk("",Command.get_zone_setpoint,CTL,"01"))
for idx in (0,11,15,16,0x20,255,256,-1,"0F","10","FA","HW","FC"):
    print("get_zone_config idx",idx, chk("",Command.get_zone_config,CTL,idx))
for sp in (19.99, 20.0, 5, 35, 40, 327.68, 400, -5, None):
    print("set_zone_setpoint",sp, chk("",Command.set_zone_setpoint,CTL,"01",sp))
print(chk("",Command.set_zone_mode,CTL,"01",mode="temporary_override",setpoint=21.5,until=dt.datetime(2024,2,29,12,30)))
print(chk("",Command.set_zone_mode,CTL,"01",mode="countdown_override",setpoint=21.5,duration=60))
print(chk("",Command.set_zone_mode,CTL,"01",mode="follow_schedule"))
print(chk("",Command.set_dhw_mode,CTL,mode="temporary_override",active=True,until=dt.datetime(2024,2,29,12,30)))
print(chk("",Command.set_dhw_mode,CTL,mode="countdown_override",active=True,duration=60))
for mid in (0,1,3,5,17,25,255,256):
    print("ot",mid, chk("",Command.get_opentherm_data,"10:123456",mid))
print(chk("",Command.set_system_mode,CTL,"away",until=dt.datetime(2024,2,29,12,30)))
print(chk("",Command.set_system_time,CTL,dt.datetime(2024,2,29,12,30,59),is_dst=True))
print(chk("",Command.set_tpi_params,CTL,"FC",cycle_rate=6,min_on_time=1,min_off_time=1,proportional_band_width=1.5))
print(chk("",Command.set_tpi_params,CTL,None))
print(chk("",Command.set_mix_valve_params,CTL,"01"))
print(chk("",Command.set_dhw_params,CTL,setpoint=55.55,overrun=3,differential=2.5))
print(chk("",Command.set_zone_config,CTL,"01",min_temp=5.55,max_temp=30.01))
print(chk("",Command.set_zone_name,CTL,"01","Kitchen é"))
print(chk("",Command.get_schedule_fragment,CTL,"01",1,0))
print(chk("",Command.get_schedule_fragment,CTL,"HW",2,3))
print(chk("",Command.set_schedule_fragment,CTL,"01",1,3,"AA"*41))
print(chk("",Command.get_system_log_entry,CTL,5))
print(chk("",Command.get_system_log_entry,CTL,64))
print(chk("",Command.put_sensor_temp,"34:123456",19.99))
print(chk("",Command.put_dhw_temp,"07:123456",55.11))
print(chk("",Command.put_co2_level,"37:123456",400))
print(chk("",Command.put_indoor_humidity,"37:123456",0.57))
print(chk("",Command.put_actuator_state,"13:123456",0.57))
print(chk("",Command.put_actuator_cycle,"13:123456","01:145038",0.57,100,cycle_countdown=200))
print(chk("",Command.set_bypass_position,"32:123456",bypass_position=0.57))
print(chk("",Command.set_fan_mode,"32:123456","low",src_id="37:111111"))
print(chk("",Command.set_fan_param,"32:123456","3F",10))
print(chk("",Command.put_presence_detected,"37:123456",True))
print(chk("",Command.put_weather_temp,"17:123456",-5.55))
print(chk("",Command.put_outdoor_temp,"37:123456",-5.55))
print(chk("",Command.get_tpi_params,CTL))
print(chk("",Command.get_relay_demand,"13:123456"))
