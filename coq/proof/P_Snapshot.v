From Coq Require Import List Bool Arith Lia.
From RV Require Import M_Snapshot.
Import ListNotations.

(* ---- the filter ---- *)
Lemma wanted_no_requests : forall inc e m, wanted_msg inc e m = true -> a_verb m <> VRQ.
Proof. intros inc e [c v n] H Hv; cbn in Hv; subst v. destruct c, inc, e; cbn in H; try discriminate. Qed.

Lemma wanted_writes_are_fragments : forall inc e m, wanted_msg inc e m = true -> a_verb m = VW ->
  a_code m = C0404 /\ 7 < a_len m.
Proof.
  intros inc e [c v n] H Hv; cbn in Hv; subst v. destruct c; cbn in *; try discriminate.
  - destruct (e && negb inc); [discriminate|]. cbn in H. split; [reflexivity|]. apply Nat.ltb_lt; exact H.
  - destruct (e && negb inc); discriminate.
Qed.

Lemma wanted_unexpired_unless_asked_partial : forall e m, wanted_msg false e m = true -> a_code m <> C313F -> e = false.
Proof. intros e [c v n] H Hc. destruct e; [|reflexivity]. destruct c; cbn in *; try discriminate; congruence. Qed.

(* the clause as the property states it -- no expired packet unless asked for -- is refuted by the 313F rule *)
Lemma wanted_unexpired_refuted : exists m, wanted_msg false true m = true.
Proof. exists (mkAttrs C313F VI 9). reflexivity. Qed.

Lemma wanted_msg_mono : forall inc m, wanted_msg inc true m = true -> wanted_msg inc false m = true.
Proof. intros inc [c v n] H. destruct c, inc, v; cbn in *; try discriminate; try reflexivity; exact H. Qed.

(* ---- the store ---- *)
Section Store.
  Variable slots_of : nat -> list nat.
  Variable wanted : bool -> nat -> bool.
  Variable expired_at : nat -> nat -> bool.
  Hypothesis wanted_mono : forall p, wanted true p = true -> wanted false p = true.
  Hypothesis expired_mono : forall c c' p, c' <= c -> expired_at c' p = true -> expired_at c p = true.

  Notation store := (store slots_of).
  Notation held_in := (held_in slots_of).
  Notation overwritten := (overwritten slots_of).
  Notation snapshot := (snapshot slots_of wanted expired_at).

  (* K is what remains of l after dropping events, each kept packet still held w.r.t. the later part of l *)
  Inductive Kept : list event -> list nat -> Prop :=
  | Kept_nil : Kept [] []
  | Kept_drop : forall e l K, Kept l K -> Kept (e :: l) K
  | Kept_keep : forall p l K, Kept l K -> held_in p l = true -> Kept (Pkt p :: l) (p :: K).

  Lemma Kept_incl : forall l K, Kept l K -> incl (replay K) l.
  Proof.
    induction 1 as [|e l K _ IH|p l K _ IH _]; intros x Hx.
    - exact Hx.
    - right; apply IH; exact Hx.
    - destruct Hx as [<-|Hx]; [left; reflexivity | right; apply IH; exact Hx].
  Qed.

  Lemma overwritten_incl : forall s K l, incl K l -> overwritten s K = true -> overwritten s l = true.
  Proof.
    intros s K l Hi H. unfold M_Snapshot.overwritten in *. apply existsb_exists in H as (q & Hq & Hw).
    apply existsb_exists. exists q; split; [apply Hi; exact Hq | exact Hw].
  Qed.

  Lemma held_in_incl : forall p K l, incl K l -> held_in p l = true -> held_in p K = true.
  Proof.
    intros p K l Hi H. unfold M_Snapshot.held_in in *. apply existsb_exists in H as (s & Hs & Hn).
    apply existsb_exists. exists s; split; [exact Hs|].
    destruct (overwritten s K) eqn:E; [|reflexivity].
    rewrite (overwritten_incl s K l Hi E) in Hn. discriminate.
  Qed.

  Lemma Kept_store : forall l, Kept l (store l).
  Proof.
    induction l as [|[p|s] l IH]; cbn; [constructor| |apply Kept_drop; exact IH].
    destruct (held_in p l) eqn:E; [apply Kept_keep; assumption | apply Kept_drop; assumption].
  Qed.

  Lemma Kept_filter : forall g l K, Kept l K -> Kept l (filter g K).
  Proof.
    intros g l K H; induction H as [|e l K _ IH|p l K _ IH Hh]; cbn.
    - constructor.
    - apply Kept_drop; exact IH.
    - destruct (g p); [apply Kept_keep; assumption | apply Kept_drop; assumption].
  Qed.

  (* replaying what was kept into an empty store gives exactly what was kept *)
  Lemma store_of_kept : forall l K, Kept l K -> store (replay K) = K.
  Proof.
    induction 1 as [|e l K _ IH|p l K HK IH Hh]; cbn; [reflexivity | exact IH |].
    fold (replay K). rewrite (held_in_incl p (replay K) l (Kept_incl l K HK) Hh). rewrite IH. reflexivity.
  Qed.

  Lemma filter_all : forall (g : nat -> bool) l, (forall x, In x l -> g x = true) -> filter g l = l.
  Proof.
    induction l as [|x l IH]; intros H; cbn; [reflexivity|].
    rewrite (H x (or_introl eq_refl)). rewrite IH; [reflexivity|]. intros y Hy; apply H; right; exact Hy.
  Qed.

  Lemma wanted_later : forall c c' p, c' <= c -> wanted (expired_at c p) p = true -> wanted (expired_at c' p) p = true.
  Proof.
    intros c c' p Hc H. destruct (expired_at c' p) eqn:E'.
    - rewrite (expired_mono c c' p Hc E') in H. exact H.
    - destruct (expired_at c p); [apply wanted_mono; exact H | exact H].
  Qed.

  (* snapshot -> fresh store -> snapshot is a fixpoint (the fresh gateway's clock is that of the last
     packet it was given, so not later than the original's) *)
  Theorem snapshot_fixpoint : forall c c' hist, c' <= c ->
    snapshot c' (replay (snapshot c hist)) = snapshot c hist.
  Proof.
    intros c c' hist Hc. unfold M_Snapshot.snapshot at 1.
    set (K := snapshot c hist).
    assert (HK : Kept hist K) by (apply Kept_filter, Kept_store).
    rewrite (store_of_kept hist K HK).
    apply filter_all. intros p Hp. unfold K, M_Snapshot.snapshot in Hp. apply filter_In in Hp as [_ Hw].
    apply (wanted_later c c' p Hc Hw).
  Qed.

  Lemma overwritten_app : forall s a b, overwritten s (a ++ b) = overwritten s a || overwritten s b.
  Proof. intros; unfold M_Snapshot.overwritten; apply existsb_app. Qed.

  Lemma member_overwrites : forall p K s, In p K -> In s (slots_of p) -> overwritten s (replay K) = true.
  Proof.
    intros p K s Hp Hs. unfold M_Snapshot.overwritten. apply existsb_exists. exists (Pkt p); split; [apply in_map; exact Hp|].
    cbn. apply existsb_exists. exists s; split; [exact Hs | apply Nat.eqb_refl].
  Qed.

  Lemma held_in_false_of_member : forall p K a, In p K -> held_in p (a ++ replay K) = false.
  Proof.
    intros p K a Hp. unfold M_Snapshot.held_in. destruct (existsb _ (slots_of p)) eqn:E; [|reflexivity].
    apply existsb_exists in E as (s & Hs & Hn). fold (overwritten s (a ++ replay K)) in Hn.
    rewrite overwritten_app, (member_overwrites p K s Hp Hs), orb_true_r in Hn. discriminate.
  Qed.

  Lemma replay_over : forall (g : nat -> bool) K a,
    (forall p, In p (filter g (store a)) -> In p K) ->
    filter g (store (a ++ replay K)) = filter g (store (replay K)).
  Proof.
    intros g K; induction a as [|[p|s] a IH]; intros H; [reflexivity| |].
    - assert (Ha : forall q, In q (filter g (store a)) -> In q K).
      { intros q Hq. apply H. cbn. destruct (held_in p a); [|exact Hq].
        cbn. destruct (g p); [right|]; exact Hq. }
      cbn [app M_Snapshot.store]. destruct (held_in p (a ++ replay K)) eqn:E; [|apply IH; exact Ha].
      cbn [filter]. destruct (g p) eqn:Eg; [|apply IH; exact Ha].
      exfalso. assert (Hin : In p K).
      { apply H. cbn. rewrite (held_in_incl p a (a ++ replay K) (incl_appl (replay K) (incl_refl a)) E). cbn. rewrite Eg. left; reflexivity. }
      rewrite (held_in_false_of_member p K a Hin) in E. discriminate.
    - cbn [app M_Snapshot.store]. apply IH. exact H.
  Qed.

  (* restoring a snapshot into the gateway it was taken from (or one that already holds that state) changes
     nothing: the next snapshot is the same *)
  Theorem restore_into_same : forall c hist, snapshot c (hist ++ replay (snapshot c hist)) = snapshot c hist.
  Proof.
    intros c hist. set (K := snapshot c hist). unfold M_Snapshot.snapshot at 1.
    set (g := fun p => wanted (expired_at c p) p).
    rewrite (replay_over g K hist) by (intros p Hp; exact Hp).
    assert (HK : Kept hist K) by (apply Kept_filter, Kept_store).
    rewrite (store_of_kept hist K HK).
    apply filter_all. intros p Hp. unfold K, M_Snapshot.snapshot in Hp. apply filter_In in Hp as [_ Hw]. exact Hw.
  Qed.

  (* ... and restoring it twice into a fresh store is the same as restoring it once *)
  Theorem restore_twice : forall c hist,
    snapshot c (replay (snapshot c hist) ++ replay (snapshot c hist)) = snapshot c hist.
  Proof.
    intros c hist. rewrite <- (snapshot_fixpoint c c hist (le_n c)) at 2.
    rewrite restore_into_same. apply snapshot_fixpoint. apply le_n.
  Qed.

  (* what a snapshot holds: only packets of the history, and wanted *)
  Theorem snapshot_sound : forall c hist p, In p (snapshot c hist) ->
    In (Pkt p) hist /\ wanted (expired_at c p) p = true.
  Proof.
    intros c hist p Hp. unfold M_Snapshot.snapshot in Hp. apply filter_In in Hp as [Hs Hw]. split; [|exact Hw].
    apply (Kept_incl hist (store hist) (Kept_store hist)). apply in_map. exact Hs.
  Qed.
End Store.

(* non-vacuity: a concrete routing where a later packet overwrites an earlier one in one of two slots, and a cleared slot *)
Definition ex_slots (p : nat) : list nat := match p with 0 => [10; 11] | 1 => [10] | 2 => [12] | _ => [] end.
Example store_example :
  store ex_slots (replay [0; 1; 2; 3]) = [0; 1; 2] /\ store ex_slots (replay [0; 1; 1; 0]) = [0] /\
  store ex_slots (replay [1; 0; 1]) = [0; 1] /\ store ex_slots [Pkt 0; Pkt 2; Clear 12; Clear 11] = [0].
Proof. repeat split; reflexivity. Qed.
