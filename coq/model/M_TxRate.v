(* M_TxRate -- _FullTransport._report_transmit_rate (ramses_tx/transport.py), the "_tx_rate" of Gateway.status on a live transport, also evaluated
   inside every write_frame: the transmits of the last 300 s are kept; with fewer than two of them the answer is their number; otherwise their number
   is divided by the time between the first and the last.  Times are microseconds.  Definitions only; proofs in proof/P_TxRate.v. *)
From Coq Require Import ZArith List Bool.
Import ListNotations.
Open Scope Z_scope.

Definition WINDOW_us : Z := 300000000.
Definition in_window (now : Z) (ts : list Z) : list Z := filter (fun t => now - WINDOW_us <? t) ts.

Inductive rate := Count (n : nat) | PerMinuteX100 (q : Z) | RaisesZeroDivision | RaisesIndex.

(* the code as it is: the window first, then the early exit *)
Definition report (now : Z) (ts : list Z) : rate :=
  let w := in_window now ts in
  match w with
  | [] => Count 0
  | [_] => Count 1
  | first :: _ => let d := last w first - first in
                  if d =? 0 then RaisesZeroDivision else PerMinuteX100 (Z.of_nat (length w) * 6000 * 1000000 / d)
  end.

(* the slip: the early exit on ALL tracked transmits, before the window is applied *)
Definition report_slip (now : Z) (ts : list Z) : rate :=
  match ts with
  | [] => Count 0
  | [_] => Count 1
  | _ => let w := in_window now ts in
         match w with
         | [] => RaisesIndex
         | first :: _ => let d := last w first - first in
                         if d =? 0 then RaisesZeroDivision else PerMinuteX100 (Z.of_nat (length w) * 6000 * 1000000 / d)
         end
  end.

Definition raises (r : rate) : bool := match r with RaisesZeroDivision | RaisesIndex => true | _ => false end.
