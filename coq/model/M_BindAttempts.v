(* M_BindAttempts: several binding attempts on ONE context (ramses_rf/binding_fsm.py: BindContextBase._abandon_binding,
   wait_for_binding_request / initiate_binding_process's except clauses, set_state at the start of an attempt) -- C20's
   "every attempt ends ... afterwards the device is no longer binding and a new attempt can start".
   A wait (M_Bind.bw) can be ABANDONED -- the role coroutine raised: the caller gave up (cancellation), a send failed --
   and a new attempt started later.  Every state object arms its own 5.1 s timer; [c_stale] counts the timers of abandoned
   state objects that are still armed with a pending future.  [cancel_first = true] is the code as it is: the timer of the
   current state is cancelled BEFORE the context moves to DevHasFailedBinding.  Definitions only. *)
From Coq Require Import List Bool Arith.
From RV Require Import M_Bind.
Import ListNotations.

Record ctxw := mkC { c_cur : bw; c_stale : nat; c_exn : nat }.

Inductive aev :=
| AWait (e : ev)        (* an event of the wait in progress (M_Bind.step) *)
| AAbandon              (* the role coroutine raised: _abandon_binding() *)
| ANew (hst : bool)     (* a new attempt: set_state(<first waiting state>), refused while binding *)
| AStale.               (* the timer of an abandoned state object comes due *)

Definition binding (s : bw) : bool := match b_ctx s with CWaiting => true | _ => false end.

Definition astep (cancel_first : bool) (c : ctxw) (a : aev) : ctxw :=
  let cur := c_cur c in
  match a with
  | AWait e => let '(s', n) := step true cur e in mkC s' (c_stale c) (c_exn c + n)
  | AAbandon =>
      if binding cur then
        (* the attempt ends with an error (BindingFlowFailed, or the caller's own cancellation); the wait's own timer is gone;
           the state object's timer is cancelled only if it is looked up BEFORE the state is replaced *)
        let leak := negb cancel_first && b_sttimer cur && negb (fut_done (b_fut cur)) in
        mkC (upd (b_fut cur) CFailed false false (Done FlowFailed)) (if leak then S (c_stale c) else c_stale c) (c_exn c)
      else c
  | ANew hst => if binding cur then c else mkC (bw0 hst) (c_stale c) (c_exn c)
  | AStale =>
      match c_stale c with
      | O => c
      | S n =>   (* _handle_wait_timer_expired of the OLD state object: its orphaned future gets the exception (nobody retrieves it)
                    and the CONTEXT is put into DevHasFailedBinding, whatever attempt is in progress *)
          mkC (upd (b_fut cur) CFailed (b_sttimer cur) (b_wtimer cur) (b_w cur)) n (S (c_exn c))
      end
  end.

Definition ainstant (cf : bool) (c : ctxw) (evs : list aev) : ctxw :=
  let c' := fold_left (astep cf) evs c in mkC (wake true (c_cur c')) (c_stale c') (c_exn c').
Definition afold (cf : bool) (c : ctxw) (instants : list (list aev)) : ctxw := fold_left (ainstant cf) instants c.
Definition arun (cf : bool) (hst : bool) (instants : list (list aev)) : ctxw := afold cf (mkC (bw0 hst) 0 0) instants.

(* histories of a single attempt in which stale timers may come due: None = a stale timer *)
Definition lift (evs : list (option ev)) : list aev := map (fun o => match o with Some e => AWait e | None => AStale end) evs.
Fixpoint strip (evs : list (option ev)) : list ev :=
  match evs with [] => [] | Some e :: t => e :: strip t | None :: t => strip t end.
