(* M_Command -- payload builders of the command constructors (ramses_tx/command.py) that take an index, a setpoint,
   a log index, an OpenTherm id or fragment numbers, as functions into strings; the payload regexes and the API map they
   are checked against are regenerated (GenRegex, GenTables).  Definitions only; proofs are in proof/P_Command.v. *)
From Coq Require Import ZArith String Ascii List Bool.
From RV Require Import Py PyStr Regex GenRegex GenTables.
Import ListNotations.
Open Scope Z_scope.

(* re.match(regex(verb, code), payload): a prefix in L(Rp) or the whole payload in L(Rf) *)
Definition payload_ok (verb code : Z) (s : str) : bool :=
  match find (fun r => let '(c, v, _, _) := r in (c =? code) && (v =? verb)) PAYLOAD_REGEXES with
  | Some (_, _, rp, rf) => pmatches rp s || matches rf s
  | None => false
  end.

Inductive getter := GZoneConfig | GZoneMode | GZoneName | GZoneSetpoint | GZoneTemp | GZoneWindow | GMixValve.
Definition all_getters := [GZoneConfig; GZoneMode; GZoneName; GZoneSetpoint; GZoneTemp; GZoneWindow; GMixValve].
(* get_mix_valve_params builds RQ|1030, for which the schema has no payload regex at all (known finding) *)
Definition valid_getters := [GZoneConfig; GZoneMode; GZoneName; GZoneSetpoint; GZoneTemp; GZoneWindow].
Definition getter_code (g : getter) : Z :=
  match g with GZoneConfig => 0x000A | GZoneMode => 0x2349 | GZoneName => 0x0004 | GZoneSetpoint => 0x2309
             | GZoneTemp => 0x30C9 | GZoneWindow => 0x12B0 | GMixValve => 0x1030 end.
Definition getter_name (g : getter) : string :=
  match g with GZoneConfig => "get_zone_config" | GZoneMode => "get_zone_mode" | GZoneName => "get_zone_name" | GZoneSetpoint => "get_zone_setpoint"
             | GZoneTemp => "get_zone_temp" | GZoneWindow => "get_zone_window_state" | GMixValve => "get_mix_valve_params" end.
Definition V_I := 0.  Definition V_RQ := 1.  Definition V_RP := 2.  Definition V_W := 3.

(* _check_idx: a zone 00..0F or one of the domain ids F9/FA/FC (which the TPI/DHW constructors pass through it), else refused *)
Definition check_idx (i : Z) : option str :=
  if ((0 <=? i) && (i <=? 15)) || (i =? 0xF9) || (i =? 0xFA) || (i =? 0xFC) then Some (hexN 2 i) else None.
Definition getter_payload (g : getter) (i : Z) : option str :=
  match check_idx i with
  | Some x => Some (match g with GZoneName => x ++ lit "00" | _ => x end)
  | None => None
  end.

(* set_zone_setpoint(idx, k/100): idx + hex_from_temp(k/100); by C04_temp_encode_decode the encoder yields k mod 2^16 *)
Definition setpoint_payload (idx k : Z) : str := hexN 2 idx ++ hexN 4 (k mod 65536).

(* get_system_log_entry(i): f"{i:06X}" for the 64 entries of the log, else refused *)
Definition log_entry_payload (i : Z) : option str := if (0 <=? i) && (i <=? 63) then Some (hexN 6 i) else None.

(* get_opentherm_data(id): 00 | parity flag | 00 | id | 0000 *)
Definition parity (x : Z) : bool := fold_left xorb (map (Z.testbit x) (zrange 8 0)) false.
Definition opentherm_payload (i : Z) : str := (if parity i then lit "0080" else lit "0000") ++ hexN 2 i ++ lit "0000".

(* get_schedule_fragment(idx, frag, total): refused for frag = 0, frag = 1 with total <> 0, frag > total <> 0 *)
Definition fragment_request (idx fn tot : Z) : option str :=
  if (fn =? 0) || ((fn =? 1) && negb (tot =? 0)) || ((tot <? fn) && negb (tot =? 0)) then None
  else Some (hexN 2 idx ++ lit "200008" ++ lit "00" ++ hexN 2 fn ++ hexN 2 tot).

(* the registration: is (verb, code) -> name in the regenerated CODE_API_MAP? *)
Definition name_codes (s : string) : list Z := map (fun c => Z.of_nat (nat_of_ascii c)) (lit s).
Definition registered (verb code : Z) (name : string) : bool :=
  existsb (fun r => let '(v, c, n) := r in (v =? verb) && (c =? code) && (if list_eq_dec Z.eq_dec n (name_codes name) then true else false)) API_MAP.

(* the getters with a fixed payload: get_schedule_version / get_system_language / get_system_time ("00"), get_system_mode ("FF"), and the three
   DHW getters (get_dhw_mode / get_dhw_params / get_dhw_temp), whose payload is _check_idx(dhw_idx) -- 00, or 01 for a second cylinder *)
Inductive fgetter := FDhwMode | FDhwParams | FDhwTemp | FSchedVersion | FLanguage | FSystemMode | FSystemTime.
Definition all_fgetters := [FDhwMode; FDhwParams; FDhwTemp; FSchedVersion; FLanguage; FSystemMode; FSystemTime].
Definition fg_code (g : fgetter) : Z :=
  match g with FDhwMode => 0x1F41 | FDhwParams => 0x10A0 | FDhwTemp => 0x1260 | FSchedVersion => 0x0006 | FLanguage => 0x0100
             | FSystemMode => 0x2E04 | FSystemTime => 0x313F end.
Definition fg_name (g : fgetter) : string :=
  match g with FDhwMode => "get_dhw_mode" | FDhwParams => "get_dhw_params" | FDhwTemp => "get_dhw_temp" | FSchedVersion => "get_schedule_version"
             | FLanguage => "get_system_language" | FSystemMode => "get_system_mode" | FSystemTime => "get_system_time" end.
Definition fg_is_dhw (g : fgetter) : bool := match g with FDhwMode | FDhwParams | FDhwTemp => true | _ => false end.
Definition fgetter_payload (g : fgetter) (dhw_idx : Z) : option str :=
  if fg_is_dhw g then check_idx dhw_idx else Some (match g with FSystemMode => lit "FF" | _ => lit "00" end).
