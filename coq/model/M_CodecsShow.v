(* M_CodecsShow: integer codes of codec results + block hashes, used by the
   correspondence run to compare the model with the implementation over whole domains. *)
From Coq Require Import ZArith Ascii String List Bool PrimFloat.
From RV Require Import Py PyStr PyFloat M_Codecs.
Import ListNotations.
Open Scope Z_scope.

Definition HM : Z := 2 ^ 61 - 1.
Definition hstep (acc x : Z) : Z := (acc * 1000003 + x) mod HM.

Fixpoint block_hash (f : Z -> Z) (n : nat) (start acc : Z) : Z :=
  match n with O => acc | S n' => block_hash f n' (start + 1) (hstep acc (f start)) end.

Definition blocks (f : Z -> Z) (nblocks : nat) (bsize : nat) : list Z :=
  map (fun b => block_hash f bsize (b * Z.of_nat bsize) 0) (zrange nblocks 0).

Definition exn_code (e : exn) : Z :=
  match e with ValueError => 1 | TypeError => 2 | KeyError => 3 | AssertionError => 4 | _ => 9 end.

(* a float as one integer: sign, mantissa, exponent (value = m * 2^e) *)
Definition float_code (f : float) : Z :=
  match f_bits f with
  | Some (s, m, e) => ((if s then 1 else 0) * 2 ^ 53 + m) * 4096 + (e + 2000)
  | None => -1
  end.

Definition res_code {A} (c : A -> Z) (r : result A) : Z :=
  match r with Ok a => 16 * c a | Raise e => exn_code e end.

Definition tempv_code (t : tempv) : Z :=
  match t with TNone => 1 | TFalse => 2 | TNum f => 3 + 4 * float_code f end.

(* decode word; if numeric also re-encode *)
Definition temp_code (w : Z) : Z :=
  match hex_to_temp w with
  | Ok (TNum f) => hstep (res_code tempv_code (Ok (TNum f))) (res_code (fun z => z) (hex_from_temp_num f))
  | r => res_code tempv_code r
  end.

Definition optf_code (o : option float) : Z := match o with None => 1 | Some f => 3 + 4 * float_code f end.

Definition pct_code (hr : bool) (b : Z) : Z :=
  match hex_to_percent b hr with
  | Ok (Some f) => hstep (res_code optf_code (Ok (Some f))) (res_code (fun z => z) (hex_from_percent (Some f) hr))
  | r => res_code optf_code r
  end.

Definition dbl_code (factor w : Z) : Z :=
  match hex_to_double w factor with
  | Some f => hstep (optf_code (Some f)) (res_code (fun z => z) (hex_from_double (Some f) factor))
  | None => 1
  end.

Definition optb_code (o : option bool) : Z := match o with None => 1 | Some false => 2 | Some true => 3 end.
Definition bool_code (b : Z) : Z := res_code optb_code (hex_to_bool b).

Definition flag_code (lsb : bool) (b : Z) : Z :=
  fold_left (fun acc x => acc * 2 + x) (hex_to_flag8 b lsb) 1.

(* encoder on an arbitrary grid value k/100 (k may be out of range) *)
Definition temp_enc_code (k : Z) : Z :=
  res_code (fun z => z) (hex_from_temp_num (fdiv (f_of_Z k) (f_of_Z 100))).

Definition sp_code (w : Z) : Z :=
  match sched_pack_setpoint (sched_unpack_setpoint w) with Some z => z | None => -1 end.

Definition dtf_code (f : dtf) : Z :=
  ((((yr f * 16 + mo f) * 32 + dd f) * 32 + hh f) * 64 + mi f) * 64 + ss f.
Definition optd_code (o : option dtf) : Z := match o with None => 1 | Some f => 3 + 4 * dtf_code f end.
Definition dts_dec_code (v : Z) : Z := res_code optd_code (hex_to_dts v).
Definition dtm_dec_code (v : Z) : Z := res_code optd_code (hex_to_dtm v).
Definition date_dec_code (v : Z) : Z := res_code optd_code (hex_to_date v).

Definition id_code (h : Z) : Z := let '(t, n) := hex_id_to_dev_id h in t * 2 ^ 20 + n.

Definition show_res (r : result str) : string :=
  match r with Ok s => l2s s | Raise e => String "!"%char (match e with ValueError => "ValueError" | TypeError => "TypeError" | KeyError => "KeyError" | _ => "Other" end) end.
