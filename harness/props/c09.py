"""C09 -- see harness/qos_check.py (shared with the other two send-machinery properties)."""

from ..common import Ctx
from ..qos_check import check


def run(ctx: Ctx) -> None:
    check(ctx, "C09")


def replay(case: dict) -> int:
    print(case.get("signature"), case.get("case"))
    return 0
