(* M_Sched: the schedule wire format of ramses_rf/system/schedule.py (C17):
   _struct_pack / _struct_unpack, full_sched_to_fragz / fragz_to_full_sched (day grouping, hex,
   82-char chunks), Schedule._update_payload_set / _proc_payload_set.
   zlib is a section variable with its round-trip law as hypothesis (not modelled). *)
From Coq Require Import ZArith List Bool Arith Lia.
Import ListNotations.
Open Scope Z_scope.

(* one 20-byte record: zone index, day of week, minutes since midnight, value
   (setpoint in centi-degrees, or 0/1 for a hot-water switch) *)
Record srec := { s_idx : Z; s_dow : Z; s_tod : Z; s_val : Z }.

(* struct.pack("<xxxxBxxxBxxxHxxHxx", idx, dow, tod, val) *)
Definition pack (r : srec) : list Z :=
  [0; 0; 0; 0; s_idx r; 0; 0; 0; s_dow r; 0; 0; 0; s_tod r mod 256; s_tod r / 256; 0; 0; s_val r mod 256; s_val r / 256; 0; 0].

(* struct.unpack("<xxxxBxxxBxxxHxxHH", raw)[:4] *)
Definition unpack (raw : list Z) : option srec :=
  match raw with
  | [_; _; _; _; i; _; _; _; d; _; _; _; t0; t1; _; _; v0; v1; _; _] =>
      Some {| s_idx := i; s_dow := d; s_tod := t0 + 256 * t1; s_val := v0 + 256 * v1 |}
  | _ => None
  end.

Definition rec_ok (r : srec) : bool :=
  (0 <=? s_idx r) && (s_idx r <? 256) && (0 <=? s_dow r) && (s_dow r <? 256) &&
  (0 <=? s_tod r) && (s_tod r <? 65536) && (0 <=? s_val r) && (s_val r <? 65536).

(* a switchpoint: (minutes since midnight, value) *)
Definition sp := (Z * Z)%type.
(* a weekly schedule: zone index and days (day of week, switchpoints) *)
Record sched := { z_idx : Z; z_days : list (Z * list sp) }.

(* full_sched_to_fragz, before compression *)
Definition flatten (s : sched) : list srec :=
  flat_map (fun d => map (fun p => {| s_idx := z_idx s; s_dow := fst d; s_tod := fst p; s_val := snd p |}) (snd d)) (z_days s).
Definition raw_of (s : sched) : list Z := flat_map pack (flatten s).

(* fragz_to_full_sched, after decompression: the day grouping *)
Fixpoint grp (old : Z) (cur : list sp) (recs : list srec) : list (Z * list sp) :=
  match recs with
  | [] => [(old, cur)]
  | r :: t => if old <? s_dow r then (old, cur) :: grp (s_dow r) [(s_tod r, s_val r)] t
              else grp old (cur ++ [(s_tod r, s_val r)]) t
  end.

Fixpoint records (fuel : nat) (raw : list Z) : option (list srec) :=
  match fuel, raw with
  | _, [] => Some []
  | O, _ => None
  | S f, _ =>
      match unpack (firstn 20 raw), records f (skipn 20 raw) with
      | Some r, Some rs => Some (r :: rs)
      | _, _ => None
      end
  end.

(* the zone index reported is that of the LAST record (Python's loop variable) *)
Definition last_idx (rs : list srec) : Z := match rev rs with r :: _ => s_idx r | [] => 0 end.

Definition decode_raw (raw : list Z) : option sched :=
  match records (length raw) raw with
  | Some rs => Some {| z_idx := last_idx rs; z_days := grp 0 [] rs |}
  | None => None
  end.

(* ---- hex text and chunking ---- *)
Fixpoint chunks (fuel n : nat) (l : list Z) : list (list Z) :=
  match fuel, l with
  | _, [] => []
  | O, _ => []
  | S f, _ => firstn n l :: chunks f n (skipn n l)
  end.
Definition fragments_of (blob : list Z) : list (list Z) := chunks (length blob) 82 blob.

(* bytes.hex().upper(): two hex digit values per byte *)
Definition hex_of (bytes : list Z) : list Z := flat_map (fun b => [b / 16; b mod 16]) bytes.
Fixpoint unhex (l : list Z) : option (list Z) :=
  match l with
  | [] => Some []
  | h :: lo :: t => match unhex t with Some r => Some (16 * h + lo :: r) | None => None end
  | _ => None
  end.

Section Zlib.
Variable compress : list Z -> list Z.
Variable decompress : list Z -> option (list Z).

(* the whole encoder / decoder (fragments are lists of hex digit values) *)
Definition encode (s : sched) : list (list Z) := fragments_of (hex_of (compress (raw_of s))).
Definition decode (frags : list (list Z)) : option sched :=
  match unhex (concat frags) with
  | Some bytes => match decompress bytes with Some raw => decode_raw raw | None => None end
  | None => None
  end.

(* ---- reassembly: Schedule._update_payload_set / _proc_payload_set ---- *)
(* a received fragment: (number 1..total, total, content) *)
Record frag := { f_num : nat; f_total : nat; f_data : list Z }.
Definition pset := list (option frag).

Definition init_set (f : frag) : pset :=
  firstn (f_num f - 1) (repeat None (f_total f)) ++ [Some f] ++ repeat None (f_total f - f_num f).
Fixpoint set_nth (n : nat) (x : option frag) (l : pset) : pset :=
  match n, l with
  | O, _ :: t => x :: t
  | S n', a :: t => a :: set_nth n' x t
  | _, [] => []
  end.
Definition full (ps : pset) : bool := forallb (fun o => match o with Some _ => true | None => false end) ps.
Definition data_of (ps : pset) : list (list Z) := flat_map (fun o => match o with Some f => [f_data f] | None => [] end) ps.

(* returns the new set and, when a full set decoded, the schedule *)
Definition update_set (ps : pset) (f : frag) : pset * option sched :=
  if negb (Nat.eqb (f_total f) (length ps)) then (init_set f, None)
  else
    let ps' := set_nth (f_num f - 1) (Some f) ps in
    if negb (full ps') then (ps', None)
    else match decode (data_of ps') with
         | Some s => (ps', Some s)
         | None => (init_set f, None)     (* zlib.error: start over with this fragment *)
         end.

Fixpoint feed_frags (ps : pset) (last : option sched) (fs : list frag) : pset * option sched :=
  match fs with
  | [] => (ps, last)
  | f :: t => let '(ps', r) := update_set ps f in
              feed_frags ps' (match r with Some s => Some s | None => last end) t
  end.
End Zlib.
