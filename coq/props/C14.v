(* C14 -- State is fresh.  Statements only. *)
From Coq Require Import ZArith List Bool.
From RV Require Import GenConsts M_Store P_Store M_StoreDeferred P_StoreDeferred.
Import ListNotations.
Open Scope Z_scope.

(* the regenerated constants are in the range the property needs (1 <= HAS_EXPIRED <= 2) *)
Theorem C14_constants_in_range :
  0 < HAS_EXPIRED_den /\ HAS_EXPIRED_den <= HAS_EXPIRED_num /\ HAS_EXPIRED_num <= 2 * HAS_EXPIRED_den /\ 0 <= MSG_GRACE_us.
Proof. exact has_expired_range. Qed.
(* "a few seconds' grace": not more than ten *)
Theorem C14_grace_is_a_few_seconds : MSG_GRACE_us <= 10 * 1000000.
Proof. vm_compute. discriminate. Qed.

(* the stored message for a code is the LAST relevant one, whatever is interleaved *)
Theorem C14_latest_wins : forall me code ms st,
  sget (fold_left (handle me) ms st) code =
  match last_such (relevant me code) ms with Some m => Some m | None => sget st code end.
Proof. exact latest_wins. Qed.

(* never expired before its lifetime has passed: every read at an age < L says "live" *)
Theorem C14_not_before_lifespan : forall dtm us times,
  0 < us -> Forall (fun t => t - dtm < us) times ->
  Forall (fun r => r = EOk false) (expired_seq FNone dtm (Span us) times).
Proof. exact not_before_lifespan. Qed.

(* always expired once 2L + grace has passed, whatever happened before *)
Theorem C14_after_twice : forall c dtm us now,
  0 < us -> c <> FCant -> 2 * us + MSG_GRACE_us <= now - dtm ->
  fst (expired_eval c dtm (Span us) now) = EOk true.
Proof. exact after_twice. Qed.
Theorem C14_span_never_cant : forall c dtm us now,
  c <> FCant -> snd (expired_eval c dtm (Span us) now) <> FCant.
Proof. exact span_never_cant. Qed.

(* expiry never un-happens, in any sequence of evaluations (even with a clock that jumps back) *)
Theorem C14_expiry_monotone : forall times c dtm l pre post,
  expired_seq c dtm l times = pre ++ EOk true :: post -> Forall (fun r => r = EOk true) post.
Proof. exact expiry_monotone. Qed.

(* evaluating expiry never raises (a zero countdown used to divide by zero) *)
Theorem C14_expired_total : forall c dtm l now, exists b, fst (expired_eval c dtm l now) = EOk b.
Proof. exact expired_total. Qed.
Theorem C14_zero_span_old_refuted : forall dtm now, expired_eval_old FNone dtm (Span 0) now = EZeroDiv.
Proof. exact zero_span_old_refuted. Qed.

(* expired => unknown: partial (after the scheduled deletion ran); the read that detects
   the expiry still returns the stale value -- refuted, KNOWN_FINDINGS.json *)
Theorem C14_expired_reads_unknown_partial : forall st code m exp,
  NoDup (map fst st) ->
  sget st code = Some m -> s_code m = code -> exp m = true ->
  let '(_, dels) := read st code exp in
  fst (read (run_deletes st dels) code exp) = None.
Proof. exact expired_reads_unknown_partial. Qed.
Theorem C14_first_read_stale_refuted :
  exists st code m exp, sget st code = Some m /\ exp m = true /\ fst (read st code exp) <> None.
Proof. exact first_read_stale_refuted. Qed.
Theorem C14_store_keys_nodup : forall me ms st,
  NoDup (map fst st) -> NoDup (map fst (fold_left (handle me) ms st)).
Proof. exact store_keys_nodup. Qed.

Example C14_nonvacuous :
  expired_seq FNone 0 (Span 3600000000) [1000000; 3599000000; 7203000000; 5] =
  [EOk false; EOk false; EOk true; EOk true].
Proof. vm_compute. reflexivity. Qed.

(* the deferred deletion of an expired message removes THAT message and nothing else: whatever an entity holds for the same code
   (a sibling zone's fresher reading, the controller's copy) or for any other code stays, and nothing appears *)
Theorem C14_delete_only_that_message : forall st m k m', sget st k = Some m' -> smsg_eqb m' m = false -> sget (sdel st m) k = Some m'.
Proof. exact sdel_keeps_others. Qed.
Theorem C14_delete_invents_nothing : forall st m k, sget st k = None -> sget (sdel st m) k = None.
Proof. exact sdel_absent. Qed.

(* DEFERRED deletion (a read that finds the held message expired only schedules its removal; packets that arrive before the loop turns are
   stored first): for ANY interleaving of arrivals, reads and loop turns, what an entity holds for a code is the newest arrival for that code ... *)
Theorem C14_held_is_latest : forall evs c m, dget (s_store (drun del_is evs)) c = Some m -> latest (arrivals evs) c = Some m.
Proof. exact held_is_latest. Qed.
(* ... and the newest arrival IS held unless a read found that very message expired: the deferred deletion of an older message never takes it *)
Theorem C14_latest_never_lost : forall evs c m, latest (arrivals evs) c = Some m ->
  ~ In (d_id m) (map d_id (s_sched (drun del_is evs))) -> dget (s_store (drun del_is evs)) c = Some m.
Proof. exact latest_never_lost. Qed.
(* the rule the code had before 71c64db (remove any message EQUAL in content) loses it: the same reading arrives again before the loop turns *)
Theorem C14_equal_content_rule_refuted :
  latest (arrivals lost_evs) 0x1F09 = Some (mkD 2 0x1F09 5) /\
  ~ In 2 (map d_id (s_sched (drun del_eq lost_evs))) /\
  dget (s_store (drun del_eq lost_evs)) 0x1F09 = None /\
  dget (s_store (drun del_is lost_evs)) 0x1F09 = Some (mkD 2 0x1F09 5).
Proof. exact equal_content_rule_loses_latest. Qed.

(* an array payload merged from two packets (prev.payload + this.payload; a zone may be in both): what is read for a zone is, key by key,
   what the LATER packet says, and the earlier packet's value only where the later one says nothing *)
Theorem C14_merged_array_newest_wins : forall prev this z k,
  fget (pick (prev ++ this) z) k = match fget (pick this z) k with Some v => Some v | None => fget (pick prev z) k end.
Proof. exact merged_array_newest_wins. Qed.
Example C14_merged_array_witness :
  fget (pick ([(1, [(1, 10); (2, 20)]); (2, [(1, 11)])] ++ [(1, [(1, 30)])]) 1) 1 = Some 30 /\
  fget (pick ([(1, [(1, 10); (2, 20)]); (2, [(1, 11)])] ++ [(1, [(1, 30)])]) 1) 2 = Some 20 /\
  fget (pick ([(1, [(1, 10); (2, 20)]); (2, [(1, 11)])] ++ [(1, [(1, 30)])]) 2) 1 = Some 11.
Proof. vm_compute. auto. Qed.
