import logging, random, glob, collections, datetime as dt, sys
logging.disable(logging.CRITICAL)
from ramses_tx.packet import Packet
from ramses_tx.message import Message
from ramses_tx import exceptions as exc
rnd=random.Random(13)
seeds=[]
for f in glob.glob("/repo/tests/tests/**/*.log", recursive=True):
    for l in open(f, errors="replace"):
        l=l.rstrip("\n")
        if len(l)>60 and l[:2]=="20" and l[27:30].strip("-.0123456789")=="": seeds.append(l[27:])
seeds=list(dict.fromkeys(seeds))
print("seed lines", len(seeds))
HEX="0123456789ABCDEF"
def mutate(s):
    if len(s)<52: return s+rnd.choice('0123456789ABCDEF ')
    s=list(s); k=rnd.choice(["hex","hex","addr","len","trunc","del","ins","verb","space"])
    body=s
    if k=="hex":
        i=rnd.randrange(50,len(s)) if len(s)>51 else rnd.randrange(len(s)); s[i]=rnd.choice(HEX)
    elif k=="addr":
        i=rnd.randrange(11,40); s[i]=rnd.choice("0123456789:-")
    elif k=="len":
        i=rnd.randrange(46,49); s[i]=rnd.choice("0123456789")
    elif k=="trunc": s=s[:rnd.randrange(30,len(s))]
    elif k=="del": del s[rnd.randrange(len(s))]
    elif k=="ins": s.insert(rnd.randrange(len(s)), rnd.choice(HEX+" -:"))
    elif k=="verb": s[4:6]=list(rnd.choice([" I","RQ","RP"," W","XX"]))
    elif k=="space": s[rnd.randrange(len(s))]=" "
    return "".join(s)
D=dt.datetime(2026,1,1)
c1=collections.Counter(); c2=collections.Counter(); ex1={}; ex2={}
N=120000
for i in range(N):
    l=rnd.choice(seeds)
    for _ in range(rnd.choice([0,1,1,2,3])): l=mutate(l)
    try:
        p=Packet.from_port(D,l)
    except (exc.PacketInvalid, ValueError) as e:
        c1["ok-rejected"]+=1; continue
    except BaseException as e:
        k=type(e).__name__; c1[k]+=1; ex1.setdefault(k,(l,str(e)[:80])); continue
    c1["packet"]+=1
    try:
        m=Message(p); c2["message"]+=1
    except exc.PacketInvalid: c2["ok-rejected"]+=1
    except BaseException as e:
        k=type(e).__name__; c2[k]+=1; ex2.setdefault(k,(l,str(e)[:80]))
print("Packet():",dict(c1)); [print("   ",k,v) for k,v in ex1.items()]
print("Message():",dict(c2)); [print("   ",k,v) for k,v in ex2.items()]
