(* P_QosOwner: a caller of send_cmd is only ever handed a packet of ITS OWN command -- the echo of its frame or the
   reply its frame asks for -- in every run in which no internal assertion of the FSM has tripped (the runs in which one
   does are the subject of C09's finding).  For EVERY event list, tie policy, transport plan and number of steps. *)
From Coq Require Import ZArith List Bool Arith Lia.
From RV Require Import GenConsts M_Qos P_Qos.
Import ListNotations.
Open Scope Z_scope.

(* a predicate holds of the world a step ends in when it ends normally *)
Definition RsatOk (P : world -> Prop) (r : R) : Prop := match r with Ok w => P w | Crash _ _ => True end.
Lemma RsatOk_bind P Q r f : RsatOk P r -> (forall w, P w -> RsatOk Q (f w)) -> RsatOk Q (bind r f).
Proof. destruct r as [w|n w]; cbn; intros H F; [apply F, H|exact I]. Qed.
Lemma RsatOk_assert (Q : world -> Prop) b n w f : (b = true -> RsatOk Q (f w)) -> RsatOk Q (bind (assert b n w) f).
Proof. unfold assert. destruct b; cbn; auto. Qed.
Lemma RsatOk_weaken (P Q : world -> Prop) r : (forall w, P w -> Q w) -> RsatOk P r -> RsatOk Q r.
Proof. destruct r; cbn; auto. Qed.

Lemma aget_aset {A} (d : A) k v l k' : aget d k' (aset k v l) = if Nat.eqb k' k then v else aget d k' l.
Proof.
  induction l as [|[k0 v0] l IH]; cbn.
  - destruct (Nat.eqb k' k); reflexivity.
  - destruct (Nat.eqb k k0) eqn:E; cbn.
    + apply Nat.eqb_eq in E. subst k0. destruct (Nat.eqb k' k); reflexivity.
    + destruct (Nat.eqb k' k0) eqn:E2; [|exact IH].
      apply Nat.eqb_eq in E2. subst k0. rewrite Nat.eqb_sym in E. rewrite E. reflexivity.
Qed.

Section Env.
Variable cmds : cid -> cmdinfo.
Variable plan : nat -> wplan.

Definition belongs (p : pkt) (c : cid) : Prop :=
  p_hdr p = tx_hdr (cmds c) \/ (rx_hdr (cmds c) = Some (p_hdr p) \/ null_ok (cmds c) p = true).

(* J1: a future holding a packet holds one of its own command; J3: while a command is in flight, the frame the FSM is
   matching packets against (sent) is the frame of the command whose future it will resolve (curfut); J4: the echo kept
   for the answer is the echo of that frame *)
Definition J1 (w : world) : Prop := forall c p, fut_of w c = FRes p -> belongs p c.
Definition J3 (w : world) : Prop := sending_state (state (cx w)) = true -> forall f, curfut (cx w) = Some f -> sent (cx w) = Some f.
Definition J4 (w : world) : Prop := forall e k, echo (cx w) = Some e -> sent (cx w) = Some k -> p_hdr e = tx_hdr (cmds k).
Definition J (w : world) : Prop := J1 w /\ J3 w /\ J4 w.

Definition jc (c : ctx) := (state c, curfut c, sent c, echo c).
Lemma J_same w w' : futs w' = futs w -> jc (cx w') = jc (cx w) -> J w -> J w'.
Proof.
  unfold J, J1, J3, J4, fut_of, jc. intros F E (A & B & C). injection E as E1 E2 E3 E4. rewrite F, E1, E2, E3, E4. auto.
Qed.
Lemma J1_same w w' : futs w' = futs w -> J1 w -> J1 w'.
Proof. unfold J1, fut_of. intros ->. auto. Qed.

Lemma futs_resolve w c f : futs (resolve w c f) = aset c f (futs w).
Proof. unfold resolve. destruct (aget CNone c (callers (set_fut w c f))); reflexivity. Qed.
Lemma futs_cancel_exp w t : futs (cancel_exp w t) = futs w.
Proof. unfold cancel_exp. destruct (aget EDone t (exps w)); reflexivity. Qed.
Lemma trace_resolve w c f : trace (resolve w c f) = trace w.
Proof. unfold resolve. destruct (aget CNone c (callers (set_fut w c f))); reflexivity. Qed.
Lemma trace_cancel_exp w t : trace (cancel_exp w t) = trace w.
Proof. unfold cancel_exp. destruct (aget EDone t (exps w)); reflexivity. Qed.

Lemma J1_resolve_exn w c e : J1 w -> J1 (resolve w c (FExn e)).
Proof.
  unfold J1, fut_of. intros H c' p. rewrite futs_resolve, aget_aset. destruct (Nat.eqb c' c); [discriminate|apply H].
Qed.
Lemma J1_resolve_res w c p : J1 w -> belongs p c -> J1 (resolve w c (FRes p)).
Proof.
  unfold J1, fut_of. intros H B c' p'. rewrite futs_resolve, aget_aset. destruct (Nat.eqb c' c) eqn:E; [|apply H].
  apply Nat.eqb_eq in E. subst c'. intros [= <-]. exact B.
Qed.

(* ---------------------------------------------------------------- set_state *)
(* what settle leaves alone: the context but for the expiry timer; the trace; the futures unless it resolves one *)
Definition settled (w : world) (h : how) (w' : world) : Prop :=
  J1 w' /\ jc (cx w') = jc (cx w) /\ cur (cx w') = cur (cx w) /\ trace w' = trace w /\
  (is_timed_out h = true -> futs w' = futs w).

Lemma settle_J w h : J1 w ->
  (forall p, h = HRes p -> sending_state (state (cx w)) = true -> forall f, curfut (cx w) = Some f -> belongs p f) ->
  RsatOk (settled w h) (settle w h).
Proof.
  intros A HR. unfold settle.
  set (w1 := match expiry (cx w) with Some t => set_expiry (cancel_exp w t) None | None => w end).
  assert (E1 : futs w1 = futs w /\ jc (cx w1) = jc (cx w) /\ cur (cx w1) = cur (cx w) /\ trace w1 = trace w).
  { subst w1. destruct (expiry (cx w)) as [t|]; [|repeat split; reflexivity].
    unfold set_expiry, jc. cbn. rewrite cx_cancel_exp, futs_cancel_exp, trace_cancel_exp. repeat split; reflexivity. }
  destruct E1 as (F1 & C1 & U1 & T1). assert (A1 : J1 w1) by (eapply J1_same; eauto).
  assert (S1 : state (cx w1) = state (cx w) /\ curfut (cx w1) = curfut (cx w)) by (unfold jc in C1; injection C1; auto).
  destruct S1 as (S1 & CF1). clearbody w1.
  assert (Base : settled w h w1) by (unfold settled; repeat split; auto).
  assert (QA : forall b n, RsatOk (settled w h) (assert b n w1)) by (intros; unfold assert; destruct b; cbn; auto).
  destruct (curfut (cx w1)) as [f|] eqn:Ef.
  2:{ apply RsatOk_assert. intros _. apply QA. }
  assert (Exn : forall e, is_timed_out h = false -> settled w h (resolve w1 f (FExn e))).
  { intros e Th. unfold settled. rewrite cx_resolve, trace_resolve. repeat split; auto; [apply J1_resolve_exn, A1|rewrite Th; discriminate]. }
  destruct (fut_of w1 f) as [|pf|ef|] eqn:Ff; destruct h as [| | |eh|q];
    try (apply RsatOk_assert; intros _; apply QA);
    try (apply QA);
    try (apply RsatOk_assert; intros Hd; try discriminate Hd; apply RsatOk_assert; intros _; cbn; apply Exn; reflexivity).
  all: apply RsatOk_assert; intros Hd; try discriminate Hd; apply RsatOk_assert; intros Hs; cbn;
       unfold settled; rewrite cx_resolve, trace_resolve; repeat split; auto; try discriminate;
       apply J1_resolve_res; [exact A1|]; apply (HR q eq_refl); [rewrite <- S1; exact Hs | rewrite <- CF1; reflexivity].
Qed.

(* switch: the new state keeps the frame being matched only if it is a sending state, the echo only in WantRply *)
Lemma switch_J w ns h : J1 w ->
  (sending_state ns = true -> (forall f, curfut (cx w) = Some f -> sent (cx w) = Some f) \/ (is_timed_out h = true /\ is_sending_ok w = true /\ J3 w)) ->
  (ns = WantRply -> J4 w) ->
  RsatOk (fun w' => J w' /\ trace w' = trace w) (switch w ns h).
Proof.
  intros A C D. unfold switch.
  set (c := cx w).
  set (w2 := set_cx w (mk_ctx ns (if is_timed_out h then cur c else match ns with WantEcho | WantRply => cur c | _ => None end) (curfut c)
                         (if is_timed_out h then S (txc c) else match ns with WantEcho => 1%nat | WantRply => txc c | _ => 0%nat end)
                         (txl c) (mult c) (que c) (expiry c)
                         (match ns with WantEcho | WantRply => sent c | _ => None end) (match ns with WantRply => echo c | _ => None end))).
  assert (Fin : is_sending_ok w2 = true -> J (call_soon w2 (CbEffect (is_timed_out h))) /\ trace (call_soon w2 (CbEffect (is_timed_out h))) = trace w).
  { intros OK. split; [|reflexivity]. unfold J. split; [exact A|]. split.
    - unfold J3. cbn. intros Hs f Hf. specialize (C Hs). destruct C as [C|(Th & Sok & J3w)].
      + destruct ns; try discriminate; apply C, Hf.
      + (* a retransmission: the state left was a sending state, or the assertion after the switch would have tripped *)
        unfold is_sending_ok in OK. subst w2. cbn in OK. rewrite Th in OK. rewrite Hs in OK.
        apply andb_prop in OK as (Hc & _). unfold is_sending_ok in Sok. fold c in Sok.
        destruct (sending_state (state c)) eqn:Sb.
        * destruct ns; try discriminate; apply (J3w Sb), Hf.
        * apply andb_prop in Sok as (Hn & _). rewrite Hc in Hn. discriminate.
    - unfold J4. cbn. intros e k He Hk. destruct ns; try discriminate. apply (D eq_refl e k He Hk). }
  destruct (is_timed_out h) eqn:Th.
  - cbn [bind]. apply RsatOk_assert. intros OK. cbn. apply Fin, OK.
  - destruct ns; cbn [bind]; try (apply RsatOk_assert; intros OK; cbn; apply Fin, OK).
    apply RsatOk_assert. intros _. apply RsatOk_assert. intros OK. cbn. apply Fin, OK.
Qed.

Lemma set_state_J w ns h : J1 w ->
  (forall p, h = HRes p -> sending_state (state (cx w)) = true -> forall f, curfut (cx w) = Some f -> belongs p f) ->
  (sending_state ns = true -> (forall f, curfut (cx w) = Some f -> sent (cx w) = Some f) \/ (is_timed_out h = true /\ is_sending_ok w = true /\ J3 w)) ->
  (ns = WantRply -> J4 w) ->
  RsatOk (fun w' => J w' /\ trace w' = trace w) (set_state w ns h).
Proof.
  intros A HR C D. unfold set_state. eapply RsatOk_bind; [apply settle_J; eassumption|].
  intros w1 (A1 & C1 & U1 & T1 & F1). unfold jc in C1. injection C1 as S1 CF1 SE1 EC1.
  eapply RsatOk_weaken; [|apply switch_J].
  - intros w2 (J2 & T2). split; [exact J2|congruence].
  - exact A1.
  - intros Hs. destruct (C Hs) as [C'|(Th & Sok & J3w)]; [left; rewrite CF1, SE1; exact C'|right].
    split; [exact Th|]. split.
    + unfold is_sending_ok, fut_of in *. rewrite S1, U1, CF1, (F1 Th). exact Sok.
    + unfold J3 in *. rewrite S1, CF1, SE1. exact J3w.
  - intros E. unfold J4 in *. rewrite SE1, EC1. exact (D E).
Qed.

(* the common case: the frame being matched is already the current command's *)
Lemma set_state_J_plain w ns h : J w -> is_timed_out h = false ->
  (forall p, h = HRes p -> sending_state (state (cx w)) = true -> forall f, curfut (cx w) = Some f -> belongs p f) ->
  (sending_state ns = true -> sending_state (state (cx w)) = true) ->
  RsatOk (fun w' => J w' /\ trace w' = trace w) (set_state w ns h).
Proof.
  intros (A & B & C) Th HR S. apply set_state_J; [exact A|exact HR| |intros _; exact C].
  intros Hs. left. apply B, S, Hs.
Qed.

(* ---------------------------------------------------------------- the trace only grows (on every path, tripped assertions included) *)
Definition tpre (w w' : world) : Prop := exists l, trace w' = trace w ++ l.
Lemma tpre_refl w : tpre w w.  Proof. exists []. now rewrite app_nil_r. Qed.
Lemma tpre_same w w' : trace w' = trace w -> tpre w w'.  Proof. intros E. exists []. now rewrite app_nil_r. Qed.
Lemma tpre_trans a b c : tpre a b -> tpre b c -> tpre a c.
Proof. intros [l1 E1] [l2 E2]. exists (l1 ++ l2). rewrite E2, E1, app_assoc. reflexivity. Qed.
Lemma tpre_same_l a a' b : trace a' = trace a -> tpre a' b -> tpre a b.
Proof. intros E [l H]. exists l. rewrite H, E. reflexivity. Qed.
Lemma tpre_emit w o : tpre w (emit w o).  Proof. exists [o]. reflexivity. Qed.
Lemma Rsat_tpre_trans a b r : tpre a b -> Rsat (tpre b) r -> Rsat (tpre a) r.
Proof. destruct r; cbn; apply tpre_trans. Qed.
Lemma Rsat_tpre_bind w r f : Rsat (tpre w) r -> (forall w1, Rsat (tpre w1) (f w1)) -> Rsat (tpre w) (bind r f).
Proof. destruct r as [w1|n w1]; cbn; intros H F; [eapply Rsat_tpre_trans; [exact H|apply F]|exact H]. Qed.
Lemma Rsat_tpre_assert b n w : Rsat (tpre w) (assert b n w).
Proof. unfold assert. destruct b; cbn; apply tpre_refl. Qed.
Lemma Rsat_tpre_assert_bind b n w f : (forall w1, Rsat (tpre w1) (f w1)) -> Rsat (tpre w) (bind (assert b n w) f).
Proof. intros F. apply Rsat_tpre_bind; [apply Rsat_tpre_assert|exact F]. Qed.

Lemma settle_tpre w h : Rsat (tpre w) (settle w h).
Proof.
  unfold settle.
  set (w1 := match expiry (cx w) with Some t => set_expiry (cancel_exp w t) None | None => w end).
  assert (E1 : trace w1 = trace w).
  { subst w1. destruct (expiry (cx w)) as [t|]; [|reflexivity]. unfold set_expiry. cbn. apply trace_cancel_exp. }
  clearbody w1. eapply Rsat_tpre_trans; [apply tpre_same; exact E1|].
  assert (QR : forall f x, tpre w1 (resolve w1 f x)) by (intros; apply tpre_same, trace_resolve).
  destruct (curfut (cx w1)) as [f|].
  2:{ apply Rsat_tpre_assert_bind. intros. apply Rsat_tpre_assert. }
  destruct (fut_of w1 f); destruct h;
    try (apply Rsat_tpre_assert);
    try (apply Rsat_tpre_assert_bind; intros; apply Rsat_tpre_assert);
    try (unfold assert; destruct (negb _); cbn; [|apply tpre_refl]; destruct (sending_state _); cbn; [apply QR|apply tpre_refl]).
Qed.

Lemma switch_tpre w ns h : Rsat (tpre w) (switch w ns h).
Proof.
  unfold switch.
  assert (Fin : forall w2 : world, trace w2 = trace w ->
            Rsat (tpre w) (bind (assert (is_sending_ok w2) 13 w2) (fun w3 => Ok (call_soon w3 (CbEffect (is_timed_out h)))))).
  { intros w2 E. unfold assert. destruct (is_sending_ok w2); cbn; apply tpre_same; exact E. }
  destruct (is_timed_out h).
  - cbn [bind]. apply Fin. reflexivity.
  - destruct ns; cbn [bind]; try (apply Fin; reflexivity).
    unfold assert at 1. destruct (is_some (cur (cx w))); cbn [bind Rsat]; [apply Fin; reflexivity|apply tpre_refl].
Qed.

Lemma set_state_tpre w ns h : Rsat (tpre w) (set_state w ns h).
Proof. unfold set_state. apply Rsat_tpre_bind; [apply settle_tpre|intros; apply switch_tpre]. Qed.

Lemma send_cmd_tpre w c r : Rsat (tpre w) (send_cmd_ w c r).
Proof.
  unfold send_cmd_. destruct (state (cx w)); try apply set_state_tpre.
  - apply Rsat_tpre_assert_bind. intros w1. apply Rsat_tpre_bind.
    + eapply Rsat_tpre_trans; [|apply set_state_tpre]. apply tpre_same. reflexivity.
    + intros w2. cbn. apply tpre_same. reflexivity.
  - apply Rsat_tpre_assert_bind. intros w1. cbn. apply tpre_same. reflexivity.
Qed.

Lemma dequeue_same q : forall w, trace (fst (dequeue w q)) = trace w /\ futs (fst (dequeue w q)) = futs w /\ jc (cx (fst (dequeue w q))) = jc (cx w).
Proof.
  induction q as [|[[p s] c] q IH]; intros w; cbn [dequeue]; [repeat split; reflexivity|].
  destruct (fut_done (fut_of w c)); [apply IH|repeat split; reflexivity].
Qed.

Lemma check_buffer_tpre w : Rsat (tpre w) (check_buffer cmds w).
Proof.
  unfold check_buffer. apply Rsat_tpre_assert_bind. intros w1.
  destruct (match curfut (cx w1) with Some f => negb (fut_done (fut_of w1 f)) | None => false end); [apply tpre_refl|].
  pose proof (dequeue_same (que (cx w1)) w1) as (D & _).
  destruct (dequeue w1 (que (cx w1))) as [w2 oc]. cbn [fst] in D.
  destruct oc as [k|].
  - eapply Rsat_tpre_trans; [|apply send_cmd_tpre]. apply tpre_same. cbn. exact D.
  - cbn. apply tpre_same. cbn. exact D.
Qed.

Lemma effect_state_tpre w b : Rsat (tpre w) (effect_state cmds w b).
Proof.
  unfold effect_state. apply Rsat_tpre_assert_bind. intros w1. apply Rsat_tpre_bind.
  - destruct b; [|apply tpre_refl]. destruct (cur (cx w1)); [apply send_cmd_tpre|apply tpre_refl].
  - intros w2. destruct (state (cx w2)).
    + apply tpre_refl.
    + cbn. apply tpre_same. reflexivity.
    + cbn. apply tpre_same. reflexivity.
    + destruct (cur (cx w2)) as [k|]; [|apply tpre_refl].
      destruct (negb (wfr (cmds k))); [|cbn; apply tpre_same; reflexivity].
      destruct (echo (cx w2)); apply set_state_tpre.
Qed.

Lemma exp_start_tpre w t : Rsat (tpre w) (exp_start w t).
Proof.
  unfold exp_start. destruct (aget EDone t (exps w)); try apply tpre_refl.
  apply Rsat_tpre_assert_bind. intros w1. apply Rsat_tpre_assert_bind. intros w2. apply Rsat_tpre_assert_bind. intros w3.
  cbn. apply tpre_same. reflexivity.
Qed.

Lemma exp_wake_tpre w t : Rsat (tpre w) (exp_wake w t).
Proof.
  unfold exp_wake. destruct (aget EDone t (exps w)) as [| |old| | |]; try apply tpre_refl.
  set (w1 := set_mult (set_exp w t ERunning) (Nat.min MULT_CAP (S old))).
  apply (Rsat_tpre_trans w w1); [apply tpre_same; reflexivity|]. clearbody w1.
  apply Rsat_tpre_assert_bind. intros w2. apply Rsat_tpre_bind.
  - destruct (Nat.ltb (txc (cx w2)) (txl (cx w2))); apply set_state_tpre.
  - intros w3. apply Rsat_tpre_assert_bind. intros w4. cbn. apply tpre_same. reflexivity.
Qed.

Lemma pkt_rcvd_tpre w p : Rsat (tpre w) (pkt_rcvd cmds w p).
Proof.
  unfold pkt_rcvd. destruct (state (cx w)).
  - apply Rsat_tpre_assert.
  - apply Rsat_tpre_assert.
  - destruct (sent (cx w)) as [k|]; [|apply tpre_refl].
    destruct (match rx_hdr (cmds k) with Some h => Nat.eqb (p_hdr p) h && p_dst_ok p | None => false end); [apply set_state_tpre|].
    destruct (negb (Nat.eqb (p_hdr p) (tx_hdr (cmds k)))); [apply tpre_refl|].
    destruct (rx_hdr (cmds k)); (eapply Rsat_tpre_trans; [|apply set_state_tpre]); apply tpre_same; reflexivity.
  - destruct (sent (cx w)) as [k|]; [|apply tpre_refl]. destruct (echo (cx w)) as [e|]; [|apply tpre_refl].
    destruct (Nat.eqb (p_hdr p) (tx_hdr (cmds k)) && Nat.eqb (p_src p) (p_src e)); [apply tpre_refl|].
    destruct (rx_hdr (cmds k)) as [h|]; [|apply tpre_refl].
    destruct (null_ok (cmds k) p || Nat.eqb (p_hdr p) h); [apply set_state_tpre|apply tpre_refl].
Qed.

Lemma caller_start_tpre w c : Rsat (tpre w) (caller_start cmds w c).
Proof.
  unfold caller_start. destruct (state (cx w)) eqn:S; cbn [Rsat]; try (eexists; reflexivity);
    (destruct (Nat.leb BUF_SIZE (length (que (cx w)))); cbn [Rsat]; [eexists; reflexivity|]; apply tpre_same; cbn; rewrite ?S; reflexivity).
Qed.

Lemma caller_timer_tpre w c : Rsat (tpre w) (caller_timer w c).
Proof.
  unfold caller_timer. destruct (aget CNone c (callers w)); try apply tpre_refl.
  destruct (fut_done (fut_of (set_caller w c CTimedOut) c)); cbn; apply tpre_same; reflexivity.
Qed.

Lemma caller_cancel_tpre w c : Rsat (tpre w) (caller_cancel w c).
Proof.
  unfold caller_cancel. destruct (aget CNone c (callers w)); try apply tpre_refl; try (cbn; apply tpre_same; reflexivity).
  destruct (fut_done (fut_of (set_caller w c CCancelled) c)); cbn; apply tpre_same; reflexivity.
Qed.

Lemma caller_wake_tpre w c : Rsat (tpre w) (caller_wake w c).
Proof.
  unfold caller_wake. destruct (aget CNone c (callers w)); try apply tpre_refl; try (cbn; eexists; reflexivity).
  - assert (G : Rsat (tpre w) (match cur (cx w) with
                         | Some k => if Nat.eqb k c then set_state w Idle HExpired else Ok w
                         | None => Ok w end)).
    { destruct (cur (cx w)) as [k|]; [|apply tpre_refl]. destruct (Nat.eqb k c); [apply set_state_tpre|apply tpre_refl]. }
    destruct (match cur (cx w) with Some k => if Nat.eqb k c then set_state w Idle HExpired else Ok w | None => Ok w end) as [w1|n w1];
      cbn in *; (eapply tpre_trans; [exact G|]); eexists; reflexivity.
Qed.

Lemma conn_tpre w : Rsat (tpre w) (conn_made w) /\ Rsat (tpre w) (conn_lost w).
Proof. unfold conn_made, conn_lost. split; destruct (state (cx w)); try apply tpre_refl; apply set_state_tpre. Qed.

Lemma do_write_tpre w n c : Rsat (tpre w) (do_write cmds plan w n c).
Proof.
  unfold do_write. destruct (w_fail (plan n)).
  { unfold fail_write. destruct (cur (cx w)) as [k|]; [|apply tpre_refl]. destruct (Nat.eqb k c); [|apply tpre_refl]. apply set_state_tpre. }
  cbn. destruct (w_echo (plan n)); destruct (w_rply (plan n)); destruct (rx_hdr (cmds c)); cbn; eexists; reflexivity.
Qed.

Lemma run_cb_tpre w c : Rsat (tpre w) (run_cb cmds plan w c).
Proof.
  destruct c as [b| |t|t|t|c|n c|n c|c|c|c|e]; cbn [run_cb].
  - apply effect_state_tpre.
  - apply check_buffer_tpre.
  - apply exp_start_tpre.
  - destruct (aget EDone t (exps w)); cbn; apply tpre_same; reflexivity.
  - apply exp_wake_tpre.
  - unfold writer_start. destruct (w_lat (plan (nwrites w)) <=? 0).
    + eapply Rsat_tpre_trans; [|apply do_write_tpre]. apply tpre_same. reflexivity.
    + cbn. apply tpre_same. reflexivity.
  - cbn. apply tpre_same. reflexivity.
  - apply do_write_tpre.
  - destruct (aget CNone c (callers w)); try apply tpre_refl. apply caller_start_tpre.
  - apply caller_timer_tpre.
  - apply caller_wake_tpre.
  - destruct e as [k|p| | |d|k]; [cbn; apply tpre_same; reflexivity|apply pkt_rcvd_tpre|apply conn_tpre|apply conn_tpre|cbn; apply tpre_same; reflexivity|apply caller_cancel_tpre].
Qed.

Lemma boundary_same lifo w w' : boundary lifo w = Some w' -> trace w' = trace w /\ futs w' = futs w /\ cx w' = cx w.
Proof.
  unfold boundary.
  destruct (match ready w with
            | [] => match min_when (timers w) None with Some t => Some (Z.max t (now w)) | None => None end
            | _ :: _ => Some (now w) end) as [n|]; [|discriminate].
  intros H. injection H as <-. repeat split; reflexivity.
Qed.

Lemma step_tpre lifo w w' : step cmds plan lifo w = Some w' -> tpre w w'.
Proof.
  unfold step. destruct (batch w) as [|b].
  - intros H. apply tpre_same. eapply boundary_same, H.
  - destruct (ready w) as [|c r] eqn:Er.
    + intros H. apply tpre_same. eapply boundary_same, H.
    + pose proof (run_cb_tpre (upd_loop w (now w) r b (timers w) (seq w)) c) as H.
      destruct (run_cb cmds plan _ c) as [w2|n w2]; intros [= <-]; cbn in H.
      * eapply tpre_same_l; [|exact H]. reflexivity.
      * eapply tpre_trans; [eapply tpre_same_l; [|exact H]; reflexivity|apply tpre_emit].
Qed.

Lemma run_tpre lifo fuel : forall w, tpre w (fst (run cmds plan lifo fuel w)).
Proof.
  induction fuel as [|fuel IH]; intros w; cbn [run]; [apply tpre_refl|].
  destruct (step cmds plan lifo w) as [w'|] eqn:E; [|apply tpre_refl].
  eapply tpre_trans; [eapply step_tpre, E|apply IH].
Qed.

(* ---------------------------------------------------------------- the callbacks keep J while no assertion trips *)
Definition JT (w w' : world) : Prop := J w' /\ trace w' = trace w.
Lemma JT_same w w' : futs w' = futs w -> jc (cx w') = jc (cx w) -> trace w' = trace w -> J w -> JT w w'.
Proof. intros F C T H. split; [eapply J_same; eauto|exact T]. Qed.
Lemma JT_step w w2 w3 : JT w w2 -> futs w3 = futs w2 -> jc (cx w3) = jc (cx w2) -> trace w3 = trace w2 -> JT w w3.
Proof. intros (A & B) F C T. split; [eapply J_same; eauto|congruence]. Qed.
Lemma JT_trans_l w0 w w' : trace w = trace w0 -> JT w w' -> JT w0 w'.
Proof. intros E (A & B). split; [exact A|congruence]. Qed.

Lemma send_cmd_J w c r : J1 w -> J4 w -> (r = false -> curfut (cx w) = Some c) -> (r = true -> J3 w) ->
  RsatOk (JT w) (send_cmd_ w c r).
Proof.
  intros A D Hc H3. unfold send_cmd_. destruct (state (cx w)) eqn:S.
  - apply set_state_J; [exact A|discriminate|discriminate|discriminate].
  - apply RsatOk_assert. intros Ha. apply andb_prop in Ha as (_ & Hr). apply negb_true_iff in Hr.
    eapply RsatOk_bind.
    + apply (set_state_J (set_sent w (Some c)) WantEcho HPlain); [exact A|discriminate| |discriminate].
      intros _. left. cbn. intros f Hf. rewrite (Hc Hr) in Hf. congruence.
    + intros w2 (J2 & T2). cbn. split; [eapply J_same; [| |exact J2]; reflexivity|exact T2].
  - apply RsatOk_assert. intros Ha. apply andb_prop in Ha as (_ & Hr). cbn.
    apply JT_same; try reflexivity. split; [exact A|]. split; [exact (H3 Hr)|exact D].
  - apply set_state_J; [exact A|discriminate|discriminate|discriminate].
Qed.

Lemma check_buffer_J w : J w -> RsatOk (JT w) (check_buffer cmds w).
Proof.
  intros HJ. unfold check_buffer. apply RsatOk_assert. intros _.
  destruct (match curfut (cx w) with Some f => negb (fut_done (fut_of w f)) | None => false end); [split; [exact HJ|reflexivity]|].
  pose proof (dequeue_same (que (cx w)) w) as (DT & DF & DC).
  destruct (dequeue w (que (cx w))) as [w2 oc]. cbn [fst] in *.
  assert (J2 : J w2) by (eapply J_same; eauto). destruct J2 as (A2 & B2 & C2).
  destruct oc as [k|].
  - eapply RsatOk_weaken; [|apply send_cmd_J].
    + intros w3 H3. eapply JT_trans_l; [|exact H3]. cbn. exact DT.
    + eapply J1_same; [|exact A2]. reflexivity.
    + exact C2.
    + intros _. reflexivity.
    + discriminate.
  - cbn. split; [|cbn; exact DT]. split; [eapply J1_same; [|exact A2]; reflexivity|]. split; [|exact C2].
    unfold J3. cbn. discriminate.
Qed.

Lemma new_exp_JT w : J w -> JT w (new_exp w).
Proof. intros HJ. apply JT_same; try reflexivity. exact HJ. Qed.

Lemma effect_state_J w b : J w -> RsatOk (JT w) (effect_state cmds w b).
Proof.
  intros HJ. unfold effect_state. apply RsatOk_assert. intros _.
  eapply RsatOk_bind with (P := JT w).
  - destruct b; [|split; [exact HJ|reflexivity]]. destruct (cur (cx w)) as [k|]; [|exact I].
    destruct HJ as (A & B & C). apply send_cmd_J; auto. discriminate.
  - intros w2 (J2 & T2). destruct (state (cx w2)) eqn:S.
    + split; assumption.
    + cbn. eapply JT_step; [split; [exact J2|exact T2]|reflexivity|reflexivity|reflexivity].
    + cbn. eapply JT_trans_l; [exact T2|]. apply new_exp_JT, J2.
    + destruct (cur (cx w2)) as [k|]; [|exact I].
      destruct (negb (wfr (cmds k))); [|cbn; eapply JT_trans_l; [exact T2|]; apply new_exp_JT, J2].
      destruct (echo (cx w2)) as [e|] eqn:Ee.
      * eapply RsatOk_weaken; [intros w3 H3; eapply JT_trans_l; [exact T2|exact H3]|].
        apply set_state_J_plain; [exact J2|reflexivity| |discriminate].
        intros p [= <-] Hs f Hf. destruct J2 as (_ & B2 & C2). left. apply (C2 e f Ee). apply (B2 Hs f Hf).
      * eapply RsatOk_weaken; [intros w3 H3; eapply JT_trans_l; [exact T2|exact H3]|].
        apply set_state_J_plain; [exact J2|reflexivity|discriminate|discriminate].
Qed.

Lemma exp_start_J w t : J w -> RsatOk (JT w) (exp_start w t).
Proof.
  intros HJ. unfold exp_start. destruct (aget EDone t (exps w)); try (split; [exact HJ|reflexivity]).
  apply RsatOk_assert. intros _. apply RsatOk_assert. intros _. apply RsatOk_assert. intros _.
  cbn. apply JT_same; try reflexivity. exact HJ.
Qed.

Lemma exp_wake_J w t : J w -> RsatOk (JT w) (exp_wake w t).
Proof.
  intros HJ. unfold exp_wake. destruct (aget EDone t (exps w)) as [| |old| | |]; try (split; [exact HJ|reflexivity]).
  set (w1 := set_mult (set_exp w t ERunning) (Nat.min MULT_CAP (S old))).
  assert (J1w : J w1) by (eapply J_same; [| |exact HJ]; reflexivity).
  assert (T1 : trace w1 = trace w) by reflexivity. clearbody w1.
  apply RsatOk_assert. intros Sok.
  eapply RsatOk_bind with (P := JT w).
  - eapply RsatOk_weaken; [intros w3 H3; eapply JT_trans_l; [exact T1|exact H3]|].
    destruct J1w as (A & B & C).
    destruct (Nat.ltb (txc (cx w1)) (txl (cx w1))).
    + apply set_state_J; [exact A|discriminate| |discriminate].
      intros _. right. split; [reflexivity|]. split; [exact Sok|exact B].
    + apply set_state_J; [exact A|discriminate|discriminate|discriminate].
  - intros w3 (J3' & T3). apply RsatOk_assert. intros _. cbn. eapply JT_step; [split; [exact J3'|exact T3]|reflexivity|reflexivity|reflexivity].
Qed.

Lemma pkt_rcvd_J w p : J w -> RsatOk (JT w) (pkt_rcvd cmds w p).
Proof.
  intros HJ. pose proof HJ as (A & B & C). unfold pkt_rcvd. destruct (state (cx w)) eqn:S.
  - unfold assert. destruct (negb _); cbn; [split; [exact HJ|reflexivity]|exact I].
  - unfold assert. destruct (negb _); cbn; [split; [exact HJ|reflexivity]|exact I].
  - destruct (sent (cx w)) as [k|] eqn:Sk; [|exact I].
    destruct (match rx_hdr (cmds k) with Some h => Nat.eqb (p_hdr p) h && p_dst_ok p | None => false end) eqn:Er.
    + (* the reply arrived before the echo *)
      apply set_state_J_plain; [exact HJ|reflexivity| |discriminate].
      intros q [= <-] Hs f Hf. right. left. specialize (B Hs f Hf). rewrite Sk in B. injection B as <-.
      destruct (rx_hdr (cmds k)) as [h|]; [|discriminate]. apply andb_prop in Er as (Er & _). apply Nat.eqb_eq in Er. congruence.
    + destruct (negb (Nat.eqb (p_hdr p) (tx_hdr (cmds k)))) eqn:Et; [split; [exact HJ|reflexivity]|].
      apply negb_false_iff, Nat.eqb_eq in Et.
      assert (Se : sending_state (state (cx w)) = true) by (rewrite S; reflexivity).
      destruct (rx_hdr (cmds k)) as [h|] eqn:Eh.
      * (* the echo: now wait for the reply *)
        eapply RsatOk_weaken; [intros w3 H3; eapply JT_trans_l; [|exact H3]; reflexivity|].
        apply set_state_J; [eapply J1_same; [|exact A]; reflexivity|discriminate| |].
        -- intros _. left. cbn. intros f Hf. apply (B Se f Hf).
        -- intros _. unfold J4. cbn. intros e k' [= <-] Hk. rewrite Sk in Hk. injection Hk as <-. exact Et.
      * (* the echo is the answer *)
        eapply RsatOk_weaken; [intros w3 H3; eapply JT_trans_l; [|exact H3]; reflexivity|].
        apply set_state_J; [eapply J1_same; [|exact A]; reflexivity| |discriminate|discriminate].
        intros q [= <-] _ f Hf. cbn in Hf. left. specialize (B Se f Hf). rewrite Sk in B. injection B as <-. exact Et.
  - destruct (sent (cx w)) as [k|] eqn:Sk; [|exact I]. destruct (echo (cx w)) as [e|]; [|exact I].
    destruct (Nat.eqb (p_hdr p) (tx_hdr (cmds k)) && Nat.eqb (p_src p) (p_src e)); [split; [exact HJ|reflexivity]|].
    destruct (rx_hdr (cmds k)) as [h|] eqn:Eh; [|exact I].
    destruct (null_ok (cmds k) p || Nat.eqb (p_hdr p) h) eqn:Ep; [|split; [exact HJ|reflexivity]].
    apply set_state_J_plain; [exact HJ|reflexivity| |discriminate].
    intros q [= <-] Hs f Hf. right. specialize (B Hs f Hf). rewrite Sk in B. injection B as <-.
    apply orb_prop in Ep as [En|Ep]; [right; exact En|left; apply Nat.eqb_eq in Ep; congruence].
Qed.

Lemma J1_set_fut w c f : J1 w -> (forall p, f <> FRes p) -> J1 (set_fut w c f).
Proof.
  unfold J1, fut_of. intros H N c' p. cbn. rewrite aget_aset. destruct (Nat.eqb c' c); [intros E; exfalso; eapply N, E|apply H].
Qed.

Lemma caller_timer_J w c : J w -> RsatOk (JT w) (caller_timer w c).
Proof.
  intros HJ. pose proof HJ as (A & B & C). unfold caller_timer. destruct (aget CNone c (callers w)); try (split; [exact HJ|reflexivity]).
  destruct (fut_done (fut_of (set_caller w c CTimedOut) c)); cbn.
  - apply JT_same; try reflexivity. exact HJ.
  - split; [|reflexivity]. split; [|split; [exact B|exact C]].
    eapply J1_same with (w := set_fut w c FCancelled); [reflexivity|]. apply J1_set_fut; [exact A|discriminate].
Qed.

Lemma caller_cancel_J w c : J w -> RsatOk (JT w) (caller_cancel w c).
Proof.
  intros HJ. pose proof HJ as (A & B & C). unfold caller_cancel.
  destruct (aget CNone c (callers w)); try (split; [exact HJ|reflexivity]); try (cbn; apply JT_same; try reflexivity; exact HJ).
  destruct (fut_done (fut_of (set_caller w c CCancelled) c)); cbn.
  - apply JT_same; try reflexivity. exact HJ.
  - split; [|reflexivity]. split; [|split; [exact B|exact C]].
    eapply J1_same with (w := set_fut w c FCancelled); [reflexivity|]. apply J1_set_fut; [exact A|discriminate].
Qed.

Lemma conn_J w : J w -> RsatOk (JT w) (conn_made w) /\ RsatOk (JT w) (conn_lost w).
Proof.
  intros HJ. unfold conn_made, conn_lost.
  split; destruct (state (cx w)); try (split; [exact HJ|reflexivity]); apply set_state_J_plain; try exact HJ; try reflexivity; discriminate.
Qed.

(* ---------------------------------------------------------------- the callbacks that write to the trace *)
Definition okobs (o : obs) : Prop := match o with Done _ c (OkPkt p) => belongs p c | _ => True end.
Definition clean (o : obs) : bool := match o with LoopExn _ _ => false | Done _ _ ErrOther => false | _ => true end.
Definition clean_tr (tr : list obs) : bool := forallb clean tr.
Definition T (w : world) : Prop := Forall okobs (trace w).
(* the step ended normally: J holds and the trace grew by observations that are fine -- unless one of them reports a tripped assertion *)
Definition JX (w w' : world) : Prop := exists l, trace w' = trace w ++ l /\ (forallb clean l = true -> J w' /\ Forall okobs l).

Lemma JT_JX w w' : JT w w' -> JX w w'.
Proof. intros (A & B). exists []. rewrite app_nil_r. split; [exact B|]. intros _. split; [exact A|constructor]. Qed.
Lemma JX_trans_l w0 w w' : trace w = trace w0 -> JX w w' -> JX w0 w'.
Proof. intros E (l & A & B). exists l. split; [congruence|exact B]. Qed.

Lemma do_write_J w n c : J w -> RsatOk (JX w) (do_write cmds plan w n c).
Proof.
  intros HJ. unfold do_write. destruct (w_fail (plan n)).
  - eapply RsatOk_weaken; [apply JT_JX|]. unfold fail_write. destruct (cur (cx w)) as [k|]; [|split; [exact HJ|reflexivity]].
    destruct (Nat.eqb k c); [|split; [exact HJ|reflexivity]]. apply set_state_J_plain; try exact HJ; try reflexivity; discriminate.
  - cbn. exists [Write (now w) c]. split.
    + destruct (w_echo (plan n)); destruct (w_rply (plan n)); destruct (rx_hdr (cmds c)); reflexivity.
    + intros _. split; [|repeat constructor].
      eapply J_same; [| |exact HJ]; destruct (w_echo (plan n)); destruct (w_rply (plan n)); destruct (rx_hdr (cmds c)); reflexivity.
Qed.

Lemma caller_start_J w c : J w -> RsatOk (JX w) (caller_start cmds w c).
Proof.
  intros HJ. pose proof HJ as (A & B & C). unfold caller_start.
  assert (Full : JX w (emit (set_caller (set_fut w c FCancelled) c CDone) (Done (now (set_fut w c FCancelled)) c ErrSendFailed))).
  { exists [Done (now w) c ErrSendFailed]. split; [reflexivity|]. intros _. split; [|repeat constructor].
    split; [|split; [exact B|exact C]]. eapply J1_same with (w := set_fut w c FCancelled); [reflexivity|]. apply J1_set_fut; [exact A|discriminate]. }
  assert (Queued : forall w', futs w' = aset c FPending (futs w) -> jc (cx w') = jc (cx w) -> trace w' = trace w -> JX w w').
  { intros w' F Cc Tt. apply JT_JX. split; [|exact Tt]. unfold jc in Cc. injection Cc as E1 E2 E3 E4.
    split; [|split].
    - eapply J1_same with (w := set_fut w c FPending); [exact F|]. apply J1_set_fut; [exact A|discriminate].
    - unfold J3. rewrite E1, E2, E3. exact B.
    - unfold J4. rewrite E3, E4. exact C. }
  destruct (state (cx w)) eqn:S; cbn [RsatOk].
  - exists [Done (now w) c ErrSendFailed]. split; [reflexivity|]. intros _. split; [|repeat constructor]. eapply J_same; [| |exact HJ]; reflexivity.
  - destruct (Nat.leb BUF_SIZE (length (que (cx w)))); cbn [RsatOk]; [exact Full|]. apply Queued; cbn; rewrite ?S; reflexivity.
  - destruct (Nat.leb BUF_SIZE (length (que (cx w)))); cbn [RsatOk]; [exact Full|]. apply Queued; cbn; rewrite ?S; reflexivity.
  - destruct (Nat.leb BUF_SIZE (length (que (cx w)))); cbn [RsatOk]; [exact Full|]. apply Queued; cbn; rewrite ?S; reflexivity.
Qed.

Lemma caller_wake_J w c : J w -> RsatOk (JX w) (caller_wake w c).
Proof.
  intros HJ. pose proof HJ as (A & B & C). unfold caller_wake. destruct (aget CNone c (callers w)); try (apply JT_JX; split; [exact HJ|reflexivity]).
  - (* the future completed: the caller gets what it holds *)
    cbn. eexists. split; [reflexivity|]. intros _. split; [eapply J_same; [| |exact HJ]; reflexivity|].
    constructor; [|constructor]. cbn.
    destruct (aget FPending c (futs w)) as [|p|e|] eqn:F; try exact I; [apply (A c p); unfold fut_of; exact F|destruct e; exact I].
  - assert (G : RsatOk (JT w) (match cur (cx w) with
                         | Some k => if Nat.eqb k c then set_state w Idle HExpired else Ok w
                         | None => Ok w end)).
    { destruct (cur (cx w)) as [k|]; [|split; [exact HJ|reflexivity]]. destruct (Nat.eqb k c); [|split; [exact HJ|reflexivity]].
      apply set_state_J_plain; try exact HJ; try reflexivity; discriminate. }
    assert (G2 : Rsat (tpre w) (match cur (cx w) with
                         | Some k => if Nat.eqb k c then set_state w Idle HExpired else Ok w
                         | None => Ok w end)).
    { destruct (cur (cx w)) as [k|]; [|apply tpre_refl]. destruct (Nat.eqb k c); [apply set_state_tpre|apply tpre_refl]. }
    destruct (match cur (cx w) with Some k => if Nat.eqb k c then set_state w Idle HExpired else Ok w | None => Ok w end) as [w1|n w1]; cbn in *.
    + destruct G as (J1' & T1). exists [Done (now w1) c ErrSendFailed]. split; [rewrite <- T1; reflexivity|].
      intros _. split; [eapply J_same; [| |exact J1']; reflexivity|repeat constructor].
    + (* an assertion tripped inside set_state: the caller is told so *)
      destruct G2 as (l1 & E1). exists (l1 ++ [Done (now w1) c ErrOther]). split; [change (trace w1 ++ [Done (now w1) c ErrOther] = trace w ++ l1 ++ [Done (now w1) c ErrOther]); rewrite E1, app_assoc; reflexivity|].
      rewrite forallb_app. cbn. rewrite andb_false_r. discriminate.
  - (* cancelled from outside: the caller is told so, nothing else moves *)
    cbn. eexists. split; [reflexivity|]. intros _. split; [eapply J_same; [| |exact HJ]; reflexivity|].
    constructor; [exact I|constructor].
Qed.

Lemma run_cb_JX w c : J w -> RsatOk (JX w) (run_cb cmds plan w c).
Proof.
  intros HJ. destruct c as [b| |t|t|t|c|n c|n c|c|c|c|e]; cbn [run_cb].
  - eapply RsatOk_weaken; [apply JT_JX|]. apply effect_state_J, HJ.
  - eapply RsatOk_weaken; [apply JT_JX|]. apply check_buffer_J, HJ.
  - eapply RsatOk_weaken; [apply JT_JX|]. apply exp_start_J, HJ.
  - destruct (aget EDone t (exps w)); cbn; apply JT_JX, JT_same; try reflexivity; exact HJ.
  - eapply RsatOk_weaken; [apply JT_JX|]. apply exp_wake_J, HJ.
  - unfold writer_start. destruct (w_lat (plan (nwrites w)) <=? 0).
    + apply (RsatOk_weaken (JX (bump_writes w))); [intros w3 H3; eapply JX_trans_l; [|exact H3]; reflexivity|]. apply do_write_J.
      eapply J_same; [| |exact HJ]; reflexivity.
    + cbn. apply JT_JX, JT_same; try reflexivity; exact HJ.
  - cbn. apply JT_JX, JT_same; try reflexivity; exact HJ.
  - apply do_write_J, HJ.
  - destruct (aget CNone c (callers w)); try (apply JT_JX; split; [exact HJ|reflexivity]). apply caller_start_J, HJ.
  - eapply RsatOk_weaken; [apply JT_JX|]. apply caller_timer_J, HJ.
  - apply caller_wake_J, HJ.
  - destruct e as [k|p| | |d|k].
    + cbn. apply JT_JX, JT_same; try reflexivity; exact HJ.
    + eapply RsatOk_weaken; [apply JT_JX|]. apply pkt_rcvd_J, HJ.
    + eapply RsatOk_weaken; [apply JT_JX|]. apply conn_J, HJ.
    + eapply RsatOk_weaken; [apply JT_JX|]. apply conn_J, HJ.
    + cbn. apply JT_JX, JT_same; try reflexivity; exact HJ.
    + eapply RsatOk_weaken; [apply JT_JX|]. apply caller_cancel_J, HJ.
Qed.

(* ---------------------------------------------------------------- every run *)
Definition Good (w : world) : Prop := clean_tr (trace w) = true -> J w /\ T w.

Lemma clean_tpre w w' : tpre w w' -> clean_tr (trace w') = true -> clean_tr (trace w) = true.
Proof. intros [l E]. unfold clean_tr. rewrite E, forallb_app. intros H. apply andb_prop in H as (H & _). exact H. Qed.

Lemma step_Good lifo w w' : Good w -> step cmds plan lifo w = Some w' -> Good w'.
Proof.
  intros G H Cw'. pose proof (step_tpre lifo w w' H) as TP.
  destruct (G (clean_tpre _ _ TP Cw')) as (HJ & HT). clear G.
  unfold step in H. destruct (batch w) as [|b].
  - apply boundary_same in H as (E1 & E2 & E3). split; [eapply J_same; [exact E2|rewrite E3; reflexivity|exact HJ]|unfold T; rewrite E1; exact HT].
  - destruct (ready w) as [|c r] eqn:Er.
    + apply boundary_same in H as (E1 & E2 & E3). split; [eapply J_same; [exact E2|rewrite E3; reflexivity|exact HJ]|unfold T; rewrite E1; exact HT].
    + set (w0 := upd_loop w (now w) r b (timers w) (seq w)) in *.
      assert (J0 : J w0) by (eapply J_same; [| |exact HJ]; reflexivity).
      pose proof (run_cb_JX w0 c J0) as X.
      destruct (run_cb cmds plan w0 c) as [w2|n w2]; injection H as <-.
      * cbn in X. destruct X as (l & E & X). change (trace w0) with (trace w) in E.
        unfold clean_tr in Cw'. rewrite E, forallb_app in Cw'. apply andb_prop in Cw' as (_ & Cl).
        destruct (X Cl) as (J2 & Ol). split; [exact J2|]. unfold T. rewrite E. apply Forall_app. split; assumption.
      * (* an assertion reached the event loop: the trace says so *)
        exfalso. unfold clean_tr in Cw'. cbn in Cw'. rewrite forallb_app in Cw'. cbn in Cw'. rewrite andb_false_r in Cw'. discriminate.
Qed.

Lemma run_Good lifo fuel : forall w, Good w -> Good (fst (run cmds plan lifo fuel w)).
Proof.
  induction fuel as [|fuel IH]; intros w G; cbn [run]; [exact G|].
  destruct (step cmds plan lifo w) as [w'|] eqn:E; [|exact G].
  apply IH. eapply step_Good; eassumption.
Qed.

Lemma Good_world0 evs : Good (world0 evs).
Proof.
  intros _. split; [|constructor]. split; [|split].
  - unfold J1, fut_of. cbn. discriminate.
  - unfold J3. cbn. discriminate.
  - unfold J4. cbn. discriminate.
Qed.

(* In every run -- any events, tie policy, transport behaviour, number of steps -- in which no internal assertion has tripped
   (none reached the event loop, none was handed to a caller), every packet handed to a caller is the echo of ITS command's
   frame or the reply ITS frame asks for *)
Theorem result_belongs lifo fuel evs :
  let w := fst (run cmds plan lifo fuel (world0 evs)) in
  clean_tr (trace w) = true -> forall t c p, In (Done t c (OkPkt p)) (trace w) -> belongs p c.
Proof.
  intros w Cw t c p Hin. destruct (run_Good lifo fuel _ (Good_world0 evs) Cw) as (_ & HT).
  unfold T in HT. rewrite Forall_forall in HT. exact (HT _ Hin).
Qed.
(* while a reply is awaited, a packet that is neither the awaited header nor a null log entry of the ADDRESSED controller (nor the echo's repeat)
   changes nothing -- in particular a neighbour controller's null fault-log entry does not complete an RQ|0418 *)
Lemma foreign_packet_ignored w p k e h :
  state (cx w) = WantRply -> sent (cx w) = Some k -> echo (cx w) = Some e -> rx_hdr (cmds k) = Some h ->
  p_hdr p <> h -> null_ok (cmds k) p = false -> pkt_rcvd cmds w p = Ok w.
Proof.
  intros S Sk Se Eh Nh Nn. unfold pkt_rcvd. rewrite S, Sk, Se, Eh, Nn.
  destruct (Nat.eqb (p_hdr p) (tx_hdr (cmds k)) && Nat.eqb (p_src p) (p_src e)); [reflexivity|].
  destruct (Nat.eqb (p_hdr p) h) eqn:E; [apply Nat.eqb_eq in E; contradiction|reflexivity].
Qed.
(* ... and the addressed controller's null entry does (the reply to an RQ|0418 for an empty slot carries index 00) *)
Lemma own_null_entry_answers w p k e h :
  state (cx w) = WantRply -> sent (cx w) = Some k -> echo (cx w) = Some e -> rx_hdr (cmds k) = Some h ->
  p_hdr p <> tx_hdr (cmds k) -> null_ok (cmds k) p = true -> pkt_rcvd cmds w p = set_state w Idle (HRes p).
Proof.
  intros S Sk Se Eh Nt Nn. unfold pkt_rcvd. rewrite S, Sk, Se, Eh, Nn.
  destruct (Nat.eqb (p_hdr p) (tx_hdr (cmds k))) eqn:E; [apply Nat.eqb_eq in E; contradiction|reflexivity].
Qed.
End Env.

(* the hypothesis is met by ordinary runs, and they do hand packets to callers: one command, echoed after 10 ms *)
Definition echoed (n : nat) : wplan := {| w_lat := 0; w_fail := false; w_echo := Some 10000; w_rply := None |}.
Lemma result_belongs_nonvacuous :
  let tr := fst (fst (simulate (cmd_a 0 20000000) echoed false 5000 [(0, ConnMade); (15625, Call 0%nat)])) in
  clean_tr tr = true /\ exists t p, In (Done t 0%nat (OkPkt p)) tr.
Proof. vm_compute. split; [reflexivity|]. eexists _, _. right. left. reflexivity. Qed.
