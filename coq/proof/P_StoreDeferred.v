(* P_StoreDeferred -- with the repaired deletion rule (only the message itself goes) the newest arrival for a code is never lost to a
   deferred deletion, for ANY interleaving of arrivals, reads and loop turns; with the earlier rule (any message equal in content) it is. *)
From Coq Require Import ZArith List Bool Lia.
From RV Require Import M_StoreDeferred.
Import ListNotations.
Open Scope Z_scope.

Lemma dget_dput st k m k' : dget (dput st k m) k' = if k' =? k then Some m else dget st k'.
Proof.
  induction st as [|[k0 m0] t IH]; cbn [dput dget].
  - destruct (k' =? k); reflexivity.
  - destruct (k =? k0) eqn:E; cbn [dget].
    + apply Z.eqb_eq in E. subst k0. destruct (k' =? k); reflexivity.
    + destruct (k' =? k0) eqn:E2; [|exact IH].
      apply Z.eqb_eq in E2. subst k0. assert (k' =? k = false) as -> by (rewrite Z.eqb_sym; exact E). reflexivity.
Qed.

Lemma dput_keys_in st k m x : In x (map fst (dput st k m)) -> x = k \/ In x (map fst st).
Proof.
  induction st as [|[k0 m0] t IH]; cbn [dput map fst In]; [intros [<-|[]]; left; reflexivity|].
  destruct (k =? k0) eqn:E; cbn [map fst In].
  - apply Z.eqb_eq in E. subst k0. intros [<-|H]; [left; reflexivity|right; right; exact H].
  - intros [<-|H]; [right; left; reflexivity|]. destruct (IH H) as [->|H']; [left; reflexivity|right; right; exact H'].
Qed.
Lemma dput_keys st k m : NoDup (map fst st) -> NoDup (map fst (dput st k m)).
Proof.
  induction st as [|[k0 m0] t IH]; cbn [dput map fst]; intros H; [constructor; [intros []|constructor]|].
  inversion H as [|? ? Hn Ht]; subst. destruct (k =? k0) eqn:E; cbn [map fst].
  - apply Z.eqb_eq in E. subst k0. constructor; assumption.
  - constructor; [|apply IH, Ht]. intros Hin. apply dput_keys_in in Hin as [->|Hin]; [rewrite Z.eqb_refl in E; discriminate|exact (Hn Hin)].
Qed.

Lemma dget_absent st k : ~ In k (map fst st) -> dget st k = None.
Proof.
  induction st as [|[k0 m0] t IH]; cbn [dget map fst In]; intros H; [reflexivity|].
  destruct (k =? k0) eqn:E; [apply Z.eqb_eq in E; subst; tauto|apply IH; tauto].
Qed.

Lemma dget_ddrop st k k' : NoDup (map fst st) -> dget (ddrop st k) k' = if k' =? k then None else dget st k'.
Proof.
  induction st as [|[k0 m0] t IH]; cbn [ddrop dget map fst]; intros H.
  - destruct (k' =? k); reflexivity.
  - inversion H as [|? ? Hn Ht]; subst. destruct (k =? k0) eqn:E.
    + apply Z.eqb_eq in E. subst k0. destruct (k' =? k) eqn:E2; [apply Z.eqb_eq in E2; subst; apply dget_absent, Hn|reflexivity].
    + cbn [dget]. destruct (k' =? k0) eqn:E2; [|apply IH, Ht].
      apply Z.eqb_eq in E2. subst k0. assert (k' =? k = false) as -> by (rewrite Z.eqb_sym; exact E). reflexivity.
Qed.

Lemma ddrop_keys st k : NoDup (map fst st) -> NoDup (map fst (ddrop st k)).
Proof.
  induction st as [|[k0 m0] t IH]; cbn [ddrop map fst]; intros H; [constructor|].
  inversion H as [|? ? Hn Ht]; subst. destruct (k =? k0); [exact Ht|]. cbn [map fst]. constructor; [|apply IH, Ht].
  intros Hin. apply Hn. clear -Hin. induction t as [|[k1 m1] t IH]; cbn [ddrop map fst In] in *; [exact Hin|].
  destruct (k =? k1); cbn [map fst In] in *; [right; exact Hin|]. destruct Hin as [->|Hin]; [left; reflexivity|right; apply IH, Hin].
Qed.

(* one repaired deletion: the entry for the code goes exactly when it is that message *)
Lemma dget_del_is st d c : NoDup (map fst st) ->
  dget (del_is st d) c = match dget st c with
                         | Some m => if (c =? d_code d) && (d_id m =? d_id d) then None else Some m
                         | None => None end.
Proof.
  intros H. unfold del_is. destruct (c =? d_code d) eqn:Ec.
  - apply Z.eqb_eq in Ec. subst c. destruct (dget st (d_code d)) as [m|] eqn:G; [|rewrite G; reflexivity].
    destruct (d_id m =? d_id d); cbn [andb]; [rewrite dget_ddrop, Z.eqb_refl by exact H; reflexivity|exact G].
  - destruct (dget st (d_code d)) as [m|]; [|destruct (dget st c); reflexivity].
    destruct (d_id m =? d_id d); [rewrite dget_ddrop, Ec by exact H|]; destruct (dget st c); reflexivity.
Qed.
Lemma del_is_keys st d : NoDup (map fst st) -> NoDup (map fst (del_is st d)).
Proof. intros H. unfold del_is. destruct (dget st (d_code d)) as [m|]; [|exact H]. destruct (d_id m =? d_id d); [apply ddrop_keys, H|exact H]. Qed.

Lemma latest_snoc ms m c : latest (ms ++ [m]) c = if d_code m =? c then Some m else latest ms c.
Proof.
  induction ms as [|x t IH]; cbn [app latest]; [destruct (d_code m =? c); reflexivity|].
  rewrite IH. destruct (d_code m =? c); [reflexivity|]. destruct (latest t c); reflexivity.
Qed.
Lemma latest_In ms c m : latest ms c = Some m -> In m ms /\ d_code m = c.
Proof.
  induction ms as [|x t IH]; cbn [latest]; [discriminate|].
  destruct (latest t c) as [y|] eqn:L; [intros [= <-]; destruct (IH eq_refl); split; [right|]; assumption|].
  destruct (d_code x =? c) eqn:E; [|discriminate]. intros [= <-]. apply Z.eqb_eq in E. split; [left; reflexivity|exact E].
Qed.
Lemma arrivals_snoc evs e : arrivals (evs ++ [e]) = arrivals evs ++ match e with DArrive m => [m] | _ => [] end.
Proof. unfold arrivals. rewrite flat_map_app. cbn. rewrite app_nil_r. reflexivity. Qed.

Definition Inv (evs : list dev) (s : dstate) : Prop :=
  NoDup (map fst (s_store s)) /\
  (forall c m, dget (s_store s) c = Some m -> latest (arrivals evs) c = Some m) /\
  (forall d, In d (s_pending s) -> In d (s_sched s)) /\
  (forall c m, latest (arrivals evs) c = Some m -> ~ In (d_id m) (map d_id (s_sched s)) -> dget (s_store s) c = Some m).

Lemma turn_keeps : forall pend st c x, NoDup (map fst st) -> dget st c = Some x ->
  (forall d, In d pend -> d_id d <> d_id x) -> dget (fold_left del_is pend st) c = Some x /\ NoDup (map fst (fold_left del_is pend st)).
Proof.
  induction pend as [|d pend IH]; intros st c x H G N; cbn [fold_left]; [split; assumption|].
  apply IH; [apply del_is_keys, H| |intros d' Hd; apply N; right; exact Hd].
  rewrite dget_del_is, G by exact H. assert (d_id x =? d_id d = false) as -> by (apply Z.eqb_neq; intro E; apply (N d (or_introl eq_refl)); congruence).
  rewrite andb_false_r. reflexivity.
Qed.
Lemma turn_only_removes : forall pend st c m, NoDup (map fst st) -> dget (fold_left del_is pend st) c = Some m -> dget st c = Some m.
Proof.
  induction pend as [|d pend IH]; intros st c m H G; cbn [fold_left] in G; [exact G|].
  apply IH in G; [|apply del_is_keys, H]. rewrite dget_del_is in G by exact H.
  destruct (dget st c) as [m'|]; [|discriminate]. destruct ((c =? d_code d) && (d_id m' =? d_id d)); [discriminate|exact G].
Qed.
Lemma turn_keys : forall pend st, NoDup (map fst st) -> NoDup (map fst (fold_left del_is pend st)).
Proof. induction pend as [|d pend IH]; intros st H; cbn [fold_left]; [exact H|]. apply IH, del_is_keys, H. Qed.

Lemma step_inv evs s e : Inv evs s -> Inv (evs ++ [e]) (dstep del_is s e).
Proof.
  intros (K & A & B & D). unfold Inv. rewrite arrivals_snoc. destruct e as [m|code expd|]; cbn [dstep].
  - cbn [s_store s_pending s_sched]. split; [apply dput_keys, K|]. split; [|split; [exact B|]].
    + intros c x. rewrite dget_dput, latest_snoc. rewrite (Z.eqb_sym (d_code m) c). destruct (c =? d_code m); [auto|apply A].
    + intros c x. rewrite dget_dput, latest_snoc. rewrite (Z.eqb_sym (d_code m) c). destruct (c =? d_code m); [auto|apply D].
  - rewrite app_nil_r. destruct (dget (s_store s) code) as [m|] eqn:G; [|repeat split; assumption].
    destruct expd; [|repeat split; assumption]. cbn [s_store s_pending s_sched].
    split; [exact K|]. split; [exact A|]. split.
    + intros d Hd. apply in_app_or in Hd as [Hd|[<-|[]]]; [right; apply B, Hd|left; reflexivity].
    + intros c x L N. apply D; [exact L|]. intros Hin. apply N. cbn [map In]. right. exact Hin.
  - rewrite app_nil_r. cbn [s_store s_pending s_sched]. split; [apply turn_keys, K|]. split; [|split; [intros d []|]].
    + intros c m G. apply A. eapply turn_only_removes; eauto.
    + intros c x L N. apply turn_keeps; [exact K|apply D; assumption|].
      intros d Hd E. apply N. apply in_map_iff. exists d. split; [exact E|apply B, Hd].
Qed.

Lemma run_inv evs : Inv evs (drun del_is evs).
Proof.
  induction evs as [|e evs IH] using rev_ind.
  - unfold Inv, drun. cbn. repeat split; try constructor; try discriminate; intros; try contradiction.
  - unfold drun in *. rewrite fold_left_app. cbn [fold_left]. apply step_inv, IH.
Qed.

(* whatever an entity holds for a code is the newest arrival for that code ... *)
Theorem held_is_latest evs c m : dget (s_store (drun del_is evs)) c = Some m -> latest (arrivals evs) c = Some m.
Proof. destruct (run_inv evs) as (_ & A & _). apply A. Qed.
(* ... and the newest arrival is held, unless a read found IT expired: no deferred deletion of an older message ever takes it away *)
Theorem latest_never_lost evs c m : latest (arrivals evs) c = Some m ->
  ~ In (d_id m) (map d_id (s_sched (drun del_is evs))) -> dget (s_store (drun del_is evs)) c = Some m.
Proof. destruct (run_inv evs) as (_ & _ & _ & D). apply D. Qed.

(* the earlier rule loses it: the same content arrives again before the loop turns *)
Definition lost_evs : list dev := [DArrive (mkD 1 0x1F09 5); DRead 0x1F09 true; DArrive (mkD 2 0x1F09 5); DTurn].
Lemma equal_content_rule_loses_latest :
  latest (arrivals lost_evs) 0x1F09 = Some (mkD 2 0x1F09 5) /\
  ~ In 2 (map d_id (s_sched (drun del_eq lost_evs))) /\
  dget (s_store (drun del_eq lost_evs)) 0x1F09 = None /\
  dget (s_store (drun del_is lost_evs)) 0x1F09 = Some (mkD 2 0x1F09 5).
Proof. vm_compute. repeat split; try reflexivity. intros [H|[]]. discriminate. Qed.

(* ---------------------------------------------------------------- what a later snapshot shows does not depend on earlier reads *)
(* everything ever scheduled for removal was an arrival *)
Lemma sched_are_arrivals evs : forall d, In d (s_sched (drun del_is evs)) -> In d (arrivals evs).
Proof.
  induction evs as [|e evs IH] using rev_ind; [intros d []|].
  intros d. unfold drun in *. rewrite fold_left_app, arrivals_snoc. cbn [fold_left].
  set (s := fold_left (dstep del_is) evs dinit) in *.
  destruct e as [m|code expd|]; cbn [dstep].
  - cbn [s_sched]. intros H. apply in_or_app. left. apply IH, H.
  - rewrite app_nil_r. destruct (dget (s_store s) code) as [m|] eqn:G; [|apply IH]. destruct expd; [|apply IH].
    cbn [s_sched]. intros [<-|H]; [|apply IH, H].
    destruct (run_inv evs) as (_ & A & _). fold (drun del_is evs) in *. apply A in G. apply latest_In in G. apply G.
  - rewrite app_nil_r. cbn [s_sched]. apply IH.
Qed.

(* the reads are HONEST for a verdict [exp] (the expiry verdict at the time of the snapshot; expiry never un-happens): a read only finds
   expired what is expired then *)
Fixpoint honest (exp : dmsg -> bool) (s : dstate) (evs : list dev) : Prop :=
  match evs with
  | [] => True
  | e :: r => (match e with
               | DRead c true => match dget (s_store s) c with Some m => exp m = true | None => True end
               | _ => True end) /\ honest exp (dstep del_is s e) r
  end.
Lemma honest_sched exp : forall evs s, honest exp s evs -> (forall d, In d (s_sched s) -> exp d = true) ->
  forall d, In d (s_sched (fold_left (dstep del_is) evs s)) -> exp d = true.
Proof.
  induction evs as [|e r IH]; intros s H Hs d; cbn [fold_left]; [apply Hs|].
  destruct H as (He & Hr). apply (IH _ Hr). intros d'. destruct e as [m|c [|]|]; cbn [dstep]; try apply Hs.
  - destruct (dget (s_store s) c) as [m|]; [|apply Hs]. cbn [s_sched]. intros [<-|H']; [exact He|apply Hs, H'].
  - destruct (dget (s_store s) c); apply Hs.
Qed.

Definition live (exp : dmsg -> bool) (st : dstore) (c : Z) : option dmsg :=
  match dget st c with Some m => if exp m then None else Some m | None => None end.

(* what is live in the store -- what a snapshot without expired packets shows -- is a function of the ARRIVALS alone: however many reads,
   honest about expiry, and loop turns are interleaved, it is the newest arrival of each code unless that has expired *)
Theorem live_view_independent_of_reads exp evs c :
  NoDup (map d_id (arrivals evs)) -> honest exp dinit evs ->
  live exp (s_store (drun del_is evs)) c = match latest (arrivals evs) c with Some m => if exp m then None else Some m | None => None end.
Proof.
  intros U H. unfold live.
  destruct (latest (arrivals evs) c) as [m|] eqn:L.
  - destruct (exp m) eqn:E.
    + destruct (dget (s_store (drun del_is evs)) c) as [x|] eqn:G; [|reflexivity].
      apply held_is_latest in G. rewrite L in G. injection G as <-. rewrite E. reflexivity.
    + rewrite (latest_never_lost evs c m L); [rewrite E; reflexivity|].
      intros Hin. apply in_map_iff in Hin as (d & Hid & Hd).
      assert (Ed : exp d = true) by (apply (honest_sched exp evs dinit H (fun _ F => match F with end) d Hd)).
      assert (d = m).
      { pose proof (sched_are_arrivals evs d Hd) as Ad. destruct (latest_In _ _ _ L) as (Am & _).
        clear -U Ad Am Hid. induction (arrivals evs) as [|a l IH]; [destruct Ad|].
        cbn [map] in U. inversion U as [|? ? Hn Hu]; subst. destruct Ad as [->|Ad], Am as [<-|Am]; auto.
        - exfalso. apply Hn. rewrite Hid. apply in_map, Am.
        - exfalso. apply Hn. rewrite <- Hid. apply in_map, Ad. }
      subst d. congruence.
  - destruct (dget (s_store (drun del_is evs)) c) as [x|] eqn:G; [|reflexivity].
    apply held_is_latest in G. congruence.
Qed.
