import logging, random, json
logging.disable(logging.CRITICAL)
from ramses_tx.packet import Packet
from ramses_tx.message import Message
from datetime import datetime as dt
random.seed(3)
D=dt(2026,1,1,12,0,0)
def dec(line):
    try:
        return Message(Packet.from_port(D, line)).payload
    except Exception as e:
        return ("EXC", type(e).__name__, str(e)[:60])
def h(n): return "".join(random.choice("0123456789ABCDEF") for _ in range(n))
specs={ # code: (elem_len_bytes, src, elemgen)
 "0009":(3,"01:145038", lambda i: f"{i:02X}"+random.choice(["00","01"])+random.choice(["00","FF"])),
 "000A":(6,"01:145038", lambda i: f"{i:02X}"+random.choice(["00","10","13"])+"01F40DAC"),
 "2309":(3,"01:145038", lambda i: f"{i:02X}"+random.choice(["07D0","7FFF","7EFF","01F4"])),
 "30C9":(3,"01:145038", lambda i: f"{i:02X}"+random.choice(["07D0","7FFF","0834","FF9C"])),
 "2249":(7,"23:100224", lambda i: f"{i:02X}"+"7EFF7EFF"+"00"+h(2)),
 "22C9":(6,"02:044328", lambda i: f"{i:02X}"+"01F40A28"+random.choice(["01","02"])),
 "3150":(2,"02:044328", lambda i: f"{i:02X}"+random.choice(["00","7A","C8","6A"])),
}
bad=0
for code,(n,src,g) in specs.items():
    for k in (1,2,3,5,8):
        for _ in range(20):
            idxs=random.sample(range(0,8),k)
            es=[g(i) for i in idxs]
            arr=dec(f"045  I --- {src} --:------ {src} {code} {len(es)*n:03d} {''.join(es)}")
            singles=[dec(f"045  I --- {src} --:------ {src} {code} {n:03d} {e}") for e in es]
            if k==1:
                ok = (arr==singles[0]) or (isinstance(arr,list) and arr==singles)
            else:
                ok = isinstance(arr,list) and all(isinstance(s,dict) for s in singles) and arr==singles
            if not ok:
                bad+=1
                import collections; C=globals().setdefault("C",collections.Counter()); C[(code,k)]+=1; (C[(code,k)]==1 and code!="2249") and print(code,k,es,"\n  ARR",arr,"\n  SGL",singles)
print("bad",bad)
