From Coq Require Import ZArith List Bool Lia.
From RV Require Import GenConsts M_Faultlog.
Import ListNotations.
Open Scope Z_scope.

Definition vals (m : fmap) : list Z := map snd m.
Definition keys (m : fmap) : list Z := map fst m.

Lemma memz_In x l : memz x l = true <-> In x l.
Proof.
  unfold memz. rewrite existsb_exists. split.
  - intros [y [Hy E]]. apply Z.eqb_eq in E. subst. exact Hy.
  - intros H. exists x. split; [exact H|apply Z.eqb_refl].
Qed.

(* ---------------------------------------------------------------- upd / update_all *)
Lemma upd_In m k v k' v' : In (k', v') (upd m k v) -> (k', v') = (k, v) \/ In (k', v') m.
Proof.
  induction m as [|[a b] m IH]; cbn [upd].
  - intros [H|[]]. left. symmetry. exact H.
  - destruct (k =? a) eqn:E.
    + intros [H|H]; [left; symmetry; exact H|right; right; exact H].
    + intros [H|H]; [right; left; exact H|]. destruct (IH H) as [H'|H']; [left; exact H'|right; right; exact H'].
Qed.

Lemma update_all_In kvs : forall m k' v', In (k', v') (update_all m kvs) -> In (k', v') kvs \/ In (k', v') m.
Proof.
  induction kvs as [|[a b] kvs IH]; intros m k' v' H; cbn [update_all fold_left] in *.
  - right. exact H.
  - fold (update_all (upd m a b) kvs) in H. destruct (IH _ _ _ H) as [H'|H'].
    + left. right. exact H'.
    + cbn [fst snd] in H'. destruct (upd_In _ _ _ _ _ H') as [E|E]; [left; left; symmetry; exact E|right; exact E].
Qed.

Lemma upd_keys m k v : keys (upd m k v) = if memz k (keys m) then keys m else keys m ++ [k].
Proof.
  induction m as [|[a b] m IH]; cbn [upd keys map fst memz existsb]; [reflexivity|].
  destruct (k =? a) eqn:E.
  - apply Z.eqb_eq in E. subst. cbn [map fst orb]. reflexivity.
  - cbn [map fst orb]. fold (keys (upd m k v)). fold (keys m). rewrite IH. fold (memz k (keys m)).
    destruct (memz k (keys m)); reflexivity.
Qed.

Lemma NoDup_app_snoc (l : list Z) x : NoDup l -> ~ In x l -> NoDup (l ++ [x]).
Proof.
  induction l as [|a l IH]; intros H Hx; cbn [app]; [constructor; [intros []|constructor]|].
  inversion H as [|? ? Ha Hl]; subst. constructor.
  - intros Hin. apply in_app_iff in Hin as [Hin|[<-|[]]]; [apply Ha, Hin|apply Hx; left; reflexivity].
  - apply IH; [exact Hl|intros Hin; apply Hx; right; exact Hin].
Qed.

Lemma upd_keys_nodup m k v : NoDup (keys m) -> NoDup (keys (upd m k v)).
Proof.
  intros H. rewrite upd_keys. destruct (memz k (keys m)) eqn:E; [exact H|].
  apply NoDup_app_snoc; [exact H|].
  intros Hin. apply memz_In in Hin. congruence.
Qed.

Lemma update_all_keys_nodup kvs : forall m, NoDup (keys m) -> NoDup (keys (update_all m kvs)).
Proof.
  induction kvs as [|[a b] kvs IH]; intros m H; cbn [update_all fold_left]; [exact H|].
  apply IH, upd_keys_nodup, H.
Qed.

Lemma filter_keys_nodup (f : Z * Z -> bool) m : NoDup (keys m) -> NoDup (keys (filter f m)).
Proof.
  induction m as [|[a b] m IH]; cbn [filter keys map]; intros H; [constructor|].
  inversion H as [|? ? Hn Hd]; subst.
  destruct (f (a, b)); [|apply IH, Hd]. cbn [map fst]. constructor; [|apply IH, Hd].
  intros Hin. apply Hn. unfold keys in *. apply in_map_iff in Hin as [[x y] [E Hxy]].
  apply filter_In in Hxy as [Hxy _]. apply in_map_iff. exists (x, y). split; assumption.
Qed.

(* ---------------------------------------------------------------- insert_into_map *)
Lemma insert_values m idx dtm k v :
  In (k, v) (insert_into_map m idx dtm) -> In v (vals m) \/ dtm = Some v.
Proof.
  unfold insert_into_map.
  set (part1 := filter _ m).
  assert (P1 : forall k v, In (k, v) part1 -> In v (vals m)).
  { intros a b H. apply filter_In in H as [H _]. unfold vals. apply in_map_iff. exists (a, b). split; [reflexivity|exact H]. }
  destruct dtm as [d|]; [|intros H; left; eapply P1, H].
  destruct (map fst (filter (fun kv => snd kv <? d) m)) as [|i0 idxs].
  - intros H. destruct (upd_In _ _ _ _ _ H) as [E|E]; [right; congruence|left; eapply P1, E].
  - intros H. destruct (update_all_In _ _ _ _ H) as [E|E].
    + left. apply in_map_iff in E as [[a b] [E1 E2]]. apply filter_In in E2 as [E2 _].
      cbn [fst snd] in E1. injection E1 as _ <-. unfold vals. apply in_map_iff. exists (a, b). split; [reflexivity|exact E2].
    + destruct (upd_In _ _ _ _ _ E) as [E'|E']; [right; congruence|left; eapply P1, E'].
Qed.

Lemma insert_keys_nodup m idx dtm : NoDup (keys m) -> NoDup (keys (insert_into_map m idx dtm)).
Proof.
  intros H. unfold insert_into_map.
  destruct dtm as [d|]; [|apply filter_keys_nodup, H].
  destruct (map fst (filter (fun kv => snd kv <? d) m)) as [|i0 idxs].
  - apply upd_keys_nodup, filter_keys_nodup, H.
  - apply update_all_keys_nodup, upd_keys_nodup, filter_keys_nodup, H.
Qed.

(* ---------------------------------------------------------------- process_msg invariants *)
Definition inv (s : fstate) : Prop :=
  (forall v, In v (vals (fl_map s)) -> In v (fl_log s)) /\
  (forall v, In v (fl_log s) -> In v (vals (fl_map s))) /\
  NoDup (keys (fl_map s)).

Lemma prune_spec m log v : In v (prune m log) <-> In v log /\ In v (vals m).
Proof. unfold prune. rewrite filter_In, memz_In. reflexivity. Qed.

Lemma inv_init : inv finit.
Proof. repeat split; cbn; try (intros v []). constructor. Qed.

Lemma entry_step s idx dtm :
  inv s ->
  inv {| fl_map := insert_into_map (fl_map s) idx (Some dtm);
         fl_log := prune (insert_into_map (fl_map s) idx (Some dtm))
                         (if memz dtm (fl_log s) then fl_log s else fl_log s ++ [dtm]) |}.
Proof.
  intros [I1 [I2 I3]]. split; [|split]; cbn [fl_map fl_log].
  - intros v Hv. apply prune_spec. split; [|exact Hv].
    unfold vals in Hv. apply in_map_iff in Hv as [[a b] [E Hab]]. cbn in E. subst b.
    destruct (insert_values _ _ _ _ _ Hab) as [H|H].
    + destruct (memz dtm (fl_log s)); [apply I1, H|apply in_or_app; left; apply I1, H].
    + injection H as <-. destruct (memz dtm (fl_log s)) eqn:E; [apply memz_In, E|apply in_or_app; right; left; reflexivity].
  - intros v Hv. apply prune_spec in Hv as [_ Hv]. exact Hv.
  - apply insert_keys_nodup, I3.
Qed.

Lemma process_inv s e : inv s -> inv (process_msg s e).
Proof.
  intros I. destruct e as [idx dtm|idx]; cbn [process_msg].
  - destruct (get (fl_map s) idx) as [v|]; [destruct (v =? dtm); [exact I|]|]; apply entry_step, I.
  - destruct I as [I1 [I2 I3]]. split; [|split]; cbn [fl_map fl_log].
    + intros v Hv. apply prune_spec. split; [|exact Hv]. apply I1.
      unfold vals in Hv. apply in_map_iff in Hv as [[a b] [E Hab]]. cbn in E. subst b.
      destruct (insert_values _ _ _ _ _ Hab) as [H|H]; [exact H|discriminate].
    + intros v Hv. apply prune_spec in Hv as [_ Hv]. exact Hv.
    + apply insert_keys_nodup, I3.
Qed.

Lemma run_inv evs : forall s, inv s -> inv (run evs s).
Proof. induction evs as [|e evs IH]; intros s I; cbn [run fold_left]; [exact I|]. apply IH, process_inv, I. Qed.

(* reading the view never raises: every index maps to a stored entry *)
Lemma views_total evs : view (run evs finit) <> None.
Proof.
  destruct (run_inv evs finit inv_init) as [I1 _].
  unfold view. destruct (forallb _ _) eqn:E; [discriminate|].
  exfalso. apply Bool.not_true_iff_false in E. apply E. apply forallb_forall.
  intros [k v] H. apply memz_In. apply I1. unfold vals. apply in_map_iff. exists (k, v). split; [reflexivity|exact H].
Qed.

Lemma log_is_map_values evs v :
  In v (fl_log (run evs finit)) <-> In v (vals (fl_map (run evs finit))).
Proof. destruct (run_inv evs finit inv_init) as [I1 [I2 _]]. split; [apply I2|apply I1]. Qed.

Lemma keys_unique evs : NoDup (keys (fl_map (run evs finit))).
Proof. apply (run_inv evs finit inv_init). Qed.

(* no entry is invented: every shown timestamp was carried by some processed message *)
Lemma process_values s e v :
  In v (vals (fl_map (process_msg s e))) -> In v (vals (fl_map s)) \/ exists idx, e = FEntry idx v.
Proof.
  destruct e as [idx dtm|idx]; cbn [process_msg].
  - assert (G : In v (vals (insert_into_map (fl_map s) idx (Some dtm))) ->
                In v (vals (fl_map s)) \/ exists idx0, FEntry idx dtm = FEntry idx0 v).
    { intros H. unfold vals in H. apply in_map_iff in H as [[a b] [E Hab]]. cbn in E. subst b.
      destruct (insert_values _ _ _ _ _ Hab) as [H|H]; [left; exact H|right; injection H as <-; exists idx; reflexivity]. }
    destruct (get (fl_map s) idx) as [w|]; [destruct (w =? dtm); [intros H; left; exact H|]|]; cbn [fl_map]; exact G.
  - cbn [fl_map]. intros H. unfold vals in H. apply in_map_iff in H as [[a b] [E Hab]]. cbn in E. subst b.
    destruct (insert_values _ _ _ _ _ Hab) as [H|H]; [left; exact H|discriminate].
Qed.

Lemma no_invented evs : forall s v,
  In v (vals (fl_map (run evs s))) -> In v (vals (fl_map s)) \/ exists idx, In (FEntry idx v) evs.
Proof.
  induction evs as [|e evs IH]; intros s v H; cbn [run fold_left] in H; [left; exact H|].
  destruct (IH _ _ H) as [H'|[idx H']].
  - destruct (process_values _ _ _ H') as [H''|[idx ->]]; [left; exact H''|right; exists idx; left; reflexivity].
  - right. exists idx. right. exact H'.
Qed.

(* ---------------------------------------------------------------- prefixes of a controller log *)
Fixpoint pmap (start : Z) (l : list Z) : fmap :=
  match l with [] => [] | d :: t => (start, d) :: pmap (start + 1) t end.

Lemma pmap_snoc l : forall s d, pmap s (l ++ [d]) = pmap s l ++ [(s + Z.of_nat (length l), d)].
Proof.
  induction l as [|x l IH]; intros s d; cbn [pmap app length].
  - f_equal. f_equal. lia.
  - rewrite IH. replace (s + 1 + Z.of_nat (length l)) with (s + Z.of_nat (S (length l))) by lia. reflexivity.
Qed.

Lemma pmap_In l : forall s k v, In (k, v) (pmap s l) -> s <= k < s + Z.of_nat (length l) /\ In v l.
Proof.
  induction l as [|x l IH]; intros s k v H; cbn [pmap] in H; [destruct H|].
  destruct H as [H|H].
  - injection H as <- <-. cbn [length]. split; [lia|left; reflexivity].
  - destruct (IH _ _ _ H) as [H1 H2]. cbn [length]. split; [lia|right; exact H2].
Qed.

Lemma filter_all {A} (f : A -> bool) l : (forall x, In x l -> f x = true) -> filter f l = l.
Proof.
  induction l as [|x l IH]; intros H; cbn [filter]; [reflexivity|].
  rewrite (H x (or_introl eq_refl)). f_equal. apply IH. intros y Hy. apply H. right. exact Hy.
Qed.
Lemma filter_none {A} (f : A -> bool) l : (forall x, In x l -> f x = false) -> filter f l = [].
Proof.
  induction l as [|x l IH]; intros H; cbn [filter]; [reflexivity|].
  rewrite (H x (or_introl eq_refl)). apply IH. intros y Hy. apply H. right. exact Hy.
Qed.

Lemma upd_fresh m k v : ~ In k (keys m) -> upd m k v = m ++ [(k, v)].
Proof.
  induction m as [|[a b] m IH]; intros H; cbn [upd app]; [reflexivity|].
  destruct (k =? a) eqn:E.
  - exfalso. apply H. left. apply Z.eqb_eq in E. subst. reflexivity.
  - f_equal. apply IH. intros Hin. apply H. right. exact Hin.
Qed.

Lemma get_fresh m k : ~ In k (keys m) -> get m k = None.
Proof.
  induction m as [|[a b] m IH]; intros H; cbn [get]; [reflexivity|].
  destruct (k =? a) eqn:E.
  - exfalso. apply H. left. apply Z.eqb_eq in E. subst. reflexivity.
  - apply IH. intros Hin. apply H. right. exact Hin.
Qed.

Lemma pmap_keys_range l s k : In k (keys (pmap s l)) -> s <= k < s + Z.of_nat (length l).
Proof.
  unfold keys. intros H. apply in_map_iff in H as [[a b] [E Hab]]. cbn in E. subst a.
  apply (pmap_In _ _ _ _ Hab).
Qed.

(* one step of a read-through: the view is the first n entries, RP(n) carries entry n *)
Lemma read_next l d :
  (forall v, In v l -> d < v) ->
  insert_into_map (pmap 0 l) (Z.of_nat (length l)) (Some d) = pmap 0 (l ++ [d]).
Proof.
  intros Hd. unfold insert_into_map. cbv beta iota zeta.
  rewrite (filter_all (fun kv : Z * Z => (fst kv <? Z.of_nat (length l)) && (d <? snd kv))).
  2:{ intros [k v] H. destruct (pmap_In _ _ _ _ H) as [H1 H2]. cbn [fst snd]. specialize (Hd v H2).
      apply andb_true_iff. split; [apply Z.ltb_lt; lia|apply Z.ltb_lt; lia]. }
  rewrite (filter_none (fun kv => snd kv <? d)).
  2:{ intros [k v] H. destruct (pmap_In _ _ _ _ H) as [_ H2]. cbn [snd]. specialize (Hd v H2). apply Z.ltb_ge. lia. }
  cbn [map]. rewrite upd_fresh.
  - rewrite pmap_snoc. f_equal.
  - intros Hin. apply pmap_keys_range in Hin. lia.
Qed.

Definition sorted_desc (l : list Z) : Prop := forall i j a b, (i < j)%nat -> nth_error l i = Some a -> nth_error l j = Some b -> b < a.

Lemma firstn_snoc_nth {A} (l : list A) n d : nth_error l n = Some d -> firstn (S n) l = firstn n l ++ [d].
Proof.
  revert n. induction l as [|x l IH]; intros n H; [destruct n; discriminate|].
  destruct n as [|n]; cbn in *; [injection H as ->; reflexivity|]. f_equal. apply IH, H.
Qed.

Lemma firstn_nth_In {A} (l : list A) n v : In v (firstn n l) -> exists i, (i < n)%nat /\ nth_error l i = Some v.
Proof.
  revert n. induction l as [|x l IH]; intros n H; [rewrite firstn_nil in H; destruct H|].
  destruct n as [|n]; [destruct H|]. cbn in H. destruct H as [->|H].
  - exists 0%nat. split; [lia|reflexivity].
  - destruct (IH _ H) as [i [Hi Hn]]. exists (S i). split; [lia|exact Hn].
Qed.

(* reading an unchanging log L from the top into an EMPTY view yields exactly its first n entries *)
Lemma fresh_read_through L : sorted_desc L -> forall n, (n <= length L)%nat ->
  fl_map (run (map (rp L) (seq 0 n)) finit) = pmap 0 (firstn n L).
Proof.
  intros HL. induction n as [|n IH]; intros Hn; [reflexivity|].
  rewrite seq_S, map_app. unfold run. rewrite fold_left_app. fold (run (map (rp L) (seq 0 n)) finit).
  cbn [map fold_left Nat.add]. specialize (IH ltac:(lia)).
  destruct (nth_error L n) as [d|] eqn:En.
  2:{ apply nth_error_None in En. lia. }
  replace (rp L n) with (FEntry (Z.of_nat n) d) by (unfold rp; rewrite En; reflexivity).
  cbn [process_msg]. rewrite IH.
  assert (Hlen : length (firstn n L) = n) by (apply firstn_length_le; lia).
  rewrite get_fresh.
  2:{ intros Hin. apply pmap_keys_range in Hin. rewrite Hlen in Hin. lia. }
  cbn [fl_map]. pose proof (read_next (firstn n L) d) as R. rewrite Hlen in R. rewrite R.
  - rewrite (firstn_snoc_nth _ _ _ En). reflexivity.
  - intros v Hv. destruct (firstn_nth_In _ _ _ Hv) as [i [Hi Hv']]. exact (HL i n v d Hi Hv' En).
Qed.

(* an announcement of a newer entry, when the view is a prefix of the log: everything moves down *)
Lemma update_all_fresh kvs : forall m,
  NoDup (keys kvs) -> (forall k, In k (keys kvs) -> ~ In k (keys m)) -> update_all m kvs = m ++ kvs.
Proof.
  induction kvs as [|[a b] kvs IH]; intros m Hn Hd; cbn [update_all fold_left]; [symmetry; apply app_nil_r|].
  fold (update_all (upd m (fst (a, b)) (snd (a, b))) kvs). cbn [fst snd].
  rewrite upd_fresh by (apply Hd; left; reflexivity).
  inversion Hn as [|? ? Hn1 Hn2]; subst.
  rewrite IH; [rewrite <- app_assoc; reflexivity|exact Hn2|].
  intros k Hk Hin. unfold keys in Hin. rewrite map_app in Hin. apply in_app_iff in Hin as [Hin|[<-|[]]].
  - apply (Hd k (or_intror Hk)), Hin.
  - apply Hn1, Hk.
Qed.

Lemma pmap_shift l : forall s, map (fun kv : Z * Z => (fst kv + 1, snd kv)) (pmap s l) = pmap (s + 1) l.
Proof. induction l as [|x l IH]; intros s; cbn [pmap map fst snd]; [reflexivity|]. rewrite IH. reflexivity. Qed.

Lemma pmap_keys_nodup l : forall s, NoDup (keys (pmap s l)).
Proof.
  induction l as [|x l IH]; intros s; cbn [pmap keys map fst]; constructor; [|apply IH].
  intros Hin. apply pmap_keys_range in Hin. lia.
Qed.

Lemma list_min_le d l : list_min d l <= d.
Proof. revert d; induction l as [|x l IH]; intros d; cbn [list_min]; [lia|]. specialize (IH (Z.min d x)). lia. Qed.
Lemma list_min_lower d l lo : lo <= d -> (forall x, In x l -> lo <= x) -> lo <= list_min d l.
Proof.
  revert d; induction l as [|x l IH]; intros d Hd Hl; cbn [list_min]; [exact Hd|].
  apply IH; [|intros y Hy; apply Hl; right; exact Hy]. specialize (Hl x (or_introl eq_refl)). lia.
Qed.

Lemma announce_pushes_down l d :
  (forall v, In v l -> v < d) -> Z.of_nat (length l) <= MAXIDX ->
  insert_into_map (pmap 0 l) 0 (Some d) = (0, d) :: pmap 1 l.
Proof.
  intros Hd Hlen. unfold insert_into_map. cbv beta iota zeta.
  rewrite (filter_none (fun kv : Z * Z => (fst kv <? 0) && (d <? snd kv))).
  2:{ intros [k v] H. destruct (pmap_In _ _ _ _ H) as [H1 _]. cbn [fst]. apply andb_false_iff. left. apply Z.ltb_ge. lia. }
  cbn [upd].
  rewrite (filter_all (fun kv => snd kv <? d)).
  2:{ intros [k v] H. destruct (pmap_In _ _ _ _ H) as [_ H2]. cbn [snd]. apply Z.ltb_lt, Hd, H2. }
  destruct l as [|x l]; [reflexivity|].
  cbn [pmap map fst].
  assert (Hmin : list_min 0 (map fst (pmap (0 + 1) l)) = 0).
  { apply Z.le_antisymm; [apply list_min_le|]. apply list_min_lower; [lia|].
    intros k Hk. apply pmap_keys_range in Hk. lia. }
  rewrite Hmin. cbn [Z.ltb Z.eqb Z.compare].
  rewrite filter_all.
  2:{ intros [k v] H. change ((0, x) :: pmap (0 + 1) l) with (pmap 0 (x :: l)) in H.
      destruct (pmap_In _ _ _ _ H) as [H1 H2]. cbn [fst snd]. apply andb_true_iff. split.
      - apply orb_true_iff. left. apply Z.leb_le. lia.
      - apply Z.leb_le. lia. }
  change ((0, x) :: pmap (0 + 1) l) with (pmap 0 (x :: l)). rewrite pmap_shift.
  rewrite update_all_fresh; [reflexivity|apply pmap_keys_nodup|].
  intros k Hk Hin. apply pmap_keys_range in Hk. cbn in Hin. lia.
Qed.


(* ---------------------------------------------------------------- what is false of the code *)
(* one entry at two positions: two lost announcements, then replies *)
Lemma no_duplicates_refuted :
  exists ops, no_dup_values (fl_map (snd (crun ops))) = false.
Proof.
  exists [CNew true; CNew false; CNew true; CNew false; CRead 2; CRead 0; CRead 2].
  vm_compute. reflexivity.
Qed.

(* a correct belief, then a delivered announcement: the known entry is not pushed down *)
Lemma pushdown_refuted :
  exists ops, belief_correct (crun ops) = true /\ fl_map (snd (crun ops)) <> [] /\
              belief_correct (cstep (crun ops) (CNew true)) = false.
Proof.
  exists [CNew true; CNew false; CRead 1].
  split; [vm_compute; reflexivity|]. split; [vm_compute; discriminate|vm_compute; reflexivity].
Qed.

Lemma sorted_desc_nil : sorted_desc [].
Proof. intros i j a b _ Ha _. destruct i; discriminate. Qed.

Lemma sorted_desc_cons d log : sorted_desc log -> (forall v, In v log -> v < d) -> sorted_desc (d :: log).
Proof.
  intros H Hd i j a b Hij Ha Hb. destruct j as [|j]; [lia|]. cbn in Hb.
  destruct i as [|i]; cbn in Ha.
  - injection Ha as <-. apply Hd. eapply nth_error_In, Hb.
  - apply (H i j a b); [lia|exact Ha|exact Hb].
Qed.

(* after two lossless announcements ... a lost one, a reply, and then a COMPLETE read-through
   of the unchanged log, the view still differs from the controller's log *)
Lemma read_through_refuted :
  exists ops, let st := crun ops in
              let log := fst st in
              let s' := run (map (rp log) (seq 0 (S (length log)))) (snd st) in
              fl_map s' <> pmap 0 log.
Proof.
  exists [CNew true; CNew true; CNew true; CNew true; CNew false; CRead 2].
  vm_compute. discriminate.
Qed.
