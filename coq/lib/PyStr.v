(* PyStr: Python str fragments used by the models -- strings are [list ascii].
   Fixed-width hex / decimal printers (f"{n:04X}", f"{n:06d}") and the strict parsers
   int(s, 16) / int(s) restricted to digit strings, with the round-trip lemmas. *)
From Coq Require Import ZArith Ascii String List Bool Lia.
Import ListNotations.
Open Scope Z_scope.
Local Arguments Z.mul : simpl never.
Local Arguments Z.add : simpl never.
Local Arguments Z.sub : simpl never.
Local Arguments Z.div : simpl never.
Local Arguments Z.modulo : simpl never.
Local Arguments Z.pow : simpl never.

Notation str := (list ascii).
Definition s2l (s : string) : str := list_ascii_of_string s.
Definition l2s (l : str) : string := string_of_list_ascii l.
Coercion s2l : string >-> list.
Definition lit (s : string) : str := s2l s.
Arguments lit s%string.

Definition str_eqb (a b : str) : bool :=
  if list_eq_dec ascii_dec a b then true else false.
Lemma str_eqb_eq a b : str_eqb a b = true <-> a = b.
Proof. unfold str_eqb. destruct (list_eq_dec ascii_dec a b); split; congruence. Qed.
Lemma str_eqb_refl a : str_eqb a a = true.
Proof. apply str_eqb_eq; reflexivity. Qed.

(* ---- digits ---- *)
Definition digit_char (d : Z) : ascii :=
  if d <? 10 then ascii_of_nat (Z.to_nat (48 + d)) else ascii_of_nat (Z.to_nat (55 + d)).

Definition hexval (c : ascii) : option Z :=
  let n := Z.of_nat (nat_of_ascii c) in
  if (48 <=? n) && (n <=? 57) then Some (n - 48)
  else if (65 <=? n) && (n <=? 70) then Some (n - 55)
  else if (97 <=? n) && (n <=? 102) then Some (n - 87)
  else None.

Definition decval (c : ascii) : option Z :=
  let n := Z.of_nat (nat_of_ascii c) in
  if (48 <=? n) && (n <=? 57) then Some (n - 48) else None.

Definition is_hex_upper (c : ascii) : bool :=
  let n := Z.of_nat (nat_of_ascii c) in
  ((48 <=? n) && (n <=? 57)) || ((65 <=? n) && (n <=? 70)).

Lemma hexval_digit d : 0 <= d < 16 -> hexval (digit_char d) = Some d.
Proof.
  intros H.
  assert (Hd : d = 0 \/ d = 1 \/ d = 2 \/ d = 3 \/ d = 4 \/ d = 5 \/ d = 6 \/ d = 7 \/
               d = 8 \/ d = 9 \/ d = 10 \/ d = 11 \/ d = 12 \/ d = 13 \/ d = 14 \/ d = 15) by lia.
  repeat (destruct Hd as [-> | Hd]; [reflexivity|]). subst; reflexivity.
Qed.

Lemma decval_digit d : 0 <= d < 10 -> decval (digit_char d) = Some d.
Proof.
  intros H.
  assert (Hd : d = 0 \/ d = 1 \/ d = 2 \/ d = 3 \/ d = 4 \/ d = 5 \/ d = 6 \/ d = 7 \/
               d = 8 \/ d = 9) by lia.
  repeat (destruct Hd as [-> | Hd]; [reflexivity|]). subst; reflexivity.
Qed.

Lemma is_hex_upper_digit d : 0 <= d < 16 -> is_hex_upper (digit_char d) = true.
Proof.
  intros H.
  assert (Hd : d = 0 \/ d = 1 \/ d = 2 \/ d = 3 \/ d = 4 \/ d = 5 \/ d = 6 \/ d = 7 \/
               d = 8 \/ d = 9 \/ d = 10 \/ d = 11 \/ d = 12 \/ d = 13 \/ d = 14 \/ d = 15) by lia.
  repeat (destruct Hd as [-> | Hd]; [reflexivity|]). subst; reflexivity.
Qed.

(* ---- fixed-width printers: k digits of n in base b, most significant first ---- *)
Fixpoint fmt_base (b : Z) (k : nat) (n : Z) : str :=
  match k with
  | O => []
  | S k' => fmt_base b k' (n / b) ++ [digit_char (n mod b)]
  end.
Definition hexN := fmt_base 16.
Definition decN := fmt_base 10.

Lemma fmt_base_length b k n : length (fmt_base b k n) = k.
Proof. revert n; induction k as [|k IH]; intros n; cbn [fmt_base]; [reflexivity|].
       rewrite app_length, IH; simpl; lia. Qed.

(* ---- parsers: Some value for a non-empty all-digit string, None otherwise ---- *)
Definition parse_step (b : Z) (val : ascii -> option Z) (acc : option Z) (c : ascii) : option Z :=
  match acc, val c with
  | Some a, Some d => Some (b * a + d)
  | _, _ => None
  end.
Definition parse_base (b : Z) (val : ascii -> option Z) (s : str) : option Z :=
  match s with
  | [] => None
  | _ => fold_left (parse_step b val) s (Some 0)
  end.
Definition int16 := parse_base 16 hexval.
Definition int10 := parse_base 10 decval.

Lemma fold_parse_fmt b val k : 1 < b ->
  (forall d, 0 <= d < b -> val (digit_char d) = Some d) ->
  forall n a, 0 <= n < b ^ Z.of_nat k ->
  fold_left (parse_step b val) (fmt_base b k n) (Some a) = Some (a * b ^ Z.of_nat k + n).
Proof.
  intros Hb Hval. induction k as [|k IH]; intros n a Hn.
  - cbn. change (b ^ Z.of_nat 0) with 1 in *. f_equal. lia.
  - cbn [fmt_base]. rewrite fold_left_app. rewrite Nat2Z.inj_succ, Z.pow_succ_r in * by lia.
    rewrite IH.
    + cbn [fold_left parse_step]. rewrite Hval by (apply Z.mod_pos_bound; lia).
      f_equal. pose proof (Z.div_mod n b ltac:(lia)). nia.
    + split; [apply Z.div_pos; lia|]. apply Z.div_lt_upper_bound; lia.
Qed.

Lemma parse_fmt b val k n : 1 < b -> (0 < k)%nat ->
  (forall d, 0 <= d < b -> val (digit_char d) = Some d) ->
  0 <= n < b ^ Z.of_nat k -> parse_base b val (fmt_base b k n) = Some n.
Proof.
  intros Hb Hk Hval Hn. unfold parse_base.
  destruct (fmt_base b k n) eqn:E.
  - pose proof (fmt_base_length b k n) as L. rewrite E in L. simpl in L. lia.
  - rewrite <- E. rewrite (fold_parse_fmt b val k Hb Hval n 0 Hn). f_equal; lia.
Qed.

Lemma int16_hexN k n : (0 < k)%nat -> 0 <= n < 16 ^ Z.of_nat k -> int16 (hexN k n) = Some n.
Proof. intros; apply parse_fmt; auto using hexval_digit; lia. Qed.
Lemma int10_decN k n : (0 < k)%nat -> 0 <= n < 10 ^ Z.of_nat k -> int10 (decN k n) = Some n.
Proof. intros; apply parse_fmt; auto using decval_digit; lia. Qed.

Lemma hexN_length k n : length (hexN k n) = k.
Proof. apply fmt_base_length. Qed.
Lemma decN_length k n : length (decN k n) = k.
Proof. apply fmt_base_length. Qed.

Lemma hexN_all_hex k n : forallb is_hex_upper (hexN k n) = true.
Proof.
  revert n; induction k as [|k IH]; intros n; [reflexivity|].
  unfold hexN in *; cbn [fmt_base]. rewrite forallb_app, IH. cbn.
  rewrite is_hex_upper_digit; [reflexivity|apply Z.mod_pos_bound; lia].
Qed.

(* every all-upper-hex string of length k is hexN k of its value: printing is onto *)
Lemma digit_char_hexval c d : is_hex_upper c = true -> hexval c = Some d -> digit_char d = c /\ 0 <= d < 16.
Proof.
  intros Hc Hv. unfold is_hex_upper, hexval in *.
  rewrite <- (ascii_nat_embedding c).
  set (m := nat_of_ascii c) in *.
  assert (Hm : (m < 256)%nat) by apply nat_ascii_bounded.
  destruct ((48 <=? Z.of_nat m) && (Z.of_nat m <=? 57)) eqn:E1.
  - injection Hv as <-. unfold digit_char.
    destruct (Z.of_nat m - 48 <? 10) eqn:E2; [|lia].
    split; [|lia]. f_equal. lia.
  - destruct ((65 <=? Z.of_nat m) && (Z.of_nat m <=? 70)) eqn:E3; [|discriminate].
    injection Hv as <-. unfold digit_char.
    destruct (Z.of_nat m - 55 <? 10) eqn:E2; [lia|].
    split; [|lia]. f_equal. lia.
Qed.

Lemma fold_parse_nonneg b val : 0 <= b -> (forall c d, val c = Some d -> 0 <= d) ->
  forall s a v, 0 <= a -> fold_left (parse_step b val) s (Some a) = Some v -> 0 <= v.
Proof.
  intros Hb Hval s; induction s as [|c s IH]; intros a v Ha; cbn [fold_left].
  - intros [= <-]; exact Ha.
  - unfold parse_step at 2. destruct (val c) as [d|] eqn:E.
    + apply IH. pose proof (Hval _ _ E). nia.
    + clear IH. induction s as [|c' s IH']; cbn; [discriminate|exact IH'].
Qed.

Lemma fold_parse_None b val s : fold_left (parse_step b val) s None = None.
Proof. induction s as [|c s IH]; cbn; [reflexivity|exact IH]. Qed.

Lemma hexN_of_parse_snoc : forall s v, forallb is_hex_upper s = true ->
  fold_left (parse_step 16 hexval) s (Some 0) = Some v ->
  hexN (length s) v = s /\ 0 <= v < 16 ^ Z.of_nat (length s).
Proof.
  intros s; induction s as [|c s IH] using rev_ind; intros v Hs Hp.
  - cbn in Hp. injection Hp as <-. cbn. split; [reflexivity|lia].
  - rewrite forallb_app in Hs. apply andb_true_iff in Hs as [Hs Hc]. cbn in Hc.
    rewrite andb_true_r in Hc.
    rewrite fold_left_app in Hp. cbn [fold_left] in Hp.
    destruct (fold_left (parse_step 16 hexval) s (Some 0)) as [a|] eqn:Ea; [|discriminate].
    unfold parse_step in Hp. destruct (hexval c) as [d|] eqn:Ed; [|discriminate].
    injection Hp as <-.
    destruct (IH a Hs eq_refl) as [IH1 IH2].
    destruct (digit_char_hexval c d Hc Ed) as [Hdc Hd].
    rewrite app_length. cbn [length]. rewrite Nat.add_1_r.
    unfold hexN in *. cbn [fmt_base].
    replace ((16 * a + d) / 16) with a by (apply Z.div_unique with d; lia).
    replace ((16 * a + d) mod 16) with d by (apply Z.mod_unique with a; lia).
    rewrite IH1, Hdc. split; [reflexivity|].
    rewrite Nat2Z.inj_succ, Z.pow_succ_r by lia. lia.
Qed.

Lemma hexN_int16 s v : forallb is_hex_upper s = true -> int16 s = Some v ->
  hexN (length s) v = s /\ 0 <= v < 16 ^ Z.of_nat (length s).
Proof.
  intros Hs Hp. unfold int16, parse_base in Hp. destruct s as [|c s]; [discriminate|].
  apply hexN_of_parse_snoc; assumption.
Qed.

(* ---- slices: Python s[a:b] for 0 <= a <= b (clamped at the end) ---- *)
Definition slice (a b : nat) (s : str) : str := firstn (b - a) (skipn a s).
Definition from (a : nat) (s : str) : str := skipn a s.

Lemma slice_app_left a b (s t : str) : (b <= length s)%nat -> slice a b (s ++ t) = slice a b s.
Proof.
  intros H. unfold slice.
  destruct (Nat.le_gt_cases a (length s)) as [Ha|Ha].
  - rewrite skipn_app. replace (a - length s)%nat with O by lia. cbn [skipn].
    rewrite firstn_app. rewrite skipn_length.
    replace (b - a - (length s - a))%nat with O by lia. cbn [firstn]. apply app_nil_r.
  - replace (b - a)%nat with O by lia. reflexivity.
Qed.

Lemma slice_app_right a b (s t : str) : (length s <= a)%nat ->
  slice a b (s ++ t) = slice (a - length s) (b - length s) t.
Proof.
  intros H. unfold slice. rewrite skipn_app. rewrite (skipn_all2 s) by lia. cbn [app].
  f_equal. lia.
Qed.

Lemma slice_exact (s t : str) : slice 0 (length s) (s ++ t) = s.
Proof. unfold slice. cbn [skipn]. rewrite Nat.sub_0_r, firstn_app, Nat.sub_diag, firstn_all. cbn. apply app_nil_r. Qed.

Lemma slice_mid (a b c : str) n m :
  length a = n -> length b = (m - n)%nat -> slice n m (a ++ b ++ c) = b.
Proof.
  intros Ha Hb. unfold slice. rewrite skipn_app. rewrite <- Ha, skipn_all, Nat.sub_diag. cbn [skipn app].
  rewrite Ha, <- Hb. rewrite firstn_app, Nat.sub_diag, firstn_all. cbn [firstn]. apply app_nil_r.
Qed.
Lemma slice_mid0 (b c : str) m : length b = m -> slice 0 m (b ++ c) = b.
Proof. intros H. apply (slice_mid [] b c 0 m); [reflexivity|lia]. Qed.
Lemma slice_mid_end (a b : str) n m : length a = n -> length b = (m - n)%nat -> slice n m (a ++ b) = b.
Proof. intros Ha Hb. rewrite <- (app_nil_r b) at 1. apply slice_mid; assumption. Qed.
