import logging, sys, itertools, random
logging.disable(logging.CRITICAL)
from ramses_rf.system.faultlog import FaultLog
from collections import OrderedDict
class T: id="01:000001"; _gwy=None
def mk():
    return FaultLog(T())
def inv(m):
    ks=list(m.keys()); vs=list(m.values())
    dup = len(set(vs))!=len(vs)
    srt = all(m[a]>m[b] for a in m for b in m if a<b)
    return dup, srt
# controller log: list newest-first of dtm strings; ops: ('new',) pushes a new entry; ('I',delivered) ; ('RP',i)
def run(ops):
    fl=mk(); log=[]; n=0; hist=[]
    for op in ops:
        if op[0]=='new':
            n+=1; log.insert(0, f"{n:04d}")
            if op[1]: # announcement delivered: idx 0
                fl._map = fl._insert_into_map(0, log[0]) if fl._map.get(0)!=log[0] else fl._map
        else:
            i=op[1]
            if i < len(log):
                if fl._map.get(i)!=log[i]:
                    fl._map = fl._insert_into_map(i, log[i])
            else:
                fl._map = fl._insert_into_map(i, None)
        dup,srt=inv(fl._map)
        wrong=[(k,v) for k,v in fl._map.items() if not (k<len(log) and log[k]==v)]
        hist.append((op, dict(fl._map), list(log)))
        if dup or not srt:
            return ("DUP" if dup else "UNSORTED"), hist
    return None, hist
random.seed(1)
found={}
for trial in range(200000):
    ops=[]
    for _ in range(random.randint(1,7)):
        if random.random()<0.5: ops.append(('new', random.random()<0.6))
        else: ops.append(('RP', random.randint(0,4)))
    r,h=run(ops)
    if r and r not in found:
        found[r]=h
        print(r); [print("  ",x) for x in h]
    if len(found)==2: break
print("done", list(found))
