(* P_FaultlogClean: controller and view driven together over histories in which no announcement is
   lost and no read skips ahead of what is known -- the view tracks the controller's log exactly. *)
From Coq Require Import ZArith List Bool Lia Arith.
From RV Require Import GenConsts M_Faultlog P_Faultlog P_FaultlogDepth.
Import ListNotations.
Open Scope Z_scope.

Definition DEPTH : nat := Z.to_nat LOG_DEPTH.      (* 64 *)

(* a new entry arrives (newer than all, announced and delivered) / the entry at index i is read *)
Inductive kop := KNew (d : Z) | KRead (i : nat).

(* controller log (newest first, at most DEPTH entries), the library's state, and -- ghost -- how far
   down from the top the view is known *)
Record kst := mkK { k_log : list Z; k_s : fstate; k_n : nat }.

Definition kstep (st : kst) (o : kop) : option kst :=
  match o with
  | KNew d =>
      if forallb (fun v => v <? d) (k_log st)
      then Some (mkK (firstn DEPTH (d :: k_log st)) (process_msg (k_s st) (FEntry 0 d)) (Nat.min DEPTH (S (k_n st))))
      else None                                   (* not a NEW entry: inadmissible *)
  | KRead i =>
      if (i <=? k_n st)%nat && (i <? DEPTH)%nat
      then Some (mkK (k_log st) (process_msg (k_s st) (rp (k_log st) i))
                     (if (i =? k_n st)%nat && (i <? length (k_log st))%nat then S (k_n st) else k_n st))
      else None                                   (* skips ahead of what is known, or not a slot *)
  end.

Fixpoint krun (ops : list kop) (st : kst) : option kst :=
  match ops with
  | [] => Some st
  | o :: t => match kstep st o with Some st' => krun t st' | None => None end
  end.

Definition kinit : kst := mkK [] finit 0.

Definition tracks (st : kst) : Prop :=
  sorted_desc (k_log st) /\ (k_n st <= length (k_log st))%nat /\ (length (k_log st) <= DEPTH)%nat /\
  fl_map (k_s st) = pmap 0 (firstn (k_n st) (k_log st)).

Opaque DEPTH.

Lemma get_pmap l : forall s i d, nth_error l i = Some d -> get (pmap s l) (s + Z.of_nat i) = Some d.
Proof.
  induction l as [|x l IH]; intros s i d H; [destruct i; discriminate|].
  destruct i as [|i]; cbn [pmap get nth_error] in *.
  - injection H as ->. replace (s + Z.of_nat 0) with s by lia. rewrite Z.eqb_refl. reflexivity.
  - destruct (s + Z.of_nat (S i) =? s) eqn:E; [apply Z.eqb_eq in E; lia|].
    replace (s + Z.of_nat (S i)) with (s + 1 + Z.of_nat i) by lia. apply IH, H.
Qed.

Lemma nth_error_firstn_lt {A} (l : list A) : forall n i, (i < n)%nat -> nth_error (firstn n l) i = nth_error l i.
Proof.
  induction l as [|x l IH]; intros n i H; [rewrite firstn_nil; reflexivity|].
  destruct n as [|n]; [lia|]. destruct i as [|i]; [reflexivity|]. cbn. apply IH. lia.
Qed.

Lemma nth_error_firstn_some {A} (l : list A) n i a : nth_error (firstn n l) i = Some a -> nth_error l i = Some a.
Proof.
  intros H. assert (i < n)%nat.
  { assert (i < length (firstn n l))%nat by (apply nth_error_Some; congruence). rewrite firstn_length in *. lia. }
  rewrite nth_error_firstn_lt in H; assumption.
Qed.

Lemma sorted_desc_firstn l n : sorted_desc l -> sorted_desc (firstn n l).
Proof. intros H i j a b Hij Ha Hb. apply (H i j a b Hij); eapply nth_error_firstn_some; eassumption. Qed.

Lemma null_at_end l : insert_into_map (pmap 0 l) (Z.of_nat (length l)) None = pmap 0 l.
Proof.
  unfold insert_into_map. apply filter_all. intros [k v] H. destruct (pmap_In _ _ _ _ H) as [H1 _].
  cbn [fst]. rewrite andb_true_r. apply Z.ltb_lt. lia.
Qed.

Lemma firstn_cons_firstn (d : Z) log n :
  firstn DEPTH (d :: firstn n log) = firstn (Nat.min DEPTH (S n)) (firstn DEPTH (d :: log)).
Proof.
  change (d :: firstn n log) with (firstn (S n) (d :: log)).
  rewrite !firstn_firstn. f_equal. lia.
Qed.

Lemma some_inj {A} (x y : A) : Some x = Some y -> x = y.
Proof. congruence. Qed.

Lemma kstep_tracks st o st' : tracks st -> kstep st o = Some st' -> tracks st'.
Proof.
  intros [HS [Hn [HL Hm]]] H. destruct st as [log s n]. cbv beta iota delta [k_log k_s k_n] in *.
  destruct o as [d|i]; cbv beta iota delta [kstep k_log k_s k_n] in H.
  - (* a new entry, announced and delivered *)
    destruct (forallb (fun v => v <? d) log) eqn:F; [|discriminate]. apply some_inj in H. subst st'.
    rewrite forallb_forall in F.
    assert (Hd : forall v, In v log -> v < d) by (intros v Hv; apply Z.ltb_lt, F, Hv).
    unfold tracks. cbv beta iota delta [k_log k_s k_n].
    split; [apply (sorted_desc_firstn (d :: log) DEPTH), sorted_desc_cons; assumption|].
    split; [rewrite firstn_length; cbn [length]; lia|].
    split; [rewrite firstn_length; lia|].
    assert (M : fl_map (process_msg s (FEntry 0 d)) = insert_into_map (fl_map s) 0 (Some d)).
    { cbn [process_msg]. destruct (get (fl_map s) 0) as [v|] eqn:G; [|reflexivity].
      destruct (v =? d) eqn:E; [|reflexivity]. exfalso. apply Z.eqb_eq in E. subst v.
      rewrite Hm in G. destruct n as [|n]; [discriminate G|]. destruct log as [|x log]; [cbn in Hn; lia|].
      cbn [firstn pmap get] in G. rewrite Z.eqb_refl in G. injection G as ->.
      specialize (Hd d (or_introl eq_refl)). lia. }
    rewrite M, Hm.
    rewrite announce_at_full_depth by (intros v Hv; apply Hd; destruct (firstn_nth_In _ _ _ Hv) as [j [_ Hj]]; eapply nth_error_In; exact Hj).
    change (Z.to_nat LOG_DEPTH) with DEPTH. rewrite firstn_cons_firstn. reflexivity.
  - (* a read at or above the known depth *)
    destruct ((i <=? n)%nat && (i <? DEPTH)%nat) eqn:C; [|discriminate]. apply some_inj in H. subst st'.
    apply andb_true_iff in C as [C1 C2]. apply Nat.leb_le in C1. apply Nat.ltb_lt in C2.
    unfold tracks. cbv beta iota delta [k_log k_s k_n].
    assert (Hlen : length (firstn n log) = n) by (apply firstn_length_le; lia).
    destruct (Nat.eq_dec i n) as [->|Ne].
    + rewrite Nat.eqb_refl. cbn [andb].
      destruct (n <? length log)%nat eqn:Lt.
      * apply Nat.ltb_lt in Lt. destruct (nth_error log n) as [d|] eqn:En; [|apply nth_error_None in En; lia].
        split; [exact HS|]. split; [lia|]. split; [exact HL|].
        replace (rp log n) with (FEntry (Z.of_nat n) d) by (unfold rp; rewrite En; reflexivity).
        cbn [process_msg]. rewrite Hm, get_fresh.
        2:{ intros Hin. apply pmap_keys_range in Hin. rewrite Hlen in Hin. lia. }
        cbn [fl_map]. pose proof (read_next (firstn n log) d) as R. rewrite Hlen in R. rewrite R.
        -- rewrite (firstn_snoc_nth _ _ _ En). reflexivity.
        -- intros v Hv. destruct (firstn_nth_In _ _ _ Hv) as [j [Hj Hv']]. exact (HS j n v d Hj Hv' En).
      * apply Nat.ltb_ge in Lt. assert (n = length log) by lia. subst n.
        split; [exact HS|]. split; [lia|]. split; [exact HL|].
        replace (rp log (length log)) with (FNull (Z.of_nat (length log)))
          by (unfold rp; rewrite (proj2 (nth_error_None log (length log))) by lia; reflexivity).
        cbn [process_msg fl_map]. rewrite Hm, firstn_all. apply null_at_end.
    + replace ((i =? n)%nat) with false by (symmetry; apply Nat.eqb_neq; exact Ne). cbn [andb].
      assert (Hi : (i < n)%nat) by lia.
      destruct (nth_error log i) as [d|] eqn:En; [|apply nth_error_None in En; lia].
      split; [exact HS|]. split; [exact Hn|]. split; [exact HL|].
      replace (rp log i) with (FEntry (Z.of_nat i) d) by (unfold rp; rewrite En; reflexivity).
      cbn [process_msg]. rewrite Hm.
      pose proof (get_pmap (firstn n log) 0 i d) as G. rewrite nth_error_firstn_lt in G by exact Hi.
      specialize (G En). rewrite Z.add_0_l in G. rewrite G, Z.eqb_refl. exact Hm.
Qed.

Lemma tracks_init : tracks kinit.
Proof. unfold tracks, kinit. cbn. repeat split; try lia. intros i j a b _ H. destruct i; discriminate H. Qed.

(* for EVERY history of new entries (each announced and delivered) and reads that do not skip ahead
   -- any interleaving, re-reads, reads of the slot below the last known one, null replies at the end,
   the log filling up to its full depth and entries dropping off its end -- the view is at all times
   exactly the controller's log down to the position reached: newest first, no duplicates, nothing the
   controller does not hold; complete read-throughs and push-downs are the special cases *)
Theorem clean_histories_track ops st' : krun ops kinit = Some st' ->
  fl_map (k_s st') = pmap 0 (firstn (k_n st') (k_log st')) /\ (k_n st' <= length (k_log st') <= DEPTH)%nat.
Proof.
  assert (G : forall ops st st', tracks st -> krun ops st = Some st' -> tracks st').
  { clear. induction ops as [|o ops IH]; intros st st' T H; cbn [krun] in H; [injection H as <-; exact T|].
    destruct (kstep st o) as [st1|] eqn:E; [|discriminate]. eapply IH; [eapply kstep_tracks; eassumption|exact H]. }
  intros H. destruct (G ops kinit st' tracks_init H) as [_ [A [B C]]]. split; [exact C|lia].
Qed.

(* after a complete read-through (reads 0..length of the log, in order) at the end of such a history
   the ghost depth is the whole log: the view EQUALS the controller's log *)
Lemma read_through_depth : forall k st, tracks st -> (k_n st + k = length (k_log st))%nat -> (length (k_log st) < DEPTH)%nat ->
  exists st', krun (map KRead (seq (k_n st) (S k))) st = Some st' /\ k_log st' = k_log st /\ k_n st' = length (k_log st).
Proof.
  induction k as [|k IH]; intros st T Hk HL; cbn [seq map krun kstep].
  - rewrite Nat.leb_refl. replace (k_n st <? DEPTH)%nat with true by (symmetry; apply Nat.ltb_lt; lia).
    cbn [andb]. rewrite Nat.eqb_refl. replace (k_n st <? length (k_log st))%nat with false by (symmetry; apply Nat.ltb_ge; lia).
    cbn [andb]. eexists. split; [reflexivity|]. cbn [k_log k_n]. split; [reflexivity|lia].
  - rewrite Nat.leb_refl. replace (k_n st <? DEPTH)%nat with true by (symmetry; apply Nat.ltb_lt; lia).
    cbn [andb]. rewrite Nat.eqb_refl. replace (k_n st <? length (k_log st))%nat with true by (symmetry; apply Nat.ltb_lt; lia).
    cbn [andb].
    set (st1 := mkK (k_log st) (process_msg (k_s st) (rp (k_log st) (k_n st))) (S (k_n st))).
    assert (E : kstep st (KRead (k_n st)) = Some st1).
    { cbn [kstep]. rewrite Nat.leb_refl. replace (k_n st <? DEPTH)%nat with true by (symmetry; apply Nat.ltb_lt; lia).
      cbn [andb]. rewrite Nat.eqb_refl. replace (k_n st <? length (k_log st))%nat with true by (symmetry; apply Nat.ltb_lt; lia).
      reflexivity. }
    destruct (IH st1 (kstep_tracks _ _ _ T E)) as [st' [R [L N]]]; [cbn [k_n k_log st1]; lia|exact HL|].
    exists st'. cbn [k_n k_log st1] in *. split; [exact R|]. split; assumption.
Qed.

Transparent DEPTH.

Example clean_history_example :
  option_map (fun st => (k_log st, fl_map (k_s st), k_n st))
    (krun [KNew 1; KNew 2; KRead 0; KRead 1; KRead 2; KNew 3; KRead 1; KNew 4; KRead 3; KRead 4] kinit)
  = Some ([4; 3; 2; 1], [(0, 4); (1, 3); (2, 2); (3, 1)], 4%nat).
Proof. vm_compute. reflexivity. Qed.
