(* P_TopologyListed -- the other direction of the structural invariant: a device that has a parent is recorded in
   that parent's role slots (so it appears in the schema under it), and a refused request changes no device and no slot. *)
From Coq Require Import List Bool Arith Lia.
From RV Require Import M_Topology P_Topology.
Import ListNotations.

Definition listed (s : st) (d : nat) (p : parent) (k : cid) : Prop :=
  match p with
  | PZone c i => sensor s c i = Some d \/ In d (actuators s c i)
  | PDhw c => dhw_sensor s c = Some d \/ htg_valve s c = Some d \/ dhw_valve s c = Some d
  | PSys c => app_cntrl s c = Some d \/ k = CFF          (* FF: a child of the system without a role slot (UFH controller, outdoor sensor) *)
  | PUfc u => In d (circuits s u)
  end.
Definition Listed (s : st) : Prop := forall d p, d_parent (devs s d) = Some p -> listed s d p (d_cid (devs s d)).

Lemma add_child_lists : forall s d t p k b s2, add_child s d t p k b = (s2, Ok) -> listed s2 d p k.
Proof.
  intros s d t p k b s2 H. ac_cases H; injection H as <-; cbn.
  all: try (left; rewrite set_fn_same; reflexivity).
  all: try (right; left; rewrite set_fn_same; reflexivity).
  all: try (right; right; rewrite set_fn_same; reflexivity).
  all: try (right; reflexivity).
  all: try (left; unfold set_fn2; rewrite !Nat.eqb_refl; reflexivity).
  - right. unfold set_fn2. rewrite !Nat.eqb_refl. cbn.
    destruct (mem d (actuators s c i)) eqn:Em; [apply mem_In; exact Em | apply in_or_app; right; left; reflexivity].
  - rewrite set_fn_same. destruct (mem d (circuits s u)) eqn:Em; [apply mem_In; exact Em | left; reflexivity].
Qed.

Lemma add_child_circuits : forall s d t p k b s2, add_child s d t p k b = (s2, Ok) ->
  forall u x, In x (circuits s u) -> In x (circuits s2 u).
Proof.
  intros s d t p k b s2 H. ac_cases H; injection H as <-; cbn; intros u0 x Hx; try exact Hx.
  rewrite set_fn_get. destruct (u0 =? u) eqn:E; [|exact Hx]. apply Nat.eqb_eq in E; subst u0.
  destruct (mem d (circuits s u)); [exact Hx | right; exact Hx].
Qed.

Lemma listed_mono : forall s s2 y q k,
  (forall c i x, sensor s c i = Some x -> sensor s2 c i = Some x) ->
  (forall c i x, In x (actuators s c i) -> In x (actuators s2 c i)) ->
  (forall c x, dhw_sensor s c = Some x -> dhw_sensor s2 c = Some x) ->
  (forall c x, htg_valve s c = Some x -> htg_valve s2 c = Some x) ->
  (forall c x, dhw_valve s c = Some x -> dhw_valve s2 c = Some x) ->
  (forall c x, app_cntrl s c = Some x -> app_cntrl s2 c = Some x) ->
  (forall u x, In x (circuits s u) -> In x (circuits s2 u)) ->
  listed s y q k -> listed s2 y q k.
Proof.
  intros s s2 y q k S A D H V P C L. destruct q as [c i|c|c|u]; cbn in *.
  - destruct L as [L|L]; [left; apply S | right; apply A]; exact L.
  - destruct L as [L|[L|L]]; [left; apply D | right; left; apply H | right; right; apply V]; exact L.
  - destruct L as [L|L]; [left; apply P; exact L | right; exact L].
  - apply C; exact L.
Qed.

Lemma step_listed : forall s o s' r, Listed s -> step s o = (s', r) -> Listed s'.
Proof.
  intros s [d t g k b|c i] s' r HL H.
  - destruct (step_set_parent s d t g k b s' r H) as (s1 & x & Er & [[_ ->]|(_ & p & k1 & s2 & -> & Hp & Hc & _ & _ & Ha & ->)]);
      destruct (resolve_frame s t g k s1 _ Er) as (Hd & Hm & (R1 & R2 & R3 & R4 & R5 & R6 & R7) & _ & Hz).
    + intros y q Hq. rewrite Hd in *. specialize (HL y q Hq). destruct q; cbn in *; rewrite ?R1, ?R2, ?R3, ?R4, ?R5, ?R6, ?R7; exact HL.
    + destruct (add_child_frame _ _ _ _ _ _ _ _ Ha) as (Fd & _).
      destruct (add_child_sensor _ _ _ _ _ _ _ Ha) as [_ S2].
      destruct (add_child_actuators _ _ _ _ _ _ _ Ha) as [_ A2].
      destruct (add_child_dhw_sensor _ _ _ _ _ _ _ Ha) as [_ D2].
      destruct (add_child_htg_valve _ _ _ _ _ _ _ Ha) as [_ H2].
      destruct (add_child_dhw_valve _ _ _ _ _ _ _ Ha) as [_ V2].
      destruct (add_child_app_cntrl _ _ _ _ _ _ _ Ha) as [_ P2].
      pose proof (add_child_circuits _ _ _ _ _ _ _ Ha) as C2.
      intros y q Hq. rewrite commit_devs in *. destruct (y =? d) eqn:E.
      * apply Nat.eqb_eq in E; subst y. cbn in Hq. injection Hq as <-. cbn [d_cid].
        pose proof (add_child_lists _ _ _ _ _ _ _ Ha) as L. destruct p; exact L.
      * rewrite Fd, Hd in *. specialize (HL y q Hq).
        assert (L1 : listed s1 y q (d_cid (devs s y))).
        { destruct q; cbn in *; rewrite ?R1, ?R2, ?R3, ?R4, ?R5, ?R6, ?R7; exact HL. }
        assert (L2 : listed s2 y q (d_cid (devs s y))) by (apply (listed_mono s1 s2); assumption).
        destruct q; exact L2.
  - cbn [step] in H. destruct (get_htg_zone s c i) as [s1|] eqn:Eg; injection H as <- <-; [|exact HL].
    destruct (get_htg_zone_frame s c i s1 Eg) as (Hd & Hm & (R1 & R2 & R3 & R4 & R5 & R6 & R7) & _).
    intros y q Hq. rewrite Hd in *. specialize (HL y q Hq). destruct q; cbn in *; rewrite ?R1, ?R2, ?R3, ?R4, ?R5, ?R6, ?R7; exact HL.
Qed.

Theorem run_listed : forall ops mz, Listed (fst (run (init mz) ops)).
Proof.
  intros ops mz. assert (G : forall ops s, Listed s -> Listed (fst (run s ops))).
  { induction ops0 as [|o ops0 IH]; intros s HL; [exact HL|].
    rewrite run_cons. cbn [fst]. apply IH. destruct (step s o) as [s1 r] eqn:E. exact (step_listed s o s1 r HL E). }
  apply G. intros d p Hp. cbn in Hp. discriminate.
Qed.

(* a refused request leaves every device (parent, child id, controller) and every role slot as it was;
   only an empty zone / DHW container may have been created on the way *)
Theorem refused_changes_nothing : forall s o s' r, step s o = (s', r) -> r <> Ok ->
  devs s' = devs s /\ same_roles s s' /\ max_zones s' = max_zones s.
Proof.
  intros s [d t g k b|c i] s' r H Hr.
  - destruct (step_set_parent s d t g k b s' r H) as (s1 & x & Er & [[_ ->]|(E & _)]); [|contradiction].
    destruct (resolve_frame s t g k s1 _ Er) as (Hd & Hm & R & _). repeat split; try assumption; apply R.
  - cbn [step] in H. destruct (get_htg_zone s c i) as [s1|] eqn:Eg; injection H as <- <-; [contradiction|].
    repeat split; reflexivity.
Qed.
