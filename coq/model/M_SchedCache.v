(* M_SchedCache -- what a zone believes its schedule to be (Schedule._full_schedule / _sched_ver / _global_ver, the system's cached change
   counter) against what the controller holds, under fetches and WRITES that fail at any exchange (system/schedule.py: _is_dated,
   _get_schedule, set_schedule; system/heat.py: _schedule_version).  Schedules are identified by numbers; the controller keeps one schedule
   per zone and a global change counter that every change of any zone's schedule advances.  Definitions only; proofs in proof/P_SchedCache.v. *)
From Coq Require Import ZArith List Bool.
Import ListNotations.
Open Scope Z_scope.

Record st := mkSt {
  cache : option Z;     (* _full_schedule: the schedule the zone reports without asking (None = {}) *)
  sver : Z;             (* _sched_ver: the change counter the cached schedule was fetched / written at (0 = never) *)
  gver : Z;             (* _global_ver: the zone's last reading of the change counter *)
  tver : Z;             (* the system's cached RP|0006 (used when younger than 3 minutes) *)
  csched : Z;           (* the schedule the CONTROLLER holds for this zone *)
  cver : Z;             (* the controller's change counter *)
  nextid : Z            (* fresh schedule numbers *)
}.

Inductive outcome := Returned (s : option Z) | Raised.

(* tcs._schedule_version(force_io): a cached reading (env decides whether one young enough exists) or an exchange, which succeeds or fails as
   the environment's stream `ios` says (one entry per exchange attempted, in order; an exhausted stream means success) *)
Definition version (force : bool) (cached_ok : bool) (ios : list bool) (s : st) : option (st * bool * list bool) (* None = raised; bool = did_io *) :=
  if negb force && cached_ok then Some (mkSt (cache s) (sver s) (tver s) (tver s) (csched s) (cver s) (nextid s), false, ios)
  else match ios with
       | false :: _ => None
       | _ => Some (mkSt (cache s) (sver s) (cver s) (cver s) (csched s) (cver s) (nextid s), true, tl ios)
       end.

(* Schedule._is_dated(force_io): (new state, is_dated, did_io, rest of the stream), or raised *)
Definition is_dated (force : bool) (cached_ok : bool) (ios : list bool) (s : st) : option (st * bool * bool * list bool) :=
  if (negb force && (sver s =? 0)) || ((0 <? gver s) && (sver s <? gver s)) then Some (s, true, false, ios)
  else match version false cached_ok ios s with
       | None => None
       | Some (s1, did, ios1) =>
           if did || (sver s1 <? gver s1) then Some (s1, sver s1 <? gver s1, did, ios1)
           else if force then
             match version true false ios1 s1 with
             | None => None
             | Some (s2, did2, ios2) => Some (s2, sver s2 <? gver s2, did2, ios2)
             end
           else Some (s1, sver s1 <? gver s1, did, ios1)
       end.

Definition set_cache (s : st) (c : option Z) (sv : Z) : st := mkSt c sv (gver s) (tver s) (csched s) (cver s) (nextid s).

(* Schedule._get_schedule(force_io) + get_schedule: env = (a young cached counter exists, the outcomes of the version exchanges attempted, in
   order, the fragment exchanges all succeed) *)
Definition fetch (force : bool) (cached_ok : bool) (ios : list bool) (frags_ok : bool) (s : st) : st * outcome :=
  match is_dated force cached_ok ios s with
  | None => (s, Raised)
  | Some (s1, dated, did, ios1) =>
      let s2 := if dated then set_cache s1 None (sver s1) else s1 in
      match cache s2 with
      | Some c => (s2, Returned (Some c))
      | None =>
          (* the lock; the version of the schedule about to be asked for must be known *)
          match (if did then Some (s2, true, ios1) else version true false ios1 s2) with
          | None => (s2, Raised)
          | Some (s3, _, _) =>
              if frags_ok then (set_cache s3 (Some (csched s3)) (gver s3), Returned (Some (csched s3)))
              else (s3, Raised)
          end
      end
  end.

(* what happens to a write's fragments: one of them fails before the set is complete (the controller keeps what it had); every one arrives but
   the last reply is lost (the controller HAS committed, the caller sees a failure); all go well *)
Inductive wfault := WAllOk | WFailsEarly | WCommittedButReplyLost.

Definition commit (s : st) : st := mkSt (cache s) (sver s) (gver s) (tver s) (nextid s) (cver s + 1) (nextid s + 1).

(* Schedule.set_schedule(new) with `early` = the cache is assigned BEFORE the fragments are sent (the slip; the code assigns it last) *)
Definition write (early : bool) (w : wfault) (vq_ok : bool) (s : st) : st * outcome :=
  let new := nextid s in
  let s0 := if early then set_cache s (Some new) (sver s) else s in
  match w with
  | WFailsEarly => (mkSt (cache s0) (sver s0) (gver s0) (tver s0) (csched s0) (cver s0) (nextid s0 + 1), Raised)
  | WCommittedButReplyLost => (commit s0, Raised)
  | WAllOk =>
      let s1 := commit s0 in
      match version true false [vq_ok] s1 with
      | None => (s1, Raised)
      | Some (s2, _, _) => (set_cache s2 (Some new) (gver s2), Returned (Some new))
      end
  end.

Inductive op :=
| OFetch (force cached_ok : bool) (ios : list bool) (frags_ok : bool)
| OWrite (w : wfault) (vq_ok : bool)
| OCtlChange            (* the zone's schedule is changed on the controller by someone else *)
| OOtherChange          (* another zone's schedule changes: only the counter moves *)
| OCounterHeard.        (* an RP|0006 is overheard / the cached counter is refreshed *)

Definition step (early : bool) (s : st) (o : op) : st * outcome :=
  match o with
  | OFetch f c ios g => fetch f c ios g s
  | OWrite w v => write early w v s
  | OCtlChange => (commit s, Returned None)
  | OOtherChange => (mkSt (cache s) (sver s) (gver s) (tver s) (csched s) (cver s + 1) (nextid s), Returned None)
  | OCounterHeard => (mkSt (cache s) (sver s) (gver s) (cver s) (csched s) (cver s) (nextid s), Returned None)
  end.

Fixpoint run (early : bool) (s : st) (ops : list op) : st * list outcome :=
  match ops with
  | [] => (s, [])
  | o :: r => let '(s1, x) := step early s o in let '(s2, xs) := run early s1 r in (s2, x :: xs)
  end.

Definition init : st := mkSt None 0 0 0 1 1 2.    (* the controller holds schedule 1 at counter 1; the zone knows nothing *)
