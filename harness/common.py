"""Shared machinery of the /verif checks: context, Coq build/eval, verdicts, evidence.

Every check is `./check Cxx --tier quick|thorough`; see DESIGN.md section 2.1.
"""

from __future__ import annotations

import fcntl
import hashlib
import json
import os
import random
import re
import subprocess
import sys
import time
from collections import Counter
from pathlib import Path
from typing import Any

VERIF = Path(__file__).resolve().parent.parent
REPO = Path(os.environ.get("VERIF_REPO", "/repo"))
COQ = VERIF / "coq"
PY = "/venv/bin/python"
NPROC = int(os.environ.get("VERIF_JOBS", "16"))

HYGIENE_RE = re.compile(
    r"\b(Admitted|admit|Axiom|Axioms|Parameter|Parameters|Conjecture|Conjectures"
    r"|Admit Obligations|bypass_check|type-in-type|impredicative-set)\b"
    r"|Unset\s+(Guard|Positivity|Universe)\s+Checking"
)

BASE_TRUSTED = [
    "Coq 8.16.1 kernel and its bytecode VM (vm_compute); native_compute is never used",
    "CPython 3.12.1 running /repo/src (the implementation side of every correspondence run)",
    "the correspondence harness under /verif/harness (generators, canonicalisation, case printer)",
    "the translator /verif/tools/gen_consts.py (constants and tables re-read from /repo on every run)",
]


def sh(cmd: list[str] | str, timeout: int = 600, cwd: Path | None = None, env=None):
    """Run a command, return (rc, combined output)."""
    try:
        p = subprocess.run(
            cmd,
            shell=isinstance(cmd, str),
            cwd=cwd,
            env=env,
            stdout=subprocess.PIPE,
            stderr=subprocess.STDOUT,
            timeout=timeout,
            text=True,
            errors="replace",
        )
        return p.returncode, p.stdout
    except subprocess.TimeoutExpired as err:
        out = err.stdout or ""
        if isinstance(out, bytes):
            out = out.decode(errors="replace")
        return 124, out + f"\n*** timeout after {timeout}s\n"


# ---------------------------------------------------------------------------------------
# Coq side


class CoqLock:
    def __enter__(self):
        self.f = open(COQ / ".lock", "w")
        fcntl.flock(self.f, fcntl.LOCK_EX)
        return self

    def __exit__(self, *a):
        fcntl.flock(self.f, fcntl.LOCK_UN)
        self.f.close()


def hygiene() -> list[str]:
    """Forbidden vernacular anywhere in the development (comments stripped)."""
    bad = []
    for p in sorted(COQ.rglob("*.v")):
        if "/cases/" in str(p):
            continue
        txt = p.read_text()
        txt = re.sub(r"\(\*.*?\*\)", " ", txt, flags=re.S)
        for n, line in enumerate(txt.splitlines(), 1):
            if HYGIENE_RE.search(line):
                bad.append(f"{p.relative_to(COQ)}:{n}: {line.strip()[:100]}")
    return bad


def regenerate() -> tuple[bool, str]:
    """Re-read constants/tables from /repo into coq/gen/*.v (rewritten only on change)."""
    rc, out = sh([PY, str(VERIF / "tools" / "gen_all.py")], timeout=300, cwd=VERIF,
                 env=_pyenv())
    return rc == 0, out


def _pyenv():
    env = dict(os.environ)
    env["PYTHONPATH"] = f"{REPO}/src:{VERIF}"
    env["PYTHONHASHSEED"] = "0"
    env["TZ"] = "UTC"
    return env


def ensure_makefile():
    mk = COQ / "Makefile"
    proj = COQ / "_CoqProject"
    if not mk.exists() or mk.stat().st_mtime < proj.stat().st_mtime:
        rc, out = sh(["coq_makefile", "-f", "_CoqProject", "-o", "Makefile"], cwd=COQ)
        if rc:
            raise RuntimeError("coq_makefile failed:\n" + out)


def coq_make(targets: list[str], timeout: int = 3000) -> tuple[bool, str]:
    """Full .vo build of the given targets (relative to coq/), under the lock."""
    with CoqLock():
        ensure_makefile()
        rc, out = sh(
            ["timeout", str(timeout), "make", "-j", str(NPROC), "-k"] + targets,
            timeout=timeout + 30,
            cwd=COQ,
        )
    return rc == 0, out


def failing_obligations(make_log: str) -> list[dict[str, Any]]:
    """Map `File "./x.v", line N ... Error:` back to the enclosing Theorem/Lemma."""
    res = []
    for m in re.finditer(r'File "\./([^"]+)", line (\d+), characters[^\n]*\n(Error:[^\n]*(?:\n[^\n]+){0,6})', make_log):
        f, line, msg = m.group(1), int(m.group(2)), m.group(3)
        name = "?"
        try:
            lines = (COQ / f).read_text().splitlines()
            for i in range(min(line, len(lines)) - 1, -1, -1):
                mm = re.match(r"\s*(Theorem|Lemma|Corollary|Example|Fact|Definition|Fixpoint|Require|From)\s+(\S+)", lines[i])
                if mm:
                    name = mm.group(2).rstrip(":.")
                    break
        except OSError:
            pass
        res.append({"file": f, "line": line, "theorem": name, "error": msg.strip()[:600]})
    if not res and "timeout" in make_log:
        res.append({"file": "?", "line": 0, "theorem": "?", "error": "build timed out"})
    return res


def print_assumptions(prop_module: str, theorems: list[str]) -> dict[str, str]:
    """`Print Assumptions` for each property theorem; returns name -> text."""
    d = COQ / "cases" / "_assum"
    d.mkdir(parents=True, exist_ok=True)
    src = d / f"assum_{prop_module}_{os.getpid()}.v"
    body = [f"From RV Require Import {prop_module}."]
    for t in theorems:
        body.append(f'Goal True. idtac "@@BEGIN {t}". exact I. Qed.')
        body.append(f"Print Assumptions {t}.")
    body.append('Goal True. idtac "@@END". exact I. Qed.')
    src.write_text("\n".join(body) + "\n")
    rc, out = sh(["timeout", "300", "coqc", "-Q", str(COQ), "RV", str(src)], timeout=330, cwd=d)
    res: dict[str, str] = {}
    for f in d.glob(f"*assum_{prop_module}_{os.getpid()}.*"):
        f.unlink(missing_ok=True)
    if rc:
        return {t: "ERROR: " + out[-400:] for t in theorems}
    parts = re.split(r"@@BEGIN (\S+)\n", out)
    for i in range(1, len(parts) - 1, 2):
        res[parts[i]] = parts[i + 1].split("@@END")[0].strip()
    return res


def coq_eval(tag: str, files: dict[str, str], timeout: int = 900) -> dict[str, tuple[int, str]]:
    """Write generated case files to coq/cases/<tag>/ and run coqc on each in parallel.

    Returns name -> (rc, output).  Files must `From RV Require Import ...` themselves.
    """
    d = COQ / "cases" / f"{tag}-{os.getpid()}"      # per process: concurrent runs of one check do not share files
    d.mkdir(parents=True, exist_ok=True)
    for stale in (COQ / "cases").glob(f"{tag}-*"):   # directories left by finished runs
        try:
            pid = int(stale.name.rsplit("-", 1)[1])
            if pid != os.getpid() and not os.path.exists(f"/proc/{pid}"):
                import shutil
                shutil.rmtree(stale, ignore_errors=True)
        except ValueError:
            pass
    for name, txt in files.items():
        (d / f"{name}.v").write_text(txt)
    procs = {}
    names = list(files)
    results: dict[str, tuple[int, str]] = {}
    idx = 0
    running: dict[str, Any] = {}
    while idx < len(names) or running:
        while idx < len(names) and len(running) < NPROC:
            n = names[idx]
            idx += 1
            outf = open(d / f"{n}.out", "w")
            running[n] = (subprocess.Popen(
                ["timeout", str(timeout), "coqc", "-Q", str(COQ), "RV", f"{n}.v"],
                cwd=d, stdout=outf, stderr=subprocess.STDOUT, text=True,
            ), outf)
        for n, (p, outf) in list(running.items()):
            if p.poll() is not None:
                outf.close()
                results[n] = (p.returncode, (d / f"{n}.out").read_text(errors="replace"))
                del running[n]
        time.sleep(0.02)
    return results


def coq_str(s: str) -> str:
    """A Coq string literal (ASCII only; quotes doubled)."""
    assert all(32 <= ord(c) < 127 or c in "\n\r\t" for c in s), repr(s)
    return '"' + s.replace('"', '""') + '"'


def coq_list(items, sep="; ") -> str:
    return "[" + sep.join(items) + "]"


def parse_eval_strings(out: str) -> list[str]:
    """Parse `= ["a"; "b"] : list string` printed with a huge Printing Width."""
    m = re.search(r"=\s*\[(.*)\]\s*:\s*list string", out, flags=re.S)
    if not m:
        raise ValueError("cannot parse coq output: " + out[:300])
    body = m.group(1)
    res = []
    i = 0
    n = len(body)
    while i < n:
        if body[i] == '"':
            j = i + 1
            buf = []
            while True:
                if body[j] == '"':
                    if j + 1 < n and body[j + 1] == '"':
                        buf.append('"')
                        j += 2
                        continue
                    break
                buf.append(body[j])
                j += 1
            res.append("".join(buf))
            i = j + 1
        else:
            i += 1
    return res


# ---------------------------------------------------------------------------------------
# Known findings


def load_findings(pid: str) -> list[dict[str, Any]]:
    p = VERIF / "KNOWN_FINDINGS.json"
    if not p.exists():
        return []
    data = json.loads(p.read_text())
    return [f for f in data.get("findings", []) if f["property"] == pid]


# ---------------------------------------------------------------------------------------
# The per-run context


class Ctx:
    def __init__(self, pid: str, tier: str, seed: int):
        self.pid = pid
        self.tier = tier
        self.seed = seed
        self.rng = random.Random(f"{pid}-{seed}")
        self.t0 = time.time()
        self.evaluations = 0
        self._nontrivial: set[str] = set()
        self.samples: list[Any] = []
        self.dist: Counter[str] = Counter()
        self.violations: list[dict[str, Any]] = []
        self.obligations: list[dict[str, Any]] = []
        self.notes: list[str] = []
        self.assumptions: list[str] = []
        self.trusted: list[str] = list(BASE_TRUSTED)
        self.rule = ""
        self.extra: dict[str, Any] = {}
        self.checker_cmd = ""
        self.reobserved: set[str] = set()

    # -- bookkeeping -------------------------------------------------------------------
    def case(self, canonical: Any, nontrivial: bool = True, kind: str | None = None, sample: bool = False):
        self.evaluations += 1
        if kind:
            self.dist[kind] += 1
        if nontrivial:
            h = hashlib.blake2b(repr(canonical).encode(), digest_size=8).hexdigest()
            self._nontrivial.add(h)
        if sample or len(self.samples) < 3:
            if len(self.samples) < 12:
                self.samples.append(canonical)

    def obligation(self, name: str, ok: bool, kind: str, detail: str = ""):
        self.obligations.append({"name": name, "ok": bool(ok), "kind": kind, "detail": detail[:800]})

    def violation(self, signature: str, what: str, case: Any, kind: str = "input"):
        self.violations.append({"signature": signature, "what": what, "case": case, "kind": kind})

    def log(self, msg: str):
        print(f"[{self.pid}] {msg}", flush=True)

    # -- Coq build of this property ----------------------------------------------------
    def build(self, module: str, theorems: list[str], timeout: int = 3000) -> bool:
        """Hygiene, regeneration, make of props/<module>.vo, Print Assumptions."""
        self.checker_cmd = (
            f"tools/gen_all.py && make -C coq props/{module}.vo (coqc 8.16.1, full .vo) && "
            f"coqc Print Assumptions for {len(theorems)} theorems"
        )
        bad = hygiene()
        self.obligation("hygiene-grep", not bad, "hygiene", "; ".join(bad[:5]))
        ok, out = regenerate()
        scoped = [ln for ln in out.splitlines() if ln.startswith(f"TRANSLATOR-FAIL[{self.pid}]")]      # a shape this property's model depends on has changed
        if ok and scoped:
            ok, out = False, "\n".join(scoped)
        self.obligation("translator(gen_all.py)", ok, "translator", out[-600:] if not ok else "")
        if not ok:
            self.log("translator failed:\n" + out[-1500:])
            for t in theorems:
                self.obligation(t, False, "theorem", "not built: translator failed")
            return False
        ok, out = coq_make([f"props/{module}.vo"], timeout=timeout)
        if not ok:
            fails = failing_obligations(out)
            self.log("coq build failed:\n" + out[-2500:])
            self.extra["build_failures"] = fails
            names = ", ".join(f"{f['file']}:{f['theorem']}" for f in fails) or "unknown"
            for t in theorems:
                self.obligation(t, False, "theorem", f"build of props/{module}.vo failed at {names}")
            return False
        ass = print_assumptions(module, theorems)
        axioms: set[str] = set()
        for t in theorems:
            txt = ass.get(t, "ERROR: missing")
            closed = txt.startswith("Closed under the global context")
            if txt.startswith("ERROR"):
                self.obligation(t, False, "theorem", txt)
                continue
            if not closed:
                for line in txt.splitlines():
                    mm = re.match(r"^([A-Za-z_][\w.']*)\s*:", line)
                    if mm:
                        axioms.add(mm.group(1))
            self.obligation(t, True, "theorem", "closed" if closed else "axioms: " + txt[:300])
        self.extra["print_assumptions"] = {
            t: ("closed under the global context" if a.startswith("Closed") else a[:400]) for t, a in ass.items()
        }
        if axioms:
            self.trusted.append("axioms reported by Print Assumptions: " + ", ".join(sorted(axioms)))
        else:
            self.trusted.append("axioms: none (every property theorem is closed under the global context)")
        return True

    # -- verdict ------------------------------------------------------------------------
    def finish(self) -> int:
        findings = load_findings(self.pid)
        open_f = {f["signature"]: f for f in findings if f.get("status") == "open"}
        lines: list[str] = []
        rc = 0
        replay_dir = VERIF / "replay"
        replay_dir.mkdir(exist_ok=True)

        by_sig: dict[str, list[dict[str, Any]]] = {}
        for v in self.violations:
            by_sig.setdefault(v["signature"], []).append(v)
        new_sigs = [s for s in by_sig if s not in open_f]
        for sig, f in open_f.items():
            seen = sig in by_sig or sig in self.reobserved
            lines.append(
                f"KNOWN-FINDING: property={self.pid} {sig}: {f['what_fails']}"
                + ("" if seen else " (listed; not re-observed in this run)")
            )
        for sig in new_sigs:
            v = by_sig[sig][0]
            path = replay_dir / f"{self.pid}-{self.seed}-{_slug(sig)}.json"
            path.write_text(json.dumps({
                "property": self.pid, "kind": v["kind"], "seed": self.seed, "tier": self.tier,
                "signature": sig, "what_fails": v["what"], "case": v["case"],
                "occurrences": len(by_sig[sig]),
                "broken_obligations": [o for o in self.obligations if not o["ok"]],
            }, indent=1, default=str))
            lines.append(f"VIOLATION property={self.pid} replay={path}")
            rc = 1
        broken = [o for o in self.obligations if not o["ok"]]
        if broken and not new_sigs:
            path = replay_dir / f"{self.pid}-{self.seed}-broken-obligation.json"
            path.write_text(json.dumps({
                "property": self.pid, "kind": "broken-obligation", "seed": self.seed, "tier": self.tier,
                "broken_obligations": broken, "build_failures": self.extra.get("build_failures"),
                "note": "a theorem, the translator or a correspondence no longer checks; the search on "
                        "the implementation found no concrete failing input",
            }, indent=1, default=str))
            lines.append(f"VIOLATION property={self.pid} replay={path} no-failing-input-found")
            rc = 1
        self._write_evidence(len(new_sigs) + (1 if broken and not new_sigs else 0), sorted(by_sig), broken)
        for line in lines:
            print(line, flush=True)
        print(f"[{self.pid}] tier={self.tier} seed={self.seed} evaluations={self.evaluations} "
              f"obligations={len(self.obligations)} broken={len(broken)} "
              f"violating-signatures={len(by_sig)} new={len(new_sigs)} wall={time.time()-self.t0:.1f}s rc={rc}",
              flush=True)
        return rc

    def _write_evidence(self, nviol: int, sigs: list[str], broken):
        ev = {
            "property_id": self.pid,
            "tier": self.tier,
            "seed": self.seed,
            "level": "proof",
            "coverage": {
                "obligations": len(self.obligations),
                "discharged": sum(1 for o in self.obligations if o["ok"]),
                "checker_cmd": self.checker_cmd or "n/a",
                "trusted_base": self.trusted,
                "evaluations": self.evaluations,
                "distinct_nontrivial": len(self._nontrivial),
                "rule": self.rule,
                "samples": self.samples[:12],
                "input_distribution": dict(self.dist),
                "obligation_list": self.obligations,
                "violating_signatures": sigs,
                **self.extra,
            },
            "assumptions": self.assumptions,
            "wall_s": round(time.time() - self.t0, 2),
            "violations": nviol,
            "notes": self.notes,
        }
        d = Path(os.environ.get("VERIF_EVIDENCE_DIR") or VERIF / "evidence")   # experiments on a changed tree write elsewhere
        d.mkdir(parents=True, exist_ok=True)
        (d / f"{self.pid}.json").write_text(json.dumps(ev, indent=1, default=str) + "\n")


def _slug(s: str) -> str:
    return re.sub(r"[^A-Za-z0-9]+", "-", s)[:60].strip("-")
