#!/bin/bash
# usage: tools/multiseed.sh "2 3 4" [tier] -- run every check with other seeds (evidence goes to a scratch directory); prints one line per run
cd "$(dirname "$0")/.."
export VERIF_EVIDENCE_DIR=${VERIF_EVIDENCE_DIR:-/tmp/verif_multiseed_evidence}
mkdir -p "$VERIF_EVIDENCE_DIR"
for sd in $1; do
  for p in C01 C02 C03 C04 C05 C06 C07 C08 C09 C10 C11 C12 C13 C14 C15 C16 C17 C18 C19 C20; do
    VERIF_SEED=$sd timeout 3000 ./check $p --tier ${2:-quick} 2>&1 | grep -E "^VIOLATION|rc=" | cut -c1-260
  done
done
echo MULTISEED-DONE
