import asyncio, logging, io
logging.disable(logging.CRITICAL)
from ramses_rf import Gateway
async def mk(pkts, **cfg):
    txt="".join(f"{k} {v}\n" for k,v in pkts.items())
    gwy=Gateway(None, input_file=io.TextIOWrapper(io.BytesIO(txt.encode())), config=cfg)
    await gwy.start(); return gwy
async def main():
    g=await mk({"2026-01-01T12:00:00.000000":"045 RP --- 01:145038 18:111111 --:------ 0005 004 00080100",
                "2026-01-01T12:00:01.000000":"045 RP --- 01:145038 18:111111 --:------ 30C9 003 0007D0",
                "2026-01-03T12:00:02.000000":"045 RP --- 01:145038 18:111111 --:------ 2309 003 0007D0"})
    z=g.tcs.zones[0]
    m=z._msgs['30C9']; print("lifespan", m._pkt._lifespan, "expired", m._expired, "now", g._dt_now())
    print("1st read:", z.temperature)
    await asyncio.sleep(0)
    print("2nd read:", z.temperature)
    await asyncio.sleep(0)
    print("3rd read:", z.temperature)
    await g.stop()
asyncio.run(main())
