#!/bin/bash
# usage: tools/seed_check.sh <PROP> <seed-dir> [tier] -- run our check against a seeded change in a scratch worktree (/repo itself is untouched)
set -u
P=$1; M=$(readlink -f "$2"); T=${3:-quick}
W=/tmp/wt_seedcheck_$$
git -C /repo worktree add -q --detach "$W" HEAD || exit 2
git -C "$W" apply "$M/patch.diff" || { echo "patch does not apply"; git -C /repo worktree remove --force "$W"; exit 2; }
cd "$(dirname "$0")/.." && VERIF_REPO="$W" VERIF_EVIDENCE_DIR=/tmp/verif_mut_evidence timeout 3000 ./check "$P" --tier "$T" 2>&1 | grep -E "^VIOLATION|rc=" | cut -c1-260
git -C /repo worktree remove --force "$W"
VERIF_EVIDENCE_DIR=/tmp/verif_mut_evidence ./check --setup >/dev/null 2>&1   # regenerate coq/gen from /repo again
