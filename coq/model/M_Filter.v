(* M_Filter: the device-id filter of ramses_tx/protocol.py (_DeviceIdFilterMixin) and the
   gateway-level check of ramses_rf/gateway.py (get_device.check_filter_lists) -- C10.
   Device ids are integers tt*10^6+nnnnnn; "--:------" is -1. *)
From Coq Require Import ZArith List Bool.
From RV Require Import Py.
Import ListNotations.
Open Scope Z_scope.

Definition HGI_ID : Z := 18000730.   (* 18:000730, the placeholder *)
Definition ALL_ID : Z := 63262142.   (* 63:262142 *)
Definition NON_ID : Z := -1.         (* --:------ *)

Definition mem (x : Z) (l : list Z) : bool := existsb (Z.eqb x) l.

Record fcfg := {
  f_exclude : list Z;          (* block_list keys *)
  f_include : list Z;          (* known_list keys (before the two constants are appended) *)
  f_enforce : bool;            (* enforce_include_list as passed to the protocol *)
  f_active : option Z          (* _active_hgi *)
}.

(* __init__: self._include += [ALL_DEV_ADDR.id, NON_DEV_ADDR.id] *)
Definition include_of (c : fcfg) : list Z := f_include c ++ [ALL_ID; NON_ID].

(* _set_active_hgi: the active gateway is recorded only if it is not block-listed *)
Definition set_active (c : fcfg) (dev : Z) : fcfg :=
  {| f_exclude := f_exclude c; f_include := f_include c; f_enforce := f_enforce c;
     f_active := if mem dev (f_exclude c) then None else Some dev |}.

Definition is_active (c : fcfg) (x : Z) : bool :=
  match f_active c with Some a => x =? a | None => false end.

(* one iteration of the for-loop of _is_wanted_addrs: true = continue, false = return False *)
Definition wanted_id (c : fcfg) (sending : bool) (x : Z) : bool :=
  if mem x (f_exclude c) then false
  else if is_active c x then true
  else if mem x (include_of c) then true
  else if sending && (x =? HGI_ID) then true
  else if f_enforce c then false
  else true.

(* for dev_id in dict.fromkeys((src_id, dst_id)) *)
Definition wanted (c : fcfg) (sending : bool) (src dst : Z) : bool :=
  if src =? dst then wanted_id c sending src
  else wanted_id c sending src && wanted_id c sending dst.

(* schemas.select_device_filter_mode *)
Definition select_mode (enforce : bool) (known : list Z) : bool :=
  match known with [] => false | _ => enforce end.

(* gateway stage: check_filter_lists with the _unwanted memo; hgi = id of gwy.hgi if any *)
Record gcfg := { g_exclude : list Z; g_include : list Z; g_enforce : bool; g_hgi : option Z }.

Definition check_filter_lists (g : gcfg) (unwanted : list Z) (dev : Z) : bool * list Z :=
  if mem dev unwanted then (false, unwanted)
  else if g_enforce g && negb (mem dev (g_include g)) && negb (match g_hgi g with Some h => dev =? h | None => false end)
       then (false, unwanted ++ [dev])
  else if mem dev (g_exclude g) then (false, unwanted ++ [dev])
  else (true, unwanted).

(* get_device: the LookupError is swallowed for the protocol's hgi_id only *)
Definition device_allowed (g : gcfg) (proto_hgi : option Z) (unwanted : list Z) (dev : Z) : bool * list Z :=
  let '(ok, u) := check_filter_lists g unwanted dev in
  (ok || (match proto_hgi with Some h => dev =? h | None => false end), u).

(* Engine.__init__: the memo starts with the null and broadcast ids and, hard-coded, 01:000001 *)
Definition initial_unwanted : list Z := [NON_ID; ALL_ID; 1000001].

(* ---- helpers for the correspondence run: one integer per configuration ---- *)
Definition bits_of (l : list bool) : Z := fold_left (fun (acc : Z) (b : bool) => 2 * acc + (if b then 1 else 0)) l 1.

Definition wanted_table (c : fcfg) (ids : list Z) : Z :=
  bits_of (flat_map (fun s => flat_map (fun d => [wanted c false s d; wanted c true s d]) ids) ids).

Definition lookup_trace (g : gcfg) (proto_hgi : option Z) (devs : list Z) : Z :=
  bits_of (fst (fold_left (fun (st : list bool * list Z) d =>
                             let '(ok, u') := device_allowed g proto_hgi (snd st) d in (fst st ++ [ok], u'))
                          devs ([], initial_unwanted))).
