(* M_ParamCmd -- parameter and sensor commands: set_dhw_params / parser_10a0, set_mix_valve_params / parser_1030,
   put_sensor_temp / parser_30c9 (single element), put_dhw_temp / parser_1260 (ramses_tx/command.py, parsers.py).
   Temperatures enter as hundredths (k/100, the caller's value on the 0.01 grid; the word is C04's encoder) or as the word the
   encoder produced.  Definitions only; proofs are in proof/P_ParamCmd.v. *)
From Coq Require Import ZArith String Ascii List Bool PrimFloat.
From RV Require Import Py PyStr PyFloat M_Codecs M_Command M_ModeCmd.
Import ListNotations.
Open Scope Z_scope.

(* Command.set_dhw_params(ctl, setpoint=, overrun=, differential=, dhw_idx=0): 30..85 C, 0..10 min, 1..10 C *)
Definition set_dhw_params (dhw_idx ksp overrun kdiff : Z) : option str :=
  match check_idx dhw_idx with
  | None => None
  | Some x =>
      if negb ((3000 <=? ksp) && (ksp <=? 8500)) || negb ((0 <=? overrun) && (overrun <=? 10)) || negb ((100 <=? kdiff) && (kdiff <=? 1000)) then None
      else Some (x ++ hexN 4 ksp ++ hexN 2 overrun ++ hexN 4 kdiff)
  end.

Record dhwp := mk_dhwp { dp_setpoint : tempv; dp_overrun : Z; dp_differential : tempv }.
(* parser_10a0, the 6-byte evohome form: "None if setpoint == 255" *)
Definition is_255 (t : tempv) : bool := match t with TNum f => feqb f (f_of_Z 255) | _ => false end.
Definition parser_10a0 (p : str) : result dhwp :=
  if negb (Nat.eqb (Nat.div (List.length p) 2) 6) then Raise AssertionError      (* the 1- and 3-byte forms are not modelled *)
  else if negb (str_eqb (slice 0 2 p) (lit "00") || str_eqb (slice 0 2 p) (lit "01")) then Raise AssertionError
  else
    do s <- hex_to_temp_s (slice 2 6 p);
    match int16 (slice 6 8 p) with
    | None => Raise ValueError
    | Some o => do d <- hex_to_temp_s (slice 8 12 p); Ok (mk_dhwp (if is_255 s then TNone else s) o d)
    end.

(* Command.set_mix_valve_params(ctl, idx, max_flow_setpoint=, min_flow_setpoint=, valve_run_time=, pump_run_time=, boolean_cc=1) *)
Definition mix_elem (tag : string) (v : Z) : str := lit tag ++ lit "01" ++ hexN 2 v.
Definition set_mix_valve_params (idx maxf minf vrt prt bcc : Z) : option str :=
  match check_idx idx with
  | None => None
  | Some x =>
      if negb ((0 <=? maxf) && (maxf <=? 99)) || negb ((0 <=? minf) && (minf <=? 50)) || negb ((0 <=? vrt) && (vrt <=? 240)) || negb ((0 <=? prt) && (prt <=? 99)) then None
      else Some (x ++ mix_elem "C8" maxf ++ mix_elem "C9" minf ++ mix_elem "CA" vrt ++ mix_elem "CB" prt ++ mix_elem "CC" bcc)
  end.

(* parser_1030: the parameters as (tag byte, value) in payload order *)
Definition mix_tag (s : str) : option Z :=
  if str_eqb s (lit "20") then Some 0x20 else if str_eqb s (lit "21") then Some 0x21 else if str_eqb s (lit "C8") then Some 0xC8
  else if str_eqb s (lit "C9") then Some 0xC9 else if str_eqb s (lit "CA") then Some 0xCA else if str_eqb s (lit "CB") then Some 0xCB
  else if str_eqb s (lit "CC") then Some 0xCC else None.
Definition parse_mix_elem (e : str) : result (Z * Z) :=
  if negb (str_eqb (slice 2 4 e) (lit "01")) then Raise AssertionError
  else match mix_tag (slice 0 2 e) with
       | None => Raise KeyError
       | Some t => match int16 (slice 4 6 e) with Some v => Ok (t, v) | None => Raise ValueError end
       end.
Fixpoint parse_mix_elems (fuel : nat) (s : str) : result (list (Z * Z)) :=
  match fuel with
  | O => Ok []
  | S k => match s with
           | [] => Ok []
           | _ => do e <- parse_mix_elem (firstn 6 s); do r <- parse_mix_elems k (skipn 6 s); Ok (e :: r)
           end
  end.
Definition parser_1030 (p : str) : result (list (Z * Z)) :=
  let len := Nat.div (List.length p) 2 in
  if negb (Nat.eqb len 7 || Nat.eqb len 16) then Raise AssertionError         (* (len - 1) / 3 in (2, 5) *)
  else parse_mix_elems (List.length p) (skipn 2 p).

(* Command.put_sensor_temp(dev, t) -> I|30C9 and Command.put_dhw_temp(dev, t) -> I|1260: 00 + the word (None = 7FFF) *)
Definition word_of_opt (w : option Z) : Z := match w with Some x => x | None => 0x7FFF end.
Definition put_temp_payload (w : option Z) : str := lit "00" ++ hexN 4 (word_of_opt w).
(* parser_30c9 (not an array) / parser_1260: hex_to_temp(payload[2:]) -- the helper insists on 4 characters *)
Definition parser_temp_tail (p : str) : result tempv :=
  if negb (Nat.eqb (List.length (skipn 2 p)) 4) then Raise ValueError else hex_to_temp_s (skipn 2 p).

(* Command.set_tpi_params(ctl, domain_id, cycle_rate=, min_on_time=, min_off_time=, proportional_band_width=None) -> W|1100.  The constructor
   checks nothing but the index (its range asserts are commented out); minutes are sent in quarters. *)
Definition set_tpi_params (domain cycle on off : Z) (pbw : option Z) : option str :=
  match check_idx domain with
  | None => None
  | Some x => Some (x ++ hexN 2 (cycle * 4) ++ hexN 2 (on * 4) ++ hexN 2 (off * 4) ++ lit "00" ++ hexN 4 (word_of_opt pbw) ++ lit "01")
  end.

Record tpi := mk_tpi { tp_domain : option str; tp_cycle : Z; tp_on4 : Z; tp_off4 : Z; tp_u0 : str; tp_pbw : tempv; tp_u1 : str }.
(* `int(x, 16) / 4 in range(lo, hi)`: a whole number of units, within the range *)
Definition in_quarters (v lo hi : Z) : bool := (v mod 4 =? 0) && (lo * 4 <=? v) && (v <? hi * 4).
Definition pbw_ok (t : tempv) : bool :=
  match t with
  | TNone => true
  | TFalse => false
  | TNum f => fleb (fdiv (f_of_Z 3) (f_of_Z 2)) f && fleb f (f_of_Z 3)
  end.
(* parser_1100, the 8-byte form from a controller / relay (not the 1-byte RQ, the 5-byte form or the Jasper blob) *)
Definition parser_1100 (p : str) : result tpi :=
  if negb (Nat.eqb (List.length p) 16) then Raise AssertionError
  else match int16 (slice 2 4 p), int16 (slice 4 6 p), int16 (slice 6 8 p) with
       | Some c, Some a, Some b =>
           if negb (in_quarters c 1 13) || negb (in_quarters a 1 31) || negb (in_quarters b 0 16) then Raise AssertionError
           else do w <- hex_to_temp_s (slice 10 14 p);
                if pbw_ok w
                then Ok (mk_tpi (if str_eqb (slice 0 1 p) (lit "F") then Some (slice 0 2 p) else None) (c / 4) a b (slice 8 10 p) w (slice 14 16 p))
                else Raise AssertionError
       | _, _, _ => Raise ValueError
       end.

(* Command.put_weather_temp(dev, t) -> I|0002 (a faked outdoor sensor): 00 + the word + 01; parser_0002 (not from an HCW): hex_to_temp(payload[2:6]) *)
Definition put_weather_payload (w : option Z) : str := lit "00" ++ hexN 4 (word_of_opt w) ++ lit "01".
Definition parser_0002 (p : str) : result (tempv * str) :=
  do t <- (if negb (Nat.eqb (List.length (slice 2 6 p)) 4) then Raise ValueError else hex_to_temp_s (slice 2 6 p)); Ok (t, skipn 6 p).

(* Command.put_co2_level(dev, level) -> I|1298: 00 + hex_from_double(level) -- a whole number of ppm as four hex digits, None = 7FFF.
   parser_1298 = parse_co2_level(payload[2:6]): 7FFF = no sensor; the top bit set = a sensor fault; otherwise the level *)
Definition put_co2_payload (n : option Z) : str := lit "00" ++ hexN 4 (word_of_opt n).
Inductive co2v := Co2None | Co2Fault | Co2Level (n : Z).
Definition parser_1298 (p : str) : result co2v :=
  let v := slice 2 6 p in
  if negb (Nat.eqb (List.length v) 4) then Raise ValueError
  else if str_eqb v (lit "7FFF") then Ok Co2None
  else match int16 v with
       | None => Raise ValueError
       | Some n => if 0x8000 <=? n then Ok Co2Fault else Ok (Co2Level n)
       end.

(* Command.put_indoor_humidity(dev, h) -> I|12A0: 00 + hex_from_percent(h, high_res=False) -- whole percent as two hex digits, None = EF
   (the byte enters as the encoder produced it, C04's codec).  parser_12a0 = parse_indoor_humidity(payload[2:]) on the short form: EF = no
   sensor; F0..FF = a sensor fault; otherwise the byte / 100, which the parser ASSERTS to be at most 1.0 *)
Definition byte_of_opt (b : option Z) : Z := match b with Some x => x | None => 0xEF end.
Definition put_humidity_payload (b : option Z) : str := lit "00" ++ hexN 2 (byte_of_opt b).
Inductive humv := HumNone | HumFault | HumPct (b : Z).
Definition parser_12a0_short (p : str) : result humv :=
  let v := slice 2 4 p in
  if negb (Nat.eqb (List.length v) 2) then Raise ValueError
  else if str_eqb v (lit "EF") then Ok HumNone
  else match int16 v with
       | None => Raise ValueError
       | Some b => if 0xF0 <=? b then Ok HumFault else if b <=? 100 then Ok (HumPct b) else Raise AssertionError
       end.
