(* P_QosAlive -- "the send machinery never wedges", for every run in which no internal assertion trips: while the state machine is waiting for an
   echo or a reply, something is always on its way that will move it on -- a deferred effect_state, or the expiry task of the current wait (about
   to start, sleeping with its timer armed, or woken).  So a run that has come to rest (nothing ready, no timer armed) is not waiting. *)
From Coq Require Import ZArith List Bool Arith Lia.
From RV Require Import GenConsts M_Qos P_Qos P_QosOwner.
Import ListNotations.
Open Scope Z_scope.

(* the expiry task t is alive, given the callbacks L about to run *)
Definition live (L : list cb) (w : world) (t : nat) : Prop :=
  match aget EDone t (exps w) with
  | ENotStarted => In (CbExpStart t) L
  | ESleeping _ => In (CbExpTimer t) L \/ exists wh s, In (wh, s, CbExpTimer t) (timers w)
  | EWoken _ => In (CbExpWake t) L
  | _ => False
  end.
Definition HasEffL (L : list cb) : Prop := exists b, In (CbEffect b) L.
Definition Pend (L : list cb) (w : world) : Prop := HasEffL L \/ exists t, expiry (cx w) = Some t /\ live L w t.
Definition AliveL (L : list cb) (w : world) : Prop := sending_state (state (cx w)) = true -> Pend L w.
Definition Alive (w : world) : Prop := AliveL (ready w) w.
Definition HasEff (w : world) : Prop := HasEffL (ready w).

Lemma HasEff_Alive w : HasEff w -> Alive w.
Proof. intros H _. left. exact H. Qed.

(* a step that leaves the wait, its expiry task and everything pending where they were *)
Definition keep (w w' : world) : Prop :=
  state (cx w') = state (cx w) /\ expiry (cx w') = expiry (cx w) /\ exps w' = exps w /\
  (forall x, In x (ready w) -> In x (ready w')) /\
  (forall wh s t, In (wh, s, CbExpTimer t) (timers w) -> In (wh, s, CbExpTimer t) (timers w')).
Definition post (w w' : world) : Prop := HasEff w' \/ keep w w'.

Lemma keep_refl w : keep w w.
Proof. repeat split; auto. Qed.
Lemma keep_trans a b c : keep a b -> keep b c -> keep a c.
Proof.
  intros (A1 & A2 & A3 & A4 & A5) (B1 & B2 & B3 & B4 & B5). repeat split; try congruence; auto.
Qed.
Lemma post_refl w : post w w.
Proof. right. apply keep_refl. Qed.
Lemma post_keep w w' : keep w w' -> post w w'.
Proof. intros H. right. exact H. Qed.
Lemma post_trans a b c : post a b -> post b c -> post a c.
Proof.
  intros [H1|K1] [H2|K2].
  - left. exact H2.
  - left. destruct H1 as [x Hx]. destruct K2 as (_ & _ & _ & R & _). exists x. apply R, Hx.
  - left. exact H2.
  - right. eapply keep_trans; eassumption.
Qed.

Lemma RsatOk_bind (P Q : world -> Prop) r f : RsatOk P r -> (forall w1, P w1 -> RsatOk Q (f w1)) -> RsatOk Q (bind r f).
Proof. destruct r as [w1|n w1]; cbn; [intros H F; apply F, H|intros _ _; exact I]. Qed.
Lemma RsatOk_post_trans a b r : post a b -> RsatOk (post b) r -> RsatOk (post a) r.
Proof. destruct r; cbn; [apply post_trans|intros _ _; exact I]. Qed.
Lemma RsatOk_post_bind w r f : RsatOk (post w) r -> (forall w1, RsatOk (post w1) (f w1)) -> RsatOk (post w) (bind r f).
Proof. intros H F. eapply RsatOk_bind; [exact H|]. intros w1 P1. eapply RsatOk_post_trans; [exact P1|apply F]. Qed.
Lemma RsatOk_post_assert b n w : RsatOk (post w) (assert b n w).
Proof. unfold assert. destruct b; cbn; [apply post_refl|exact I]. Qed.
Lemma RsatOk_post_assert_bind b n w f : (forall w1, RsatOk (post w1) (f w1)) -> RsatOk (post w) (bind (assert b n w) f).
Proof. intros F. apply RsatOk_post_bind; [apply RsatOk_post_assert|exact F]. Qed.

Ltac keep_tac := unfold keep; cbn; repeat split; try reflexivity; intros; try (apply in_or_app; left); assumption.

(* ---------------------------------------------------------------- set_state always leaves a deferred effect_state behind *)
Lemma switch_eff w ns h : RsatOk HasEff (switch w ns h).
Proof.
  unfold switch.
  assert (Fin : forall w2 : world, RsatOk HasEff (bind (assert (is_sending_ok w2) 13 w2) (fun w3 => Ok (call_soon w3 (CbEffect (is_timed_out h)))))).
  { intros w2. unfold assert. destruct (is_sending_ok w2); cbn; [|exact I]. exists (is_timed_out h). apply in_or_app. right. left. reflexivity. }
  destruct (is_timed_out h).
  - cbn [bind]. apply Fin.
  - destruct ns; cbn [bind]; try apply Fin.
    unfold assert at 1. destruct (is_some (cur (cx w))); cbn [bind RsatOk]; [apply Fin|exact I].
Qed.
Lemma set_state_eff w ns h : RsatOk HasEff (set_state w ns h).
Proof. unfold set_state. destruct (settle w h) as [w1|n w1]; cbn [bind]; [apply switch_eff|exact I]. Qed.
Lemma set_state_post w0 w ns h : RsatOk (post w0) (set_state w ns h).
Proof. eapply RsatOk_weaken; [|apply set_state_eff]. intros w1 H. left. exact H. Qed.

(* ---------------------------------------------------------------- the callbacks that leave the wait alone, or go through set_state *)
Section Env.
Variable cmds : cid -> cmdinfo.
Variable plan : nat -> wplan.

Lemma filter_keeps_exp_timers c ts wh s t :
  (forall u, c <> CbExpTimer u) -> In (wh, s, CbExpTimer t) ts -> In (wh, s, CbExpTimer t) (filter (fun e : Z * nat * cb => negb (cb_eqb (snd e) c)) ts).
Proof.
  intros N H. apply filter_In. split; [exact H|]. cbn. destruct c; try reflexivity. destruct (Nat.eqb t t0) eqn:E; [|reflexivity].
  exfalso. apply (N t0). reflexivity.
Qed.

Lemma send_cmd_post w c r : RsatOk (post w) (send_cmd_ w c r).
Proof.
  unfold send_cmd_. destruct (state (cx w)); try apply set_state_post.
  - apply RsatOk_post_assert_bind. intros w1. apply RsatOk_post_bind.
    + apply set_state_post.
    + intros w2. cbn. apply post_keep. keep_tac.
  - apply RsatOk_post_assert_bind. intros w1. cbn. apply post_keep. keep_tac.
Qed.

Lemma dequeue_keep q : forall w, keep w (fst (dequeue w q)).
Proof.
  induction q as [|[[p s] c] q IH]; intros w; cbn [dequeue]; [keep_tac|].
  destruct (fut_done (fut_of w c)); [apply IH|keep_tac].
Qed.

Lemma check_buffer_post w : RsatOk (post w) (check_buffer cmds w).
Proof.
  unfold check_buffer. apply RsatOk_post_assert_bind. intros w1.
  destruct (match curfut (cx w1) with Some f => negb (fut_done (fut_of w1 f)) | None => false end); [apply post_refl|].
  pose proof (dequeue_keep (que (cx w1)) w1) as D.
  destruct (dequeue w1 (que (cx w1))) as [w2 oc]. cbn [fst] in D.
  destruct oc as [k|].
  - eapply RsatOk_post_trans; [apply post_keep; exact D|]. eapply RsatOk_post_trans; [|apply send_cmd_post]. apply post_keep. keep_tac.
  - cbn. apply post_keep. eapply keep_trans; [exact D|]. keep_tac.
Qed.

Lemma pkt_rcvd_post w p : RsatOk (post w) (pkt_rcvd cmds w p).
Proof.
  unfold pkt_rcvd. destruct (state (cx w)).
  - apply RsatOk_post_assert.
  - apply RsatOk_post_assert.
  - destruct (sent (cx w)) as [k|]; [|exact I].
    destruct (match rx_hdr (cmds k) with Some h => Nat.eqb (p_hdr p) h && p_dst_ok p | None => false end); [apply set_state_post|].
    destruct (negb (Nat.eqb (p_hdr p) (tx_hdr (cmds k)))); [apply post_refl|].
    destruct (rx_hdr (cmds k)); apply set_state_post.
  - destruct (sent (cx w)) as [k|]; [|exact I]. destruct (echo (cx w)) as [e|]; [|exact I].
    destruct (Nat.eqb (p_hdr p) (tx_hdr (cmds k)) && Nat.eqb (p_src p) (p_src e)); [apply post_refl|].
    destruct (rx_hdr (cmds k)) as [h|]; [|exact I].
    destruct (null_ok (cmds k) p || Nat.eqb (p_hdr p) h); [apply set_state_post|apply post_refl].
Qed.

Lemma caller_start_post w c : RsatOk (post w) (caller_start cmds w c).
Proof.
  unfold caller_start. destruct (state (cx w)) eqn:S; cbn [RsatOk]; try (apply post_keep; keep_tac);
    (destruct (Nat.leb BUF_SIZE (length (que (cx w)))); cbn [RsatOk]; apply post_keep; unfold keep; cbn; rewrite ?S; cbn;
     repeat split; try reflexivity; intros; try (apply in_or_app; left); try assumption; try (apply in_or_app; left; assumption)).
Qed.

Lemma caller_timer_post w c : RsatOk (post w) (caller_timer w c).
Proof.
  unfold caller_timer. destruct (aget CNone c (callers w)); try apply post_refl.
  destruct (fut_done (fut_of (set_caller w c CTimedOut) c)); cbn; apply post_keep; keep_tac.
Qed.

Lemma caller_cancel_post w c : RsatOk (post w) (caller_cancel w c).
Proof.
  unfold caller_cancel. destruct (aget CNone c (callers w)); try apply post_refl; try (cbn; apply post_keep; keep_tac).
  destruct (fut_done (fut_of (set_caller w c CCancelled) c)); cbn; apply post_keep; keep_tac.
Qed.

Lemma conn_post w : RsatOk (post w) (conn_made w) /\ RsatOk (post w) (conn_lost w).
Proof. unfold conn_made, conn_lost. split; destruct (state (cx w)); try apply post_refl; apply set_state_post. Qed.

Lemma do_write_post w n c : RsatOk (post w) (do_write cmds plan w n c).
Proof.
  unfold do_write. destruct (w_fail (plan n)).
  { unfold fail_write. destruct (cur (cx w)) as [k|]; [|apply post_refl]. destruct (Nat.eqb k c); [|apply post_refl]. apply set_state_post. }
  cbn. apply post_keep. destruct (w_echo (plan n)); destruct (w_rply (plan n)); destruct (rx_hdr (cmds c)); unfold keep; cbn;
    repeat split; try reflexivity; intros; auto; repeat (apply in_or_app; left); assumption.
Qed.
End Env.

(* ---------------------------------------------------------------- what is pending stays pending; the expiry task's own steps *)
Lemma keep_alive w w' : keep w w' -> Alive w -> Alive w'.
Proof.
  intros (S & E & X & R & T) A. unfold Alive, AliveL in *. rewrite S. intros Hs. destruct (A Hs) as [[b Hb]|(t & Et & Lt)].
  - left. exists b. apply R, Hb.
  - right. exists t. split; [congruence|]. unfold live in *. rewrite X.
    destruct (aget EDone t (exps w)); try exact Lt; try (apply R, Lt).
    destruct Lt as [L1|(wh & s & L2)]; [left; apply R, L1|right; exists wh, s; apply T, L2].
Qed.
Lemma post_alive w w' : post w w' -> Alive w -> Alive w'.
Proof. intros [H|K] A; [apply HasEff_Alive, H|eapply keep_alive; eassumption]. Qed.
Lemma RsatOk_post_alive w r : Alive w -> RsatOk (post w) r -> RsatOk Alive r.
Proof. intros A. apply RsatOk_weaken. intros w1 P. eapply post_alive; eassumption. Qed.

Definition irrelevant (c : cb) : Prop := match c with CbEffect _ | CbExpStart _ | CbExpTimer _ | CbExpWake _ => False | _ => True end.
Lemma drop_irrelevant c r w : irrelevant c -> AliveL (c :: r) w -> AliveL r w.
Proof.
  intros I A Hs. destruct (A Hs) as [[b [Hb|Hb]]|(t & Et & Lt)].
  - subst c. destruct I.
  - left. exists b. exact Hb.
  - right. exists t. split; [exact Et|]. unfold live in *. destruct (aget EDone t (exps w)); try exact Lt.
    + destruct Lt as [L|L]; [subst c; destruct I|exact L].
    + destruct Lt as [[L|L]|L]; [subst c; destruct I|left; exact L|right; exact L].
    + destruct Lt as [L|L]; [subst c; destruct I|exact L].
Qed.

Lemma not_sending_alive w : sending_state (state (cx w)) = false -> Alive w.
Proof. intros H Hs. congruence. Qed.

Lemma new_exp_alive w : Alive (new_exp w).
Proof.
  intros _. right. exists (next_tid w). split; [reflexivity|]. unfold live, new_exp. cbn. rewrite aget_aset, Nat.eqb_refl.
  apply in_or_app. right. left. reflexivity.
Qed.

Section Env2.
Variable cmds : cid -> cmdinfo.
Variable plan : nat -> wplan.

Lemma effect_state_alive w b : RsatOk Alive (effect_state cmds w b).
Proof.
  unfold effect_state. unfold assert at 1. destruct (is_sending_ok w); cbn [bind]; [|exact I].
  destruct (if b then match cur (cx w) with Some k => send_cmd_ w k true | None => Crash 41 w end else Ok w) as [w2|n w2]; cbn [bind]; [|exact I].
  destruct (state (cx w2)) eqn:S.
  - cbn. apply not_sending_alive. rewrite S. reflexivity.
  - cbn. apply not_sending_alive. cbn. rewrite S. reflexivity.
  - cbn. apply new_exp_alive.
  - destruct (cur (cx w2)) as [k|]; [|exact I].
    destruct (negb (wfr (cmds k))); [|cbn; apply new_exp_alive].
    destruct (echo (cx w2)); (eapply RsatOk_weaken; [apply HasEff_Alive|apply set_state_eff]).
Qed.
End Env2.

Lemma alive_transfer L w w' :
  AliveL L w -> state (cx w') = state (cx w) -> expiry (cx w') = expiry (cx w) ->
  (forall b, In (CbEffect b) L -> In (CbEffect b) (ready w')) ->
  (forall t, expiry (cx w) = Some t -> live L w t -> live (ready w') w' t) ->
  Alive w'.
Proof.
  intros A S E F G Hs. rewrite S in Hs. destruct (A Hs) as [[b Hb]|(t & Et & Lt)].
  - left. exists b. apply F, Hb.
  - right. exists t. split; [congruence|]. apply G; assumption.
Qed.

Lemma in_cons_neq {A} (x y : A) l : In x (y :: l) -> x <> y -> In x l.
Proof. intros [H|H] N; [congruence|exact H]. Qed.

(* the expiry task's first step: about to start -> sleeping, its timer armed *)
Lemma exp_start_alive w t : AliveL (CbExpStart t :: ready w) w -> RsatOk Alive (exp_start w t).
Proof.
  intros A. unfold exp_start. destruct (aget EDone t (exps w)) eqn:E.
  - unfold assert. destruct (is_some (cur (cx w))); cbn [bind]; [|exact I].
    destruct (is_sending_ok w); cbn [bind]; [|exact I]. destruct (Nat.ltb 0 (txc (cx w))); cbn [bind RsatOk]; [|exact I].
    eapply alive_transfer; [exact A|reflexivity|reflexivity| |].
    + intros b Hb. cbn. eapply in_cons_neq; [exact Hb|discriminate].
    + intros t' Et Lt. unfold live in *. cbn. rewrite aget_aset. destruct (Nat.eqb t' t) eqn:Q.
      * right. eexists _, _. apply in_or_app. right. left. apply Nat.eqb_eq in Q. subst t'. reflexivity.
      * assert (N : t' <> t) by (apply Nat.eqb_neq; exact Q).
        destruct (aget EDone t' (exps w)); try exact Lt.
        -- eapply in_cons_neq; [exact Lt|congruence].
        -- destruct Lt as [L|(wh & s & L)]; [left; eapply in_cons_neq; [exact L|discriminate]|right; exists wh, s; apply in_or_app; left; exact L].
        -- eapply in_cons_neq; [exact Lt|discriminate].
  - cbn. eapply alive_transfer; [exact A|reflexivity|reflexivity| |].
    + intros b Hb. eapply in_cons_neq; [exact Hb|discriminate].
    + intros t' Et Lt. unfold live in *. destruct (aget EDone t' (exps w)) eqn:E'; try exact Lt.
      * eapply in_cons_neq; [exact Lt|]. intros [= Q]. subst t'. congruence.
      * destruct Lt as [L|L]; [left; eapply in_cons_neq; [exact L|discriminate]|right; exact L].
      * eapply in_cons_neq; [exact Lt|discriminate].
  - cbn. eapply alive_transfer; [exact A|reflexivity|reflexivity| |].
    + intros b Hb. eapply in_cons_neq; [exact Hb|discriminate].
    + intros t' Et Lt. unfold live in *. destruct (aget EDone t' (exps w)) eqn:E'; try exact Lt.
      * eapply in_cons_neq; [exact Lt|]. intros [= Q]. subst t'. congruence.
      * destruct Lt as [L|L]; [left; eapply in_cons_neq; [exact L|discriminate]|right; exact L].
      * eapply in_cons_neq; [exact Lt|discriminate].
  - cbn. eapply alive_transfer; [exact A|reflexivity|reflexivity| |].
    + intros b Hb. eapply in_cons_neq; [exact Hb|discriminate].
    + intros t' Et Lt. unfold live in *. destruct (aget EDone t' (exps w)) eqn:E'; try exact Lt.
      * eapply in_cons_neq; [exact Lt|]. intros [= Q]. subst t'. congruence.
      * destruct Lt as [L|L]; [left; eapply in_cons_neq; [exact L|discriminate]|right; exact L].
      * eapply in_cons_neq; [exact Lt|discriminate].
  - cbn. eapply alive_transfer; [exact A|reflexivity|reflexivity| |].
    + intros b Hb. eapply in_cons_neq; [exact Hb|discriminate].
    + intros t' Et Lt. unfold live in *. destruct (aget EDone t' (exps w)) eqn:E'; try exact Lt.
      * eapply in_cons_neq; [exact Lt|]. intros [= Q]. subst t'. congruence.
      * destruct Lt as [L|L]; [left; eapply in_cons_neq; [exact L|discriminate]|right; exact L].
      * eapply in_cons_neq; [exact Lt|discriminate].
  - cbn. eapply alive_transfer; [exact A|reflexivity|reflexivity| |].
    + intros b Hb. eapply in_cons_neq; [exact Hb|discriminate].
    + intros t' Et Lt. unfold live in *. destruct (aget EDone t' (exps w)) eqn:E'; try exact Lt.
      * eapply in_cons_neq; [exact Lt|]. intros [= Q]. subst t'. congruence.
      * destruct Lt as [L|L]; [left; eapply in_cons_neq; [exact L|discriminate]|right; exact L].
      * eapply in_cons_neq; [exact Lt|discriminate].
Qed.

(* its timer fires: sleeping -> woken, the wake-up scheduled *)
Definition exp_timer (w : world) (t : nat) : R :=
  match aget EDone t (exps w) with
  | ESleeping o => Ok (call_soon (set_exp w t (EWoken o)) (CbExpWake t))
  | _ => Ok w end.

Ltac other_timer A E :=
  cbn; eapply alive_transfer; [exact A|reflexivity|reflexivity| |];
  [intros b Hb; eapply in_cons_neq; [exact Hb|discriminate]
  |intros t' Et Lt; unfold live in *; destruct (aget EDone t' (exps _)) eqn:E'; try exact Lt;
   [eapply in_cons_neq; [exact Lt|discriminate]
   |destruct Lt as [L|L]; [left; eapply in_cons_neq; [exact L|]; intros [= Q]; subst t'; congruence|right; exact L]
   |eapply in_cons_neq; [exact Lt|discriminate]]].

Lemma exp_timer_alive w t : AliveL (CbExpTimer t :: ready w) w -> RsatOk Alive (exp_timer w t).
Proof.
  intros A. unfold exp_timer. destruct (aget EDone t (exps w)) eqn:E; try (other_timer A E).
  cbn. eapply alive_transfer; [exact A|reflexivity|reflexivity| |].
  - intros b Hb. cbn. apply in_or_app. left. eapply in_cons_neq; [exact Hb|discriminate].
  - intros t' Et Lt. unfold live in *. cbn. rewrite aget_aset. destruct (Nat.eqb t' t) eqn:Q.
    + apply in_or_app. right. left. apply Nat.eqb_eq in Q. subst t'. reflexivity.
    + assert (N : t' <> t) by (apply Nat.eqb_neq; exact Q).
      destruct (aget EDone t' (exps w)); try exact Lt.
      * apply in_or_app. left. eapply in_cons_neq; [exact Lt|discriminate].
      * destruct Lt as [L|L]; [left; apply in_or_app; left; eapply in_cons_neq; [exact L|congruence]|right; exact L].
      * apply in_or_app. left. eapply in_cons_neq; [exact Lt|discriminate].
Qed.

Ltac other_wake A E :=
  cbn; eapply alive_transfer; [exact A|reflexivity|reflexivity| |];
  [intros b Hb; eapply in_cons_neq; [exact Hb|discriminate]
  |intros t' Et Lt; unfold live in *; destruct (aget EDone t' (exps _)) eqn:E'; try exact Lt;
   [eapply in_cons_neq; [exact Lt|discriminate]
   |destruct Lt as [L|L]; [left; eapply in_cons_neq; [exact L|discriminate]|right; exact L]
   |eapply in_cons_neq; [exact Lt|]; intros [= Q]; subst t'; congruence]].

(* woken: it moves the state machine on -- a retry or giving up -- through set_state *)
Lemma exp_wake_alive w t : AliveL (CbExpWake t :: ready w) w -> RsatOk Alive (exp_wake w t).
Proof.
  intros A. unfold exp_wake. destruct (aget EDone t (exps w)) as [| |old| | |] eqn:E; try (other_wake A E).
  set (w1 := set_mult (set_exp w t ERunning) (Nat.min MULT_CAP (S old))). clearbody w1.
  unfold assert at 1. destruct (is_sending_ok w1); cbn [bind]; [|exact I].
  assert (G : RsatOk HasEff (if Nat.ltb (txc (cx w1)) (txl (cx w1)) then set_state w1 WantEcho HTimedOut else set_state w1 Idle HExpired))
    by (destruct (Nat.ltb (txc (cx w1)) (txl (cx w1))); apply set_state_eff).
  destruct (if Nat.ltb (txc (cx w1)) (txl (cx w1)) then set_state w1 WantEcho HTimedOut else set_state w1 Idle HExpired) as [w3|n w3]; cbn [bind]; [|exact I].
  cbn in G. unfold assert. destruct (is_sending_ok w3); cbn [bind RsatOk]; [|exact I].
  apply HasEff_Alive. destruct G as [b Hb]. exists b. exact Hb.
Qed.

(* ---------------------------------------------------------------- every callback; every run *)
Definition AX (w w' : world) : Prop := exists l, trace w' = trace w ++ l /\ (forallb clean l = true -> Alive w').

Lemma AX_of w r : Rsat (tpre w) r -> RsatOk Alive r -> RsatOk (AX w) r.
Proof. destruct r as [w1|n w1]; cbn; [|intros _ _; exact I]. intros [l E] A. exists l. split; [exact E|intros _; exact A]. Qed.

Lemma caller_wake_AX w c : Alive w -> RsatOk (AX w) (caller_wake w c).
Proof.
  intros A. unfold caller_wake. destruct (aget CNone c (callers w)).
  - cbn. exists []. rewrite app_nil_r. split; [reflexivity|intros _; exact A].
  - cbn. eexists. split; [reflexivity|]. intros _. eapply keep_alive; [|exact A].
    unfold keep. cbn. repeat split; try reflexivity; auto. intros wh s t H. apply filter_keeps_exp_timers; [discriminate|exact H].
  - assert (G : RsatOk (post w) (match cur (cx w) with Some k => if Nat.eqb k c then set_state w Idle HExpired else Ok w | None => Ok w end)).
    { destruct (cur (cx w)) as [k|]; [|apply post_refl]. destruct (Nat.eqb k c); [apply set_state_post|apply post_refl]. }
    assert (G2 : Rsat (tpre w) (match cur (cx w) with Some k => if Nat.eqb k c then set_state w Idle HExpired else Ok w | None => Ok w end)).
    { destruct (cur (cx w)) as [k|]; [|apply tpre_refl]. destruct (Nat.eqb k c); [apply set_state_tpre|apply tpre_refl]. }
    destruct (match cur (cx w) with Some k => if Nat.eqb k c then set_state w Idle HExpired else Ok w | None => Ok w end) as [w1|n w1]; cbn in *.
    + destruct G2 as [l1 E1]. exists (l1 ++ [Done (now w1) c ErrSendFailed]). split; [change (trace w1 ++ [Done (now w1) c ErrSendFailed] = trace w ++ l1 ++ [Done (now w1) c ErrSendFailed]); rewrite E1, app_assoc; reflexivity|].
      intros _. eapply keep_alive; [|eapply post_alive; [exact G|exact A]]. keep_tac.
    + destruct G2 as [l1 E1]. exists (l1 ++ [Done (now w1) c ErrOther]). split; [change (trace w1 ++ [Done (now w1) c ErrOther] = trace w ++ l1 ++ [Done (now w1) c ErrOther]); rewrite E1, app_assoc; reflexivity|].
      rewrite forallb_app. cbn. rewrite andb_false_r. discriminate.
  - cbn. exists []. rewrite app_nil_r. split; [reflexivity|intros _; exact A].
  - cbn. eexists. split; [reflexivity|]. intros _. eapply keep_alive; [|exact A].
    unfold keep. cbn. repeat split; try reflexivity; auto. intros wh s t H. apply filter_keeps_exp_timers; [discriminate|exact H].
Qed.

Section Env3.
Variable cmds : cid -> cmdinfo.
Variable plan : nat -> wplan.

Lemma run_cb_AX w c : AliveL (c :: ready w) w -> RsatOk (AX w) (run_cb cmds plan w c).
Proof.
  intros A. pose proof (run_cb_tpre cmds plan w c) as TP.
  destruct c as [b| |t|t|t|c|n c|n c|c|c|c|e]; cbn [run_cb] in *; try (match goal with |- RsatOk _ (caller_wake _ _) => idtac | _ => apply AX_of; [exact TP|] end).
  - apply effect_state_alive.
  - apply (RsatOk_post_alive w); [refine (drop_irrelevant _ _ _ _ A); exact I|apply check_buffer_post].
  - apply exp_start_alive, A.
  - apply (exp_timer_alive w t A).
  - apply exp_wake_alive, A.
  - apply (RsatOk_post_alive w); [refine (drop_irrelevant _ _ _ _ A); exact I|]. unfold writer_start. destruct (w_lat (plan (nwrites w)) <=? 0).
    + eapply RsatOk_post_trans; [|apply do_write_post]. apply post_keep. keep_tac.
    + cbn. apply post_keep. keep_tac.
  - apply (RsatOk_post_alive w); [refine (drop_irrelevant _ _ _ _ A); exact I|]. cbn. apply post_keep. keep_tac.
  - apply (RsatOk_post_alive w); [refine (drop_irrelevant _ _ _ _ A); exact I|apply do_write_post].
  - apply (RsatOk_post_alive w); [refine (drop_irrelevant _ _ _ _ A); exact I|]. destruct (aget CNone c (callers w)); try apply post_refl. apply caller_start_post.
  - apply (RsatOk_post_alive w); [refine (drop_irrelevant _ _ _ _ A); exact I|apply caller_timer_post].
  - apply caller_wake_AX. refine (drop_irrelevant _ _ _ _ A); exact I.
  - apply (RsatOk_post_alive w); [refine (drop_irrelevant _ _ _ _ A); exact I|].
    destruct e as [k|p| | |d|k]; [cbn; apply post_keep; keep_tac|apply pkt_rcvd_post|apply conn_post|apply conn_post|cbn; apply post_keep; keep_tac|apply caller_cancel_post].
Qed.
End Env3.

Lemma ins_due_in lifo e l x : In x (e :: l) -> In x (ins_due lifo e l).
Proof.
  destruct e as [[t s] c0]. induction l as [|e' l IH]; [cbn; tauto|].
  destruct e' as [[t' s'] c']. cbn [ins_due].
  destruct ((t <? t') || ((t =? t') && (if lifo then Nat.ltb s' s else Nat.ltb s s'))); [tauto|].
  intros [H|[H|H]]; [right; apply IH; left; exact H|left; exact H|right; apply IH; right; exact H].
Qed.
Lemma sort_due_in lifo l x : In x l -> In x (fold_right (ins_due lifo) [] l).
Proof.
  induction l as [|e l IH]; cbn; [tauto|]. intros [H|H]; apply ins_due_in; [left; exact H|right; apply IH, H].
Qed.

(* crossing a batch boundary: due timers become ready callbacks; nothing pending is lost *)
Lemma boundary_alive lifo w w' : boundary lifo w = Some w' -> Alive w -> Alive w'.
Proof.
  unfold boundary.
  destruct (match ready w with
            | [] => match min_when (timers w) None with Some t => Some (Z.max t (now w)) | None => None end
            | _ :: _ => Some (now w) end) as [n|]; [|discriminate].
  intros [= <-] A. eapply alive_transfer; [exact A|reflexivity|reflexivity| |].
  - intros b Hb. cbn. apply in_or_app. left. exact Hb.
  - intros t Et Lt. unfold live in *. cbn. destruct (aget EDone t (exps w)); try exact Lt; try (apply in_or_app; left; exact Lt).
    destruct Lt as [L|(wh & s & L)]; [left; apply in_or_app; left; exact L|].
    destruct (wh <=? n) eqn:D.
    + left. apply in_or_app. right. apply in_map_iff. exists (wh, s, CbExpTimer t). split; [reflexivity|].
      apply sort_due_in. apply filter_In. split; [exact L|exact D].
    + right. exists wh, s. apply filter_In. split; [exact L|]. cbn. rewrite D. reflexivity.
Qed.

Section Env4.
Variable cmds : cid -> cmdinfo.
Variable plan : nat -> wplan.

Definition GoodA (w : world) : Prop := clean_tr (trace w) = true -> Alive w.

Lemma step_GoodA lifo w w' : GoodA w -> step cmds plan lifo w = Some w' -> GoodA w'.
Proof.
  intros G H Cw'. pose proof (step_tpre cmds plan lifo w w' H) as TP.
  pose proof (G (clean_tpre _ _ TP Cw')) as A. clear G.
  unfold step in H. destruct (batch w) as [|b].
  - eapply boundary_alive; eassumption.
  - destruct (ready w) as [|c r] eqn:Er.
    + eapply boundary_alive; eassumption.
    + set (w0 := upd_loop w (now w) r b (timers w) (seq w)) in *.
      assert (A0 : AliveL (c :: ready w0) w0) by (unfold Alive in A; rewrite Er in A; exact A).
      pose proof (run_cb_AX cmds plan w0 c A0) as X.
      destruct (run_cb cmds plan w0 c) as [w2|n w2]; injection H as <-.
      * cbn in X. destruct X as (l & E & X). change (trace w0) with (trace w) in E.
        unfold clean_tr in Cw'. rewrite E, forallb_app in Cw'. apply andb_prop in Cw' as (_ & Cl). exact (X Cl).
      * exfalso. unfold clean_tr in Cw'. cbn in Cw'. rewrite forallb_app in Cw'. cbn in Cw'. rewrite andb_false_r in Cw'. discriminate.
Qed.

Lemma run_GoodA lifo fuel : forall w, GoodA w -> GoodA (fst (run cmds plan lifo fuel w)).
Proof.
  induction fuel as [|fuel IH]; intros w G; cbn [run]; [exact G|].
  destruct (step cmds plan lifo w) as [w'|] eqn:E; [|exact G].
  apply IH. eapply step_GoodA; eassumption.
Qed.

Lemma GoodA_world0 evs : GoodA (world0 evs).
Proof. intros _. apply not_sending_alive. reflexivity. Qed.

(* In EVERY run -- any events (calls, packets, connection events, stalls, outside cancels), tie policy, transport behaviour, number of steps -- in which
   no internal assertion has tripped: while the state machine waits for an echo or a reply, a deferred effect_state or the live expiry task of that
   wait is pending ... *)
Theorem always_alive lifo fuel evs :
  let w := fst (run cmds plan lifo fuel (world0 evs)) in clean_tr (trace w) = true -> Alive w.
Proof. intros w C. exact (run_GoodA lifo fuel _ (GoodA_world0 evs) C). Qed.

(* ... so once the run has come to rest -- nothing ready to run, no timer armed -- the state machine is not waiting: it is idle, or inactive *)
Theorem at_rest_not_waiting lifo fuel evs :
  let w := fst (run cmds plan lifo fuel (world0 evs)) in
  clean_tr (trace w) = true -> ready w = [] -> timers w = [] -> state (cx w) = Idle \/ state (cx w) = Inactive.
Proof.
  intros w C R T. pose proof (always_alive lifo fuel evs C) as A. fold w in A. unfold Alive, AliveL in A. rewrite R in A.
  destruct (state (cx w)) eqn:S; [right; reflexivity|left; reflexivity| |];
    (exfalso; destruct (A eq_refl) as [[b []]|(t & _ & L)]; unfold live in L; rewrite T in L;
     destruct (aget EDone t (exps w)); try exact L; destruct L as [[]|(wh & s & [])]).
Qed.
End Env4.

(* the premises are met by ordinary runs that did wait: one command, echoed after 10 ms -- clean, at rest, idle; and by an unanswered one (given up) *)
Lemma at_rest_nonvacuous :
  let w := fst (run (cmd_a 0 20000000) echoed false 5000 (world0 [(0, ConnMade); (15625, Call 0%nat)])) in
  clean_tr (trace w) = true /\ ready w = [] /\ timers w = [] /\ state (cx w) = Idle /\ In (Write 15625 0%nat) (trace w).
Proof. vm_compute. repeat split; try reflexivity. left. reflexivity. Qed.
Lemma at_rest_nonvacuous_unanswered :
  let w := fst (run (cmd_a 3 20000000) silent false 5000 (world0 [(0, ConnMade); (15625, Call 0%nat)])) in
  clean_tr (trace w) = true /\ ready w = [] /\ timers w = [] /\ state (cx w) = Idle /\ length (trace w) = 5%nat.
Proof. vm_compute. repeat split; reflexivity. Qed.
