(* P_QosCallers -- "every caller has been answered": in EVERY run, tripped assertions included, a caller that is still to be answered has something
   pending that will answer it -- its wait_for timer (armed at the call) while it waits, and its wake-up once its future is settled, its timer has
   fired or it has been cancelled from outside.  So a run that has come to rest holds no unanswered caller. *)
From Coq Require Import ZArith List Bool Arith Lia.
From RV Require Import GenConsts M_Qos P_Qos P_QosOwner P_QosAlive.
Import ListNotations.
Open Scope Z_scope.

Definition timer_pending (L : list cb) (w : world) (c : cid) : Prop :=
  In (CbCallerTimer c) L \/ exists wh s, In (wh, s, CbCallerTimer c) (timers w).
Definition caller_live (L : list cb) (w : world) (c : cid) : Prop :=
  match aget CNone c (callers w) with
  | CWaiting => timer_pending L w c /\ (fut_done (fut_of w c) = true -> In (CbCallerWake c) L)
  | CTimedOut | CCancelled => In (CbCallerWake c) L
  | _ => True
  end.
Definition CLL (L : list cb) (w : world) : Prop := forall c, caller_live L w c.
Definition CL (w : world) : Prop := CLL (ready w) w.

(* a step that touches no caller's state: what is ready stays ready, callers' timers stay armed, and a future that changes is settled with its
   waiting caller's wake-up scheduled *)
Definition cpost (w w' : world) : Prop :=
  (forall x, In x (ready w) -> In x (ready w')) /\
  (forall wh s c, In (wh, s, CbCallerTimer c) (timers w) -> In (wh, s, CbCallerTimer c) (timers w')) /\
  callers w' = callers w /\
  (forall c, fut_of w' c = fut_of w c \/
             (fut_done (fut_of w' c) = true /\ (aget CNone c (callers w) = CWaiting -> In (CbCallerWake c) (ready w')))).

Lemma cpost_refl w : cpost w w.
Proof. repeat split; auto. Qed.
Lemma cpost_trans a b c : cpost a b -> cpost b c -> cpost a c.
Proof.
  intros (A1 & A2 & A3 & A4) (B1 & B2 & B3 & B4). repeat split; auto; [congruence|].
  intros k. destruct (B4 k) as [E|(D & W)].
  - destruct (A4 k) as [E'|(D' & W')]; [left; congruence|right]. split; [rewrite E; exact D'|]. intros H. apply B1, W', H.
  - right. split; [exact D|]. intros H. apply W. rewrite A3. exact H.
Qed.

Lemma cpost_CL w w' : cpost w w' -> CL w -> CL w'.
Proof.
  intros (R & T & C & F) H c. specialize (H c). unfold caller_live in *. rewrite C.
  destruct (aget CNone c (callers w)) eqn:E; try exact I; try (apply R, H).
  destruct H as (H1 & H2). split.
  - destruct H1 as [H1|(wh & s & H1)]; [left; apply R, H1|right; exists wh, s; apply T, H1].
  - intros D. destruct (F c) as [Q|(_ & W)]; [apply R, H2; rewrite <- Q; exact D|apply W; exact E].
Qed.

Lemma Rsat_cpost_trans a b r : cpost a b -> Rsat (cpost b) r -> Rsat (cpost a) r.
Proof. destruct r; cbn; apply cpost_trans. Qed.
Lemma Rsat_cpost_bind w r f : Rsat (cpost w) r -> (forall w1, Rsat (cpost w1) (f w1)) -> Rsat (cpost w) (bind r f).
Proof. destruct r as [w1|n w1]; cbn; intros H F; [eapply Rsat_cpost_trans; [exact H|apply F]|exact H]. Qed.
Lemma Rsat_cpost_assert b n w : Rsat (cpost w) (assert b n w).
Proof. unfold assert. destruct b; cbn; apply cpost_refl. Qed.
Lemma Rsat_cpost_assert_bind b n w f : (forall w1, Rsat (cpost w1) (f w1)) -> Rsat (cpost w) (bind (assert b n w) f).
Proof. intros F. apply Rsat_cpost_bind; [apply Rsat_cpost_assert|exact F]. Qed.

(* steps that change neither callers nor futures *)
Definition same_cf (w w' : world) : Prop :=
  (forall x, In x (ready w) -> In x (ready w')) /\
  (forall wh s c, In (wh, s, CbCallerTimer c) (timers w) -> In (wh, s, CbCallerTimer c) (timers w')) /\
  callers w' = callers w /\ futs w' = futs w.
Lemma same_cf_cpost w w' : same_cf w w' -> cpost w w'.
Proof. intros (A & B & C & D). repeat split; auto. intros c. left. unfold fut_of. rewrite D. reflexivity. Qed.
Ltac scf := apply same_cf_cpost; unfold same_cf; cbn; repeat split; try reflexivity; intros; try (apply in_or_app; left); assumption.

Lemma filter_keeps_caller_timers c ts wh s k :
  (forall u, c <> CbCallerTimer u) -> In (wh, s, CbCallerTimer k) ts -> In (wh, s, CbCallerTimer k) (filter (fun e : Z * nat * cb => negb (cb_eqb (snd e) c)) ts).
Proof.
  intros N H. apply filter_In. split; [exact H|]. cbn. destruct c; try reflexivity. exfalso. apply (N c). reflexivity.
Qed.

Lemma cancel_exp_cpost w t : cpost w (cancel_exp w t).
Proof.
  unfold cancel_exp. destruct (aget EDone t (exps w)); try apply cpost_refl; try scf.
  apply same_cf_cpost. unfold same_cf. cbn. repeat split; auto. intros wh s c H. apply filter_keeps_caller_timers; [discriminate|exact H].
Qed.

Lemma resolve_cpost w f x : fut_done x = true -> cpost w (resolve w f x).
Proof.
  intros D. unfold resolve.
  assert (Cs : callers (set_fut w f x) = callers w) by reflexivity. rewrite Cs.
  destruct (aget CNone f (callers w)) eqn:E; unfold cpost; cbn; (repeat split; [intros; try (apply in_or_app; left); assumption|auto|]);
    intros c; unfold fut_of; cbn; rewrite aget_aset; destruct (Nat.eqb c f) eqn:Q; try (left; reflexivity);
    right; (split; [exact D|]); apply Nat.eqb_eq in Q; subst c; rewrite E; intros; try discriminate.
  apply in_or_app. right. left. reflexivity.
Qed.

Lemma settle_cpost w h : Rsat (cpost w) (settle w h).
Proof.
  unfold settle.
  set (w1 := match expiry (cx w) with Some t => set_expiry (cancel_exp w t) None | None => w end).
  assert (E1 : cpost w w1).
  { subst w1. destruct (expiry (cx w)) as [t|]; [|apply cpost_refl]. eapply cpost_trans; [apply cancel_exp_cpost|]. scf. }
  clearbody w1. eapply Rsat_cpost_trans; [exact E1|].
  destruct (curfut (cx w1)) as [f|].
  2:{ apply Rsat_cpost_assert_bind. intros. apply Rsat_cpost_assert. }
  destruct (fut_of w1 f); destruct h;
    try (apply Rsat_cpost_assert);
    try (apply Rsat_cpost_assert_bind; intros; apply Rsat_cpost_assert);
    try (unfold assert; destruct (negb _); cbn; [|apply cpost_refl]; destruct (sending_state _); cbn; [apply resolve_cpost; reflexivity|apply cpost_refl]).
Qed.

Lemma switch_cpost w ns h : Rsat (cpost w) (switch w ns h).
Proof.
  unfold switch.
  assert (Fin : forall w2 : world, cpost w w2 ->
            Rsat (cpost w) (bind (assert (is_sending_ok w2) 13 w2) (fun w3 => Ok (call_soon w3 (CbEffect (is_timed_out h)))))).
  { intros w2 E. unfold assert. destruct (is_sending_ok w2); cbn; [|exact E]. eapply cpost_trans; [exact E|]. scf. }
  destruct (is_timed_out h).
  - cbn [bind]. apply Fin. scf.
  - destruct ns; cbn [bind]; try (apply Fin; scf).
    unfold assert at 1. destruct (is_some (cur (cx w))); cbn [bind Rsat]; [apply Fin; scf|apply cpost_refl].
Qed.

Lemma set_state_cpost w ns h : Rsat (cpost w) (set_state w ns h).
Proof. unfold set_state. apply Rsat_cpost_bind; [apply settle_cpost|intros; apply switch_cpost]. Qed.

Section Env.
Variable cmds : cid -> cmdinfo.
Variable plan : nat -> wplan.

Lemma send_cmd_cpost w c r : Rsat (cpost w) (send_cmd_ w c r).
Proof.
  unfold send_cmd_. destruct (state (cx w)); try apply set_state_cpost.
  - apply Rsat_cpost_assert_bind. intros w1. apply Rsat_cpost_bind.
    + eapply Rsat_cpost_trans; [|apply set_state_cpost]. scf.
    + intros w2. cbn. scf.
  - apply Rsat_cpost_assert_bind. intros w1. cbn. scf.
Qed.

Lemma dequeue_scf q : forall w, same_cf w (fst (dequeue w q)).
Proof.
  induction q as [|[[p s] c] q IH]; intros w; cbn [dequeue]; [unfold same_cf; cbn; repeat split; auto|].
  destruct (fut_done (fut_of w c)); [apply IH|unfold same_cf; cbn; repeat split; auto].
Qed.

Lemma check_buffer_cpost w : Rsat (cpost w) (check_buffer cmds w).
Proof.
  unfold check_buffer. apply Rsat_cpost_assert_bind. intros w1.
  destruct (match curfut (cx w1) with Some f => negb (fut_done (fut_of w1 f)) | None => false end); [apply cpost_refl|].
  pose proof (dequeue_scf (que (cx w1)) w1) as D.
  destruct (dequeue w1 (que (cx w1))) as [w2 oc]. cbn [fst] in D.
  destruct oc as [k|].
  - eapply Rsat_cpost_trans; [apply same_cf_cpost; exact D|]. eapply Rsat_cpost_trans; [|apply send_cmd_cpost]. scf.
  - cbn. eapply cpost_trans; [apply same_cf_cpost; exact D|]. scf.
Qed.

Lemma effect_state_cpost w b : Rsat (cpost w) (effect_state cmds w b).
Proof.
  unfold effect_state. apply Rsat_cpost_assert_bind. intros w1. apply Rsat_cpost_bind.
  - destruct b; [|apply cpost_refl]. destruct (cur (cx w1)); [apply send_cmd_cpost|apply cpost_refl].
  - intros w2. destruct (state (cx w2)).
    + apply cpost_refl.
    + cbn. scf.
    + cbn. scf.
    + destruct (cur (cx w2)) as [k|]; [|apply cpost_refl].
      destruct (negb (wfr (cmds k))); [|cbn; scf].
      destruct (echo (cx w2)); apply set_state_cpost.
Qed.

Lemma exp_start_cpost w t : Rsat (cpost w) (exp_start w t).
Proof.
  unfold exp_start. destruct (aget EDone t (exps w)); try apply cpost_refl.
  apply Rsat_cpost_assert_bind. intros w1. apply Rsat_cpost_assert_bind. intros w2. apply Rsat_cpost_assert_bind. intros w3.
  cbn. scf.
Qed.

Lemma exp_wake_cpost w t : Rsat (cpost w) (exp_wake w t).
Proof.
  unfold exp_wake. destruct (aget EDone t (exps w)) as [| |old| | |]; try apply cpost_refl.
  set (w1 := set_mult (set_exp w t ERunning) (Nat.min MULT_CAP (S old))).
  apply (Rsat_cpost_trans w w1); [scf|]. clearbody w1.
  apply Rsat_cpost_assert_bind. intros w2. apply Rsat_cpost_bind.
  - destruct (Nat.ltb (txc (cx w2)) (txl (cx w2))); apply set_state_cpost.
  - intros w3. apply Rsat_cpost_assert_bind. intros w4. cbn. scf.
Qed.

Lemma pkt_rcvd_cpost w p : Rsat (cpost w) (pkt_rcvd cmds w p).
Proof.
  unfold pkt_rcvd. destruct (state (cx w)).
  - apply Rsat_cpost_assert.
  - apply Rsat_cpost_assert.
  - destruct (sent (cx w)) as [k|]; [|apply cpost_refl].
    destruct (match rx_hdr (cmds k) with Some h => Nat.eqb (p_hdr p) h && p_dst_ok p | None => false end); [apply set_state_cpost|].
    destruct (negb (Nat.eqb (p_hdr p) (tx_hdr (cmds k)))); [apply cpost_refl|].
    destruct (rx_hdr (cmds k)); (eapply Rsat_cpost_trans; [|apply set_state_cpost]); scf.
  - destruct (sent (cx w)) as [k|]; [|apply cpost_refl]. destruct (echo (cx w)) as [e|]; [|apply cpost_refl].
    destruct (Nat.eqb (p_hdr p) (tx_hdr (cmds k)) && Nat.eqb (p_src p) (p_src e)); [apply cpost_refl|].
    destruct (rx_hdr (cmds k)) as [h|]; [|apply cpost_refl].
    destruct (null_ok (cmds k) p || Nat.eqb (p_hdr p) h); [apply set_state_cpost|apply cpost_refl].
Qed.

Lemma conn_cpost w : Rsat (cpost w) (conn_made w) /\ Rsat (cpost w) (conn_lost w).
Proof. unfold conn_made, conn_lost. split; destruct (state (cx w)); try apply cpost_refl; apply set_state_cpost. Qed.

Lemma do_write_cpost w n c : Rsat (cpost w) (do_write cmds plan w n c).
Proof.
  unfold do_write. destruct (w_fail (plan n)).
  { unfold fail_write. destruct (cur (cx w)) as [k|]; [|apply cpost_refl]. destruct (Nat.eqb k c); [|apply cpost_refl]. apply set_state_cpost. }
  cbn. apply same_cf_cpost. destruct (w_echo (plan n)); destruct (w_rply (plan n)); destruct (rx_hdr (cmds c)); unfold same_cf; cbn;
    repeat split; try reflexivity; intros; auto; repeat (apply in_or_app; left); assumption.
Qed.
End Env.

(* ---------------------------------------------------------------- the caller's own steps *)
Definition not_caller_cb (c : cb) : Prop := match c with CbCallerTimer _ | CbCallerWake _ => False | _ => True end.

Lemma others_live L cbx w w' c k :
  k <> c -> caller_live (cbx :: L) w k ->
  (cbx = CbCallerTimer c \/ cbx = CbCallerWake c \/ not_caller_cb cbx) ->
  aget CNone k (callers w') = aget CNone k (callers w) -> fut_of w' k = fut_of w k ->
  (forall x, In x L -> In x (ready w')) ->
  (forall wh s, In (wh, s, CbCallerTimer k) (timers w) -> In (wh, s, CbCallerTimer k) (timers w')) ->
  caller_live (ready w') w' k.
Proof.
  intros N H X C F R T. unfold caller_live in *. rewrite C, F.
  assert (W : forall y, (y = CbCallerTimer k \/ y = CbCallerWake k) -> In y (cbx :: L) -> In y (ready w')).
  { intros y Y [Q|Q]; [|apply R, Q]. exfalso.
    destruct Y as [Y|Y]; rewrite Y in Q; destruct X as [X|[X|X]]; rewrite Q in X; try discriminate X; try (injection X as X; congruence); exact X. }
  destruct (aget CNone k (callers w)); try exact I; try (apply W; [right; reflexivity|exact H]).
  destruct H as (H1 & H2). split.
  - destruct H1 as [H1|(wh & s & H1)]; [left; apply W; [left; reflexivity|exact H1]|right; exists wh, s; apply T, H1].
  - intros D. apply W; [right; reflexivity|apply H2, D].
Qed.

Lemma aget_set_other {A} (d : A) c v l k : k <> c -> aget d k (aset c v l) = aget d k l.
Proof. intros N. rewrite aget_aset. apply Nat.eqb_neq in N. rewrite N. reflexivity. Qed.
Lemma aget_set_same {A} (d : A) c v l : aget d c (aset c v l) = v.
Proof. rewrite aget_aset, Nat.eqb_refl. reflexivity. Qed.

Lemma drop_nc c r w : not_caller_cb c -> CLL (c :: r) w -> CLL r w.
Proof.
  intros X H k. specialize (H k). unfold caller_live in *.
  assert (W : forall y, (y = CbCallerTimer k \/ y = CbCallerWake k) -> In y (c :: r) -> In y r).
  { intros y Y [Q|Q]; [|exact Q]. exfalso. destruct Y as [Y|Y]; rewrite Y in Q; rewrite Q in X; exact X. }
  destruct (aget CNone k (callers w)); try exact I; try (apply W; [right; reflexivity|exact H]).
  destruct H as (H1 & H2). split.
  - destruct H1 as [H1|H1]; [left; apply W; [left; reflexivity|exact H1]|right; exact H1].
  - intros D. apply W; [right; reflexivity|apply H2, D].
Qed.

Section Env2.
Variable cmds : cid -> cmdinfo.
Variable plan : nat -> wplan.

Lemma caller_start_CL w c : aget CNone c (callers w) = CNone -> CL w -> Rsat CL (caller_start cmds w c).
Proof.
  intros E H. unfold caller_start.
  assert (Oth : forall w', (forall k, k <> c -> aget CNone k (callers w') = aget CNone k (callers w)) ->
                           (forall k, k <> c -> fut_of w' k = fut_of w k) ->
                           (forall x, In x (ready w) -> In x (ready w')) ->
                           (forall wh s k, In (wh, s, CbCallerTimer k) (timers w) -> In (wh, s, CbCallerTimer k) (timers w')) ->
                           caller_live (ready w') w' c -> CL w').
  { intros w' C F R T Hc k. destruct (Nat.eq_dec k c) as [->|N]; [exact Hc|].
    apply (others_live (ready w) CbCheckBuf w w' c k N); [|right; right; exact I|apply C, N|apply F, N|exact R|intros wh s; apply T].
    specialize (H k). unfold caller_live in *. destruct (aget CNone k (callers w)); try exact I; try (right; exact H).
    destruct H as (H1 & H2). split; [destruct H1 as [H1|H1]; [left; right; exact H1|right; exact H1]|intros D; right; apply H2, D]. }
  destruct (state (cx w)) eqn:S; cbn [Rsat].
  - apply Oth; cbn; auto; try (intros; apply aget_set_other; assumption). unfold caller_live. cbn. rewrite aget_set_same. exact I.
  - destruct (Nat.leb BUF_SIZE (length (que (cx w)))); cbn [Rsat]; apply Oth; cbn; rewrite ?S; cbn; auto;
      try (intros; apply aget_set_other; assumption); try (intros; unfold fut_of; cbn; apply aget_set_other; assumption);
      try (intros; apply in_or_app; left; assumption); try (intros; apply in_or_app; left; apply in_or_app; left; assumption);
      unfold caller_live; cbn; rewrite ?S; cbn; rewrite aget_set_same; try exact I.
    split; [right; eexists _, _; apply in_or_app; right; left; reflexivity|]. unfold fut_of. cbn. rewrite aget_set_same. discriminate.
  - destruct (Nat.leb BUF_SIZE (length (que (cx w)))); cbn [Rsat]; apply Oth; cbn; rewrite ?S; cbn; auto;
      try (intros; apply aget_set_other; assumption); try (intros; unfold fut_of; cbn; apply aget_set_other; assumption);
      try (intros; apply in_or_app; left; assumption);
      unfold caller_live; cbn; rewrite ?S; cbn; rewrite aget_set_same; try exact I.
    split; [right; eexists _, _; apply in_or_app; right; left; reflexivity|]. unfold fut_of. cbn. rewrite aget_set_same. discriminate.
  - destruct (Nat.leb BUF_SIZE (length (que (cx w)))); cbn [Rsat]; apply Oth; cbn; rewrite ?S; cbn; auto;
      try (intros; apply aget_set_other; assumption); try (intros; unfold fut_of; cbn; apply aget_set_other; assumption);
      try (intros; apply in_or_app; left; assumption);
      unfold caller_live; cbn; rewrite ?S; cbn; rewrite aget_set_same; try exact I.
    split; [right; eexists _, _; apply in_or_app; right; left; reflexivity|]. unfold fut_of. cbn. rewrite aget_set_same. discriminate.
Qed.
End Env2.

Lemma live_weaken cbx L w k : caller_live L w k -> caller_live (cbx :: L) w k.
Proof.
  unfold caller_live. destruct (aget CNone k (callers w)); try exact (fun x => x); try (intros H; right; exact H).
  intros (H1 & H2). split; [destruct H1 as [H1|H1]; [left; right; exact H1|right; exact H1]|intros D; right; apply H2, D].
Qed.

(* wait_for's timer: the waiting caller becomes timed out, its wake-up scheduled (or already scheduled by the settled future) *)
Lemma caller_timer_CL w c : CLL (CbCallerTimer c :: ready w) w -> Rsat CL (caller_timer w c).
Proof.
  intros H. unfold caller_timer.
  assert (Same : aget CNone c (callers w) <> CWaiting -> CL w).
  { intros NE k. destruct (Nat.eq_dec k c) as [->|N].
    - pose proof (H c) as Hc. unfold caller_live in *. destruct (aget CNone c (callers w)); try exact I; try congruence;
        (destruct Hc as [Q|Q]; [discriminate|exact Q]).
    - apply (others_live (ready w) (CbCallerTimer c) w w c k N (H k)); auto. }
  destruct (aget CNone c (callers w)) eqn:E; try (cbn; apply Same; discriminate).
  change (fut_of (set_caller w c CTimedOut) c) with (fut_of w c).
  pose proof (H c) as Hc. unfold caller_live in Hc. rewrite E in Hc. destruct Hc as (_ & Hw).
  destruct (fut_done (fut_of w c)) eqn:D; cbn; intros k; destruct (Nat.eq_dec k c) as [->|N].
  - unfold caller_live. cbn. rewrite aget_set_same. specialize (Hw eq_refl). destruct Hw as [Q|Q]; [discriminate|exact Q].
  - apply (others_live (ready w) (CbCallerTimer c) w _ c k N (H k)); auto. cbn. apply aget_set_other, N.
  - unfold caller_live. cbn. rewrite aget_set_same. apply in_or_app. right. left. reflexivity.
  - apply (others_live (ready w) (CbCallerTimer c) w _ c k N (H k)); auto.
    + cbn. apply aget_set_other, N.
    + unfold fut_of. cbn. apply aget_set_other, N.
    + intros x Hx. cbn. apply in_or_app. left. exact Hx.
Qed.

(* an outside cancel *)
Lemma caller_cancel_CL w c : CL w -> Rsat CL (caller_cancel w c).
Proof.
  intros H. unfold caller_cancel.
  assert (Hx : forall k, caller_live (CbCheckBuf :: ready w) w k) by (intros k; apply live_weaken, H).
  destruct (aget CNone c (callers w)) eqn:E; try exact H.
  - cbn. intros k. destruct (Nat.eq_dec k c) as [->|N]; [unfold caller_live; cbn; rewrite aget_set_same; exact I|].
    apply (others_live (ready w) CbCheckBuf w _ c k N (Hx k)); auto; [right; right; exact I|cbn; apply aget_set_other, N].
  - change (fut_of (set_caller w c CCancelled) c) with (fut_of w c).
    pose proof (H c) as Hc. unfold caller_live in Hc. rewrite E in Hc. destruct Hc as (_ & Hw).
    destruct (fut_done (fut_of w c)) eqn:D; cbn; intros k; destruct (Nat.eq_dec k c) as [->|N].
    + unfold caller_live. cbn. rewrite aget_set_same. apply Hw. reflexivity.
    + apply (others_live (ready w) CbCheckBuf w _ c k N (Hx k)); auto; [right; right; exact I|cbn; apply aget_set_other, N].
    + unfold caller_live. cbn. rewrite aget_set_same. apply in_or_app. right. left. reflexivity.
    + apply (others_live (ready w) CbCheckBuf w _ c k N (Hx k)); auto.
      * right; right; exact I.
      * cbn. apply aget_set_other, N.
      * unfold fut_of. cbn. apply aget_set_other, N.
      * intros x Hq. cbn. apply in_or_app. left. exact Hq.
  - cbn. intros k. destruct (Nat.eq_dec k c) as [->|N].
    + unfold caller_live. cbn. rewrite aget_set_same. pose proof (H c) as Hc. unfold caller_live in Hc. rewrite E in Hc. exact Hc.
    + apply (others_live (ready w) CbCheckBuf w _ c k N (Hx k)); auto; [right; right; exact I|cbn; apply aget_set_other, N].
Qed.

(* the wake-up answers the caller *)
Lemma caller_wake_CL w c : CLL (CbCallerWake c :: ready w) w -> Rsat CL (caller_wake w c).
Proof.
  intros H. unfold caller_wake.
  assert (Fin : forall w1 o, cpost w w1 -> CL (emit (set_caller w1 c CDone) o)).
  { intros w1 o (R & T & C & F) k. destruct (Nat.eq_dec k c) as [->|N]; [unfold caller_live; cbn; rewrite aget_set_same; exact I|].
    assert (L1 : caller_live (ready w1) w1 k).
    { pose proof (H k) as Hk. unfold caller_live in *. rewrite C.
      assert (W : forall y, (y = CbCallerTimer k \/ y = CbCallerWake k) -> In y (CbCallerWake c :: ready w) -> In y (ready w1)).
      { intros y Y [Q|Q]; [|apply R, Q]. exfalso. destruct Y as [Y|Y]; rewrite Y in Q; [discriminate|injection Q as Q; congruence]. }
      destruct (aget CNone k (callers w)) eqn:Ek; try exact I; try (apply W; [right; reflexivity|exact Hk]).
      destruct Hk as (H1 & H2). split.
      - destruct H1 as [H1|(wh & s & H1)]; [left; apply W; [left; reflexivity|exact H1]|right; exists wh, s; apply T, H1].
      - intros D. destruct (F k) as [Q|(_ & Wk)]; [apply W; [right; reflexivity|apply H2; rewrite <- Q; exact D]|apply Wk; exact Ek]. }
    unfold caller_live in *. cbn. rewrite aget_set_other by exact N. exact L1. }
  destruct (aget CNone c (callers w)) eqn:E.
  - cbn. intros k. destruct (Nat.eq_dec k c) as [->|N]; [unfold caller_live; rewrite E; exact I|apply (others_live (ready w) (CbCallerWake c) w w c k N (H k)); auto].
  - cbn. intros k. destruct (Nat.eq_dec k c) as [->|N]; [unfold caller_live; cbn; rewrite aget_set_same; exact I|].
    apply (others_live (ready w) (CbCallerWake c) w _ c k N (H k)); auto; [cbn; apply aget_set_other, N|].
    intros wh s Hq. cbn. apply filter_In. split; [exact Hq|]. cbn. apply Nat.eqb_neq in N. rewrite N. reflexivity.
  - pose proof (match cur (cx w) as o return Rsat (cpost w) (match o with Some k => if Nat.eqb k c then set_state w Idle HExpired else Ok w | None => Ok w end) with
                | Some k => if Nat.eqb k c as b return Rsat (cpost w) (if b then set_state w Idle HExpired else Ok w) then set_state_cpost w Idle HExpired else cpost_refl w
                | None => cpost_refl w end) as G.
    destruct (match cur (cx w) with Some k => if Nat.eqb k c then set_state w Idle HExpired else Ok w | None => Ok w end) as [w1|n w1]; cbn in *; apply Fin; exact G.
  - cbn. intros k. destruct (Nat.eq_dec k c) as [->|N]; [unfold caller_live; rewrite E; exact I|apply (others_live (ready w) (CbCallerWake c) w w c k N (H k)); auto].
  - cbn. intros k. destruct (Nat.eq_dec k c) as [->|N]; [unfold caller_live; cbn; rewrite aget_set_same; exact I|].
    apply (others_live (ready w) (CbCallerWake c) w _ c k N (H k)); auto; [cbn; apply aget_set_other, N|].
    intros wh s Hq. cbn. apply filter_In. split; [exact Hq|]. cbn. apply Nat.eqb_neq in N. rewrite N. reflexivity.
Qed.

(* ---------------------------------------------------------------- every callback; every run *)
Lemma Rsat_cpost_CL w r : CL w -> Rsat (cpost w) r -> Rsat CL r.
Proof. intros H. destruct r; cbn; intros P; eapply cpost_CL; eassumption. Qed.

Section Env3.
Variable cmds : cid -> cmdinfo.
Variable plan : nat -> wplan.

Lemma run_cb_CL w c : CLL (c :: ready w) w -> Rsat CL (run_cb cmds plan w c).
Proof.
  intros A.
  destruct c as [b| |t|t|t|c|n c|n c|c|c|c|e]; cbn [run_cb].
  - apply (Rsat_cpost_CL w); [refine (drop_nc _ _ _ _ A); exact I|apply effect_state_cpost].
  - apply (Rsat_cpost_CL w); [refine (drop_nc _ _ _ _ A); exact I|apply check_buffer_cpost].
  - apply (Rsat_cpost_CL w); [refine (drop_nc _ _ _ _ A); exact I|apply exp_start_cpost].
  - apply (Rsat_cpost_CL w); [refine (drop_nc _ _ _ _ A); exact I|]. destruct (aget EDone t (exps w)); cbn; try apply cpost_refl. scf.
  - apply (Rsat_cpost_CL w); [refine (drop_nc _ _ _ _ A); exact I|apply exp_wake_cpost].
  - apply (Rsat_cpost_CL w); [refine (drop_nc _ _ _ _ A); exact I|]. unfold writer_start. destruct (w_lat (plan (nwrites w)) <=? 0).
    + eapply Rsat_cpost_trans; [|apply do_write_cpost]. scf.
    + cbn. scf.
  - apply (Rsat_cpost_CL w); [refine (drop_nc _ _ _ _ A); exact I|]. cbn. scf.
  - apply (Rsat_cpost_CL w); [refine (drop_nc _ _ _ _ A); exact I|apply do_write_cpost].
  - assert (A0 : CL w) by (refine (drop_nc _ _ _ _ A); exact I).
    destruct (aget CNone c (callers w)) eqn:E; try exact A0. apply caller_start_CL; assumption.
  - apply caller_timer_CL, A.
  - apply caller_wake_CL, A.
  - assert (A0 : CL w) by (refine (drop_nc _ _ _ _ A); exact I).
    destruct e as [k|p| | |d|k].
    + cbn. eapply cpost_CL; [|exact A0]. scf.
    + apply (Rsat_cpost_CL w _ A0), pkt_rcvd_cpost.
    + apply (Rsat_cpost_CL w _ A0), conn_cpost.
    + apply (Rsat_cpost_CL w _ A0), conn_cpost.
    + cbn. eapply cpost_CL; [|exact A0]. scf.
    + apply caller_cancel_CL, A0.
Qed.

Lemma boundary_CL lifo w w' : boundary lifo w = Some w' -> CL w -> CL w'.
Proof.
  unfold boundary.
  destruct (match ready w with
            | [] => match min_when (timers w) None with Some t => Some (Z.max t (now w)) | None => None end
            | _ :: _ => Some (now w) end) as [n|]; [|discriminate].
  intros [= <-] A k. specialize (A k). unfold caller_live in *. cbn.
  destruct (aget CNone k (callers w)); try exact I; try (apply in_or_app; left; exact A).
  destruct A as (H1 & H2). split; [|intros D; apply in_or_app; left; apply H2, D].
  destruct H1 as [H1|(wh & s & H1)]; [left; apply in_or_app; left; exact H1|].
  destruct (wh <=? n) eqn:D.
  - left. apply in_or_app. right. apply in_map_iff. exists (wh, s, CbCallerTimer k). split; [reflexivity|].
    apply sort_due_in. apply filter_In. split; [exact H1|exact D].
  - right. exists wh, s. apply filter_In. split; [exact H1|]. cbn. rewrite D. reflexivity.
Qed.

Lemma step_CL lifo w w' : CL w -> step cmds plan lifo w = Some w' -> CL w'.
Proof.
  intros A H. unfold step in H. destruct (batch w) as [|b].
  - eapply boundary_CL; eassumption.
  - destruct (ready w) as [|c r] eqn:Er.
    + eapply boundary_CL; eassumption.
    + set (w0 := upd_loop w (now w) r b (timers w) (seq w)) in *.
      assert (A0 : CLL (c :: ready w0) w0) by (unfold CL in A; rewrite Er in A; exact A).
      pose proof (run_cb_CL w0 c A0) as X.
      destruct (run_cb cmds plan w0 c) as [w2|n w2]; injection H as <-; cbn in X; [exact X|].
      intros k. specialize (X k). exact X.
Qed.

Lemma run_CL lifo fuel : forall w, CL w -> CL (fst (run cmds plan lifo fuel w)).
Proof.
  induction fuel as [|fuel IH]; intros w G; cbn [run]; [exact G|].
  destruct (step cmds plan lifo w) as [w'|] eqn:E; [|exact G].
  apply IH. eapply step_CL; eassumption.
Qed.

Lemma CL_world0 evs : CL (world0 evs).
Proof. intros k. unfold caller_live. cbn. exact I. Qed.

(* In EVERY run -- any events, tie policy, transport behaviour, number of steps, tripped assertions INCLUDED -- a caller still to be answered has its
   wait_for timer or its wake-up pending ... *)
Theorem callers_always_live lifo fuel evs : CL (fst (run cmds plan lifo fuel (world0 evs))).
Proof. apply run_CL, CL_world0. Qed.

(* ... so once the run has come to rest -- nothing ready to run, no timer armed -- no caller is waiting, timed out or cancelled and still unanswered:
   every caller that started has been answered *)
Theorem at_rest_all_answered lifo fuel evs c :
  let w := fst (run cmds plan lifo fuel (world0 evs)) in
  ready w = [] -> timers w = [] -> aget CNone c (callers w) = CNone \/ aget CNone c (callers w) = CDone.
Proof.
  intros w R T. pose proof (callers_always_live lifo fuel evs c) as A. fold w in A. unfold caller_live, timer_pending in A.
  destruct (aget CNone c (callers w)); try (left; reflexivity); try (right; reflexivity); rewrite ?R, ?T in A; try (destruct A; fail).
  destruct A as ([[]|(wh & s & [])] & _).
Qed.
End Env3.

(* the run of P_QosAlive.at_rest_nonvacuous: its caller has been answered -- and so has the one nobody answers *)
Lemma all_answered_nonvacuous :
  (let w := fst (run (cmd_a 0 20000000) echoed false 5000 (world0 [(0, ConnMade); (15625, Call 0%nat)])) in
   ready w = [] /\ timers w = [] /\ aget CNone 0%nat (callers w) = CDone /\ has_done 0%nat (trace w)) /\
  (let w := fst (run (cmd_a 3 20000000) silent false 5000 (world0 [(0, ConnMade); (15625, Call 0%nat)])) in
   ready w = [] /\ timers w = [] /\ aget CNone 0%nat (callers w) = CDone /\ has_done 0%nat (trace w)).
Proof. split; vm_compute; repeat split; try reflexivity; eexists _, _; [right; left; reflexivity|do 4 right; left; reflexivity]. Qed.
