From Coq Require Import ZArith List Bool Lia.
From RV Require Import GenConsts M_SyncAvoid.
Import ListNotations.
Open Scope Z_scope.

(* an announcement holds writes only inside its window: never once its time has come (whatever became of the controller: its next
   announcement may never be heard), never earlier than the window *)
Theorem never_held_once_due due now : due - SYNC_WINDOW_LOWER_us <= now -> imminent due now = false.
Proof. unfold imminent. intros H. destruct (SYNC_WINDOW_LOWER_us <? due - now) eqn:E; [apply Z.ltb_lt in E; lia|reflexivity]. Qed.
Theorem never_held_early due now : now <= due - SYNC_WINDOW_UPPER_us -> imminent due now = false.
Proof. unfold imminent. intros H. destruct (due - now <? SYNC_WINDOW_UPPER_us) eqn:E; [apply Z.ltb_lt in E; lia|apply andb_false_r]. Qed.
Theorem held_inside_the_window due now : due - SYNC_WINDOW_UPPER_us < now < due - SYNC_WINDOW_LOWER_us -> imminent due now = true.
Proof. unfold imminent. intros [A B]. apply andb_true_intro. split; apply Z.ltb_lt; lia. Qed.

(* so the wait for one announcement ends, at the window's end at the latest (plus one sleep), and a write offered once the time has come is
   not held at all *)
Lemma hold_not_held fuel dues now : any_imminent dues now = false -> hold fuel dues now = now.
Proof. destruct fuel; cbn; [reflexivity|]. intros ->. reflexivity. Qed.
Lemma hold_one_aux : forall fuel due now, due - SYNC_WINDOW_LOWER_us - now <= Z.of_nat fuel * SYNC_WAIT_SHORT_us ->
  imminent due (hold fuel [due] now) = false /\ now <= hold fuel [due] now <= Z.max now (due - SYNC_WINDOW_LOWER_us + SYNC_WAIT_SHORT_us).
Proof.
  induction fuel as [|f IH]; intros due now H.
  - cbn [hold]. split; [apply never_held_once_due; lia|lia].
  - cbn [hold any_imminent existsb]. rewrite orb_false_r. destruct (imminent due now) eqn:E.
    + pose proof E as E'. unfold imminent in E'. apply andb_prop in E' as [E1 E2]. apply Z.ltb_lt in E1. apply Z.ltb_lt in E2.
      destruct (IH due (now + SYNC_WAIT_SHORT_us)) as (A & B); [unfold SYNC_WAIT_SHORT_us in *; lia|].
      split; [exact A|]. unfold SYNC_WAIT_SHORT_us in *. lia.
    + split; [exact E|lia].
Qed.
Theorem hold_one_bounded : forall fuel due now, (12 <= fuel)%nat ->
  imminent due (hold fuel [due] now) = false /\ now <= hold fuel [due] now <= Z.max now (due - SYNC_WINDOW_LOWER_us + SYNC_WAIT_SHORT_us).
Proof.
  intros fuel due now F. destruct (imminent due now) eqn:E.
  - apply hold_one_aux. unfold imminent in E. apply andb_prop in E as [E1 E2]. apply Z.ltb_lt in E1. apply Z.ltb_lt in E2.
    unfold SYNC_WINDOW_UPPER_us, SYNC_WINDOW_LOWER_us, SYNC_WAIT_SHORT_us in *. lia.
  - rewrite hold_not_held by (cbn; rewrite E; reflexivity). split; [exact E|lia].
Qed.

(* the slip "no lower bound": an announcement whose time has come, and that is not followed by another one, holds every write for ever *)
Theorem one_sided_holds_for_ever due now : due <= now -> imminent_one_sided due now = true.
Proof. unfold imminent_one_sided, SYNC_WINDOW_UPPER_us. intros H. apply Z.ltb_lt. lia. Qed.
