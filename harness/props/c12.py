"""C12 -- active discovery reconstructs the controller's configuration.

Coq: a conforming controller's replies, what the polling tables ask given what is known, what is learnt from a
reply; soundness, monotonicity, and completeness after two loss-free rounds from any state (so losses only delay).
Tie: (a) the real gateway fed RQ/RP pairs of a generated configuration in arbitrary order vs the model's `learn`,
schema compared after every reply; (b) the discovery requests a whole gateway writes vs the model's `requests`.
Oracle: the whole Gateway with discovery enabled on a virtual loop against a scripted controller, with loss
patterns: the schema must only grow, stay true, and equal the configuration in the end."""

from __future__ import annotations

import datetime as _dt
import json
import logging
import multiprocessing as mp
import random
import re

from .. import common, disc, gw
from ..common import Ctx

THEOREMS = ["C12_learn_sound", "C12_nothing_lost", "C12_rounds_sound", "C12_two_rounds_complete", "C12_loss_only_delays"]

CLSN = {"radiator_valve": "RAD", "zone_valve": "VAL", "mixing_valve": "MIX", "electric_heat": "ELE"}
ROLE = {"08": "Some RAD", "0A": "Some VAL", "0B": "Some MIX", "11": "Some ELE", "00": "None"}
PRELUDE = """From Coq Require Import List Bool Arith.
From RV Require Import M_Discover.
Import ListNotations.
Set Printing Width 1000000. Set Printing Depth 1000000.
Definition on (o : option nat) : nat := match o with Some x => x | None => 0 end.
Definition cn (o : option cls) : nat := match o with None => 0 | Some RAD => 1 | Some VAL => 2 | Some MIX => 3 | Some ELE => 4 end.
Definition show (k : known) : list (list nat) :=
  flat_map (fun i => match k_zones k i with Some (mkKz None None []) => [] | Some z => [i :: cn (kz_cls z) :: on (kz_sensor z) :: kz_acts z] | None => [] end) (seq 0 N)
  ++ [[99; on (k_dhw_sensor k); on (k_dhw_valve k); on (k_htg_valve k); on (k_app k)]].
Fixpoint trace (g : cfg) (k : known) (qs : list rq) : list (list (list nat)) :=
  match qs with [] => [] | q :: r => let k1 := learn k q (reply g q) in show k1 :: trace g k1 r end.
Definition rqn (q : rq) : list nat :=
  match q with RqZones c => [1; cn (Some c)] | RqSensors => [2] | RqZoneAct i r => [3; i; cn r] | RqZoneSen i => [4; i]
             | RqDhwSensor => [5] | RqDhwValve => [6] | RqHtgValve => [7] | RqApp => [8] end.
"""


def oc(d):
    return f"(Some {disc.dev_no(d)})" if d else "None"


def cfg_coq(cfg):
    zs = []
    for i in range(12):
        z = cfg["zones"].get(f"{i:02X}")
        zs.append("None" if z is None else f"Some (mkCz {CLSN[z['class']]} {oc(z.get('sensor'))} [{'; '.join(str(disc.dev_no(a)) for a in z['actuators'])}])")
    d = cfg.get("dhw", {})
    return f"(mkCfg (fun i => nth i [{'; '.join(zs)}] None) {oc(d.get('sensor'))} {oc(d.get('dhw_valve'))} {oc(d.get('htg_valve'))} {oc(cfg.get('appliance'))})"


def rq_coq(code, pl):
    if code == "0005":
        return "RqSensors" if pl[2:4] == "04" else f"RqZones {ROLE[pl[2:4]][5:]}"
    idx, role = int(pl[:2], 16), pl[2:4]
    if role == "04":
        return f"RqZoneSen {idx}"
    if role in ROLE:
        return f"RqZoneAct {idx} ({ROLE[role]})"
    return {"000F": "RqApp", "000D": "RqDhwSensor", "000E": "RqDhwValve", "010E": "RqHtgValve"}[pl]


def rq_key(code, pl):
    """The model's numbering of a written request (rqn), or None for requests outside the model."""
    cno = {"08": 1, "0A": 2, "0B": 3, "11": 4, "00": 0}
    if code == "0005":
        return (2,) if pl[2:4] == "04" else (1, cno[pl[2:4]]) if pl[2:4] in cno and pl[2:4] != "00" else None
    if code != "000C":
        return None
    idx, role = int(pl[:2], 16), pl[2:4]
    if pl in ("000F", "000D", "000E", "010E"):
        return {"000F": (8,), "000D": (5,), "000E": (6,), "010E": (7,)}[pl]
    if role == "04":
        return (4, idx)
    if role in cno:
        return (3, idx, cno[role])
    return None


def all_requests():
    rq = [("0005", f"00{zt}") for zt in ("08", "0A", "0B", "11", "04")]
    rq += [("000C", f"{i:02X}{r}") for i in range(12) for r in ("00", "04", "08", "0A", "0B", "11")]
    rq += [("000C", p) for p in ("000F", "000D", "000E", "010E")]
    return rq


def rows_of(o):
    """The observed schema parts as the rows the model prints."""
    rows = []
    for i, z in sorted((o.get("zones") or {}).items()):
        rows.append([int(i, 16), disc.CLS_NO.get(z.get("class"), 0), disc.dev_no(z["sensor"]) if z.get("sensor") else 0]
                    + sorted(disc.dev_no(a) for a in z.get("actuators", [])))
    hw = o.get("stored_hotwater", {})
    rows.append([99] + [disc.dev_no(hw[k]) if hw.get(k) else 0 for k in ("sensor", "hotwater_valve", "heating_valve")]
                + [disc.dev_no(o["system"]["appliance_control"]) if o.get("system") else 0])
    return rows


async def feed(cfg, seq):
    """RQ/RP pairs of the configuration, in the given order, into a replay gateway; the schema after each reply."""
    gwy = await gw.make_gateway([], None)
    tr, t, out = gwy._transport, disc.EPOCH, []
    for code, pl in seq:
        rp = disc.reply(cfg, code, pl)
        for ln in (f"000 RQ --- {disc.HGI} {disc.CTL} --:------ {code} {len(pl) // 2:03d} {pl}",
                   f"045 RP --- {disc.CTL} {disc.HGI} --:------ {code} {len(rp) // 2:03d} {rp}"):
            t += _dt.timedelta(seconds=1)
            tr._frame_read(t.isoformat(timespec="microseconds"), ln)
            await gw.settle(6)
        out.append(rows_of(disc.observed(gwy)))
    await gwy.stop()
    return out


LOSSES = {
    "none": (lambda a: (lambda n, t, c, p: None), 0.3),
    "first-k-topology-replies": (lambda a: (lambda n, t, c, p, st={"k": 0}: (st.__setitem__("k", st["k"] + 1) or "rp") if c in ("0005", "000C") and st["k"] < a else None), 50),
    "every-mth-reply": (lambda a: (lambda n, t, c, p: "rp" if n % a == 0 and t < 30 * 3600 else None), 52),
    "all-0005-replies-early": (lambda a: (lambda n, t, c, p: "rp" if c == "0005" and t < a * 3600 else None), 50),
    "everything-lost-early": (lambda a: (lambda n, t, c, p: "rp" if t < a * 3600 else None), 50),
    "zone-replies-lost-early": (lambda a: (lambda n, t, c, p: "rp" if c == "000C" and t < a * 3600 else None), 50),
    # lost REQUESTS: the frame is never transmitted, so not even its echo comes back (the sender retries with a growing echo timeout)
    "first-k-requests-unsent": (lambda a: (lambda n, t, c, p: "rq" if n < a else None), 50),
    "requests-unsent-early": (lambda a: (lambda n, t, c, p: "rq" if t < a * 3600 else None), 50),
}
# exactly one reply is lost, once: the reply to the first request with this (code, payload) -- a fault at every point of the first round
LOSSES["one-reply-lost"] = (lambda a: (lambda n, t, c, p, st={"done": False}: (st.__setitem__("done", True) or "rp") if (c, p) == tuple(a) and not st["done"] else None), 50)
# ... or the replies to its first TWO occurrences (lost in the first and in the second polling round): the third round fills it in
LOSSES["one-reply-lost-twice"] = (lambda a: (lambda n, t, c, p, st={"k": 0}: (st.__setitem__("k", st["k"] + 1) or "rp") if (c, p) == tuple(a) and st["k"] < 2 else None), 76)
LOSS_ARGS = {"none": [0], "first-k-topology-replies": [1, 3, 8, 15], "every-mth-reply": [2, 3, 5], "all-0005-replies-early": [0.01, 0.2, 1.0],
             "everything-lost-early": [0.01, 0.5, 7.0], "zone-replies-lost-early": [0.02, 0.5, 2.0],
             "first-k-requests-unsent": [1, 4, 8, 12, 20], "requests-unsent-early": [0.002, 0.01, 0.2]}


def poller_shape():
    """The model's rounds never end: a failed send must not end an entity's poller.  Read from the source (AST): the send in
    _Discovery.discover() is fenced against BOTH the protocol's error and its own wait_for time-out, and the poller is an endless loop."""
    import ast  # noqa: PLC0415
    import inspect  # noqa: PLC0415

    import ramses_rf.entity_base as eb  # noqa: PLC0415

    tree = ast.parse(inspect.getsource(eb))
    cls = next((n for n in ast.walk(tree) if isinstance(n, ast.ClassDef) and n.name == "_Discovery"), None)
    if cls is None:
        return "class _Discovery not found"
    fns = {n.name: n for n in ast.walk(cls) if isinstance(n, ast.AsyncFunctionDef)}
    for name in ("_poll_discovery_cmds", "discover", "send_disc_cmd"):
        if name not in fns:
            return f"{name} not found"
    poll = fns["_poll_discovery_cmds"]
    loops = [n for n in poll.body if isinstance(n, ast.While) and isinstance(n.test, ast.Constant) and n.test.value is True]
    if not loops or "await self.discover()" not in ast.unparse(loops[0]) or any(isinstance(n, ast.Break | ast.Return) for n in ast.walk(loops[0])):
        return "_poll_discovery_cmds is no longer `while True: await self.discover() ...` without break/return"
    tries = [n for n in ast.walk(fns["send_disc_cmd"]) if isinstance(n, ast.Try) and "async_send_cmd" in ast.unparse(n.body)]
    if not tries:
        return "send_disc_cmd: the send is no longer inside a try"
    # the round walks a SNAPSHOT of the polling table: a reply handled during one of its sends may extend the table (fix 085bef6)
    fors = [n for n in ast.walk(fns["discover"]) if isinstance(n, ast.For) and "discovery_cmds" in ast.unparse(n.iter)]
    if not fors or not any(ast.unparse(n.iter).startswith(("list(", "tuple(", "sorted(")) or ".copy()" in ast.unparse(n.iter) for n in fors):
        return "discover() iterates over the live polling table: a reply that extends it during a send ends the poller (RuntimeError: dictionary changed size during iteration)"
    caught = {ast.unparse(h.type) if h.type is not None else "*" for h in tries[0].handlers}
    reraise = any(isinstance(n, ast.Raise) for h in tries[0].handlers for n in ast.walk(h))
    if not ({"exc.ProtocolError", "TimeoutError"} <= caught or "*" in caught or "Exception" in caught) or reraise:
        return f"send_disc_cmd fences the send against {sorted(caught)}{' and re-raises' if reraise else ''}: a protocol error or the wait_for time-out would end the poller"
    return ""


def discovery_job(job):
    """One whole-gateway discovery run (in a worker process)."""
    logging.disable(logging.CRITICAL)
    cfg, kind, arg, hours, *rest = job
    lose = LOSSES[kind][0](arg)
    probes = sorted({round(hours * f, 3) for f in (0.005, 0.1, 0.45, 0.52)})
    try:
        obs = disc.run_discovery(cfg, lose, hours, probe_hours=probes, first_sync=rest[0] if rest else None)
    except Exception as err:  # noqa: BLE001
        import traceback  # noqa: PLC0415
        return {"error": f"{type(err).__name__}: {err}", "tb": traceback.format_exc()[-600:]}
    topo = sorted({(w[3], w[4]) for w in obs["writes"] if w[1] == "RQ" and w[2] == disc.CTL and w[3] in ("0005", "000C")})
    return {"snaps": obs["snaps"], "errs": obs["errs"][:5], "n_writes": len(obs["writes"]), "topology_rqs": topo, "dead_pollers": obs.get("dead_pollers", [])}


def below(a, b):
    """Is the observed schema part a contained in b (nothing that b does not say)?"""
    if (a.get("system") or {}) != {} and a.get("system") != b.get("system"):
        return False
    for k, v in (a.get("stored_hotwater") or {}).items():
        if (b.get("stored_hotwater") or {}).get(k) != v:
            return False
    for i, z in (a.get("zones") or {}).items():
        bz = (b.get("zones") or {}).get(i)
        if bz is None:
            return False
        if z.get("class") and z["class"] != bz.get("class"):
            return False
        if z.get("sensor") and z["sensor"] != bz.get("sensor"):
            return False
        if not set(z.get("actuators", [])) <= set(bz.get("actuators", [])):
            return False
    return True


def run(ctx: Ctx) -> None:
    logging.disable(logging.CRITICAL)
    thorough = ctx.tier == "thorough"
    rng = ctx.rng
    ctx.rule = ("(a) generated configurations (any subset of zones 00-0B of class radiator/zone-valve/electric/mixing, sensors of every permitted type incl. "
                "the controller and a TRV that is also an actuator, 0-8 actuators, DHW parts, relay/OpenTherm appliance control or none): the RQ/RP pairs of a "
                "conforming controller fed to a real gateway in ARBITRARY order vs the model's learn, the schema compared after every reply; (b) the whole "
                "Gateway with discovery enabled and no schema on a virtual loop against the scripted controller, with loss patterns (first k topology replies, "
                "every m-th reply during the first 30 h, all 0005 / all 000C / everything lost for the first minutes-hours): at five probe times the schema must be contained in the "
                "configuration and contain the previous probe's, and at the end equal it; the 0005/000C requests written are compared with the model's polling "
                "tables; non-trivial = a configuration with at least one zone; distinct = by configuration and loss pattern")
    ctx.assumptions += ["UFH zones are outside the property's quantifier and outside the model",
                        "the model's round is an under-approximation of the implementation's timing: requests of a round are those of the tables at its start "
                        "(the implementation starts polling a new zone at once); due-times, back-off and the 24 h interval are not modelled -- the oracle (b) runs them for real",
                        "the scripted controller answers 0005/000C as disc.reply does (masks little-endian over 16 bits, 7FFFFFFF for 'no device')"]
    built = ctx.build("C12", THEOREMS)

    # (a) learn correspondence
    n_a = 160 if thorough else 40
    cases = []
    for _ in range(n_a):
        cfg = disc.gen_cfg(rng, max_act=rng.choice([2, 4, 8]))
        seq = all_requests()
        rng.shuffle(seq)
        seq = seq[:rng.randint(10, len(seq))]
        res, _errs = gw.run_async(feed, cfg, seq)
        cases.append((cfg, seq, res))
        ctx.case(("learn", json.dumps(cfg, sort_keys=True), tuple(seq)), bool(cfg["zones"]), "replies-in-arbitrary-order")
        # the property on the implementation: never anything the controller did not say, never anything lost
        exp = rows_of(disc.expected(cfg))
        prev = None
        for k, rows in enumerate(res):
            o = {tuple(r[:1]): r for r in rows}
            for r in rows:
                e = next((x for x in exp if x[0] == r[0]), None)
                ok = e is not None and (r[0] == 99 and all(a in (0, b) for a, b in zip(r[1:], e[1:]))
                                        or r[0] != 99 and r[1] in (0, e[1]) and r[2] in (0, e[2]) and set(r[3:]) <= set(e[3:]))
                if not ok:
                    ctx.violation("learnt-something-the-controller-did-not-say", f"after reply {seq[k]} -> {disc.reply(cfg, *seq[k])} the schema row {r} is not part of the configuration {e}",
                                  {"cfg": cfg, "requests": seq[:k + 1]}, "configuration")
            if prev is not None:
                for r in prev:
                    n = o.get((r[0],))
                    if n is None or (r[0] != 99 and (r[1] not in (0, n[1]) or r[2] not in (0, n[2]) or not set(r[3:]) <= set(n[3:]))) \
                            or (r[0] == 99 and any(a not in (0, b) for a, b in zip(r[1:], n[1:]))):
                        ctx.violation("something-learnt-was-lost", f"after reply {seq[k]} the schema row {r} became {n}", {"cfg": cfg, "requests": seq[:k + 1]}, "configuration")
            prev = rows
    if built:
        files = {f"s{i}": PRELUDE + "".join(f"Eval vm_compute in (trace {cfg_coq(c)} k0 [{'; '.join(rq_coq(*q) for q in s)}]).\n" for c, s, _ in cases[i::8]) for i in range(8)}
        res = common.coq_eval("C12", files, timeout=600)
        bad, total = [], 0
        for i in range(8):
            rc, out = res[f"s{i}"]
            mine = cases[i::8]
            got = [eval(o.replace(";", ","), {"__builtins__": {}}) for o in re.findall(r"=\s*(\[.*?\])\s*:\s*list \(list \(list nat\)\)", out, flags=re.S)]  # noqa: S307
            if rc or len(got) != len(mine):
                bad.append(f"rc={rc}, {len(got)} results for {len(mine)} cases: {out[-300:]}")
                break
            for (cfg, seq, rows), g in zip(mine, got):
                total += 1
                for k, (a, b) in enumerate(zip(g, rows)):
                    a = [list(x) if x[0] == 99 else list(x[:3]) + sorted(x[3:]) for x in a]
                    if a != b:
                        bad.append(f"reply {k} {seq[k]} -> {disc.reply(cfg, *seq[k])}: model {a} implementation {b}; cfg {json.dumps(cfg)[:300]}")
                        break
        ctx.obligation("correspondence:learn", not bad, "correspondence", f"{len(bad)} of {total} differ; first: {bad[0][:700]}" if bad else f"{total} configurations x shuffled request sequences agree after every reply")
    else:
        ctx.obligation("correspondence:learn", False, "correspondence", "model not built")

    why = poller_shape()
    ctx.obligation("translator:poller-survives-a-failed-send", not why, "translator", why or "send_disc_cmd catches exc.ProtocolError and TimeoutError, the poller loops for ever")
    # (b) the whole gateway with discovery enabled
    jobs = []
    witness = {"zones": {"01": {"class": "radiator_valve", "actuators": ["04:100001"], "sensor": disc.CTL},
                         "02": {"class": "radiator_valve", "actuators": ["04:100002"], "sensor": disc.CTL}}}
    jobs.append((witness, "none", 0, 0.3))
    n_b = 60 if thorough else 14
    kinds = [k for k in LOSSES if k not in ("none", "one-reply-lost", "one-reply-lost-twice")]
    for j in range(n_b):
        cfg = disc.gen_cfg(rng, nzones=rng.choice([0, 1, 2, 3, 5, 8, 12]) if j % 3 else None, max_act=rng.choice([1, 3, 8]), ctl_sensor_once=True)
        kind = "none" if j % 4 == 0 else kinds[j % len(kinds)]
        arg = rng.choice(LOSS_ARGS[kind])
        jobs.append((cfg, kind, arg, LOSSES[kind][1]))
    # the single-loss sweep: for every topology request of the first round of a configuration (zones with a sensor AND actuators, DHW, appliance),
    # a run in which only the reply to that request is lost, once
    for _ in range(3 if thorough else 1):
        cfg = disc.gen_cfg(rng, nzones=3 if not thorough else rng.choice([3, 4, 5]), max_act=2, ctl_sensor_once=True)
        for j, z in enumerate(cfg["zones"].values()):
            # one zone with a sensor and actuators, one with a sensor and NO actuator, one with actuators and NO sensor (an empty slot beside a full one), ...
            if j % 3 != 2:
                z.setdefault("sensor", f"34:{100500 + j:06d}")
            else:
                z.pop("sensor", None)
            if j % 3 == 1:
                z["actuators"] = []
            elif not z.get("actuators"):
                z["actuators"] = [f"{'04' if z['class'] == 'radiator_valve' else '13'}:{100600 + j:06d}"]
        first = disc.run_discovery(cfg, None, 0.05)
        rqs = sorted({(w[3], w[4]) for w in first["writes"] if w[1] == "RQ" and w[2] == disc.CTL and w[3] in ("0005", "000C")})
        for rq in rqs:
            jobs.append((cfg, "one-reply-lost", list(rq), LOSSES["one-reply-lost"][1]))
            if rq[0] == "000C":
                jobs.append((cfg, "one-reply-lost-twice", list(rq), LOSSES["one-reply-lost-twice"][1]))
    # "no prior schema": not even the controller's id is given -- the gateway learns of it from its sync announcement, first heard while
    # Gateway.start() is still waiting for the transport (20 ms after the port opened), just after it returned, or seconds later
    for fs in (0.02, 0.06, 2.0, 140.0):
        cfg = disc.gen_cfg(rng, nzones=rng.choice([2, 3, 5]), max_act=2, ctl_sensor_once=True)
        jobs.append((cfg, "none" if fs != 0.06 else "every-mth-reply", 0 if fs != 0.06 else 3, 26 if fs != 0.06 else 52, fs))
    with mp.get_context("fork").Pool(min(common.NPROC, 12)) as pool:
        results = pool.map(discovery_job, jobs, chunksize=1)
    req_cases = []
    for (cfg, kind, arg, hours, *fsync), r in zip(jobs, results):
        ctx.case(("discovery", json.dumps(cfg, sort_keys=True), kind, arg, tuple(fsync)), bool(cfg["zones"]), f"discovery:{kind}" + (":controller-learnt-from-traffic" if fsync else ""))
        case = {"cfg": cfg, "loss": kind, "loss_arg": arg, "virtual_hours": hours, "controller_first_heard_s_after_port_opened": fsync[0] if fsync else None}
        if "error" in r:
            ctx.violation(f"discovery-run-raises:{r['error'].split(':')[0]}", r["error"] + " " + r.get("tb", ""), case, "configuration")
            continue
        for ent, cls, msg in r.get("dead_pollers", []):
            ctx.violation(f"discovery-poller-died:{cls}", f"the discovery poller of {ent} ended with {cls}: {msg} -- that entity never asks again, so what is missing is never filled in",
                          {**case, "entity": ent, "error": msg}, "fault-sequence")
        exp = disc.expected(cfg)
        ctl_twice = sum(1 for z in cfg["zones"].values() if z.get("sensor") == disc.CTL) > 1
        prev = {}
        for h, s in r["snaps"]:
            if not below(s, exp):
                ctx.violation("schema-says-something-the-controller-did-not", f"at {h} h the schema {json.dumps(s)[:500]} is not contained in the configuration", {**case, "at_hours": h, "schema": s}, "fault-sequence")
            if not below(prev, s):
                ctx.violation("something-learnt-was-lost", f"at {h} h the schema no longer contains what it held before ({json.dumps(prev)[:300]})", {**case, "at_hours": h, "schema": s}, "fault-sequence")
            prev = s
        final = r["snaps"][-1][1]
        if final != exp:
            why = "controller-is-sensor-of-several-zones" if ctl_twice else f"loss={kind}" + (":controller-learnt-from-traffic" if fsync else "")
            ctx.violation(f"configuration-not-reconstructed:{why}", f"after {hours} virtual hours the schema {json.dumps(final)[:500]} differs from the configuration {json.dumps(exp)[:500]}",
                          {**case, "schema": final, "expected": exp, "loop_errors": r["errs"]}, "fault-sequence")
        elif kind == "none" and not fsync:
            req_cases.append((cfg, r["topology_rqs"]))
    ctx.extra["frames_written_by_the_gateway"] = sum(r.get("n_writes", 0) for r in results)
    # the requests written vs the model's polling tables (loss-free runs that ended complete)
    if built and req_cases:
        txt = PRELUDE + "".join(f"Eval vm_compute in (map rqn (requests (round {cfg_coq(c)} no_loss (round {cfg_coq(c)} no_loss k0)))).\n" for c, _ in req_cases)
        rc, out = common.coq_eval("C12rq", {"x": txt}, timeout=300)["x"]
        got = [eval(o.replace(";", ","), {"__builtins__": {}}) for o in re.findall(r"=\s*(\[.*?\])\s*:\s*list \(list nat\)", out, flags=re.S)]  # noqa: S307
        bad = []
        if rc or len(got) != len(req_cases):
            bad.append(f"rc={rc} {len(got)} results for {len(req_cases)}: {out[-300:]}")
        else:
            for (cfg, rqs), g in zip(req_cases, got):
                model = {tuple(x) for x in g}
                impl = {rq_key(c, p) for c, p in rqs} - {None}
                known = {int(i, 16) for i in cfg["zones"]}
                extra_ok = {(3, i, 0) for i in known}            # the generic-role request of a zone first seen without its class
                if not model <= impl or not impl <= model | extra_ok:
                    bad.append(f"model asks {sorted(model - impl)} that the gateway never wrote; the gateway wrote {sorted(impl - model - extra_ok)} that the model does not ask; cfg {json.dumps(cfg)[:300]}")
        ctx.obligation("correspondence:requests", not bad, "correspondence", f"{len(bad)} of {len(req_cases)} differ; first: {bad[0][:700]}" if bad else f"{len(req_cases)} loss-free runs: the 0005/000C requests written are the model's polling tables")
    elif built:
        ctx.obligation("correspondence:requests", False, "correspondence", "no loss-free run ended with the configuration reconstructed")
    else:
        ctx.obligation("correspondence:requests", False, "correspondence", "model not built")


def replay(case: dict) -> int:
    print(case.get("signature"), str(case.get("case"))[:2000])
    return 0
