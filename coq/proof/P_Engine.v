From Coq Require Import List Bool Arith.
From RV Require Import M_Engine.
Import ListNotations.

Lemma bracket_up : forall e b, up e -> bracket true e b = (e, if b then BodyRaised else Done).
Proof.
  intros [h s d w sv] b [Hs Hw]; cbn in Hs, Hw; subst sv w.
  unfold bracket, pause, resume; cbn. destruct b; cbn; destruct s; reflexivity.
Qed.

Lemma bracket_paused : forall g e b, saved e <> None -> bracket g e b = (e, RuntimeErr).
Proof.
  intros g [h s d w sv] b Hs; cbn in Hs. unfold bracket, pause; cbn.
  destruct sv as [x|]; [reflexivity | congruence].
Qed.

(* one snapshot/restore, whatever its body does, leaves every engine variable as it was *)

Theorem snapshot_leaves_engine : forall e o, up e -> snapshot_op o = true ->
  fst (step true e o) = e /\ snd (step true e o) <> RuntimeErr.
Proof.
  intros e o Hup Ho. destruct o as [b|b| | |]; try discriminate; cbn;
    rewrite bracket_up by exact Hup; cbn; (split; [reflexivity | destruct b; discriminate]).
Qed.

Theorem snapshot_when_paused : forall g e o, saved e <> None -> snapshot_op o = true ->
  step g e o = (e, RuntimeErr).
Proof.
  intros g e o Hp Ho. destruct o as [b|b| | |]; try discriminate; cbn; apply bracket_paused; exact Hp.
Qed.

(* any sequence of snapshots and restores, each succeeding or failing *)
Theorem snapshots_leave_engine : forall ops e, up e -> forallb snapshot_op ops = true ->
  fst (run true e ops) = e.
Proof.
  induction ops as [|o ops IH]; intros e Hup Hall; [reflexivity|].
  cbn in Hall. apply andb_prop in Hall as [Ho Hall]. cbn [run].
  destruct (step true e o) as [e1 x] eqn:Hs.
  pose proof (snapshot_leaves_engine e o Hup Ho) as [H1 _]. rewrite Hs in H1; cbn in H1; subst e1.
  specialize (IH e Hup Hall). destruct (run true e ops) as [e2 xs]. cbn in *. exact IH.
Qed.

(* ... and the next packet is handled by the same handler as before *)
Theorem still_receiving : forall ops e h, up e -> handler e = Some h -> forallb snapshot_op ops = true ->
  snd (run true e (ops ++ [Rx])) = snd (run true e ops) ++ [Handled h].
Proof.
  induction ops as [|o ops IH]; intros e h Hup Hh Hall.
  - cbn. rewrite Hh. reflexivity.
  - cbn in Hall. apply andb_prop in Hall as [Ho Hall]. cbn [run app].
    destruct (step true e o) as [e1 x] eqn:Hs.
    pose proof (snapshot_leaves_engine e o Hup Ho) as [H1 _]. rewrite Hs in H1; cbn in H1; subst e1.
    specialize (IH e h Hup Hh Hall).
    destruct (run true e (ops ++ [Rx])) as [e2 xs]. destruct (run true e ops) as [e3 ys]. cbn in *. congruence.
Qed.

(* pause/resume pairs restore the engine exactly *)
Theorem pause_resume_id : forall e, up e -> fst (resume (fst (pause e))) = e.
Proof.
  intros [h s d w sv] [Hs Hw]; cbn in Hs, Hw; subst sv w. unfold pause, resume; cbn. destruct s; reflexivity.
Qed.

(* the engine invariant of every reachable state, whatever the clients do: it is either up, or paused with
   everything switched off and the saved tuple that of an up engine *)
Definition Inv (e : eng) : Prop :=
  up e \/ (exists h s d, saved e = Some (h, s, d) /\ handler e = None /\ sending_off e = true
                         /\ disc_off e = true /\ wr_paused e = true).

Lemma step_inv : forall e o, Inv e -> Inv (fst (step true e o)).
Proof.
  intros e o [Hup | (h0 & s0 & d0 & Hs & Hh & Hso & Hd & Hw)].
  - destruct o as [b|b| | |]; cbn [step].
    + rewrite bracket_up by exact Hup. left; exact Hup.
    + rewrite bracket_up by exact Hup. left; exact Hup.
    + destruct e as [h s d w sv]; destruct Hup as [Hs Hw]; cbn in Hs, Hw; subst. unfold pause; cbn.
      right. exists h, s, d. repeat split; reflexivity.
    + destruct e as [h s d w sv]; destruct Hup as [Hs Hw]; cbn in Hs, Hw; subst. unfold resume; cbn.
      left; split; reflexivity.
    + left; exact Hup.
  - assert (Hp : saved e <> None) by congruence.
    assert (Hsame : Inv e) by (right; exists h0, s0, d0; repeat split; assumption).
    destruct o as [b|b| | |]; cbn [step].
    + rewrite bracket_paused by exact Hp. exact Hsame.
    + rewrite bracket_paused by exact Hp. exact Hsame.
    + unfold pause. rewrite Hs. exact Hsame.
    + unfold resume. rewrite Hs. cbn. left. split; cbn; [reflexivity | rewrite Hw; destruct s0; reflexivity].
    + exact Hsame.
Qed.

Theorem run_inv : forall ops e, Inv e -> Inv (fst (run true e ops)).
Proof.
  induction ops as [|o ops IH]; intros e He; [exact He|].
  cbn [run]. pose proof (step_inv e o He) as H1. destruct (step true e o) as [e1 x]. cbn in H1.
  specialize (IH e1 H1). destruct (run true e1 ops) as [e2 xs]. exact IH.
Qed.

(* never stuck paused: from any reachable state one Resume (or none) brings the engine up *)
Theorem never_stuck : forall ops e, Inv e ->
  up (fst (run true e ops)) \/ up (fst (step true (fst (run true e ops)) Resume)).
Proof.
  intros ops e He. pose proof (run_inv ops e He) as [Hup | (h & s & d & Hs & _ & _ & _ & Hw)]; [left; exact Hup|].
  right. destruct (fst (run true e ops)) as [h1 s1 d1 w1 sv1]; cbn in *. subst. cbn. split; cbn; [reflexivity | destruct s; reflexivity].
Qed.

(* the tree before the repair: a snapshot whose body raises leaves the engine paused, and the next packet is dropped *)
Definition up_example : eng := mkEng (Some 7) false false false None.
Theorem unguarded_refuted :
  run false up_example [GetState true; Rx; GetState false] =
  (mkEng None true true true (Some (Some 7, false, false)), [BodyRaised; Dropped; RuntimeErr]).
Proof. vm_compute. reflexivity. Qed.
Theorem guarded_repaired :
  run true up_example [GetState true; Rx; GetState false] = (up_example, [BodyRaised; Handled 7; Done]).
Proof. vm_compute. reflexivity. Qed.
Example up_example_up : up up_example /\ Inv up_example.
Proof. split; [|left]; split; reflexivity. Qed.
