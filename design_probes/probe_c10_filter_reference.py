import asyncio, logging, itertools, random
logging.disable(logging.CRITICAL)
from ramses_tx.protocol import ReadProtocol, PortProtocol
from ramses_tx.schemas import select_device_filter_mode
IDS=["01:000001","04:000002","13:000003","18:111111","18:222222","18:000730","63:262142","--:------","32:000004"]
async def main():
    rnd=random.Random(3); bad=0; n=0
    for trial in range(4000):
        known={i:{} for i in rnd.sample(IDS[:5]+IDS[8:], rnd.randint(0,4))}
        if rnd.random()<0.4 and "18:111111" in known: known["18:111111"]={"class":"HGI"}
        block={i:{} for i in rnd.sample(IDS[:6]+IDS[8:], rnd.randint(0,3))}
        enforce_cfg=rnd.random()<0.5
        enforce=select_device_filter_mode(enforce_cfg, known, block)
        p=PortProtocol(lambda m: None, enforce_include_list=enforce, exclude_list=block, include_list=known)
        active=rnd.choice([None,"18:111111","18:222222"])
        if active: p._set_active_hgi(active)
        eff_active = active if (active and active not in block) else None
        for src,dst in itertools.product(IDS,IDS):
            for sending in (False,True):
                got=p._is_wanted_addrs(src,dst,sending=sending); n+=1
                ids={src,dst}
                blocked=any(i in block for i in ids)
                def allowed(i):
                    return i in known or i==eff_active or i in("63:262142","--:------") or (sending and i=="18:000730")
                if blocked: exp=False
                elif enforce: exp=all(allowed(i) for i in ids)
                else: exp=True
                if got!=exp:
                    bad+=1
                    if bad<6: print("MISMATCH known",list(known),"block",list(block),"enf",enforce,"active",active,(src,dst,sending),"got",got,"exp",exp)
    print("checked",n,"bad",bad)
asyncio.run(main())
