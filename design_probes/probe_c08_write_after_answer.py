import sys; sys.path.insert(0, __import__('os').path.dirname(__file__))
from fsm_harness_proto import *
import fsm_harness_proto as H
CTL="01:145038"
# transport whose write is delayed (as the duty-cycle limiter / write-gap semaphore do)
orig=H.FakeTransport.write_frame
async def slow_write(self, frame, disable_tx_limits=False):
    await asyncio.sleep(1.0)
    await orig(self, frame)
H.FakeTransport.write_frame=slow_write
c1=Command.get_zone_temp(CTL,"01")
r=run([(0,("made",)),(1,("call",1,c1,Priority.DEFAULT,QosParams(timeout=0.75,max_retries=0)))])
print(r)
