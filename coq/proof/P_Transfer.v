From Coq Require Import List Bool Arith Lia.
From RV Require Import M_Transfer.
Import ListNotations.

Lemma body_not_locktimeout faults : body faults <> LockTimeout.
Proof. induction faults as [|[| |] t IH]; cbn; try discriminate; exact IH. Qed.

(* whatever faults hit the transfer, it never leaves the lock held: afterwards the lock is free,
   unless the transfer could not get it in the first place (then it is untouched) *)
Theorem lock_released_at_exit l z faults :
  (snd (transfer true l z faults) = LockTimeout /\ fst (transfer true l z faults) = l /\ exists z', l = Some z' /\ z' <> z) \/
  (snd (transfer true l z faults) <> LockTimeout /\ fst (transfer true l z faults) = None).
Proof.
  unfold transfer, obtain. destruct l as [z'|].
  - destruct (Nat.eqb z z') eqn:E.
    + right. pose proof (body_not_locktimeout faults) as B. destruct (body faults); cbn; (split; [congruence|reflexivity]).
    + left. cbn. split; [reflexivity|]. split; [reflexivity|]. exists z'. split; [reflexivity|].
      intros ->. rewrite Nat.eqb_refl in E. discriminate.
  - right. pose proof (body_not_locktimeout faults) as B. destruct (body faults); cbn; (split; [congruence|reflexivity]).
Qed.

(* so, starting from a free lock, after ANY history of transfers (any zones, any faults) the lock
   is free again and no transfer ever waits for a lock: later transfers proceed normally *)
Theorem others_proceed hist :
  fst (transfers true None hist) = None /\ ~ In LockTimeout (snd (transfers true None hist)).
Proof.
  induction hist as [|[z fs] hist IH]; cbn [transfers]; [split; [reflexivity|intros []]|].
  pose proof (lock_released_at_exit None z fs) as H.
  destruct (transfer true None z fs) as [l1 o]. cbn [fst snd] in H.
  destruct H as [[_ [_ [z' [E _]]]]|[Ho ->]]; [discriminate E|].
  destruct (transfers true None hist) as [l2 os]. cbn [fst snd] in *. destruct IH as [IH1 IH2].
  split; [exact IH1|]. intros [H|H]; [apply Ho; exact H|exact (IH2 H)].
Qed.

(* a transfer whose every exchange succeeds completes *)
Lemma all_proceed_completes n : body (repeat Proceed n) = Completed.
Proof. induction n; cbn; auto. Qed.

(* before the repair: one failed fetch of zone 0 leaves the lock behind and zone 1 then times out *)
Theorem lock_leak_refuted :
  transfers false None [(0, [Proceed; Raises]); (1, [Proceed; Proceed; Proceed])] = (Some 0, [Failed; LockTimeout]).
Proof. reflexivity. Qed.
Theorem lock_leak_repaired :
  transfers true None [(0, [Proceed; Raises]); (1, [Proceed; Proceed; Proceed])] = (None, [Failed; Completed]).
Proof. reflexivity. Qed.

(* ---------------------------------------------------------------- never a mixed schedule *)
Lemma single_version_spec vs w : single_version vs = Some w -> Forall (fun v => v = w) vs.
Proof.
  destruct vs as [|v t]; [discriminate|]. cbn. destruct (forallb (Nat.eqb v) t) eqn:E; [|discriminate].
  intros [= <-]. constructor; [reflexivity|]. rewrite forallb_forall in E.
  apply Forall_forall. intros x Hx. symmetry. apply Nat.eqb_eq, E, Hx.
Qed.

(* whatever fragments arrive -- any versions, any order, repeats, other totals -- a schedule is only
   ever produced from a full set all of whose fragments belong to the version reported *)
Theorem vupdate_single ps total k v ps' w :
  vupdate ps total k v = (ps', Some w) -> vfull ps' = true /\ Forall (fun x => x = w) (versions ps').
Proof.
  unfold vupdate. destruct (negb (Nat.eqb total (length ps))); [discriminate|].
  destruct (vfull (set_slot k (Some v) ps)) eqn:F; cbn [negb]; [|discriminate].
  destruct (single_version (versions (set_slot k (Some v) ps))) as [w'|] eqn:S; [|discriminate].
  intros [= <- <-]. split; [exact F|apply single_version_spec, S].
Qed.

Theorem never_mixed frs : forall ps last w,
  (last = None \/ exists vs, last = single_version vs) ->
  snd (vfeed ps last frs) = Some w -> exists vs, single_version vs = Some w.
Proof.
  induction frs as [|[[total k] v] frs IH]; intros ps last w L H; cbn [vfeed snd] in H.
  - destruct L as [->|[vs ->]]; [discriminate|]. exists vs. exact H.
  - destruct (vupdate ps total k v) as [ps' r] eqn:U. eapply IH; [|exact H].
    destruct r as [w'|]; [|exact L].
    right. unfold vupdate in U. destruct (negb (Nat.eqb total (length ps))); [discriminate|].
    destruct (negb (vfull (set_slot k (Some v) ps))); [discriminate|].
    destruct (single_version (versions (set_slot k (Some v) ps))) eqn:S; [|discriminate].
    injection U as _ <-. eexists. symmetry. exact S.
Qed.
