(* C15 -- The schema is always well-formed, re-loadable and structurally consistent.  Statements only. *)
From Coq Require Import ZArith List Bool Arith.
From RV Require Import Regex GenRegex M_Topology P_Topology P_TopologySchema P_TopologyListed.
Import ListNotations.
Local Open Scope nat_scope.

(* every state reachable by ANY sequence of set_parent / get-zone requests (whatever devices, parents, child
   ids and roles they name, whether they succeed or are refused) satisfies the structural invariant: zone
   indexes below max_zones; a zone's sensor and actuators, the DHW sensor and valves and the appliance
   control each have that zone / DHW zone / system as their one parent; a device's controller is its parent's *)
Theorem C15_structure_invariant : forall ops mz, Inv (fst (run (init mz) ops)).
Proof. intros ops mz. exact (run_inv ops (init mz) (init_inv mz)). Qed.

Theorem C15_zones_bounded : forall ops mz z, In z (zones (fst (run (init mz) ops))) -> snd z < mz.
Proof. exact zones_bounded. Qed.

(* hence: each device in at most one zone/role-holder, and under one controller *)
Theorem C15_one_place : forall s, Inv s -> forall d,
  (forall c i c' i', sensor s c i = Some d -> In d (actuators s c' i') -> c = c' /\ i = i') /\
  (forall c i c' i', sensor s c i = Some d -> sensor s c' i' = Some d -> c = c' /\ i = i') /\
  (forall c i c' i', In d (actuators s c i) -> In d (actuators s c' i') -> c = c' /\ i = i') /\
  (forall c i c', (sensor s c i = Some d \/ In d (actuators s c i)) ->
     dhw_sensor s c' <> Some d /\ htg_valve s c' <> Some d /\ dhw_valve s c' <> Some d /\ app_cntrl s c' <> Some d).
Proof. exact one_place. Qed.
Theorem C15_one_controller : forall s, Inv s -> forall d c i,
  (sensor s c i = Some d \/ In d (actuators s c i)) -> d_ctl (devs s d) = Some c.
Proof. exact one_controller. Qed.

(* a zone has at most one sensor, for good: once set, no sequence of requests changes a zone's sensor, a
   device's parent or its controller *)
Theorem C15_nothing_moves : forall ops s,
  max_zones (fst (run s ops)) = max_zones s /\
  (forall x q, d_parent (devs s x) = Some q -> d_parent (devs (fst (run s ops)) x) = Some q) /\
  (forall x c0, d_ctl (devs s x) = Some c0 -> d_ctl (devs (fst (run s ops)) x) = Some c0) /\
  (forall c i x, sensor s c i = Some x -> sensor (fst (run s ops)) c i = Some x) /\
  (forall c i x, In x (actuators s c i) -> In x (actuators (fst (run s ops)) c i)).
Proof. exact run_stable. Qed.

(* no silent move: a request that succeeds for a device that has a parent named that very parent; any other
   is answered with an error and the device stays where it is *)
Theorem C15_no_silent_move : forall s d t g k b s' r p0, step s (SetParent d t g k b) = (s', r) ->
  d_parent (devs s d) = Some p0 ->
  d_parent (devs s' d) = Some p0 /\ (r = Ok -> exists s1 k1, resolve s t g k = (s1, Some (p0, k1))).
Proof. exact no_silent_move. Qed.

(* ... and the other way round: in every reachable state a device that has a parent is recorded in one of that parent's
   role slots (zone sensor / actuator, DHW sensor / valve, appliance control, UFH circuit list; FF children of the system have
   no slot), so it appears in the schema under that parent -- it is never half-attached *)
Theorem C15_child_is_listed : forall ops mz d p, d_parent (devs (fst (run (init mz) ops)) d) = Some p ->
  listed (fst (run (init mz) ops)) d p (d_cid (devs (fst (run (init mz) ops)) d)).
Proof. intros ops mz. exact (run_listed ops mz). Qed.

(* a request that is refused (SystemSchemaInconsistent, TypeError, ...) changes no device's parent, child id or controller and
   no role slot: the rejected claim leaves no trace (only an empty zone / DHW container may have been created on the way) *)
Theorem C15_refused_changes_nothing : forall s o s' r, step s o = (s', r) -> r <> Ok ->
  devs s' = devs s /\ same_roles s s' /\ max_zones s' = max_zones s.
Proof. exact refused_changes_nothing. Qed.

(* the printed zone keys against the validator's own key regex (regenerated on every run): accepted for every
   max_zones the configuration validator admits (its range is regenerated too) *)
Theorem C15_zone_keys_valid : forall ops mz z, mz <= LIMIT ->
  In z (zones (fst (run (init mz) ops))) -> key_ok (snd z) = true.
Proof. exact zone_keys_valid. Qed.
(* ... and a controller never has more zones than max_zones, which the validator's limit on the size of the zones
   dict (regenerated) covers for every admitted max_zones *)
Theorem C15_zones_dict_fits : forall ops mz c, mz <= LIMIT ->
  (LIMIT <=? Z.to_nat ZONES_MAX_LEN) = true /\ length (zones_of (fst (run (init mz) ops)) c) <= Z.to_nat ZONES_MAX_LEN.
Proof. exact zones_dict_fits. Qed.
(* regression witness: the key regex before the repair rejected zone 0C, which max_zones = 16 allows *)
Theorem C15_zone_keys_old_refuted :
  exists ops z, In z (zones (fst (run (init 16) ops))) /\ matches OLD_ZONE_IDX_RE (zone_key (snd z)) = false
                /\ key_ok (snd z) = true.
Proof. exact zone_keys_old_refuted. Qed.
