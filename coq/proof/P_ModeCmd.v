(* P_ModeCmd -- what the mode / time / configuration constructors build is accepted by the regenerated payload regex of the
   verb|code they are registered under (symbolic matching: RegexSym) and decodes back, by the modelled parsers, to what was asked for. *)
From Coq Require Import ZArith String Ascii List Bool Lia.
From RV Require Import Py PyStr Regex RegexSym GenRegex GenTables M_Codecs M_Command M_ModeCmd P_Codecs P_Command.
Import ListNotations.
Open Scope Z_scope.

(* ---------------------------------------------------------------- symbolic payloads *)
Definition HEXR : list (nat * nat) := [(48,57); (65,70)]%nat.
Definition SHEX : sym := SAny HEXR.
Definition shex (n : nat) : list sym := repeat SHEX n.
Definition slit (s : string) : list sym := map SC (lit s).

Definition spayload_ok (verb code : Z) (ss : list sym) : bool :=
  match find (fun r => let '(c, v, _, _) := r in (c =? code) && (v =? verb)) PAYLOAD_REGEXES with
  | Some (_, _, rp, rf) => smatch rf ss
  | None => false
  end.
Lemma spayload_ok_sound verb code ss s : spayload_ok verb code ss = true -> conc ss s -> payload_ok verb code s = true.
Proof.
  unfold spayload_ok, payload_ok. destruct (find _ PAYLOAD_REGEXES) as [[[[c v] rp] rf]|]; [|discriminate].
  intros H C. apply orb_true_iff. right. exact (smatch_sound ss rf H s C).
Qed.

Lemma hex_in_ranges c : is_hex_upper c = true -> in_ranges HEXR c = true.
Proof.
  intros H. unfold in_ranges, HEXR, is_hex_upper in *. cbn [existsb fst snd].
  set (n := nat_of_ascii c) in *. apply orb_true_iff in H. apply orb_true_iff.
  destruct H as [H|H]; apply andb_prop in H as [H1 H2]; apply Z.leb_le in H1, H2; [left | right; apply orb_true_iff; left];
    apply andb_true_intro; split; apply Nat.leb_le; lia.
Qed.
Lemma conc_hexN k v : conc (shex k) (hexN k v).
Proof.
  unfold shex, SHEX. rewrite <- (hexN_length k v) at 1. apply conc_class.
  pose proof (hexN_all_hex k v) as H. revert H. generalize (hexN k v) as s.
  induction s as [|c s IH]; cbn [forallb]; [reflexivity|]. intro H. apply andb_prop in H as [H1 H2].
  rewrite (hex_in_ranges c H1). exact (IH H2).
Qed.
Lemma conc_slit s : conc (slit s) (lit s).
Proof. apply conc_lit. Qed.
Lemma conc_idx idx : 0 <= idx < 16 -> conc (SC "0"%char :: shex 1) (hexN 2 idx).
Proof.
  intros Hi. pose proof (proj1 (forallb_forall _ _) idx_head idx (in_zr 16 idx Hi)) as A. cbv beta in A.
  destruct (hexN 2 idx) as [|c [|d [|e r]]] eqn:E; try discriminate. apply andb_prop in A as [Ac Ad].
  apply Ascii.eqb_eq in Ac. subst c. constructor; [reflexivity|]. constructor; [apply hex_in_ranges; exact Ad | constructor].
Qed.
Lemma check_idx_zone idx x : 0 <= idx < 16 -> check_idx idx = Some x -> x = hexN 2 idx.
Proof.
  intros Hi H. unfold check_idx in H.
  destruct (((0 <=? idx) && (idx <=? 15)) || (idx =? 249) || (idx =? 250) || (idx =? 252)); [injection H as <-; reflexivity | discriminate].
Qed.

(* ---------------------------------------------------------------- slices of a payload made of fields *)
Lemma slice_f2 (a b r : str) n m : List.length a = n -> List.length b = (m - n)%nat -> slice n m (a ++ b ++ r) = b.
Proof. apply slice_mid. Qed.
Lemma slice_f3 (a b c r : str) n m : List.length (a ++ b) = n -> List.length c = (m - n)%nat -> slice n m (a ++ b ++ c ++ r) = c.
Proof. intros H1 H2. rewrite app_assoc. apply slice_mid; assumption. Qed.
Lemma slice_f4 (a b c d r : str) n m : List.length (a ++ b ++ c) = n -> List.length d = (m - n)%nat -> slice n m (a ++ b ++ c ++ d ++ r) = d.
Proof. intros H1 H2. replace (a ++ b ++ c ++ d ++ r) with ((a ++ b ++ c) ++ d ++ r) by (rewrite <- !app_assoc; reflexivity). apply slice_mid; assumption. Qed.
Lemma slice_f5 (a b c d e : str) n m : List.length (a ++ b ++ c ++ d) = n -> (List.length e <= m - n)%nat -> slice n m (a ++ b ++ c ++ d ++ e) = e.
Proof.
  intros H1 H2. replace (a ++ b ++ c ++ d ++ e) with ((a ++ b ++ c ++ d) ++ e) by (rewrite <- !app_assoc; reflexivity).
  unfold slice. rewrite skipn_app, <- H1, skipn_all, Nat.sub_diag. cbn [skipn app]. apply firstn_all2. rewrite H1. exact H2.
Qed.

Lemma all_F_hexN n : all_F n = hexN n (16 ^ Z.of_nat n - 1).
Proof.
  unfold all_F, hexN. induction n as [|n IH]; [reflexivity|].
  cbn [fmt_base repeat]. rewrite Nat2Z.inj_succ, Z.pow_succ_r by lia.
  replace (16 * 16 ^ Z.of_nat n - 1) with (15 + (16 ^ Z.of_nat n - 1) * 16) by lia.
  rewrite Z.mod_add, Z.div_add by lia. change (15 mod 16) with 15. change (15 / 16) with 0. rewrite Z.add_0_l.
  rewrite <- IH. change (digit_char 15) with "F"%char. apply repeat_cons.
Qed.
Lemma int16_all_F n : (0 < n)%nat -> int16 (all_F n) = Some (16 ^ Z.of_nat n - 1).
Proof.
  intros Hn. rewrite all_F_hexN. apply int16_hexN; [exact Hn|]. assert (0 < 16 ^ Z.of_nat n) by (apply Z.pow_pos_nonneg; lia). lia.
Qed.

Lemma hexN_neq_allF k d : (0 < k)%nat -> 0 <= d < 16 ^ Z.of_nat k - 1 -> str_eqb (hexN k d) (all_F k) = false.
Proof.
  intros Hk Hd. destruct (str_eqb (hexN k d) (all_F k)) eqn:E; [|reflexivity]. apply str_eqb_eq in E.
  assert (A : int16 (hexN k d) = Some d) by (apply int16_hexN; [exact Hk | lia]).
  rewrite E, (int16_all_F k Hk) in A. injection A as A. lia.
Qed.
Lemma allF_lit6 : lit "FFFFFF" = all_F 6.  Proof. reflexivity. Qed.

Definition no_secs (f : dtf) : dtf := {| yr := yr f; mo := mo f; dd := dd f; hh := hh f; mi := mi f; ss := 0 |}.
Lemma dtm12_bounds f : valid_dt f = true -> 0 <= hex_from_dtm (Some f) false false < 16 ^ 12 - 1.
Proof. intros Hv. pose proof (valid_dt_bounds f Hv) as B. unfold hex_from_dtm. lia. Qed.
Lemma dtm12_decodes f : valid_dt f = true -> hex_to_dtm_s (hexN 12 (hex_from_dtm (Some f) false false)) = Ok (Some (no_secs f)).
Proof.
  intros Hv. unfold hex_to_dtm_s. pose proof (dtm12_bounds f Hv) as B.
  rewrite int16_hexN by (try lia; change (Z.of_nat 12) with 12; lia). apply (dtm_roundtrip_no_seconds f false Hv).
Qed.
Lemma temp_s_hexN w : 0 <= w < 65536 -> hex_to_temp_s (hexN 4 w) = hex_to_temp w.
Proof. intros H. unfold hex_to_temp_s. rewrite int16_hexN by (try lia; change (Z.of_nat 4) with 4; lia). reflexivity. Qed.

Lemma normalise_mode_range mode tn until dur m : normalise_mode mode tn until dur = Some m -> 0 <= m <= 4.
Proof.
  unfold normalise_mode. destruct (negb (is_some mode) && tn); [discriminate|]. destruct (is_some until && truthy dur); [discriminate|].
  set (m0 := match mode with Some m1 => m1 | None => _ end).
  destruct ((0 <=? m0) && (m0 <=? 4)) eqn:E; cbn [negb]; [|discriminate].
  destruct (negb (m0 =? M_FOLLOW) && tn); [discriminate|]. intro H. injection H as <-. lia.
Qed.

(* ---------------------------------------------------------------- set_zone_mode / parser_2349 *)
Definition word_of (spw : option Z) : Z := match spw with Some w => w | None => 0x7FFF end.
Definition sym_zm (m : Z) (hd hu : bool) : list sym :=
  (SC "0"%char :: shex 1) ++ shex 4 ++ map SC (hexN 2 m) ++ (if hd then shex 6 else slit "FFFFFF") ++ (if hu then shex 12 else []).
Lemma zm_shapes : forallb (fun m => forallb (fun hd => forallb (fun hu => spayload_ok V_W 0x2349 (sym_zm m hd hu)) [true; false]) [true; false]) (zrange 5 0) = true.
Proof. vm_compute. reflexivity. Qed.

Definition zm_expect (m w : Z) (until : option dtf) (dur : option Z) : result zmode :=
  do t <- hex_to_temp w; Ok (mk_zmode m t dur (match until with Some f => Some (Some (no_secs f)) | None => None end)).

Lemma five m : 0 <= m <= 4 -> m = 0 \/ m = 1 \/ m = 2 \/ m = 3 \/ m = 4.
Proof. lia. Qed.

Lemma parser_2349_of_fields (X W M D U : str) :
  List.length X = 2%nat -> List.length W = 4%nat -> List.length M = 2%nat -> List.length D = 6%nat -> (List.length U <= 12)%nat ->
  parser_2349 (X ++ W ++ M ++ D ++ U) = parser_2349_fields (Nat.div (14 + List.length U) 2) W M D U.
Proof.
  intros L2 LW LM LD LU. unfold parser_2349.
  rewrite (slice_f2 X W (M ++ D ++ U) 2 6 L2 LW).
  rewrite (slice_f3 X W M (D ++ U) 6 8) by (rewrite ?app_length, ?L2, ?LW, ?LM; reflexivity).
  rewrite (slice_f4 X W M D U 8 14) by (rewrite ?app_length, ?L2, ?LW, ?LM, ?LD; reflexivity).
  rewrite (slice_f5 X W M D U 14 26) by (rewrite ?app_length, ?L2, ?LW, ?LM, ?LD; try reflexivity; exact LU).
  rewrite !app_length, L2, LW, LM, LD. reflexivity.
Qed.

Theorem set_zone_mode_valid idx mode spw until dur p :
  0 <= idx < 16 -> (forall w, spw = Some w -> 0 <= w < 65536) -> (forall f, until = Some f -> valid_dt f = true) ->
  (forall d, dur = Some d -> 0 <= d < 0xFFFFFF) ->
  set_zone_mode idx mode spw until dur = Some p ->
  exists m, normalise_mode mode (negb (is_some spw)) until dur = Some m /\ 0 <= m <= 4 /\
    payload_ok V_W 0x2349 p = true /\ parser_2349 p = zm_expect m (word_of spw) until dur.
Proof.
  intros Hi Hw Hu Hd H. unfold set_zone_mode in H.
  destruct (normalise_mode mode (negb (is_some spw)) until dur) as [m|] eqn:NM; [|discriminate].
  pose proof (normalise_mode_range _ _ _ _ _ NM) as Rm.
  destruct (normalise_until m until dur) eqn:NU; cbn [negb] in H; [|discriminate].
  destruct (check_idx idx) as [x|] eqn:CI; [|discriminate]. injection H as <-.
  pose proof (check_idx_zone idx x Hi CI) as ->. fold (word_of spw).
  assert (Ww : 0 <= word_of spw < 65536) by (destruct spw as [w|]; cbn; [apply Hw; reflexivity | lia]).
  exists m. split; [reflexivity|]. split; [exact Rm|]. split.
  - apply (spayload_ok_sound V_W 0x2349 (sym_zm m (is_some dur) (is_some until))).
    + pose proof (proj1 (forallb_forall _ _) zm_shapes m (in_zr 5 m ltac:(cbn; lia))) as A. cbv beta in A.
      pose proof (proj1 (forallb_forall _ _) A (is_some dur) ltac:(destruct (is_some dur); cbn; auto)) as B. cbv beta in B.
      exact (proj1 (forallb_forall _ _) B (is_some until) ltac:(destruct (is_some until); cbn; auto)).
    + unfold sym_zm.
      apply (conc_app _ _ (hexN 2 idx) _ (conc_idx idx Hi)).
      apply (conc_app _ _ (hexN 4 (word_of spw)) _ (conc_hexN 4 _)).
      apply (conc_app _ _ (hexN 2 m) _ (conc_lit _)).
      apply (conc_app _ _ (dur_field dur) (until_field until)).
      * destruct dur as [d|]; cbn [is_some dur_field]; [apply conc_hexN | apply conc_slit].
      * destruct until as [f|]; cbn [is_some until_field]; [apply conc_hexN | constructor].
  - assert (LU : (List.length (until_field until) <= 12)%nat) by (destruct until; cbn [until_field]; [rewrite hexN_length; lia | cbn; lia]).
    assert (LD : List.length (dur_field dur) = 6%nat) by (destruct dur; cbn [dur_field]; [apply hexN_length | reflexivity]).
    change (parser_2349 (hexN 2 idx ++ hexN 4 (word_of spw) ++ hexN 2 m ++ dur_field dur ++ until_field until) = zm_expect m (word_of spw) until dur).
    rewrite (parser_2349_of_fields _ _ _ _ _ (hexN_length 2 idx) (hexN_length 4 _) (hexN_length 2 m) LD LU).
    unfold parser_2349_fields, zm_expect. rewrite (temp_s_hexN _ Ww).
    destruct (five m Rm) as [-> | [-> | [-> | [-> | ->]]]]; destruct until as [f|]; destruct dur as [d|]; cbn in NU; try discriminate;
      cbn [until_field dur_field List.length Nat.add Nat.div Nat.eqb Nat.leb orb negb];
      try (rewrite (dtm12_decodes f (Hu f eq_refl)));
      try (rewrite allF_lit6, str_eqb_refl);
      try (rewrite (hexN_neq_allF 6 d) by (try lia; specialize (Hd d eq_refl); change (Z.of_nat 6) with 6; lia));
      try (rewrite (hexN_neq_allF 12 _ ltac:(lia) (dtm12_bounds f (Hu f eq_refl))));
      try (rewrite int16_hexN by (try lia; specialize (Hd d eq_refl); change (Z.of_nat 6) with 6; lia));
      destruct (hex_to_temp (word_of spw)); reflexivity.
Qed.

(* ---------------------------------------------------------------- set_dhw_mode / parser_1f41 *)
Lemma parser_1f41_of_fields (X A M D U : str) :
  List.length X = 2%nat -> List.length A = 2%nat -> List.length M = 2%nat -> List.length D = 6%nat -> (List.length U <= 12)%nat ->
  parser_1f41 (X ++ A ++ M ++ D ++ U) = parser_1f41_fields (Nat.div (12 + List.length U) 2) A M D U.
Proof.
  intros L2 LA LM LD LU. unfold parser_1f41.
  rewrite (slice_f2 X A (M ++ D ++ U) 2 4 L2 LA).
  rewrite (slice_f3 X A M (D ++ U) 4 6) by (rewrite ?app_length, ?L2, ?LA, ?LM; reflexivity).
  rewrite (slice_f4 X A M D U 6 12) by (rewrite ?app_length, ?L2, ?LA, ?LM, ?LD; reflexivity).
  rewrite (slice_f5 X A M D U 12 24) by (rewrite ?app_length, ?L2, ?LA, ?LM, ?LD; try reflexivity; exact LU).
  rewrite !app_length, L2, LA, LM, LD. reflexivity.
Qed.

Definition sym_dm (idx : Z) (af : string) (m : Z) (hu : bool) : list sym :=
  map SC (hexN 2 idx) ++ slit af ++ map SC (hexN 2 m) ++ slit "FFFFFF" ++ (if hu then shex 12 else []).
Lemma dm_shapes : forallb (fun idx => forallb (fun af => forallb (fun m => forallb (fun hu => spayload_ok V_W 0x1F41 (sym_dm idx af m hu))
  [true; false]) (zrange 5 0)) ["FF"; "01"; "00"]%string) [0; 1] = true.
Proof. vm_compute. reflexivity. Qed.

Definition active_str (m : Z) (active : option bool) : string :=
  match (if m =? M_FOLLOW then None else active) with None => "FF" | Some true => "01" | Some false => "00" end.
Lemma active_field_str m a : active_field m a = lit (active_str m a).
Proof. unfold active_field, active_str. destruct (m =? M_FOLLOW); [reflexivity|]. destruct a as [[|]|]; reflexivity. Qed.
Lemma active_str_in m a : In (active_str m a) ["FF"; "01"; "00"]%string.
Proof. unfold active_str. destruct (m =? M_FOLLOW); [cbn; auto|]. destruct a as [[|]|]; cbn; auto. Qed.

Definition dm_expect (m : Z) (active : option bool) (until : option dtf) : result dmode :=
  Ok (mk_dmode m (match (if m =? M_FOLLOW then None else active) with None => None | Some b => Some (Some b) end)
               (match until with Some f => Some (Some (no_secs f)) | None => None end)).

(* every combination the constructor accepts, EXCEPT the countdown mode and a temporary override without an end *)
Theorem set_dhw_mode_valid dhw_idx mode active until dur p :
  0 <= dhw_idx <= 1 -> (forall f, until = Some f -> valid_dt f = true) ->
  set_dhw_mode dhw_idx mode active until dur = Some p ->
  exists m, normalise_mode mode (negb (is_some active)) until dur = Some m /\ 0 <= m <= 4 /\
    (m <> M_COUNTDOWN -> ~ (m = M_TEMPORARY /\ until = None) ->
     payload_ok V_W 0x1F41 p = true /\ parser_1f41 p = dm_expect m active until).
Proof.
  intros Hi Hu H. unfold set_dhw_mode in H.
  destruct (check_idx dhw_idx) as [x|] eqn:CI; [|discriminate].
  pose proof (check_idx_zone dhw_idx x ltac:(lia) CI) as ->.
  destruct (normalise_mode mode (negb (is_some active)) until dur) as [m|] eqn:NM; [|discriminate].
  pose proof (normalise_mode_range _ _ _ _ _ NM) as Rm.
  destruct (normalise_until m until dur) eqn:NU; cbn [negb] in H; [|discriminate]. injection H as <-.
  exists m. split; [reflexivity|]. split; [exact Rm|]. intros N3 N4.
  assert (Dn : dur = None).
  { destruct dur as [d|]; [|reflexivity]. exfalso. unfold normalise_until in NU.
    destruct (five m Rm) as [-> | [-> | [-> | [-> | ->]]]]; destruct until; cbn in NU; try discriminate; apply N3; reflexivity. }
  subst dur. rewrite active_field_str. split.
  - apply (spayload_ok_sound V_W 0x1F41 (sym_dm dhw_idx (active_str m active) m (is_some until))).
    + pose proof (proj1 (forallb_forall _ _) dm_shapes dhw_idx ltac:(cbn; lia)) as A. cbv beta in A.
      pose proof (proj1 (forallb_forall _ _) A _ (active_str_in m active)) as B. cbv beta in B.
      pose proof (proj1 (forallb_forall _ _) B m (in_zr 5 m ltac:(cbn; lia))) as C. cbv beta in C.
      exact (proj1 (forallb_forall _ _) C (is_some until) ltac:(destruct (is_some until); cbn; auto)).
    + unfold sym_dm.
      apply (conc_app _ _ (hexN 2 dhw_idx) _ (conc_lit _)).
      apply (conc_app _ _ (lit (active_str m active)) _ (conc_slit _)).
      apply (conc_app _ _ (hexN 2 m) _ (conc_lit _)).
      apply (conc_app _ _ (dur_field None) (until_field until) (conc_slit "FFFFFF")).
      destruct until as [f|]; cbn [is_some until_field]; [apply conc_hexN | constructor].
  - assert (LU : (List.length (until_field until) <= 12)%nat) by (destruct until; cbn [until_field]; [rewrite hexN_length; lia | cbn; lia]).
    assert (LA : List.length (lit (active_str m active)) = 2%nat) by (unfold active_str; destruct (m =? M_FOLLOW); [reflexivity|]; destruct active as [[|]|]; reflexivity).
    change (parser_1f41 (hexN 2 dhw_idx ++ lit (active_str m active) ++ hexN 2 m ++ dur_field None ++ until_field until) = dm_expect m active until).
    rewrite (parser_1f41_of_fields (hexN 2 dhw_idx) (lit (active_str m active)) (hexN 2 m) (dur_field None) (until_field until) (hexN_length 2 dhw_idx) LA (hexN_length 2 m) (eq_refl : List.length (dur_field None) = 6%nat) LU).
    unfold parser_1f41_fields, dm_expect, active_str.
    destruct (five m Rm) as [-> | [-> | [-> | [-> | ->]]]]; destruct until as [f|]; cbn in NU; try discriminate;
      try (exfalso; apply N3; reflexivity); try (exfalso; apply N4; split; reflexivity);
      cbn [until_field dur_field List.length Nat.add Nat.div Nat.eqb Nat.leb orb negb];
      try (rewrite (dtm12_decodes f (Hu f eq_refl)));
      destruct active as [[|]|]; reflexivity.
Qed.

(* the two excluded classes are real: what the constructor builds there is rejected by the library's own decoder (known findings) *)
Theorem set_dhw_mode_countdown_refuted : exists p, set_dhw_mode 0 (Some M_COUNTDOWN) (Some true) None (Some 60) = Some p /\ payload_ok V_W 0x1F41 p = false.
Proof. eexists. split; [reflexivity | vm_compute; reflexivity]. Qed.
Theorem set_dhw_mode_temporary_without_until_refuted :
  exists p, set_dhw_mode 0 (Some M_TEMPORARY) (Some true) None None = Some p /\ payload_ok V_W 0x1F41 p = true /\ parser_1f41 p = Raise AssertionError.
Proof. eexists. split; [reflexivity | split; vm_compute; reflexivity]. Qed.
(* ... and a DHW index other than 00 / 01 is let through by _check_idx although the regex has no such payload *)
Theorem set_dhw_mode_idx_refuted : exists p, set_dhw_mode 2 (Some M_PERMANENT) (Some true) None None = Some p /\ payload_ok V_W 0x1F41 p = false.
Proof. eexists. split; [reflexivity | vm_compute; reflexivity]. Qed.

(* ---------------------------------------------------------------- set_system_mode / parser_2e04 *)
Definition sym_sm (m : Z) (tail : string) : list sym := map SC (hexN 2 m) ++ shex 12 ++ slit tail.
Lemma sm_shapes : forallb (fun m => forallb (fun t => spayload_ok V_W 0x2E04 (sym_sm m t)) ["00"; "01"]%string) (zrange 8 0) = true.
Proof. vm_compute. reflexivity. Qed.
Definition sm_expect (m : Z) (until : option dtf) : result smode :=
  Ok (mk_smode m (if (m =? 0) || (m =? 1) || (m =? 6) then None else Some (match until with Some f => Some (no_secs f) | None => None end))).
Lemma eight m : 0 <= m <= 7 -> m = 0 \/ m = 1 \/ m = 2 \/ m = 3 \/ m = 4 \/ m = 5 \/ m = 6 \/ m = 7.
Proof. lia. Qed.

Theorem set_system_mode_valid mode until p :
  (forall f, until = Some f -> valid_dt f = true) -> set_system_mode mode until = Some p ->
  let m := match mode with Some m => m | None => 0 end in
  0 <= m <= 7 /\ payload_ok V_W 0x2E04 p = true /\ parser_2e04 p = sm_expect m until.
Proof.
  intros Hu H m. unfold set_system_mode in H. fold m in H.
  destruct ((0 <=? m) && (m <=? 7)) eqn:Rb; cbn [negb] in H; [|discriminate].
  assert (Rm : 0 <= m <= 7) by lia.
  destruct (is_some until && ((m =? 0) || (m =? 6) || (m =? 1))) eqn:NU; [discriminate|]. injection H as Hp.
  split; [exact Rm|]. set (T := if is_some until then "01"%string else "00"%string).
  assert (Ep : p = hexN 2 m ++ hexN 12 (hex_from_dtm until false false) ++ lit T) by (rewrite <- Hp; unfold T; destruct (is_some until); reflexivity).
  rewrite Ep. clear Hp Ep p. split.
  - apply (spayload_ok_sound V_W 0x2E04 (sym_sm m T)).
    + pose proof (proj1 (forallb_forall _ _) sm_shapes m (in_zr 8 m ltac:(cbn; lia))) as A. cbv beta in A.
      apply (proj1 (forallb_forall _ _) A T). unfold T. destruct (is_some until); cbn; auto.
    + unfold sym_sm. apply (conc_app _ _ (hexN 2 m) _ (conc_lit _)). apply (conc_app _ _ (hexN 12 _) (lit T) (conc_hexN 12 _) (conc_slit T)).
  - unfold parser_2e04, sm_expect.
    assert (LT : List.length (lit T) = 2%nat) by (unfold T; destruct (is_some until); reflexivity).
    rewrite !app_length, !hexN_length, LT. cbn [Nat.add Nat.div Nat.eqb negb].
    rewrite (slice_mid0 (hexN 2 m) _ 2 (hexN_length 2 m)).
    rewrite (slice_f2 (hexN 2 m) (hexN 12 (hex_from_dtm until false false)) (lit T) 2 14 (hexN_length 2 m) (hexN_length 12 _)).
    replace (hexN 2 m ++ hexN 12 (hex_from_dtm until false false) ++ lit T) with ((hexN 2 m ++ hexN 12 (hex_from_dtm until false false)) ++ lit T ++ []) by (rewrite app_nil_r, <- app_assoc; reflexivity).
    rewrite (slice_mid _ (lit T) [] 14 16) by (rewrite ?app_length, ?hexN_length; try reflexivity; exact LT).
    destruct (eight m Rm) as [-> | [-> | [-> | [-> | [-> | [-> | [-> | ->]]]]]]]; destruct until as [f|]; cbn in NU; try discriminate; unfold T;
      cbn [is_some]; try reflexivity;
      try (change (slice 0 2 (hexN 2 2)) with (hexN 2 2); change (slice 0 2 (hexN 2 3)) with (hexN 2 3));
      try (rewrite (dtm12_decodes f (Hu f eq_refl))); reflexivity.
Qed.

(* ---------------------------------------------------------------- set_system_time / parser_313f *)
Lemma int16_app_hexN a b x y : (0 < a)%nat -> 0 <= x < 16 ^ Z.of_nat a -> 0 <= y < 16 ^ Z.of_nat b ->
  int16 (hexN a x ++ hexN b y) = Some (x * 16 ^ Z.of_nat b + y).
Proof.
  intros Ha Hx Hy. unfold int16, parse_base.
  destruct (hexN a x ++ hexN b y) eqn:E.
  - apply (f_equal (@List.length ascii)) in E. rewrite app_length, !hexN_length in E. cbn in E. lia.
  - rewrite <- E. rewrite fold_left_app. unfold hexN.
    rewrite (fold_parse_fmt 16 hexval a ltac:(lia) hexval_digit x 0 Hx).
    rewrite (fold_parse_fmt 16 hexval b ltac:(lia) hexval_digit y _ Hy). f_equal.
Qed.

Lemma secbyte_all : forallb (fun s : Z => forallb (fun dst : bool => let sb := (if dst then Z.lor s 0x80 else s) in
  (0 <=? sb) && (sb <? 256) && Bool.eqb (negb (Z.land sb 0x80 =? 0)) dst) [true; false]) (zrange 60 0) = true.
Proof. vm_compute. reflexivity. Qed.
Lemma secbyte_spec d dst : 0 <= ss d < 60 -> 0 <= dtm_secbyte d dst < 256 /\ negb (Z.land (dtm_secbyte d dst) 0x80 =? 0) = dst.
Proof.
  intros H. pose proof (proj1 (forallb_forall _ _) secbyte_all (ss d) (in_zr 60 (ss d) ltac:(change (Z.of_nat 60) with 60; lia))) as A. cbv beta in A.
  pose proof (proj1 (forallb_forall _ _) A dst ltac:(destruct dst; cbn; auto)) as B. cbv beta zeta in B.
  unfold dtm_secbyte. apply andb_prop in B as [B1 B3]. apply andb_prop in B1 as [B1 B2]. apply eqb_prop in B3.
  apply Z.leb_le in B1. apply Z.ltb_lt in B2. split; [split; assumption | exact B3].
Qed.

Definition sym_st : list sym := slit "0060" ++ shex 2 ++ shex 12.
Lemma st_shape : spayload_ok V_W 0x313F sym_st = true.
Proof. vm_compute. reflexivity. Qed.

Theorem set_system_time_valid d dst : valid_dt d = true ->
  payload_ok V_W 0x313F (set_system_time d dst) = true /\ parser_313f (set_system_time d dst) = Ok (Some d, dst).
Proof.
  intros Hv. pose proof (valid_dt_bounds d Hv) as B. destruct (secbyte_spec d dst ltac:(lia)) as [S1 S2].
  pose proof (dtm12_bounds d Hv) as L. unfold set_system_time. split.
  - apply (spayload_ok_sound V_W 0x313F sym_st _ st_shape). unfold sym_st.
    apply (conc_app _ _ (lit "0060") _ (conc_slit _)). apply (conc_app _ _ (hexN 2 _) (hexN 12 _) (conc_hexN 2 _) (conc_hexN 12 _)).
  - unfold parser_313f.
    set (SB := hexN 2 (dtm_secbyte d dst)). set (LO := hexN 12 (hex_from_dtm (Some d) false false)).
    assert (E1 : slice 4 18 (lit "0060" ++ SB ++ LO) = SB ++ LO).
    { apply slice_mid_end; [reflexivity|]. unfold SB, LO. rewrite app_length, !hexN_length. reflexivity. }
    assert (E2 : slice 4 6 (lit "0060" ++ SB ++ LO) = SB) by (apply slice_mid; [reflexivity | apply hexN_length]).
    rewrite E1, E2. unfold hex_to_dtm_s, SB, LO.
    rewrite (int16_app_hexN 2 12) by (try lia; change (Z.of_nat 2) with 2; change (Z.of_nat 12) with 12; lia).
    rewrite int16_hexN by (try lia; change (Z.of_nat 2) with 2; lia).
    replace (dtm_secbyte d dst * 16 ^ Z.of_nat 12 + hex_from_dtm (Some d) false false) with (hex_from_dtm (Some d) dst true)
      by (unfold hex_from_dtm, dtm_secbyte; change (16 ^ Z.of_nat 12) with (2 ^ 48); reflexivity).
    rewrite (dtm_roundtrip d dst Hv). cbn [bind]. rewrite S2. reflexivity.
Qed.

(* ---------------------------------------------------------------- set_zone_config / parser_000a *)
Definition sym_zc : list sym := (SC "0"%char :: shex 1) ++ shex 2 ++ shex 4 ++ shex 4.
Lemma zc_shape : spayload_ok V_W 0x000A sym_zc = true.
Proof. vm_compute. reflexivity. Qed.
Definition zc_bitmap (lo ow mr : bool) : Z := (if lo then 0 else 1) + (if ow then 0 else 2) + (if mr then 0 else 16).

Lemma parser_000a_of_fields (X B A C : str) :
  List.length X = 2%nat -> List.length B = 2%nat -> List.length A = 4%nat -> List.length C = 4%nat ->
  parser_000a (X ++ B ++ A ++ C) =
  match int16 B with None => Raise ValueError | Some b => do a <- hex_to_temp_s A; do c <- hex_to_temp_s C; Ok (mk_zconf a c (Z.land b 1 =? 0) (Z.land b 2 =? 0) (Z.land b 16 =? 0)) end.
Proof.
  intros LX LB LA LC. unfold parser_000a. rewrite !app_length, LX, LB, LA, LC. cbn [Nat.add Nat.div Nat.eqb negb].
  rewrite (slice_f2 X B (A ++ C) 2 4 LX LB).
  rewrite (slice_f3 X B A C 4 8) by (rewrite ?app_length, ?LX, ?LB, ?LA; reflexivity).
  replace (X ++ B ++ A ++ C) with ((X ++ B ++ A) ++ C) by (rewrite <- !app_assoc; reflexivity).
  rewrite (slice_mid_end (X ++ B ++ A) C 8 12) by (rewrite ?app_length, ?LX, ?LB, ?LA, ?LC; reflexivity).
  reflexivity.
Qed.

Theorem set_zone_config_valid idx kmin kmax lo ow mr p : 0 <= idx < 16 -> set_zone_config idx kmin kmax lo ow mr = Some p ->
  500 <= kmin <= 2100 /\ 2100 <= kmax <= 3500 /\ payload_ok V_W 0x000A p = true /\
  parser_000a p = (do a <- hex_to_temp kmin; do c <- hex_to_temp kmax; Ok (mk_zconf a c lo ow mr)).
Proof.
  intros Hi H. unfold set_zone_config in H. destruct (check_idx idx) as [x|] eqn:CI; [|discriminate].
  pose proof (check_idx_zone idx x Hi CI) as ->.
  destruct (negb ((500 <=? kmin) && (kmin <=? 2100)) || negb ((2100 <=? kmax) && (kmax <=? 3500))) eqn:R; [discriminate|].
  injection H as <-. apply orb_false_iff in R as [R1 R2]. apply negb_false_iff in R1, R2.
  assert (K1 : 500 <= kmin <= 2100) by lia. assert (K2 : 2100 <= kmax <= 3500) by lia.
  split; [exact K1|]. split; [exact K2|]. fold (zc_bitmap lo ow mr).
  assert (Bb : 0 <= zc_bitmap lo ow mr < 256) by (unfold zc_bitmap; destruct lo, ow, mr; lia). split.
  - apply (spayload_ok_sound V_W 0x000A sym_zc _ zc_shape). unfold sym_zc.
    apply (conc_app _ _ (hexN 2 idx) _ (conc_idx idx Hi)). apply (conc_app _ _ (hexN 2 _) _ (conc_hexN 2 _)).
    apply (conc_app _ _ (hexN 4 kmin) (hexN 4 kmax) (conc_hexN 4 _) (conc_hexN 4 _)).
  - change (parser_000a (hexN 2 idx ++ hexN 2 (zc_bitmap lo ow mr) ++ hexN 4 kmin ++ hexN 4 kmax) =
            (do a <- hex_to_temp kmin; do c <- hex_to_temp kmax; Ok (mk_zconf a c lo ow mr))).
    rewrite (parser_000a_of_fields _ _ _ _ (hexN_length 2 idx) (hexN_length 2 _) (hexN_length 4 kmin) (hexN_length 4 kmax)).
    rewrite int16_hexN by (try lia; change (Z.of_nat 2) with 2; lia).
    rewrite !temp_s_hexN by lia.
    destruct (hex_to_temp kmin); [|reflexivity]. destruct (hex_to_temp kmax); [|reflexivity].
    cbn [bind]. unfold zc_bitmap. destruct lo, ow, mr; reflexivity.
Qed.
