"""C16 -- saved state restores: snapshot -> fresh gateway -> snapshot is a fixpoint.

Coq: the store (a slot holds the latest packet written to it), the snapshot filter and the fixpoint /
idempotence theorems for ANY routing of packets to slots.  Tie: the slots every packet of a history is written
to are OBSERVED on a real gateway (fed packet by packet), and the model's store+filter over them must give
the keys get_state() returns; the filter's clauses are observed through get_state() on crafted gateways.
Oracle: the statement itself on real gateways -- fresh Gateway, restore, snapshot again."""

from __future__ import annotations

import datetime as _dt
import io
import json
import logging
import re

from .. import common, gw
from ..common import Ctx

THEOREMS = ["C16_snapshot_fixpoint", "C16_restore_into_same", "C16_restore_twice", "C16_snapshot_sound", "C16_no_requests",
            "C16_writes_are_fragments", "C16_unexpired_unless_asked_partial", "C16_unexpired_unless_asked_refuted", "C16_wanted_msg_mono",
            "C16_snapshot_independent_of_earlier_reads"]

PRELUDE = ("From Coq Require Import List Bool Arith.\nFrom RV Require Import M_Snapshot.\nImport ListNotations.\n"
           "Set Printing Width 1000000.\nSet Printing Depth 1000000.\n"
           "Definition dflt := mkAttrs COther VRQ 0.\n"
           "Definition snap (inc : bool) (slots : list (list nat)) (att : list attrs) (ex : list bool) (evs : list event) : list nat :=\n"
           "  snapshot (fun p => nth p slots []) (fun e p => wanted_msg inc e (nth p att dflt)) (fun _ p => nth p ex false) 0 evs.\n")


def slot_table(gwy):
    """{slot key: message} of the store families that get_state() flattens."""
    t = {}
    for d in gwy.devices:
        for code, vs in d._msgz_.items():
            for verb, cs in vs.items():
                for ctx, m in cs.items():
                    t[("dev", d.id, code, verb, repr(ctx))] = m
    for s in gwy.systems:
        for code, m in s._msgs_.items():
            t[("tcs", s.id, code)] = m
        for z in s.zones:
            for code, m in z._msgs_.items():
                t[("zon", s.id, z.idx, code)] = m
    return t


def flat_msgs(gwy):
    msgs = [m for d in gwy.devices for m in d._msg_db]
    for s in gwy.systems:
        msgs.extend(s._msgs.values())
        msgs.extend(m for z in s.zones for m in z._msgs.values())
    return msgs


async def observe_history(lines, cfg, eav):
    """Feed the history packet by packet; observe which slots each packet is written to."""
    gwy = await gw.make_gateway([], cfg, enable_eavesdrop=eav)
    tr = gwy._transport
    prev = {}
    slot_ids = {}
    per_pkt = []          # per line: (slots, msg or None)
    events = []           # Pkt j / Clear s, in the order observed
    n_clear = 0
    for j, ln in enumerate(lines):
        tr._frame_read(ln[:26], ln[27:])
        await gw.settle(6)
        cur = slot_table(gwy)
        mine = [k for k, m in cur.items() if prev.get(k) is not m]
        gone = [k for k in prev if k not in cur]
        msg = cur[mine[0]] if mine else None
        if mine and any(cur[k] is not msg for k in mine):
            per_pkt.append(("two-messages-in-one-step", ln))
            break
        per_pkt.append(([slot_ids.setdefault(k, len(slot_ids)) for k in mine], msg))
        events.append(f"Pkt {j}")
        for k in gone:            # a slot emptied while this packet was handled (an expired message was read)
            events.append(f"Clear {slot_ids.setdefault(k, len(slot_ids))}")
            n_clear += 1
        prev = cur
    snaps = {}
    for inc in (False, True):
        snaps[inc] = list(gwy.get_state(include_expired=inc)[1])
    expired = [bool(m._expired) if m is not None else False for _, m in [p if len(p) == 2 else (None, None) for p in per_pkt]]
    await gwy.stop()
    return per_pkt, snaps, expired, events, n_clear


def attrs_of(msg):
    code = {"313F": "C313F", "0404": "C0404"}.get(str(msg.code), "COther")
    verb = {" I": "VI", "RQ": "VRQ", "RP": "VRP", " W": "VW"}[msg.verb]
    return f"mkAttrs {code} {verb} {msg._pkt._len}"


def sections(a, b):
    """Which sections of two (shrunk) schemas differ: top-level keys, and <section> for the keys under a controller."""
    out = set()
    for k in set(a) | set(b):
        if a.get(k) == b.get(k):
            continue
        if isinstance(a.get(k), dict) and isinstance(b.get(k), dict):
            out |= {k2 for k2 in set(a[k]) | set(b[k]) if a[k].get(k2) != b[k].get(k2)}
        else:
            out.add(k if not re.match(r"\d\d:\d{6}", k) else "controller")
    return sorted(out)


def core(schema, related=""):
    """The schema without the relations load_schema() is known not to restore (known finding): UFH controllers/circuits,
    HVAC fans with their remotes, and the orphan lists those devices fall into."""
    out = {}
    related += json.dumps({k: v for k, v in schema.items() if k not in ("orphans_heat", "orphans_hvac")})
    for k, v in schema.items():
        if k in ("orphans_heat", "orphans_hvac"):
            # ... only: a UFH controller, a fan, and a device that is some fan's remote / sensor in this schema; any OTHER device must be an orphan on
            # both sides or on neither
            v = sorted(d for d in (v or []) if d[:2] not in ("02", "20", "29", "30", "32", "37") and d not in related)
            if v:
                out[k] = v
            continue
        if isinstance(v, dict) and "remotes" in v:
            continue
        if isinstance(v, dict) and re.match(r"\d\d:\d{6}", k):
            v = {k2: v2 for k2, v2 in v.items() if k2 not in ("underfloor_heating", "orphans")}
            if not v:
                continue
        out[k] = v
    if out.get("main_tcs") not in out:
        out.pop("main_tcs", None)
    return out


def schema_diffs(a, b, skip=()):
    """Signature suffixes for two shrunk schemas that differ (skip: devices left out of the orphan lists)."""
    rel = json.dumps([{k: v for k, v in x.items() if k not in ("orphans_heat", "orphans_hvac")} for x in (a, b)])      # related in EITHER schema
    ca, cb = core(a, rel), core(b, rel)
    for c in (ca, cb):
        for k in ("orphans_heat", "orphans_hvac"):
            if k in c:
                c[k] = [d for d in c[k] if d not in skip]
                if not c[k]:
                    del c[k]
    if ("main_tcs" in ca) != ("main_tcs" in cb):   # the main controller was one that only had such relations
        ca.pop("main_tcs", None)
        cb.pop("main_tcs", None)
    if ca == cb:
        return ["ufh-fan-orphan-relations-not-restored"]
    return sections(ca, cb)


def frames(pkts):
    """The packets of a snapshot without the trailing '# header (context)' comment, which is derived from neighbouring packets."""
    return {k: v.split(" # ")[0].rstrip() for k, v in pkts.items()}


async def live_gateway(lines, cfg, eav, reads):
    """A gateway that received the history packet by packet (its clock moving with each), with snapshots of both kinds taken at `reads` points on
    the way -- "snapshots taken at every prefix": what an earlier snapshot looked at must not change what a later one says."""
    k0 = max(1, len(lines) // 10)
    g = await gw.make_gateway(lines[:k0], cfg, enable_eavesdrop=eav)
    rest = lines[k0:]
    at = {int(len(rest) * (j + 1) / (reads + 1)) for j in range(reads)} if reads else set()
    tr = g._transport
    for i, ln in enumerate(rest):
        tr._frame_read(ln[:26], ln[27:])
        if i in at:
            await gw.settle(4)
            for inc in (False, True):
                g.get_state(include_expired=inc)
    await gw.settle()
    return g


async def early_reads_trial(lines, cfg, eav):
    """The final snapshot of a gateway that was asked for snapshots on the way equals that of a gateway (same history, same clock) asked only at the end."""
    bad = []
    ga = await live_gateway(lines, cfg, eav, 6)
    gb = await live_gateway(lines, cfg, eav, 0)
    try:
        for inc in (False,):      # (with include_expired=True the two may differ: reading purges expired messages lazily -- nothing says they are kept for ever)
            pa, pb = ga.get_state(include_expired=inc)[1], gb.get_state(include_expired=inc)[1]
            sa, sb = ga.get_state(include_expired=inc)[0], gb.get_state(include_expired=inc)[0]
            if not eav and sa.get("main_tcs") != sb.get("main_tcs"):
                bad.append(("schema-depends-on-earlier-snapshots:main_tcs", f"asked on the way: main_tcs={sa.get('main_tcs')}; asked once at the end: main_tcs={sb.get('main_tcs')}", ""))
            if frames(pa) != frames(pb):
                only_a = [pa[k][:70] for k in pa if k not in pb][:2]
                only_b = [pb[k][:70] for k in pb if k not in pa][:2]
                bad.append((f"snapshot-depends-on-earlier-snapshots:{'kept' if only_a else 'dropped'}", f"include_expired={inc} only-after-early-reads={only_a} only-when-asked-once={only_b}", ""))
    finally:
        await ga.stop()
        await gb.stop()
    return bad


async def fixpoint_trial(lines, cfg, eav, crafted=False, reads=0):
    """The statement on real gateways: snapshot -> fresh gateway -> restore -> snapshot."""
    from ramses_rf import Gateway  # noqa: PLC0415
    from ramses_rf.helpers import shrink  # noqa: PLC0415
    from ramses_tx.message import Message  # noqa: PLC0415
    from ramses_tx.packet import Packet  # noqa: PLC0415

    bad = []
    g1 = await (live_gateway(lines, cfg, eav, reads) if reads else gw.make_gateway(lines, cfg, enable_eavesdrop=eav))
    try:
        for inc in (False, True):
            sch1, p1 = g1.get_state(include_expired=inc)
            by_key = {repr(m._pkt)[:26]: m for m in flat_msgs(g1)}
            # what a snapshot may contain
            for k, v in p1.items():
                try:
                    m = Message(Packet.from_dict(k, v))
                    _ = m.payload
                except Exception as err:  # noqa: BLE001
                    bad.append((f"snapshot-holds-undecodable-packet:{type(err).__name__}", f"{k} {v}", ""))
                    continue
                if m.verb == "RQ":
                    bad.append(("snapshot-holds-request", f"{k} {v}", ""))
                if m.verb == " W" and m.code != "0404":
                    bad.append(("snapshot-holds-write", f"{k} {v}", ""))
                if not inc and k in by_key and by_key[k]._expired:
                    bad.append((f"expired-packet-kept:{m.code}", f"{k} {v}", "include_expired=False"))
            if list(p1) != sorted(p1):
                bad.append(("snapshot-not-in-timestamp-order", "", ""))
            # fresh gateway built from the snapshot's schema, then the packets restored
            c2 = json.loads(json.dumps(cfg or {}))
            c2.setdefault("config", {}).update({"disable_discovery": True, "enable_eavesdrop": eav})
            g2 = Gateway(None, input_file=io.TextIOWrapper(io.BytesIO(b"")), **{**c2, **shrink(sch1)})
            await gw.start(g2)
            await g2._restore_cached_packets(p1)
            await gw.settle()
            sch2, p2 = g2.get_state(include_expired=inc)
            if p2 != p1 and frames(p2) == frames(p1):
                bad.append(("note:comment-differs", "", ""))
            if frames(p2) != frames(p1):
                lost = [k for k in p1 if k not in p2]
                extra = [k for k in p2 if k not in p1]
                what = "lost" if lost else "extra" if extra else "changed"
                bad.append((f"fixpoint-packets-differ:{what}", f"include_expired={inc} lost={[p1[k][:60] for k in lost[:2]]} extra={[p2[k][:60] for k in extra[:2]]}", ""))
            if not eav and shrink(sch1) != shrink(sch2):
                # a replay gateway's clock is the timestamp of the last packet of its OWN log (the epoch for the empty log g2 was started with), so in g2 every
                # restored packet looks live; whether a system-less device is listed (as an orphan) depends on its messages being live: a device with an
                # expired packet in the snapshot is left out of the comparison of the orphan lists
                stale_devs = {by_key[k].src.id for k in p1 if k in by_key and by_key[k]._expired}
                for sec in schema_diffs(shrink(sch1), shrink(sch2), skip=stale_devs):
                    bad.append((f"fixpoint-schema-differs:{sec}", f"include_expired={inc}", json.dumps([shrink(sch1), shrink(sch2)])[:1500]))
            # the same snapshot again (twice), and into the gateway it came from
            await g2._restore_cached_packets(p1)
            await gw.settle()
            sch3, p3 = g2.get_state(include_expired=inc)
            if frames(p3) != frames(p2):
                bad.append(("restore-twice-changes-packets", f"include_expired={inc}", ""))
            if shrink(sch3) != shrink(sch2):
                for sec in (schema_diffs(shrink(sch2), shrink(sch3)) if not eav else ["any"]):
                    bad.append((f"restore-twice-changes-schema:eavesdrop-{'on' if eav else 'off'}:{sec}", f"include_expired={inc}", ""))
            await g2.stop()
            await g1._restore_cached_packets(p1)
            await gw.settle()
            sch4, p4 = g1.get_state(include_expired=inc)
            if frames(p4) != frames(p1):
                lost = [k for k in p1 if k not in p4]
                only_expired = bool(lost) and set(p4) <= set(p1) and all(k in by_key and by_key[k]._expired for k in lost)
                bad.append(("restore-into-same-changes-packets:" + ("expired-packet-purged" if only_expired else "other"), f"include_expired={inc} lost={[p1[k][:60] for k in lost[:2]]} n={len(p1)}->{len(p4)}", ""))
            if shrink(sch4) != shrink(sch1):
                for sec in (schema_diffs(shrink(sch1), shrink(sch4)) if not eav else ["any"]):
                    bad.append((f"restore-into-same-changes-schema:eavesdrop-{'on' if eav else 'off'}:{sec}", f"include_expired={inc}", ""))
    finally:
        await g1.stop()
    return bad


FILTER_PKTS = [  # (line, stored?) every (code kind, verb, short/long) combination the filter distinguishes
    "RQ --- 18:000730 01:145038 --:------ 313F 001 00",
    "RP --- 01:145038 18:000730 --:------ 313F 009 00FC3400C50B0207E6",
    " I --- 01:145038 --:------ 01:145038 313F 009 00FC3400C50B0207E6",
    " W --- 18:000730 01:145038 --:------ 313F 009 0060030B0C1F0107E6",
    "RQ --- 18:000730 01:145038 --:------ 0404 007 00200008000100",
    "RP --- 01:145038 18:000730 --:------ 0404 048 0020000829010468816DCDD10980300C45D1BE24CD9713398093388BF33981A3882842B5BDE9571F178E4ABB4DA5E879",
    " W --- 18:000730 01:145038 --:------ 0404 048 0020000829010468816DCDD10980300C45D1BE24CD9713398093388BF33981A3882842B5BDE9571F178E4ABB4DA5E879",
    " I --- 01:145038 18:000730 --:------ 0404 048 0020000829010468816DCDD10980300C45D1BE24CD9713398093388BF33981A3882842B5BDE9571F178E4ABB4DA5E879",
    " I --- 01:145038 18:000730 --:------ 0404 007 00200008000103",
    "RQ --- 18:000730 01:145038 --:------ 30C9 001 00",
    "RP --- 01:145038 18:000730 --:------ 30C9 003 0007D0",
    " I --- 01:145038 --:------ 01:145038 30C9 003 0007D0",
    " W --- 18:000730 01:145038 --:------ 2309 003 0007D0",
    " I --- 01:145038 18:000730 --:------ 2309 003 0007D0",
    " W --- 18:000730 01:145038 --:------ 2349 007 0007D000FFFFFF",
    " I --- 01:145038 18:000730 --:------ 2349 007 0007D000FFFFFF",
    "RP --- 01:145038 18:000730 --:------ 0418 022 004000B0040000000000CB6E7A8B7FFFFF70000637B3",
]


async def filter_trial(late):
    """get_state() on a gateway holding one packet of every kind the filter distinguishes; expired or not."""
    from ramses_tx.message import Message  # noqa: PLC0415
    from ramses_tx.packet import Packet  # noqa: PLC0415

    t0 = _dt.datetime(2026, 1, 1, 12)
    lines = [f"{(t0 + _dt.timedelta(seconds=i)).isoformat(timespec='microseconds')} 045 {p}" for i, p in enumerate(FILTER_PKTS)]
    tail_t = t0 + (_dt.timedelta(days=400) if late else _dt.timedelta(seconds=60))
    lines.append(f"{tail_t.isoformat(timespec='microseconds')} 045  I --- 01:145038 --:------ 01:145038 1F09 003 FF0532")
    gwy = await gw.make_gateway(lines)
    held = {repr(m._pkt)[:26]: m for m in flat_msgs(gwy)}
    rows = []
    for inc in (False, True):
        keys = set(gwy.get_state(include_expired=inc)[1])
        for ln in lines[:-1]:
            m = held.get(ln[:26])
            if m is None:
                rows.append(None)
                continue
            rows.append((attrs_of(m), inc, bool(m._expired), ln[:26] in keys))
    await gwy.stop()
    return rows, [ln[27:] for ln in lines[:-1]]


def run(ctx: Ctx) -> None:
    logging.disable(logging.CRITICAL)
    thorough = ctx.tier == "thorough"
    rng = ctx.rng
    ctx.rule = ("(a) filter: one stored packet of every (313F / 0404 / other) x verb x short/long kind, expired and not, include_expired on/off, "
                "observed through get_state() and compared with wanted_msg of the model; (b) store+snapshot: histories derived from the recorded "
                "systems fed to a real gateway packet by packet, the slots each packet is written to OBSERVED, the model's snapshot over those slots "
                "compared with get_state()'s keys; (c) the statement on real gateways: snapshot -> fresh Gateway built with the snapshot's schema -> "
                "restore -> snapshot (packets identical; schema identical with eavesdropping off), the same snapshot restored twice, and restored "
                "into the gateway it came from, both include_expired settings, at the end of each history (prefix histories give the 'every prefix' "
                "points); non-trivial = a derived history holding at least one packet; distinct = by history text")
    ctx.assumptions += ["the fixpoint theorem is for a fresh gateway whose clock is not ahead of the original's (a replay gateway's clock is its last packet's "
                        "timestamp; with a wall clock that has moved on, packets that expired in between are legitimately gone)",
                        "routing of a packet to store slots is an arbitrary function of the packet in the theorems; in the implementation it also depends on "
                        "the entities that exist -- tied by the oracle (c), not proved",
                        "expiry verdicts in correspondence (b) are the implementation's own (expiry is C14's model)"]
    built = ctx.build("C16", THEOREMS)

    # (a) filter clauses through get_state()
    cases, want = [], []
    for late in (False, True):
        rows, pkts = gw.run_async(filter_trial, late)[0]
        for r, p in zip(rows, pkts * 2):
            if r is None:
                continue
            a, inc, ex, kept = r
            cases.append(f"wanted_msg {str(inc).lower()} {str(ex).lower()} ({a})")
            want.append(kept)
            ctx.case(("filter", p, inc, ex), True, "filter-combination")
    n_filter = len(cases)
    # (b) store + snapshot over observed slots
    syss = gw.systems()
    n_b = 60 if thorough else 14
    store_cases = []
    clears = 0
    same_frame_bad, same_frame_n = [], 0
    for i in range(n_b):
        lines, kind, name, cfg = gw.derive(rng, syss, max_len=120 if not thorough else 200)
        eav = rng.random() < 0.5
        (per_pkt, snaps, expired, events, n_clear), _ = gw.run_async(observe_history, lines, cfg, eav)
        clears += n_clear
        ctx.case(("observed-history", "\n".join(lines), eav), True, f"slots-observed:{kind}")
        if per_pkt and isinstance(per_pkt[-1][0], str):
            ctx.obligation("correspondence:store-is-latest-per-slot", False, "correspondence", f"{per_pkt[-1][0]} at {per_pkt[-1][1]} ({name}, {kind})")
            continue
        # the same frame later in the history is written to (at least) the slots its earlier copy was written to
        seen = {}
        for j, (sl, _m) in enumerate(per_pkt):
            fr = lines[j][27:].split(" # ")[0].rstrip()
            if fr in seen and not set(per_pkt[seen[fr]][0]) <= set(sl):
                same_frame_bad.append(f"{name}/{kind}: '{fr}' at line {seen[fr]} wrote slots {per_pkt[seen[fr]][0]}, its copy at line {j} wrote {sl}")
            seen[fr] = j
        same_frame_n += len(per_pkt) - len(seen)
        slots = "[" + "; ".join("[" + "; ".join(map(str, s)) + "]" for s, _ in per_pkt) + "]"
        att = "[" + "; ".join(attrs_of(m) if m is not None else "dflt" for _, m in per_pkt) + "]"
        ex = "[" + "; ".join(str(e).lower() for e in expired) + "]"
        for inc in (False, True):
            store_cases.append((f"snap {str(inc).lower()} {slots} {att} {ex} [{'; '.join(events)}]",
                                sorted({lines[j][:26] for j in range(len(lines))} & set(snaps[inc])), lines, name, kind, inc))
    ctx.obligation("correspondence:latest-copy-of-a-frame-takes-the-slots", not same_frame_bad, "correspondence",
                   f"{len(same_frame_bad)} repeated frames did not; first: {same_frame_bad[0]}" if same_frame_bad else f"{same_frame_n} repeated frames checked")
    if built:
        files = {"filter": PRELUDE + "Eval vm_compute in [" + ";\n ".join(cases) + "].\n"}
        for i in range(8):
            files[f"s{i}"] = PRELUDE + "".join(f"Eval vm_compute in ({c[0]}).\n" for c in store_cases[i::8])
        res = common.coq_eval("C16", files, timeout=600)
        rc, out = res["filter"]
        m = re.search(r"=\s*\[(.*?)\]\s*:\s*list bool", out, flags=re.S)
        if rc or not m:
            ctx.obligation("correspondence:wanted_msg", False, "correspondence", out[-400:])
        else:
            got = [x.strip() == "true" for x in m.group(1).split(";")]
            bad = [(c, g, w) for c, g, w in zip(cases, got, want) if g != w]
            ctx.obligation("correspondence:wanted_msg", not bad and len(got) == n_filter, "correspondence",
                           f"{len(bad)} of {n_filter} differ; first: {bad[0][0]} model {bad[0][1]} get_state kept it: {bad[0][2]}" if bad else f"{n_filter} combinations agree")
        bad, total = [], 0
        for i in range(8):
            rc, out = res[f"s{i}"]
            mine = store_cases[i::8]
            rows = [eval(o.replace(";", ","), {"__builtins__": {}}) for o in re.findall(r"=\s*(\[.*?\])\s*:\s*list nat", out, flags=re.S)]  # noqa: S307
            if rc or len(rows) != len(mine):
                ctx.obligation("correspondence:store-and-snapshot", False, "correspondence", f"rc={rc} {len(rows)} results for {len(mine)} cases {out[-300:]}")
                break
            for (c, keys, lines, name, kind, inc), r in zip(mine, rows):
                total += 1
                model_keys = sorted({lines[j][:26] for j in r})
                if model_keys != keys:
                    diff = sorted(set(model_keys) ^ set(keys))
                    bad.append(f"{name}/{kind} include_expired={inc}: model and get_state() differ on {diff[:3]} "
                               f"({[ln for ln in lines if ln[:26] in diff][:2]})")
        else:
            ctx.obligation("correspondence:store-and-snapshot", not bad, "correspondence",
                           f"{len(bad)} of {total} differ; first: {bad[0]}" if bad else f"{total} (history, include_expired) snapshots agree")
        ctx.extra["slot_clear_events_observed"] = clears
    else:
        ctx.obligation("correspondence:wanted_msg", False, "correspondence", "model not built")
        ctx.obligation("correspondence:store-and-snapshot", False, "correspondence", "model not built")

    # (c) the statement on real gateways
    n_c = 1200 if thorough else 160
    witness = ["2020-01-01T12:00:00.000000 045 RP --- 01:145038 18:000730 --:------ 313F 009 00FC3400C50B0207E6",
               "2026-01-01T12:00:00.000000 045  I --- 01:145038 --:------ 01:145038 30C9 003 0007D0"]
    notes = {}
    # a clock-correction exchange as the gateway itself performs it: request, reply, WRITE, announcement -- of the four only the reply and the
    # announcement belong in a snapshot ("no requests, no writes other than schedule fragments")
    clock = ["2026-01-01T12:00:00.000000 045  I --- 01:145038 --:------ 01:145038 1F09 003 FF0708",
             "2026-01-01T12:00:01.000000 045 RQ --- 18:013393 01:145038 --:------ 313F 001 00",
             "2026-01-01T12:00:01.100000 045 RP --- 01:145038 18:013393 --:------ 313F 009 00FC1E000C010107EA",
             "2026-01-01T12:00:02.000000 045  W --- 18:013393 01:145038 --:------ 313F 009 006000000C010107EA",
             "2026-01-01T12:00:02.100000 045  I --- 01:145038 18:013393 --:------ 313F 009 00FC00000C010107EA",
             "2026-01-01T12:00:03.000000 045  W --- 18:013393 01:145038 --:------ 2309 003 0107D0",
             "2026-01-01T12:00:03.100000 045  I --- 01:145038 18:013393 --:------ 2309 003 0107D0",
             "2026-01-01T12:00:04.000000 045  I --- 04:189078 --:------ 01:145038 30C9 003 0007D0"]
    hists = [(witness, "crafted-313F", "crafted", {}), (clock, "crafted-clock-write", "crafted", {})] + [(clock[:k], "crafted-clock-write", "crafted", {}) for k in (4, 5, 6)]
    # two systems on the air, the one with the LOWER controller id heard second: which of them the gateway calls its main one is a matter of the history,
    # not of when somebody first looked (a running gateway saves its state now and then; the restart reads it once, at the end)
    two = []
    for j, c in enumerate(("01:200000", "01:100000")):
        for i in range(18):
            sec = j * 30 + i
            two.append(f"2026-01-01T12:00:{sec:02d}.000000 045  I --- {c} --:------ {c} " + ("1F09 003 FF0514", f"30C9 003 00{0x07D0 + i:04X}", f"2309 003 00{0x0708 + i:04X}")[i % 3])
    hists.append((two, "crafted-two-controllers", "crafted", {}))
    hists += [gw.derive(rng, syss) for _ in range(n_c)]
    for name, base, cfg in syss:            # the recorded systems verbatim, and every 40th prefix
        hists.append((base, "verbatim", name, cfg))
        for k in range(40, len(base), 40 if thorough else 160):
            hists.append((base[:k], "prefix", name, cfg))
    # histories that REWIND (two pieces of a log spliced as they are, a block of lines repeated): a packet arrives after one of the same slot
    # that carries a later timestamp -- nothing is re-timed here
    for name, base, cfg in syss:
        for _ in range(4 if thorough else 2):
            if len(base) < 60:
                continue
            m = rng.randrange(40, min(len(base), 400))
            n = rng.randrange(0, m - 20)
            k = min(len(base), n + rng.randrange(15, 120))
            hists.append((base[:m] + base[n:k], "rewind", name, cfg))
    # the same histories under another, equally ordinary configuration: the user's known_list names the gateway (class HGI) and a device or two, and is
    # NOT enforced -- the running gateway accepts everybody, so must the restart
    for name, base, cfg in syss:
        hgi = next((m.group(0) for ln in base for m in [re.search(r"\b18:\d{6}\b", ln)] if m), None)
        if hgi is None or (cfg or {}).get("config", {}).get("enforce_known_list"):
            continue
        devs = sorted({x for ln in base[:200] for x in re.findall(r"\b(?:01|04|13|34):\d{6}\b", ln[27:90])})[:2]
        c2 = json.loads(json.dumps(cfg or {}))
        c2["known_list"] = {hgi: {"class": "HGI"}, **{d: {} for d in devs}}
        c2.setdefault("config", {})["enforce_known_list"] = False
        hists.append((base[:rng.randrange(min(60, len(base)), min(len(base), 400) + 1)], "known-list-not-enforced", name, c2))
    for lines, kind, name, cfg in hists:
        eav = rng.random() < 0.5 if kind not in ("crafted-313F", "crafted-two-controllers") else False
        try:
            reads = 0 if kind == "crafted-313F" or len(lines) < 12 else 5 if kind == "crafted-two-controllers" else rng.choice((0, 0, 5))
            bad, _ = gw.run_async(fixpoint_trial, lines, cfg, eav, False, reads)
            # independence of earlier reads is stated for a clock that does not run backwards: expiry is a latch (C14: it never un-happens), so a read taken
            # while a rewinding log's clock stood LATER sees a message expired that the rewound clock at the end would still call live
            monotone = all(a[:26] <= b[:26] for a, b in zip(lines, lines[1:]))
            if reads and len(lines) >= 30 and monotone:
                bad += gw.run_async(early_reads_trial, lines, cfg, eav)[0]
        except Exception as err:  # noqa: BLE001
            import traceback  # noqa: PLC0415
            tb = traceback.extract_tb(err.__traceback__)[-1]
            bad = [(f"snapshot-or-restore-raises:{type(err).__name__}:{tb.name}", str(err)[:200], "")]
        ctx.case(("fixpoint", "\n".join(lines), eav), kind not in ("verbatim",), f"fixpoint:{kind}")
        for sig, a, b in bad:
            if sig.startswith("note:"):
                notes[sig[5:]] = notes.get(sig[5:], 0) + 1
                continue
            ctx.violation(sig, f"{sig}: {a} {b} ({kind} history of {name}, eavesdrop={eav})",
                          {"system": name, "kind": kind, "eavesdrop": eav, "detail": [a, b], "lines": lines}, "history")
    ctx.notes.append(f"snapshots whose packets were identical but whose trailing '# header (context)' comment differed after the restore "
                     f"(the context of an array fragment is derived from its neighbour): {notes.get('comment-differs', 0)}")


def _unused():
    pass


def replay(case: dict) -> int:
    print(case.get("signature"), str(case.get("case"))[:2000])
    return 0

