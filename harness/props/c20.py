"""C20 -- binding handshakes: the waiting step (model + theorems), tied to the real BindContext
states on a virtual-time loop, plus a two-ended handshake oracle over a lossy / repeating medium."""

from __future__ import annotations

import asyncio
import datetime as _dt
import logging
import re

from .. import common
from ..common import Ctx
from ..vloop import VLoop

THEOREMS = ["C20_wait_ends_cleanly", "C20_invariant_everywhere", "C20_wait_timer_ends", "C20_duplicate_match_is_noop",
            "C20_old_timeout_refuted", "C20_now_timeout_clean", "C20_no_loop_exceptions", "C20_old_repeat_refuted",
            "C20_phases_exclusive", "C20_offer_is_not_confirm", "C20_abandon_leaves_no_timer", "C20_abandon_ends_binding",
            "C20_retry_is_fresh", "C20_wrong_abandon_order_refuted", "C20_right_abandon_order_witness", "C20_early_match_not_lost", "C20_waits_as_stated"]

PRELUDE = ("From Coq Require Import List Bool Arith.\nFrom RV Require Import M_Bind.\nImport ListNotations.\n"
           "Set Printing Width 1000000.\nSet Printing Depth 1000000.\n"
           "Definition show (r : bw * nat) : list nat := [match b_w (fst r) with Done OkMsg => 1 | Done FlowFailed => 2 | Done InvalidState => 3 | _ => 0 end;\n"
           "  match b_ctx (fst r) with CWaiting => 0 | CNext => 1 | CFailed => 2 end; snd r].\n")

G = 1.0 / 64


class Dev:
    def __init__(self, did):
        self.id = did


def mk_msgs():
    from ramses_tx.command import Command  # noqa: PLC0415
    from ramses_tx.message import Message  # noqa: PLC0415

    offer = Message._from_cmd(Command.put_bind(" I", "07:222222", ["1260"], dst_id="07:222222"))
    other_accept = Message._from_cmd(Command.put_bind(" W", "01:333333", ["1260"], dst_id="07:222222"))
    return offer, other_accept


def run_wait(scn):
    """Drive one real wait (respondent waiting for an offer, or supplicant waiting for its confirm's echo)."""
    import ramses_rf.binding_fsm as B  # noqa: PLC0415
    from ramses_rf import exceptions as exc  # noqa: PLC0415
    from ramses_tx.command import Command  # noqa: PLC0415
    from ramses_tx.message import Message  # noqa: PLC0415

    loop = VLoop(lifo=scn["lifo"])
    asyncio.set_event_loop(loop)
    errs = []
    loop.set_exception_handler(lambda lp, c: errs.append(type(c.get("exception")).__name__))
    res = {}

    async def main():
        ctx = B.BindContext(Dev("01:111111"))
        offer, other = mk_msgs()
        if scn["kind"] == "offer":
            ctx.set_state(B.RespIsWaitingForOffer)
            match, waiter = offer, ctx._wait_for_offer
        else:
            ctx.set_state(B.SuppIsReadyToSendConfirm)
            cmd = Command.put_bind(" I", "01:111111", None, dst_id="07:222222")
            ctx.state.send_cmd(cmd)
            match = Message._from_cmd(cmd)
            waiter = ctx.state.cast_confirm_accept
        def deliver(m):   # Fakeable._handle_msg: only while binding
            if ctx.is_binding:
                ctx.rcvd_msg(m)

        for t, k in scn["msgs"]:
            loop.call_at(t, deliver, match if k == "match" else other)

        def snap():
            st = type(ctx.state).__name__
            res["ctx"] = {"RespIsWaitingForOffer": 0, "SuppIsReadyToSendConfirm": 0, "RespSendAcceptWaitForConfirm": 1,
                          "SuppHasBoundAsSupplicant": 1, "DevHasFailedBinding": 2}.get(st, 7)
            res["binding"] = ctx.is_binding

        async def w():
            try:
                await waiter()
                res["out"] = 1
            except exc.BindingFlowFailed:
                res["out"] = 2
            except asyncio.InvalidStateError:
                res["out"] = 3
            except Exception as err:  # noqa: BLE001
                res["out"] = 9
                res["err"] = type(err).__name__
            snap()   # the state right after the wait (the successor state has timers of its own)

        loop.call_at(scn["start"], lambda: loop.create_task(w()))
        await asyncio.sleep(14)
        if "ctx" not in res:
            snap()

    try:
        loop.run_until_complete(main())
    finally:
        asyncio.set_event_loop(None)
        loop.close()
    errs[:] = [e for e in errs if e != "BindingFlowFailed"]   # the successor state's own (never awaited) expiry
    return [res.get("out", 0), res["ctx"], len(errs)], res, errs


def scn_to_coq(scn) -> str:
    """The instants the model consumes: events grouped by time, in the order the loop runs them."""
    has_st = scn["kind"] == "offer"
    evs = []  # (time, order-key, ev)
    # seq numbers: injected messages are scheduled first (in list order), then the start, then timers at start
    for i, (t, k) in enumerate(scn["msgs"]):
        evs.append((t, i, "EMatch" if k == "match" else "EOther"))
    n = len(scn["msgs"])
    evs.append((scn["start"], n, "EStart"))
    if has_st:
        evs.append((5.1, -1, "EStateTimer"))          # armed when the state object was created, before everything else
    evs.append((scn["start"] + 5.0, n + 1, "EWaitTimer"))
    times = sorted({e[0] for e in evs})
    groups = []
    for t in times:
        g = sorted([e for e in evs if e[0] == t], key=lambda e: -e[1] if scn["lifo"] else e[1])
        groups.append("[" + "; ".join(e[2] for e in g) + "]")
    return f"show (run true {'true' if has_st else 'false'} [" + "; ".join(groups) + "])"


def run_attempts(scn):
    """Two attempts on ONE real context: the first is given up (its task cancelled, as a caller's wait_for does) or times out by
    itself, the second follows; wait_for_binding_request itself is driven, so its except clauses and _abandon_binding run."""
    import ramses_rf.binding_fsm as B  # noqa: PLC0415
    from ramses_rf import exceptions as exc  # noqa: PLC0415

    loop = VLoop(lifo=False)
    asyncio.set_event_loop(loop)
    errs, res = [], {}
    loop.set_exception_handler(lambda lp, c: errs.append(type(c.get("exception")).__name__))

    async def main():
        class D(Dev):
            async def _async_send_cmd(self, cmd, priority=None, qos=None):   # the accept is being sent: the wait for the offer succeeded
                res[self.tag] = [1, 1 if type(ctx.state).__name__ == "RespSendAcceptWaitForConfirm" else 7]
                await asyncio.Future()

        dev = D("01:111111")
        ctx = B.BindContext(dev)
        offer, other = mk_msgs()

        async def attempt(tag):
            dev.tag = tag
            try:
                await ctx.wait_for_binding_request(["1260"])
            except exc.BindingFlowFailed:
                res[tag] = [2, 2 if type(ctx.state).__name__ == "DevHasFailedBinding" else (0 if ctx.is_binding else 7)]
            except exc.BindingFsmError:
                res[tag] = [4, 0]

        def deliver(m):
            if ctx.is_binding:
                ctx.rcvd_msg(m)

        tasks = {}
        loop.call_at(0.0, lambda: tasks.__setitem__(1, loop.create_task(attempt(1))))
        if scn["abandon_at"] is not None:
            loop.call_at(scn["abandon_at"], lambda: tasks[1].cancel())
        loop.call_at(scn["retry_at"], lambda: tasks.__setitem__(2, loop.create_task(attempt(2))))
        for t, k in scn["msgs"]:
            loop.call_at(t, deliver, offer if k == "match" else other)
        await asyncio.sleep(scn["retry_at"] + 6)
        res["binding_end"] = ctx.is_binding
        for t in tasks.values():
            t.cancel()
        await asyncio.sleep(0)

    try:
        loop.run_until_complete(main())
    finally:
        asyncio.set_event_loop(None)
        loop.close()
    return res.get(2, [0, 0]), res, errs


def run_double_start(scn):
    """One attempt on a real context; while it waits, the binding API is called AGAIN on the same device (refused: already binding);
    then the offer arrives.  Returns (outcome of the first attempt, outcome of the refused call, is_binding right after the refusal)."""
    import ramses_rf.binding_fsm as B  # noqa: PLC0415
    from ramses_rf import exceptions as exc  # noqa: PLC0415

    loop = VLoop(lifo=False)
    asyncio.set_event_loop(loop)
    res = {}
    loop.set_exception_handler(lambda lp, c: None)

    async def main():
        class D(Dev):
            async def _async_send_cmd(self, cmd, priority=None, qos=None):
                res.setdefault("first", [1, 1 if type(ctx.state).__name__ in ("RespSendAcceptWaitForConfirm", "SuppSendOfferWaitForAccept") else 7])
                await asyncio.Future()

        dev = D("01:111111")
        ctx = B.BindContext(dev)
        offer, other = mk_msgs()

        async def first():
            try:
                await ctx.wait_for_binding_request(["1260"])
            except exc.BindingError as err:
                res["first"] = [2, type(err).__name__]

        async def second():
            try:
                if scn["second_role"] == "resp":
                    await ctx.wait_for_binding_request(["1260"])
                else:
                    await ctx.initiate_binding_process(["1260"])
                res["second"] = "started"
            except exc.BindingFsmError:
                res["second"] = "BindingFsmError"
            except Exception as err:  # noqa: BLE001
                res["second"] = type(err).__name__
            res["binding_after_refusal"] = ctx.is_binding

        t1 = loop.create_task(first())
        loop.call_at(scn["second_at"], lambda: loop.create_task(second()))
        loop.call_at(scn["offer_at"], lambda: ctx.rcvd_msg(offer) if ctx.is_binding else None)
        await asyncio.sleep(7)
        t1.cancel()
        await asyncio.sleep(0)

    try:
        loop.run_until_complete(main())
    finally:
        asyncio.set_event_loop(None)
        loop.close()
    return res


def double_starts(ctx: Ctx) -> None:
    for second_at, offer_at, role in ((0.5, 1.0, "resp"), (G, 2 * G, "resp"), (2.0, 4.5, "supp"), (0.5, 1.0, "supp"), (4.0, 4.5, "resp")):
        scn = {"second_at": second_at, "offer_at": offer_at, "second_role": role}
        res = run_double_start(scn)
        ctx.case(("double-start", second_at, offer_at, role), True, "double-start")
        case = {**scn, **{k: (v if isinstance(v, str | bool) else list(v)) for k, v in res.items()}}
        if res.get("second") != "BindingFsmError":
            ctx.violation("second-start-while-binding-not-refused", "a binding API called while an attempt is under way is not refused with BindingFsmError", case, "schedule")
        if res.get("binding_after_refusal") is not True or res.get("first", [0])[0] != 1:
            ctx.violation("refused-start-disturbs-the-attempt-under-way", "a second start on a device that is already binding (correctly refused) ends or fails the attempt under way: "
                          "the offer arriving afterwards within the wait is not taken", case, "schedule")


def attempts_to_coq(scn) -> str:
    evs = [(0.0, "AWait EStart")]
    t1, t2 = scn["abandon_at"], scn["retry_at"]
    if t1 is not None:
        evs += [(t1, "AAbandon"), (5.1, "AStale")]
    else:
        evs += [(5.0, "AWait EWaitTimer"), (5.1, "AWait EStateTimer")]
    evs += [(t2, "ANew true; AWait EStart"), (t2 + 5.0, "AWait EWaitTimer"), (t2 + 5.1, "AWait EStateTimer")]
    evs += [(t, "AWait EMatch" if k == "match" else "AWait EOther") for t, k in scn["msgs"]]
    evs.sort(key=lambda e: e[0])
    return "showa (arun true true [" + "; ".join("[" + e[1] + "]" for e in evs) + "])"


def gen_attempts(rng):
    while True:
        t1 = rng.choice([None, G, 0.5, 1.0, 3.0, 4.5])
        t2 = (t1 if t1 is not None else 5.25) + rng.choice([2 * G, 0.5, 1.0, 2.0])
        msgs = []
        for _ in range(rng.choice([0, 1, 1, 2, 3])):
            kind = rng.choice(["match", "match", "other"])
            t = rng.choice([t2 + 3 * G, t2 + 1.0, 5.1 - 3 * G, 5.1 + 3 * G, t2 + 5.0 - 3 * G, t2 + 4.0, 0.25, t2 - G])
            if kind == "match" and t < t2 and t1 is None:
                kind = "other"     # an offer during a first attempt that is not given up would complete it: outside this model
            if kind == "match" and t1 is not None and t < t1:
                kind = "other"
            msgs.append((t, kind))
        special = {0.0, 5.0, 5.1, t1, t2, t2 + 5.0, t2 + 5.1}
        times = [t for t, _ in msgs]
        if not (set(times) & special) and len(set(times)) == len(times):   # no two events in one loop iteration
            return {"abandon_at": t1, "retry_at": t2, "msgs": sorted(msgs)}


def attempts_correspondence(ctx: Ctx, built: bool, n: int) -> None:
    rng = ctx.rng
    scns = [{"abandon_at": 1.0, "retry_at": 1.5, "msgs": [(5.4, "match")]},      # given up at 1 s, retried at 1.5 s, the offer comes after the old timer's due time
            {"abandon_at": G, "retry_at": 3 * G, "msgs": [(5.1 + G, "match")]},
            {"abandon_at": 4.5, "retry_at": 5.0 - G, "msgs": [(5.1 + 3 * G, "match")]},
            {"abandon_at": None, "retry_at": 5.5, "msgs": [(6.0, "match")]},
            {"abandon_at": 1.0, "retry_at": 1.5, "msgs": []}]
    scns += [gen_attempts(rng) for _ in range(n)]
    impl = []
    for s in scns:
        row, res, errs = run_attempts(s)
        impl.append(row)
        ctx.case(("attempts", s["abandon_at"], s["retry_at"], tuple(s["msgs"])), True, "attempts:" + ("given-up" if s["abandon_at"] is not None else "timed-out"))
        offered = [t for t, k in s["msgs"] if k == "match" and s["retry_at"] < t < s["retry_at"] + 5.0]
        case = {**s, "second_attempt": {0: "never ended", 1: "offer received, accept being sent", 2: "BindingFlowFailed", 4: "BindingFsmError (still binding)"}[row[0]],
                "loop_exceptions": errs}
        if offered and row[0] != 1:
            ctx.violation("retried-attempt-misses-its-offer", "a new attempt, started after the previous one was given up or had failed, did not take the offer that arrived within its wait",
                          case, "schedule")
        if not offered and row[0] != 2:
            ctx.violation("retried-attempt-does-not-end", "a new attempt without an offer did not end with BindingFlowFailed", case, "schedule")
    if not built:
        ctx.obligation("correspondence:attempts", False, "correspondence", "model not built")
        return
    pre = PRELUDE.replace("M_Bind.", "M_Bind M_BindAttempts.") + (
        "Definition showa (c : ctxw) : list nat := [match b_w (c_cur c) with Done OkMsg => 1 | Done FlowFailed => 2 | Done InvalidState => 3 | _ => 0 end;\n"
        "  match b_ctx (c_cur c) with CWaiting => 0 | CNext => 1 | CFailed => 2 end].\n")
    rc, out = common.coq_eval("C20att", {"x": pre + "".join(f"Eval vm_compute in ({attempts_to_coq(s)}).\n" for s in scns)}, timeout=300)["x"]
    if rc:
        ctx.obligation("correspondence:attempts", False, "correspondence", out[-400:])
        return
    rows = [eval(o.replace(";", ","), {"__builtins__": {}}) for o in re.findall(r"=\s*(\[.*?\])\s*:\s*list nat", out, flags=re.S)]  # noqa: S307
    bad = [i for i, (a, b) in enumerate(zip(rows, impl)) if list(a) != list(b)]
    ctx.obligation("correspondence:attempts", not bad and len(rows) == len(impl), "correspondence",
                   f"{len(bad)} of {len(impl)} differ; first: {scns[bad[0]]} model {rows[bad[0]]} implementation {impl[bad[0]]}" if bad or len(rows) != len(impl)
                   else f"{len(impl)} two-attempt histories on one real context agree (outcome of the second attempt, context state)")


def gen_wait(rng):
    kind = rng.choice(["offer", "offer", "echo"])
    start = rng.choice([0.0, 0.0, G, 0.5])
    msgs = []
    for _ in range(rng.choice([0, 0, 1, 1, 2, 3, 4])):
        t = rng.choice([G, 1.0, start, start + 5.0 - G, start + 5.0, start + 5.0 + G, 5.1 - G, 5.1, 5.1 + G, 3.0, 7.0])
        msgs.append((t, rng.choice(["match", "match", "other"])))
    if rng.random() < 0.3 and msgs:
        msgs.append(msgs[0])  # an exact repeat in the same instant (RF devices send each frame three times)
    return {"kind": kind, "start": start, "msgs": msgs, "lifo": rng.random() < 0.4}


def run(ctx: Ctx) -> None:
    logging.disable(logging.CRITICAL)
    rng = ctx.rng
    thorough = ctx.tier == "thorough"
    ctx.rule = ("(X) single waits of the real state classes (respondent waiting for an offer, with the state's 5.1 s timer; supplicant "
                "waiting for its confirm's echo, without) under schedules of awaited / repeated / foreign packets placed at "
                "{start, 5.0-e, 5.0, 5.0+e, 5.1-e, 5.1, 5.1+e, ...} with both tie policies; (O) two-ended handshakes (respondent and "
                "supplicant contexts over a medium that delays, repeats x1-3, loses or fails sends), every role / with and without "
                "the ratify step, and a second attempt after every failure; non-trivial = the wait saw at least one packet")
    ctx.assumptions += ["the event loop is abstracted to instants: injected events of one instant run in one iteration and the waiter's "
                        "wake-up (one or two call_soon hops) runs before the next instant",
                        "sending is abstracted: _async_send_cmd returns the echo after a delay or raises ProtocolSendFailed"]
    built = ctx.build("C20", THEOREMS)
    scns = [{"kind": "offer", "start": 0.0, "msgs": [], "lifo": False},
            {"kind": "offer", "start": 0.0, "msgs": [(5.0, "match")], "lifo": False},
            {"kind": "offer", "start": 0.0, "msgs": [(5.0, "match")], "lifo": True},
            {"kind": "offer", "start": 0.0, "msgs": [(1.0, "match"), (1.0, "match"), (1.0, "match")], "lifo": False},
            {"kind": "echo", "start": 0.0, "msgs": [], "lifo": False},
            {"kind": "echo", "start": 0.0, "msgs": [(5.0, "match")], "lifo": True}]
    scns += [gen_wait(rng) for _ in range(400 if thorough else 100)]
    impl = []
    for s in scns:
        row, res, errs = run_wait(s)
        impl.append(row)
        ctx.case(("wait", s["kind"], s["start"], tuple(s["msgs"]), s["lifo"]), bool(s["msgs"]), "wait:" + s["kind"])
        case = {**s, "outcome": {0: "never ended", 1: "message", 2: "BindingFlowFailed", 3: "InvalidStateError", 9: res.get("err")}[row[0]],
                "state_after": row[1], "loop_exceptions": errs}
        if row[0] in (0, 3, 9):
            ctx.violation(f"wait-ends-with:{case['outcome']}", "a binding wait did not end with the awaited packet or a binding error", case, "schedule")
        if res["binding"] and row[0] in (2, 3, 9):
            ctx.violation("still-binding-after-failed-wait", "after a failed wait the device is still 'binding': no new attempt can start", case, "schedule")
        if errs:
            rep = "with-repeats" if sum(1 for _, k in s["msgs"] if k == "match") >= 2 else "without-repeats"
            ctx.violation("loop-exception-in-wait:" + ",".join(sorted(set(errs))) + ":" + rep, "an exception was left in the event loop by a binding wait", case, "schedule")
    if built:
        files = {"x": PRELUDE + "".join(f"Eval vm_compute in ({scn_to_coq(s)}).\n" for s in scns)}
        res = common.coq_eval("C20", files, timeout=300)
        rc, out = res["x"]
        if rc:
            ctx.obligation("correspondence:wait-step", False, "correspondence", out[-400:])
        else:
            rows = [eval(o.replace(";", ","), {"__builtins__": {}}) for o in re.findall(r"=\s*(\[.*?\])\s*:\s*list nat", out, flags=re.S)]  # noqa: S307
            bad = [i for i, (a, b) in enumerate(zip(rows, impl)) if list(a) != list(b)]
            ctx.obligation("correspondence:wait-step", not bad and len(rows) == len(impl), "correspondence",
                           f"{len(bad)} of {len(impl)} differ; first: {scns[bad[0]]} model {rows[bad[0]]} implementation {impl[bad[0]]}" if bad else "")
    else:
        ctx.obligation("correspondence:wait-step", False, "correspondence", "model not built")
    attempts_correspondence(ctx, built, 120 if thorough else 40)
    double_starts(ctx)
    phase_correspondence(ctx, built)
    handshakes(ctx, 150 if thorough else 40)


def phase_correspondence(ctx: Ctx, built: bool) -> None:
    """BindStateBase.is_phase on real packets of every (code, verb, destination kind) vs the model."""
    import ramses_rf.binding_fsm as B  # noqa: PLC0415
    from ramses_tx.command import Command  # noqa: PLC0415

    src = "07:222222"
    codes = {"K1FC9": ("1FC9", "0012601CA6B6"), "K10E0": ("10E0", "000001C8380F0100F1FF070B07E6030507E15438375246323032350000000000000000"[:76]), "KOther": ("1260", "0013FF")}
    dsts = {"DSelf": src, "DAll": "63:262142", "DOther": "01:111111"}
    verbs = {"PI": " I", "PW": " W", "PRQ": "RQ", "PRP": "RP"}
    phases = {"Tender": B.BindPhase.TENDER, "Accept": B.BindPhase.ACCEPT, "Affirm": B.BindPhase.AFFIRM, "Ratify": B.BindPhase.RATIFY}
    cases, want = [], []
    for kc, (code, pl) in codes.items():
        for kv, verb in verbs.items():
            for kd, dst in dsts.items():
                a = f"{src} --:------ {src}" if kd == "DSelf" else f"{src} {dst} --:------"
                try:
                    cmd = Command(f"{verb} --- {a} {code} {len(pl) // 2:03d} {pl}")
                except Exception:  # noqa: BLE001, S112
                    continue
                for kp, ph in phases.items():
                    cases.append(f"is_phase {kc} {kv} {kd} {kp}")
                    want.append(bool(B.BindStateBase.is_phase(cmd, ph)))
                    ctx.case(("is_phase", kc, kv, kd, kp), True, "phase-classification")
                    if kp in ("Accept", "Affirm") and want[-1] and B.BindStateBase.is_phase(cmd, B.BindPhase.TENDER):
                        ctx.violation(f"offer-taken-for-{kp.lower()}", f"a packet that is an offer ({verb} {a} {code}) is also recognised as the {kp.lower()} phase: "
                                      "a third party's offer can end a wait for that packet", {"frame": str(cmd), "phase": kp}, "input")
    if not built:
        ctx.obligation("correspondence:is_phase", False, "correspondence", "model not built")
        return
    res = common.coq_eval("C20ph", {"x": PRELUDE + "Eval vm_compute in [" + "; ".join(cases) + "].\n"}, timeout=300)
    rc, out = res["x"]
    m = re.search(r"=\s*\[(.*?)\]\s*:\s*list bool", out, flags=re.S)
    if rc or not m:
        ctx.obligation("correspondence:is_phase", False, "correspondence", out[-400:])
        return
    got = [x.strip() == "true" for x in m.group(1).split(";")]
    bad = [(c, g, w) for c, g, w in zip(cases, got, want) if g != w]
    ctx.obligation("correspondence:is_phase", not bad and len(got) == len(cases), "correspondence",
                   f"{len(bad)} of {len(cases)} differ; first: {bad[0][0]} model {bad[0][1]} implementation {bad[0][2]}" if bad else f"{len(cases)} (code, verb, destination, phase) combinations agree")


def real_routing() -> dict:
    """Which 1FC9 frames the REAL dispatcher.process_msg hands to a binding device that did not send them: {(phase, "me" | "other"): bool}, "me" = the
    frame is addressed to that device (or to itself / the broadcast address, for an offer), "other" = to some other device."""
    import io  # noqa: PLC0415

    from ramses_rf import Gateway  # noqa: PLC0415
    from ramses_rf.dispatcher import process_msg  # noqa: PLC0415
    from ramses_tx.message import Message  # noqa: PLC0415
    from ramses_tx.packet import Packet  # noqa: PLC0415

    out = {}

    async def main():
        gwy = Gateway(None, input_file=io.TextIOWrapper(io.BytesIO(b"")), config={"disable_discovery": True, "enforce_known_list": False})
        await gwy.start()
        heard = []
        me = gwy.get_device("07:222222")
        other = gwy.get_device("07:333333")
        for d in (me, other):
            d._bind_context = type("B", (), {"is_binding": True})()
            d._handle_msg = (lambda m, d=d: heard.append(d.id))
        from ramses_tx.command import Command  # noqa: PLC0415
        frames = {("offer", "me"): str(Command.put_bind(" I", "01:111111", ["1260"], None)),
                  ("offer", "other"): " I --- 29:158183 63:262142 --:------ 1FC9 006 0012607669E7",
                  ("accept", "me"): str(Command.put_bind(" W", "01:111111", ["1260"], "07:222222")),
                  ("accept", "other"): str(Command.put_bind(" W", "01:111111", ["1260"], "07:888888")),
                  ("confirm", "me"): str(Command.put_bind(" I", "01:111111", ["1260"], "07:222222")),
                  ("confirm", "other"): str(Command.put_bind(" I", "01:111111", ["1260"], "07:888888"))}
        for k, (key, frame) in enumerate(frames.items()):
            heard.clear()
            msg = Message(Packet.from_port(_dt.datetime(2026, 1, 1, 12, 0, k), "045 " + frame))
            process_msg(gwy, msg)
            for _ in range(6):
                await asyncio.sleep(0)
            out[key] = "07:222222" in heard
        await gwy.stop()

    loop = asyncio.new_event_loop()
    asyncio.set_event_loop(loop)
    try:
        loop.run_until_complete(main())
    finally:
        asyncio.set_event_loop(None)
        loop.close()
    return out


def handshakes(ctx: Ctx, n: int) -> None:
    """Respondent and supplicant contexts over a scripted medium whose routing is the REAL dispatcher's (asked once per run)."""
    try:
        route = real_routing()
    except Exception as err:  # noqa: BLE001
        route = None
        ctx.obligation("correspondence:dispatcher-routing", False, "correspondence", f"the real dispatcher could not be asked: {type(err).__name__}: {err}"[:300])
    rule = {("offer", "me"): True, ("offer", "other"): True, ("accept", "me"): True, ("accept", "other"): False, ("confirm", "me"): True, ("confirm", "other"): False}
    if route is not None:
        diff = {f"{k[0]} addressed to {k[1]}": (route[k], rule[k]) for k in rule if route[k] != rule[k]}
        ctx.obligation("correspondence:dispatcher-routing", not diff, "correspondence",
                       f"the real dispatcher routes 1FC9 frames to binding devices otherwise than the handshake model assumes (real, assumed): {diff}" if diff
                       else "offers reach every binding device; accepts and confirms reach their addressee only (asked of the real process_msg)")
        for k in (("accept", "other"), ("confirm", "other")):
            if route[k]:
                ctx.violation(f"another-pairs-{k[0]}-reaches-a-binding-device", f"a 1FC9 {k[0]} addressed to ANOTHER device is handed to a device that is binding (which takes it for its own peer's)",
                              {"frame_kind": k[0], "addressed_to": "another device", "delivered_to": "07:222222 (binding)"}, "schedule")
    else:
        route = rule
    import ramses_rf.binding_fsm as B  # noqa: PLC0415
    from ramses_rf import exceptions as rexc  # noqa: PLC0415
    from ramses_tx import exceptions as texc  # noqa: PLC0415
    from ramses_tx.message import Message  # noqa: PLC0415
    from ramses_tx.packet import Packet  # noqa: PLC0415

    rng = ctx.rng
    for trial in range(n):
        plan = {"repeat": rng.choice([1, 1, 2, 3]), "delay": rng.choice([G, 2 * G, 0.5]),
                "lose": rng.choice([None, None, None, "offer", "accept", "confirm"]),
                "fail_send": rng.choice([None, None, None, None, "offer", "accept", "confirm"]),
                "third_party": rng.choice([None, None, "offer-self", "offer-all", "offer-all", "accept"]),
                "third_party_at": rng.choice([0.1, 0.2 + G, 0.2 + 3 * G, 0.2 + 0.5 + G, 1.3]), "lifo": rng.random() < 0.3,
                "resp_late": rng.choice([0.0, 0.0, 1.0, 4.9]),
                # the caller of one end gives up (cancels its attempt) at this time; the retry follows after this gap
                "give_up": rng.choice([None, None, None, ("resp", 0.1), ("resp", 1.0), ("supp", 0.2 + G), ("supp", 1.0), ("resp", 4.0)]),
                "retry_gap": rng.choice([6.0, 6.0, 0.0, 0.5, 2.0, 4.0]),
                # the send of this frame RETURNS late (its echo was lost and the frame retransmitted, or the send was stalled behind other work): the peer,
                # which heard the first copy, has answered before the sender's own send call is over
                "late_return": rng.choice([None, None, "offer", "accept", "offer+accept"]), "late_by": rng.choice([2 * G, 0.3, 0.6])}
        if plan["third_party"]:
            plan["retry_gap"] = 6.0    # the neighbours' pairing must be over before the retry: "a new, undisturbed attempt"
        if trial < 6:   # first: an end that gives up early and retries at once, the peer's offer arriving late in the new wait
            plan.update({"lose": ["offer", "offer", "accept", "offer", "accept", "offer"][trial], "fail_send": None, "third_party": None, "resp_late": 0.0, "repeat": 1,
                         "give_up": [("resp", 1.0), ("resp", 0.1), ("supp", 1.0), ("resp", 1.0), ("supp", 0.2 + G), ("resp", 4.0)][trial],
                         "retry_gap": [0.5, 0.0, 2.0, 2.0, 2.5, 0.0][trial], "solo": True})
            # the peer joins late in the retried attempt: after the moment the abandoned state's 5.1 s timer would have fired, within the new wait
            if plan["give_up"][0] == "resp":
                plan["late_2nd"] = ("supp", 3.9)
            else:     # the respondent listens from the start of the retry; every frame of the retry takes 2.4 s to get through
                plan["delay_2nd"] = 2.4
        elif trial < 12:   # then: an otherwise undisturbed handshake in which the peer's reply overtakes the end of the sender's own send
            plan.update({"lose": None, "fail_send": None, "third_party": None, "resp_late": 0.0, "give_up": None, "retry_gap": 6.0, "delay": G,
                         "repeat": [1, 1, 2, 1, 3, 1][trial - 6], "late_return": ["offer", "accept", "offer+accept", "offer+accept", "accept", "offer"][trial - 6],
                         "late_by": [0.3, 0.3, 0.6, 4 * G, 0.6, 2.0][trial - 6]})
        elif trial < 18:   # then: the send of ONE handshake frame fails for good (no echo after every retransmission), everything else undisturbed;
            # and the supplicant's caller gives up while the confirm is on its way
            k = trial - 12
            plan.update({"lose": None, "fail_send": ["offer", "accept", "confirm", "confirm", None, None][k], "third_party": None, "resp_late": 0.0, "retry_gap": [6.0, 6.0, 6.0, 0.0, 6.0, 0.0][k],
                         "delay": [G, G, G, 0.5, 0.5, 0.5][k], "repeat": 1, "late_return": None,
                         "give_up": [None, None, None, None, ("supp", 0.2 + 0.5 + 0.5 + 0.25), ("supp", 0.2 + 0.5 + 0.5 + 0.25)][k]})
        elif trial < 23:   # then: FOUR-frame handshakes (the supplicant adds its 10E0 addenda, the respondent waits for it): undisturbed; the addenda's send
            # fails for good; the respondent's caller gives up while waiting for the addenda; the addenda is lost
            k = trial - 18
            plan.update({"ratify": True, "lose": [None, None, None, "addenda", None][k], "fail_send": [None, "addenda", None, None, "addenda"][k], "third_party": None, "resp_late": 0.0,
                         "retry_gap": [6.0, 6.0, 0.0, 6.0, 0.0][k], "delay": G, "repeat": [3, 1, 1, 1, 1][k], "late_return": None,
                         "give_up": [None, None, ("resp", 0.2 + 8 * G), None, None][k]})
        loop = VLoop(lifo=plan["lifo"])
        asyncio.set_event_loop(loop)
        errs = []
        loop.set_exception_handler(lambda lp, c: errs.append(type(c.get("exception")).__name__))
        out = {}
        from ramses_tx.command import Command as _Cmd  # noqa: PLC0415
        RATIFY = _Cmd(" I --- 07:222222 63:262142 --:------ 10E0 038 000001C8380F0100F1FF070B07E6030507E15438375246323032350000000000000000000000")

        async def main():
            ctxs = {}

            class D(Dev):
                async def _async_send_cmd(self, cmd, priority=None, qos=None):
                    me = ctxs[self.id]
                    if me.is_binding:
                        me.sent_cmd(cmd)
                    phase = ("addenda" if cmd.code == "10E0" else
                             "offer" if cmd.verb == " I" and cmd.dst.id in (cmd.src.id, "63:262142") else
                             "accept" if cmd.verb == " W" else "confirm")
                    if plan["fail_send"] == phase:
                        await asyncio.sleep(plan["delay"])
                        raise texc.ProtocolSendFailed("scripted send failure")
                    await asyncio.sleep(plan["delay"])
                    pkt = Packet._from_cmd(cmd)
                    msg = Message(pkt)
                    def deliver(c, m):   # Fakeable._handle_msg: only while binding
                        if c.is_binding:
                            c.rcvd_msg(m)

                    for did, c in ctxs.items():   # routing as dispatcher.process_msg does it
                        if did == self.id:
                            loop.call_soon(deliver, c, msg)            # the sender sees its own echo
                        elif plan["lose"] != phase and (phase == "addenda" or route[(phase, "me" if phase == "offer" or cmd.dst.id == did else "other")]):
                            for _ in range(plan["repeat"]):
                                loop.call_soon(deliver, c, msg)
                    if plan.get("late_return") and phase in plan["late_return"]:
                        await asyncio.sleep(plan["late_by"])
                    out.setdefault("sent_at", {}).setdefault((self.id, phase), loop.time())     # the first time this end's send of that frame returned
                    return pkt

            r_dev, s_dev = D("01:111111"), D("07:222222")
            ctxs[r_dev.id] = B.BindContext(r_dev)
            ctxs[s_dev.id] = B.BindContext(s_dev)

            async def attempt(tag):
                async def resp():
                    if tag == 1 and plan.get("solo") and plan["give_up"][0] != "resp":
                        return ("absent", None)
                    await asyncio.sleep(plan["resp_late"] if tag == 1 else (plan["late_2nd"][1] if plan.get("late_2nd", ("", 0))[0] == "resp" else 0))
                    out.setdefault("began", {})[("resp", tag)] = loop.time()
                    try:
                        return ("ok", await ctxs[r_dev.id].wait_for_binding_request(["1260"], require_ratify=bool(plan.get("ratify"))))
                    except Exception as err:  # noqa: BLE001
                        return ("exc", err)
                    finally:
                        out.setdefault("ended", {})[("resp", tag)] = loop.time()

                async def supp():
                    if tag == 1 and plan.get("solo") and plan["give_up"][0] != "supp":
                        return ("absent", None)
                    await asyncio.sleep(0.2 if tag == 1 else (plan["late_2nd"][1] if plan.get("late_2nd", ("", 0))[0] == "supp" else 0.2))
                    out.setdefault("began", {})[("supp", tag)] = loop.time()
                    try:
                        return ("ok", await ctxs[s_dev.id].initiate_binding_process(["1260"], ratify_cmd=RATIFY if plan.get("ratify") else None))
                    except Exception as err:  # noqa: BLE001
                        return ("exc", err)
                    finally:
                        out.setdefault("ended", {})[("supp", tag)] = loop.time()

                async def limited(role, coro):
                    gu = plan["give_up"]
                    if tag != 1 or not gu or gu[0] != role:
                        return await coro
                    try:
                        return await asyncio.wait_for(coro, gu[1])
                    except TimeoutError:
                        return ("gave-up", None)

                t0 = loop.time()
                r, s = await asyncio.gather(limited("resp", resp()), limited("supp", supp()))
                return r, s, loop.time() - t0

            if plan["third_party"]:   # another pairing going on nearby: every binding device sees its offers (dispatcher routing)
                from ramses_tx.command import Command  # noqa: PLC0415
                frame = {"offer-self": " I --- 07:888888 --:------ 07:888888 1FC9 006 0012601DCEB8",
                         "offer-all": " I --- 29:158183 63:262142 --:------ 1FC9 006 0012607669E7",
                         "accept": " W --- 01:999999 07:888888 --:------ 1FC9 006 0012600743AF"}[plan["third_party"]]
                stray = Message._from_cmd(Command(frame))
                offers_only = plan["third_party"] != "accept" or route[("accept", "other")]     # an accept is addressed: only its destination sees it
                for k in range(3):
                    loop.call_later(plan["third_party_at"] + plan["delay"] * k, lambda: [c.rcvd_msg(stray) for c in ctxs.values() if c.is_binding and offers_only])
            out["first"] = await attempt(1)
            out["binding_at_end"] = {k: c.is_binding for k, c in ctxs.items()}
            await asyncio.sleep(plan["retry_gap"])   # 6 s: any state timer has expired by now; shorter: a retry at once
            out["binding_after"] = {k: c.is_binding for k, c in ctxs.items()}
            saved = dict(plan)
            plan.update({"lose": None, "fail_send": None, "repeat": 1, "resp_late": 0.0, "delay": plan.get("delay_2nd", plan["delay"]), "late_return": None, "ratify": False})
            out["second"] = await attempt(2)
            plan.update(saved)
            await asyncio.sleep(6)

        try:
            loop.run_until_complete(main())
        except Exception as err:  # noqa: BLE001
            ctx.violation(f"handshake-harness-raises:{type(err).__name__}", "the handshake episode itself raised", {"plan": plan, "error": repr(err)}, "schedule")
            continue
        finally:
            asyncio.set_event_loop(None)
            loop.close()
        ctx.case(("handshake", repr(plan)), True, "handshake:" + ("clean" if not plan["lose"] and not plan["fail_send"] else "faulty"))
        (r, s, dur) = out["first"]
        case = {"plan": plan, "respondent": r[0] if r[0] != "exc" else type(r[1]).__name__, "supplicant": s[0] if s[0] != "exc" else type(s[1]).__name__,
                "duration_s": dur, "loop_exceptions": errs}
        clean = not plan["lose"] and not plan["fail_send"] and plan["resp_late"] < 0.2   # the respondent listens before the offer
        gave_up = r[0] in ("gave-up", "absent") or s[0] in ("gave-up", "absent")
        clean = clean and not gave_up
        if plan["third_party"] and plan["third_party"].startswith("offer") and plan["third_party_at"] <= 0.2 + plan["delay"] + G:
            clean = False   # a respondent legitimately takes the first offer it hears: the third party's came first
        for role, res in (("respondent", r), ("supplicant", s)):
            if res[0] == "exc":
                e = res[1]
                if isinstance(e, texc.ProtocolSendFailed) and plan["fail_send"]:
                    ctx.violation("send-failure-surfaces-as-ProtocolSendFailed", "a binding attempt whose send failed ends with ProtocolSendFailed, not a binding error",
                                  {**case, "role": role}, "schedule")
                elif not isinstance(e, rexc.BindingError):
                    ctx.violation(f"attempt-ends-with:{type(e).__name__}", "a binding attempt ended with an exception that is not a binding error", {**case, "role": role}, "schedule")
        if clean:
            if r[0] != "ok" or s[0] != "ok":
                ctx.violation("clean-handshake-fails", "offer/accept/confirm were all exchanged (with repeats) but an end reports failure", case, "schedule")
            else:
                rt, st = r[1], s[1]
                if [str(rt[0]), str(rt[1]), str(rt[2])] != [str(st[0]), str(st[1]), str(st[2])]:
                    ctx.violation("ends-disagree-on-packets", "both ends report success with different offer/accept/confirm packets",
                                  {**case, "respondent_tuple": [str(x) for x in rt[:3]], "supplicant_tuple": [str(x) for x in st[:3]]}, "schedule")
        if dur > 25:
            ctx.violation("attempt-not-bounded", "a binding attempt took longer than its stated waits allow", case, "schedule")
        # the stated waits, first attempt: a respondent listens 5 s for an offer and, once its accept is sent, 3 s for the confirm; a supplicant waits
        # 5 s for the accept once its offer is sent.  An end that FAILED (no caller gave up) has not waited longer than that.
        sent, began, ended = out.get("sent_at", {}), out.get("began", {}), out.get("ended", {})
        slack = 6 * G + (plan["late_by"] if plan.get("late_return") else 0)
        if r[0] == "exc" and ("resp", 1) in ended and not (plan["give_up"] and plan["give_up"][0] == "resp"):
            acc = sent.get(("01:111111", "accept"))
            limit = (acc + 3.0) if acc is not None and not plan["fail_send"] == "accept" else (began[("resp", 1)] + 5.0 + plan["delay"])
            if ended[("resp", 1)] > limit + slack:
                ctx.violation("wait-longer-than-stated:respondent:" + ("confirm" if acc is not None else "offer"),
                              "the respondent's attempt failed later than its stated wait allows (5 s for the offer; 3 s for the confirm once the accept is sent)",
                              {**case, "accept_sent_at": acc, "began": began[("resp", 1)], "ended": ended[("resp", 1)], "limit": limit}, "schedule")
        if s[0] == "exc" and ("supp", 1) in ended and not (plan["give_up"] and plan["give_up"][0] == "supp"):
            off = sent.get(("07:222222", "offer"))
            if off is not None and ended[("supp", 1)] > off + 5.0 + slack + 3.0 * (s[0] == "never"):
                ctx.violation("wait-longer-than-stated:supplicant:accept", "the supplicant's attempt failed later than 5 s after its offer was sent",
                              {**case, "offer_sent_at": off, "ended": ended[("supp", 1)]}, "schedule")
        if any(out["binding_at_end"].values()):
            ctx.violation("still-binding-when-attempt-ended", "an attempt ended (result, error or the caller gave up) and the device is still binding",
                          {**case, "binding": out["binding_at_end"]}, "schedule")
        if any(out["binding_after"].values()):
            ctx.violation("still-binding-after-attempt", "after an attempt ended (and all timers expired) a device is still binding", {**case, "binding": out["binding_after"]}, "schedule")
        r2, s2, _ = out["second"]
        if r2[0] != "ok" or s2[0] != "ok":
            ctx.violation("retry-after-attempt-fails", "a new, undisturbed attempt after the first one does not succeed",
                          {**case, "second": [r2[0] if r2[0] == "ok" else type(r2[1]).__name__ + ": " + str(r2[1])[:80],
                                              s2[0] if s2[0] == "ok" else type(s2[1]).__name__ + ": " + str(s2[1])[:80]]}, "schedule")
        other = [e for e in errs if e != "BindingFlowFailed"]   # never-awaited expiry futures are logged only
        if other:
            rep = "with-repeats" if plan["repeat"] > 1 or plan["third_party"] else "without-repeats"
            ctx.violation("loop-exception-in-handshake:" + ",".join(sorted(set(other))) + ":" + rep, "an exception was left in the event loop", case, "schedule")


def replay(case: dict) -> int:
    print(case.get("signature"), case.get("case"))
    return 0
