(* C11 -- Transmit regulation holds for every send pattern.  Statements only.
   RATE, CAPACITY, the frame-size formula, the gap and the token constants are regenerated from the source. *)
From Coq Require Import ZArith List Bool Sorted.
From RV Require Import GenConsts M_Regulate P_Regulate M_RegulateK P_RegulateK M_SyncAvoid P_SyncAvoid.
Import ListNotations.
Open Scope Z_scope.

Lemma rate_cap_nonneg : 0 < RATE /\ 0 <= CAPACITY.
Proof. vm_compute. split; [reflexivity | discriminate]. Qed.

(* duty cycle, sequential use: in ANY run of the wrapper (any arrival times, any frame sizes, any extra delay before a
   write), any stretch of consecutive writes hands the radio at most RATE x (time from its first to its last write)
   + one full bucket + its first frame *)
Theorem C11_duty_window : forall pre r mid post b last prev, valid RATE CAPACITY b last prev (pre ++ r :: mid ++ post) ->
  bits (r :: mid) <= RATE * (lastwr r mid - r_wr r) + CAPACITY + r_size r.
Proof. exact (duty_window RATE CAPACITY (Z.lt_le_incl _ _ (proj1 rate_cap_nonneg)) (proj2 rate_cap_nonneg)). Qed.

(* the sleep the wrapper computes covers the shortfall, and is not a tick longer than needed: regulation only delays *)
Theorem C11_sleep_exact : forall l s,
  s - l <= RATE * sleep_ticks RATE l s /\ (l < s -> RATE * (sleep_ticks RATE l s - 1) < s - l).
Proof. intros l s. split; [apply sleep_enough | apply sleep_tight]; exact (proj1 rate_cap_nonneg). Qed.

(* write spacing: in any stretch of events whose semaphore ticks fall within [x, y], (writes - 2) gaps fit into y - x:
   spaced by the gap on average, never more than one extra write (plus the token in hand at the start) *)
Theorem C11_gap_window : forall G evs tok x y, 0 < G -> x <= y -> gvalid tok evs = true -> spaced G (ticks evs) ->
  Forall (fun t => x <= t <= y) (ticks evs) -> G * (nwrites evs - 2) <= y - x.
Proof. exact gap_window. Qed.

(* MQTT: an accepted write waits at most one second for its token debt (an over-budget write is dropped instead),
   and what any run of writes accepts is covered by the tokens in hand + the refill until its last write + that debt *)
Theorem C11_mq_bounded_wait : forall s t s' slp, mq_ok s -> m_ts s <= t -> mq_write s t = (s', true, slp) -> 0 <= slp <= TICKS_PER_S.
Proof. exact mq_bounded_wait. Qed.
Theorem C11_mq_allowance : forall ts s, mq_ok s -> StronglySorted Z.le (m_ts s :: ts) ->
  mq_accepted s ts * TOKEN <= m_tok s + TRATE * (lastz (m_ts s) ts - m_ts s) + TRATE_S.
Proof. exact mq_allowance. Qed.
Theorem C11_mq_invariant : forall s t, mq_ok s -> m_ts s <= t -> mq_ok (fst (fst (mq_write s t))) /\ m_ts (fst (fst (mq_write s t))) = t.
Proof. exact mq_write_ok. Qed.

(* ---- concurrent callers: any interleaving of arrivals (top-up, decision) and writes (debit) of calls of which at most K are
   pending at once; a write may be delayed for any time beyond the sleep its caller computed (semaphore, sync avoidance) ---- *)
Definition MAXF : Z := frame_size 96.
Lemma k_side : 0 <= RATE /\ 0 <= MAXF /\ MAXF <= CAPACITY.
Proof. vm_compute. repeat split; discriminate. Qed.

(* the level (as the next top-up would compute it) never falls below minus (K-1) frames: each of the K callers pending together
   can overdraw by what the others debit after it looked, and by no more *)
Theorem C11_concurrent_level_floor : forall K evs t0 s, 1 <= K -> Forall (small MAXF) evs ->
  crun RATE CAPACITY K (cinit CAPACITY t0) evs = Some s -> - ((K - 1) * MAXF) <= vlevel RATE s.
Proof. intros K evs t0 s HK. exact (level_floor RATE CAPACITY K MAXF (proj1 k_side) (proj1 (proj2 k_side)) (proj2 (proj2 k_side)) HK evs t0 s). Qed.

(* any stretch `mid` of any run: the bits handed to the radio are at most rate x (time the stretch spans) + one full bucket
   + one frame per call already pending when the stretch starts + (K-1) frames *)
Theorem C11_duty_window_concurrent : forall K pre mid t0 s1 s2, 1 <= K -> Forall (small MAXF) (pre ++ mid) ->
  crun RATE CAPACITY K (cinit CAPACITY t0) pre = Some s1 -> crun RATE CAPACITY K s1 mid = Some s2 ->
  cbits RATE CAPACITY K s1 mid <= RATE * (c_now s2 - c_now s1) + CAPACITY + npend s1 * MAXF + (K - 1) * MAXF.
Proof. intros K pre mid t0 s1 s2 HK. exact (window_concurrent RATE CAPACITY K MAXF (proj1 k_side) (proj1 (proj2 k_side)) (proj2 (proj2 k_side)) HK pre mid t0 s1 s2). Qed.

(* ... with the time measured from the first event of the stretch, e.g. from one write to a later one *)
Theorem C11_duty_window_concurrent_from : forall K pre e rest t0 s1 s2, 1 <= K -> Forall (small MAXF) (pre ++ e :: rest) ->
  crun RATE CAPACITY K (cinit CAPACITY t0) pre = Some s1 -> crun RATE CAPACITY K s1 (e :: rest) = Some s2 ->
  cbits RATE CAPACITY K s1 (e :: rest) <= RATE * (c_now s2 - ev_time e) + CAPACITY + npend s1 * MAXF + (K - 1) * MAXF.
Proof. intros K pre e rest t0 s1 s2 HK. exact (window_concurrent_from RATE CAPACITY K MAXF (proj1 k_side) (proj1 (proj2 k_side)) (proj2 (proj2 k_side)) HK pre e rest t0 s1 s2). Qed.

(* the floor is reached (K = 3): drain the bucket to exactly one frame, then three callers arrive together, each sees enough, all write *)
Definition drain_evs : list cev :=
  flat_map (fun i => [CArr i 0 (frame_size 96); CWr i 0]) (map Z.of_nat (seq 0 16)) ++ [CArr 16 0 (frame_size 78); CWr 16 0] ++
  [CArr 20 0 MAXF; CArr 21 0 MAXF; CArr 22 0 MAXF; CWr 20 0; CWr 22 0; CWr 21 0].
Theorem C11_concurrent_floor_is_reached :
  Forall (small MAXF) drain_evs /\
  option_map (vlevel RATE) (crun RATE CAPACITY 3 (cinit CAPACITY 0) drain_evs) = Some (- ((3 - 1) * MAXF)).
Proof. split; [repeat constructor; vm_compute; discriminate | vm_compute; reflexivity]. Qed.

(* the allowance is the one the property states: 1% of the radio's 38 400 bit/s, a bucket worth 60 s of it *)
Theorem C11_allowance_as_stated : RATE * 100 <= 38400 /\ 0 < RATE /\ CAPACITY = RATE * 60 * TICKS_PER_S.
Proof. repeat split; vm_compute; congruence. Qed.

(* "regulation only delays writes", the sync-cycle avoidance (avoid_system_syncs; window constants re-read from the source): an announced sync
   holds a write only inside its window -- never once its time has come (whatever became of the controller that announced it), never earlier than
   the window, always inside it ... *)
Theorem C11_sync_never_held_once_due : forall due now, due - SYNC_WINDOW_LOWER_us <= now -> imminent due now = false.
Proof. exact never_held_once_due. Qed.
Theorem C11_sync_never_held_early : forall due now, now <= due - SYNC_WINDOW_UPPER_us -> imminent due now = false.
Proof. exact never_held_early. Qed.
Theorem C11_sync_held_inside_the_window : forall due now, due - SYNC_WINDOW_UPPER_us < now < due - SYNC_WINDOW_LOWER_us -> imminent due now = true.
Proof. exact held_inside_the_window. Qed.
(* ... so the wait for an announcement ends: at the end of its window at the latest, plus one sleep (12 iterations always suffice) *)
Theorem C11_sync_hold_bounded : forall fuel due now, (12 <= fuel)%nat ->
  imminent due (hold fuel [due] now) = false /\ now <= hold fuel [due] now <= Z.max now (due - SYNC_WINDOW_LOWER_us + SYNC_WAIT_SHORT_us).
Proof. exact hold_one_bounded. Qed.
(* the window is the one the source's comments describe: opens 108.8 ms and closes 8 ms before the announced time; 10 ms sleeps *)
Theorem C11_sync_window_as_stated : SYNC_WINDOW_UPPER_us = 108800 /\ SYNC_WINDOW_LOWER_us = 8000 /\ SYNC_WAIT_SHORT_us = 10000 /\ SYNC_WAIT_LONG_us = 84000.
Proof. repeat split; reflexivity. Qed.
(* a test without the lower bound holds every write for ever once an announcement's time has come and no further one is heard *)
Theorem C11_sync_one_sided_refuted : forall due now, due <= now -> imminent_one_sided due now = true.
Proof. exact one_sided_holds_for_ever. Qed.
