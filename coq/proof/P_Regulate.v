From Coq Require Import ZArith List Bool Lia Sorted.
From RV Require Import GenConsts M_Regulate.
Import ListNotations.
Open Scope Z_scope.

(* ---- the duty-cycle bucket ---- *)
Section Bucket.
  Variables R CAP : Z.
  Hypothesis R_nonneg : 0 <= R.
  Hypothesis CAP_nonneg : 0 <= CAP.
  Notation refill := (refill R CAP).
  Notation valid := (valid R CAP).

  Fixpoint lastwr (r : req) (rest : list req) : Z := match rest with [] => r_wr r | r2 :: rest' => lastwr r2 rest' end.
  Lemma lastwr_cons r r2 rest : lastwr r (r2 :: rest) = lastwr r2 rest.
  Proof. reflexivity. Qed.

  Lemma refill_le_cap b l t : refill b l t <= CAP.
  Proof. unfold M_Regulate.refill. apply Z.le_min_r. Qed.
  Lemma refill_le_lin b l t : refill b l t <= b + R * (t - l).
  Proof. unfold M_Regulate.refill. apply Z.le_min_l. Qed.

  (* everything written from request r on is covered by the level r saw plus what trickled in since *)
  Lemma run_bound : forall rest r b last prev, valid b last prev (r :: rest) ->
    bits (r :: rest) <= refill b last (r_arr r) + R * (lastwr r rest - r_arr r).
  Proof.
    induction rest as [|r2 rest IH]; intros r b last prev H; cbn [M_Regulate.valid] in H; destruct H as (H1 & H2 & H3 & H4 & H5).
    - cbn. lia.
    - specialize (IH r2 _ _ _ H5). rewrite lastwr_cons. cbn [bits fold_right] in *.
      pose proof (refill_le_lin (refill b last (r_arr r) - r_size r) (r_arr r) (r_arr r2)).
      cbn [M_Regulate.valid] in H5. lia.
  Qed.

  Lemma valid_app_r : forall pre rs b last prev, valid b last prev (pre ++ rs) -> exists b' last' prev', valid b' last' prev' rs.
  Proof.
    induction pre as [|p pre IH]; intros rs b last prev H; [exists b, last, prev; exact H|].
    cbn [app M_Regulate.valid] in H. destruct H as (_ & _ & _ & _ & H). exact (IH _ _ _ _ H).
  Qed.
  Lemma valid_app_l : forall xs ys b last prev, valid b last prev (xs ++ ys) -> valid b last prev xs.
  Proof.
    induction xs as [|x xs IH]; intros ys b last prev H; [exact I|].
    cbn [app M_Regulate.valid] in *. destruct H as (H1 & H2 & H3 & H4 & H5). repeat split; auto. exact (IH _ _ _ _ H5).
  Qed.

  (* any stretch of consecutive writes r, ..., r_j of any valid run: the bits handed to the radio are at most the
     allowance for the time between the first and the last of them, plus one full bucket, plus the first frame *)
  Theorem duty_window : forall pre r mid post b last prev, valid b last prev (pre ++ r :: mid ++ post) ->
    bits (r :: mid) <= R * (lastwr r mid - r_wr r) + CAP + r_size r.
  Proof.
    intros pre r mid post b last prev H. apply valid_app_r in H as (b' & l' & p' & H).
    change (r :: mid ++ post) with ((r :: mid) ++ post) in H. apply valid_app_l in H.
    destruct mid as [|r2 mid].
    - cbn [lastwr bits fold_right]. replace (r_wr r - r_wr r) with 0 by lia. rewrite Z.mul_0_r. lia.
    - cbn [M_Regulate.valid] in H. destruct H as (H1 & H2 & H3 & H4 & H5).
      pose proof (run_bound mid r2 _ _ _ H5) as B. rewrite lastwr_cons.
      pose proof (refill_le_cap (refill b' l' (r_arr r) - r_size r) (r_arr r) (r_arr r2)) as C.
      cbn [M_Regulate.valid] in H5. destruct H5 as (G1 & _).
      assert (R * (lastwr r2 mid - r_arr r2) <= R * (lastwr r2 mid - r_wr r)) by (apply Z.mul_le_mono_nonneg_l; lia).
      cbn [bits fold_right] in *. lia.
  Qed.

  (* the sleep the wrapper computes is long enough (this is what `valid` asks of a write) and not a tick longer *)
  Lemma sleep_enough : 0 < R -> forall l s, s - l <= R * sleep_ticks R l s.
  Proof.
    intros HR l s. unfold sleep_ticks. destruct (l <? s) eqn:E; [apply Z.ltb_lt in E | apply Z.ltb_ge in E; lia].
    pose proof (Z.div_mod (s - l + R - 1) R ltac:(lia)). pose proof (Z.mod_pos_bound (s - l + R - 1) R HR). lia.
  Qed.
  Lemma sleep_tight : 0 < R -> forall l s, l < s -> R * (sleep_ticks R l s - 1) < s - l.
  Proof.
    intros HR l s Hl. unfold sleep_ticks. apply Z.ltb_lt in Hl. rewrite Hl. apply Z.ltb_lt in Hl.
    pose proof (Z.div_mod (s - l + R - 1) R ltac:(lia)). pose proof (Z.mod_pos_bound (s - l + R - 1) R HR). lia.
  Qed.
End Bucket.

(* ---- the write-gap semaphore ---- *)
Lemma gvalid_count : forall evs tok, gvalid tok evs = true ->
  nwrites evs <= Z.of_nat (length (ticks evs)) + (if tok then 1 else 0).
Proof.
  unfold nwrites, ticks. induction evs as [|[t|t] evs IH]; intros tok H.
  - cbn. destruct tok; lia.
  - cbn [gvalid] in H. specialize (IH true H). cbn [filter ticks flat_map app length] in *. destruct tok; lia.
  - cbn [gvalid] in H. apply andb_prop in H as [Ht H]. subst tok. specialize (IH false H).
    cbn [filter ticks flat_map app length] in *. lia.
Qed.

Fixpoint lastz (t0 : Z) (ts : list Z) : Z := match ts with [] => t0 | t1 :: r => lastz t1 r end.
Lemma spaced_span : forall G ts t0, 0 <= G -> spaced G (t0 :: ts) -> G * Z.of_nat (length ts) <= lastz t0 ts - t0.
Proof.
  intros G ts. induction ts as [|t1 ts IH]; intros t0 HG H; [cbn; lia|].
  cbn [spaced] in H. destruct H as [H1 H2]. specialize (IH t1 HG H2). cbn [lastz length]. lia.
Qed.

Lemma lastz_bounds : forall ts t0 x y, Forall (fun t => x <= t <= y) (t0 :: ts) -> x <= lastz t0 ts <= y.
Proof.
  induction ts as [|t1 ts IH]; intros t0 x y H; inversion H as [|a l Ha Hl]; subst; [exact Ha|]. cbn [lastz]. apply IH. exact Hl.
Qed.

(* in any stretch of events whose ticks fall within [x, y]: at most one write per tick plus the token in hand, and the
   ticks are a gap apart -- so the writes are spaced by the gap on average, with never more than one extra *)
Theorem gap_window : forall G evs tok x y, 0 < G -> x <= y -> gvalid tok evs = true -> spaced G (ticks evs) ->
  Forall (fun t => x <= t <= y) (ticks evs) ->
  G * (nwrites evs - 2) <= y - x.
Proof.
  intros G evs tok x y HG Hxy Hv Hs Hf. pose proof (gvalid_count evs tok Hv) as Hc.
  destruct (ticks evs) as [|t0 ts] eqn:E.
  - cbn in Hc. assert (nwrites evs <= 1) by (destruct tok; lia). nia.
  - pose proof (spaced_span G ts t0 ltac:(lia) Hs) as Hsp. pose proof (lastz_bounds ts t0 x y Hf) as Hb.
    inversion Hf as [|a l Ha Hl]; subst. cbn [length] in Hc. rewrite Nat2Z.inj_succ in Hc.
    assert (nwrites evs - 2 <= Z.of_nat (length ts)) by (destruct tok; lia). nia.
Qed.

(* ---- the MQTT token bucket ---- *)
Lemma consts_pos : 0 < TOKEN /\ 0 < TRATE /\ TRATE_S = TRATE * TICKS_PER_S /\ 0 < TICKS_PER_S /\ 0 < MAX_TRANSMIT_RATE_TOKENS.
Proof. vm_compute. repeat split; reflexivity. Qed.

Definition mq_ok (s : mq) : Prop := - TRATE_S <= m_tok s /\ MAX_TRANSMIT_RATE_TOKENS * TOKEN <= m_max s /\ m_tok s <= m_max s.

Lemma mq_write_ok s t : mq_ok s -> m_ts s <= t -> mq_ok (fst (fst (mq_write s t))) /\ m_ts (fst (fst (mq_write s t))) = t.
Proof.
  destruct consts_pos as (P1 & P2 & P3 & P4 & P5). intros (A & B & C) Ht. unfold mq_write.
  set (tok := Z.min (m_tok s + (t - m_ts s) * TRATE) (m_max s)).
  assert (Htok : - TRATE_S <= tok /\ tok <= m_max s) by (unfold tok; split; [apply Z.min_glb; nia | apply Z.le_min_r]).
  assert (Hpos : 0 <= TRATE_S /\ 0 <= MAX_TRANSMIT_RATE_TOKENS * TOKEN) by (rewrite P3; split; nia).
  destruct (tok <? TOKEN - TRATE_S) eqn:E; cbn [fst m_ts]; [split; [unfold mq_ok; cbn [m_tok m_max]; lia | reflexivity]|].
  apply Z.ltb_ge in E. split; [|reflexivity]. unfold mq_ok; cbn [m_tok m_max].
  destruct (MAX_TRANSMIT_RATE_TOKENS * TOKEN <? m_max s) eqn:E2; [apply Z.ltb_lt in E2 | apply Z.ltb_ge in E2]; repeat split; try lia.
Qed.

(* an over-budget write is dropped, an accepted one waits at most one second: nothing queues without bound *)
Theorem mq_bounded_wait s t s' slp : mq_ok s -> m_ts s <= t -> mq_write s t = (s', true, slp) -> 0 <= slp <= TICKS_PER_S.
Proof.
  destruct consts_pos as (P1 & P2 & P3 & P4 & P5). intros (A & B & C) Ht H. unfold mq_write in H.
  set (tok := Z.min (m_tok s + (t - m_ts s) * TRATE) (m_max s)) in *.
  destruct (tok <? TOKEN - TRATE_S) eqn:E; [discriminate|]. apply Z.ltb_ge in E. injection H as _ <-.
  destruct (tok - TOKEN <? 0) eqn:E2; [apply Z.ltb_lt in E2 | lia].
  assert (0 < 0 - (tok - TOKEN) <= TRATE_S) by lia.
  split; [apply Z.div_pos; lia|].
  assert (Hd : (0 - (tok - TOKEN) + TRATE - 1) / TRATE < TICKS_PER_S + 1).
  { apply Z.div_lt_upper_bound.
    - lia.
    - rewrite Z.mul_add_distr_l, Z.mul_1_r. rewrite P3 in H. lia. }
  apply Z.lt_succ_r. rewrite <- Z.add_1_r. exact Hd.
Qed.

(* writes never exceed the token allowance: what a run accepts is covered by the tokens in hand, what trickles in
   until its last write, and the one second of debt an accepted write may run up *)
Theorem mq_allowance : forall ts s, mq_ok s -> StronglySorted Z.le (m_ts s :: ts) ->
  mq_accepted s ts * TOKEN <= m_tok s + TRATE * (lastz (m_ts s) ts - m_ts s) + TRATE_S.
Proof.
  destruct consts_pos as (P1 & P2 & P3 & P4 & P5).
  induction ts as [|t r IH]; intros s Hok Hs; [destruct Hok as (A & _); cbn [mq_accepted lastz]; replace (m_ts s - m_ts s) with 0 by lia; lia|].
  inversion Hs as [|a l Hs' Hall]; subst. inversion Hall as [|a l Ht Hall']; subst.
  destruct (mq_write_ok s t Hok Ht) as [Hok' Hts'].
  cbn [mq_accepted lastz]. destruct (mq_write s t) as [[s' acc] slp] eqn:Ew. cbn [fst] in Hok', Hts'.
  assert (Hs2 : StronglySorted Z.le (m_ts s' :: r)) by (rewrite Hts'; exact Hs').
  specialize (IH s' Hok' Hs2). rewrite Hts' in IH.
  assert (Hl : t <= lastz t r).
  { clear - Hs'. revert t Hs'. induction r as [|t1 r IHr]; intros t H; [cbn; lia|]. inversion H as [|a l H1 H2]; subst. inversion H2; subst.
    cbn [lastz]. specialize (IHr t1 H1). lia. }
  unfold mq_write in Ew. set (tok := Z.min (m_tok s + (t - m_ts s) * TRATE) (m_max s)) in *.
  assert (Htk : tok <= m_tok s + (t - m_ts s) * TRATE) by apply Z.le_min_l.
  destruct (tok <? TOKEN - TRATE_S) eqn:E; injection Ew as <- <- _; cbn [m_tok] in IH; nia.
Qed.
