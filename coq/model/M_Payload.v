(* M_Payload -- decoded payloads (ramses_tx/parsers.py): array payloads as the list of their elements, the index an
   element reports, and the value ranges of the wire decoders (M_Codecs).  ARRAY_ELEM_CHARS is regenerated, and the
   translator checks on every run that each array-capable parser has the shape modelled here (see gen_tables.array_shapes).
   Definitions only; proofs are in proof/P_Payload.v. *)
From Coq Require Import ZArith String Ascii List Bool PrimFloat.
From RV Require Import Py PyStr PyFloat GenTables M_Codecs.
Import ListNotations.
Open Scope Z_scope.

(* [f(payload[i : i + n]) for i in range(0, len(payload), n)] *)
Fixpoint chunks (fuel n : nat) (s : str) : list str :=
  match fuel with
  | O => []
  | S k => match s with [] => [] | _ => firstn n s :: chunks k n (skipn n s) end
  end.
Definition decode_array {A} (f : str -> A) (n : nat) (s : str) : list A := map f (chunks (List.length s) n s).

(* an element of a per-zone array: its index is its first byte; the rest is decoded by g *)
Definition elem {A} (g : str -> A) (e : str) : str * A := (slice 0 2 e, g e).

(* the element decoders of the two temperature arrays (30C9 zone temperatures, 2309 setpoints) and of the demand array (3150) *)
Definition word (e : str) (a : nat) : Z := match int16 (slice a (a + 4) e) with Some w => w | None => -1 end.
Definition byte (e : str) (a : nat) : Z := match int16 (slice a (a + 2) e) with Some w => w | None => -1 end.
Definition elem_temp (e : str) : str * result tempv := elem (fun e => hex_to_temp (word e 2)) e.
Definition elem_demand (e : str) : str * result (option float) := elem (fun e => hex_to_percent (byte e 2) true) e.

Definition elem_chars (code : Z) : option nat :=
  match find (fun p => fst p =? code) ARRAY_ELEM_CHARS with Some p => Some (Z.to_nat (snd p)) | None => None end.

(* the value ranges *)
Definition temp_in_range (t : float) : bool := fleb (-0x1.1126666666666p+8)%float t && fleb t 0x1.47ab851eb851fp+8%float.   (* -273.15 .. 327.67 *)
Definition ratio_in_range (r : float) : bool := fleb 0%float r && fleb r 1%float.
