"""Shared by C07/C08/C09: scenarios for the send machinery, run on the real PortProtocol
(virtual-time loop, in-memory transport) and printed as terms for the Coq model M_Qos."""

from __future__ import annotations

import asyncio
import datetime as _dt
import gc
import logging
import re

from . import common
from .vloop import VLoop

GRID = 15625  # us = 1/64 s: every time in a scenario is a multiple, so float arithmetic is exact
CTL, GW, GW2 = "01:145038", "18:111111", "18:222222"
CTL2 = "01:999999"          # a neighbour's controller
NULL_ENTRY = "000000B0000000000000000000007FFFFF7000000000"      # the null fault-log entry (always index 00)
EPOCH = _dt.datetime(2026, 1, 1, 12)

PRELUDE = ("From Coq Require Import ZArith List Bool Arith.\nFrom RV Require Import GenConsts M_Qos.\n"
           "Import ListNotations.\nOpen Scope Z_scope.\nSet Printing Width 1000000.\nSet Printing Depth 1000000.\n"
           "Definition oc (o : obs) : list Z := match o with\n"
           "  | Write t c => [1; t; Z.of_nat c]\n"
           "  | Done t c (OkPkt p) => [2; t; Z.of_nat c; Z.of_nat (p_hdr p); Z.of_nat (p_src p)]\n"
           "  | Done t c ErrSendFailed => [3; t; Z.of_nat c]\n"
           "  | Done t c (ErrExn ETransport) => [6; t; Z.of_nat c]\n"
           "  | Done t c (ErrExn _) => [7; t; Z.of_nat c]\n"
           "  | Done t c ErrOther => [4; t; Z.of_nat c]\n"
           "  | Done t c ErrCancelled => [10; t; Z.of_nat c]\n"
           "  | LoopExn t n => [5; t; Z.of_nat n] end.\n"
           "Definition sc (s : st) : Z := match s with Inactive => 0 | Idle => 1 | WantEcho => 2 | WantRply => 3 end.\n"
           "Definition mkc (l : list cmdinfo) (c : cid) : cmdinfo := nth c l {| prio := 0; max_retries := 0%nat; timeout := 0; wfr := false; tx_hdr := 0%nat; rx_hdr := None; rx_null := None |}.\n"
           "Definition mkp (l : list wplan) (n : nat) : wplan := nth n l wplan0.\n"
           "Definition sim (lifo : bool) (cs : list cmdinfo) (pl : list wplan) (evs : list (Z * ext)) : list (list Z) :=\n"
           "  let '(w, fin) := run (mkc cs) (mkp pl) lifo 20000 (world0 evs) in\n"
           "  map oc (trace w) ++ [[9; sc (state (cx w)); (if fin then 1 else 0); Z.of_nat (length (que (cx w)))]].\n")


def gen_scenario(rng, small=False):
    """One scenario (pure data)."""
    ncmd = rng.choice([1, 1, 1, 2, 2, 3]) if not small else rng.choice([1, 1, 2])
    if rng.random() < 0.04:
        ncmd = rng.choice([6, 34])
    mode = rng.choice([False, False, False, None, True])  # PortProtocol(disable_qos=...)
    cmds = []
    for i in range(ncmd):
        kind = rng.choice(["rq30c9", "rq30c9", "rq0006", "w2309", "i30c9", "rq0418"])
        if kind == "rq0006" and any(c["kind"] == "rq0006" for c in cmds):
            kind = "rq30c9"
        cmds.append({
            "kind": kind, "idx": (i % 12) if rng.random() < 0.85 else rng.randrange(0, max(1, min(i, 16))),   # sometimes the same frame as an earlier caller
            "prio": rng.choice([0, 0, 0, -2, 2, 4, -4]),
            "max_retries": rng.choice([0, 1, 2, 3, 3, 5]),
            "timeout": rng.choice([GRID * 8, GRID * 32, GRID * 33, GRID * 64, GRID * 96, 5_000_000, 20_000_000, 30_000_000]),
            "wfr": rng.choice([None, False, True, True]),
        })
    events = [(0, ("made",))]
    t = GRID * rng.choice([1, 2, 64])
    for i in range(ncmd):
        events.append((t, ("call", i)))
        t += GRID * rng.choice([0, 0, 1, 2, 33, 64, 200])
    # the transport's plan for the first few writes
    plan = []
    for _ in range(rng.randint(0, 6)):
        r = rng.random()
        echo = None if r < 0.35 else GRID * rng.choice([1, 2, 3, 31, 32, 33])
        rply = None if rng.random() < 0.5 else GRID * rng.choice([2, 4, 5, 34, 63, 64, 65])
        if echo is not None and rng.random() < 0.15:
            rply = echo                      # both lines arrive in one read: two transitions in one loop iteration
        plan.append({"lat": GRID * rng.choice([0, 0, 0, 0, 1, 32, 64]), "fail": rng.random() < 0.08, "echo": echo, "rply": rply})
    default_plan = rng.choice([{"lat": 0, "fail": False, "echo": GRID * 2, "rply": GRID * 4},
                               {"lat": 0, "fail": False, "echo": None, "rply": None},
                               {"lat": 0, "fail": False, "echo": GRID * 2, "rply": None}])
    # extra scripted packets / connection events
    for _ in range(rng.choice([0, 0, 1, 2, 3])):
        i = rng.randrange(ncmd)
        when = GRID * rng.choice([1, 2, 3, 4, 33, 34, 35, 65, 66, 97, 98, 130, 300])
        events.append((when, ("rx", rng.choice(["echo", "rply", "foreign_echo", "foreign_rply", "other", "null_entry", "nbr_null_entry", "nbr_null_entry_to_us", "nbr_rply"]), i)))
    if rng.random() < 0.15:
        events.append((GRID * rng.choice([3, 34, 70, 200]), ("lost", rng.choice([None, None, "transport", "serial", "oserror"]))))
        if rng.random() < 0.6:
            events.append((GRID * rng.choice([210, 400]), ("made",)))
            if rng.random() < 0.7:
                events.append((GRID * 420, ("call", ncmd)))
                cmds.append({"kind": "rq30c9", "idx": 11, "prio": 0, "max_retries": 3, "timeout": 20_000_000, "wfr": False})
    if rng.random() < 0.2:          # a caller cancelled from outside, strictly after its call: while queued, in flight, or done
        i = rng.randrange(ncmd)
        t_call = next(t for t, e in events if e == ("call", i))
        events.append((t_call + GRID * rng.choice([1, 2, 3, 4, 31, 32, 33, 34, 63, 64, 65, 66, 97, 130, 300]), ("cancel", i)))
    events.sort(key=lambda e: e[0])
    return {"lifo": rng.random() < 0.4, "mode": mode, "cmds": cmds, "events": events, "plan": plan, "default_plan": default_plan}


def lost_error(kind):
    """What a transport hands to connection_lost(): nothing (clean close), the library's own error, or the OS / pyserial one."""
    if kind is None:
        return None
    if kind == "transport":
        from ramses_tx import exceptions as exc  # noqa: PLC0415
        return exc.TransportError("scripted: connection lost")
    if kind == "serial":
        from serial import SerialException  # noqa: PLC0415
        return SerialException("scripted: device reports readiness to read but returned no data")
    return OSError(5, "scripted: Input/output error")


def build_cmd(c):
    from ramses_tx.command import Command  # noqa: PLC0415

    k = c["kind"]
    if k == "rq30c9":
        return Command.get_zone_temp(CTL, c["idx"])
    if k == "rq0006":
        return Command.get_schedule_version(CTL)
    if k == "w2309":
        return Command.set_zone_setpoint(CTL, c["idx"], 20.0)
    if k == "i30c9":
        return Command.from_attrs(" I", CTL, "30C9", f"{c['idx']:02X}07D0")
    if k == "rq0418":
        return Command.get_system_log_entry(CTL, c["idx"] % 12)
    raise ValueError(k)


def reply_frame(cmd) -> str | None:
    code = cmd.code
    if cmd.verb == "RQ" and code == "30C9":
        return f"RP --- {CTL} {GW} --:------ 30C9 003 {cmd.payload[:2]}07D0"
    if cmd.verb == "RQ" and code == "0006":
        return f"RP --- {CTL} {GW} --:------ 0006 004 00050009"
    if cmd.verb == " W" and code == "2309":
        return f" I --- {CTL} {GW} --:------ 2309 003 {cmd.payload[:2]}07D0"
    if cmd.verb == "RQ" and code == "0418":       # a real log entry for the index asked for
        return f"RP --- {CTL} {GW} --:------ 0418 022 0040{cmd.payload[4:6]}B0060804000000CB955F71FFFFFF70001283B3"
    return None


def effective_wfr(mode, code, wfr) -> bool:
    if mode is True:
        return False
    if mode is None and code not in ("0006", "0404", "0418", "1FC9"):
        return False
    return bool(wfr)


class Hdrs:
    def __init__(self):
        self.t = {}

    def __call__(self, h):
        if h not in self.t:
            self.t[h] = len(self.t) + 1
        return self.t[h]


class Wedged(KeyboardInterrupt):
    """The event loop stopped making progress (e.g. blocked in a threading.Lock)."""


def run_impl(scn, horizon_us=80_000_000, wall_limit_s=4):
    """Watchdog wrapper: a scenario that blocks the loop for wall_limit_s seconds is reported, not waited for."""
    import signal  # noqa: PLC0415

    def on_alarm(signum, frame):
        raise Wedged()

    old = signal.signal(signal.SIGALRM, on_alarm)
    signal.setitimer(signal.ITIMER_REAL, wall_limit_s)
    try:
        return _run_impl(scn, horizon_us)
    except Wedged:
        asyncio.set_event_loop(None)
        return [[8, 0, "event-loop-wedged"]], -1, -1, {"wedged": True, "hdrs": Hdrs(), "cmds": [build_cmd(c) for c in scn["cmds"]], "probe": "wedged"}
    finally:
        signal.setitimer(signal.ITIMER_REAL, 0)
        signal.signal(signal.SIGALRM, old)


def _run_impl(scn, horizon_us=80_000_000):
    """Run one scenario on the real PortProtocol; return (trace, final state code, qsize, writes, info)."""
    import ramses_tx.protocol_fsm as fsm  # noqa: PLC0415
    from ramses_tx import exceptions as exc  # noqa: PLC0415
    from ramses_tx.const import Priority  # noqa: PLC0415
    from ramses_tx.packet import Packet  # noqa: PLC0415
    from ramses_tx.protocol import PortProtocol  # noqa: PLC0415
    from ramses_tx.typing import QosParams  # noqa: PLC0415

    loop = VLoop(lifo=scn["lifo"])
    asyncio.set_event_loop(loop)

    class VDT(_dt.datetime):
        _tick = 0

        @classmethod
        def now(cls, tz=None):
            cls._tick += 1
            return EPOCH + _dt.timedelta(seconds=loop.time(), microseconds=cls._tick)

    fsm.dt = VDT
    hdrs = Hdrs()
    cmds = [build_cmd(c) for c in scn["cmds"]]
    trace: list = []
    errs: list = []
    info: dict = {}

    def us():
        return round(loop.time() * 1_000_000)

    loop.set_exception_handler(lambda lp, c: (trace.append([5, us(), type(c.get("exception")).__name__]), errs.append(c)))

    def plan_for(n):
        return scn["plan"][n] if n < len(scn["plan"]) else scn["default_plan"]

    async def main():
        proto = PortProtocol(lambda m: None, disable_qos=scn["mode"])
        nreq = [0]
        by_frame = {}

        class Tr:
            def get_extra_info(self, k, d=None):
                return {"active_gwy": GW, "is_evofw3": True}.get(k, d)

            def is_closing(self):
                return False

            async def write_frame(self, frame, disable_tx_limits=False):
                n = nreq[0]
                nreq[0] += 1
                pl = plan_for(n)
                cur = proto._context._cmd   # who asked for this write (the answer may come before the write)
                if pl["lat"] > 0:
                    await asyncio.sleep(pl["lat"] / 1e6)
                if pl["fail"]:
                    info.setdefault("failed_writes", []).append(us())
                    raise exc.TransportError("write failed (scripted)")
                i = next((k for k, c in enumerate(cmds) if c is cur), by_frame[frame])
                if str(cmds[i]) != frame:
                    i = by_frame[frame]
                trace.append([1, us(), i])
                if pl["echo"] is not None:
                    loop.call_later(pl["echo"] / 1e6, rx, "000 " + frame.replace("18:000730", GW))
                rf = reply_frame(cmds[i])
                if pl["rply"] is not None and rf and cmds[i].rx_header:
                    loop.call_later(pl["rply"] / 1e6, rx, "045 " + rf)

        def rx(line):
            proto.pkt_received(Packet.from_port(VDT.now(), line))

        tr = Tr()
        for i, c in enumerate(cmds):
            by_frame[str(c)] = i

        engine = None
        if scn.get("via_engine"):       # the public entry point that carries the knobs: a never-started Engine around THIS protocol
            from ramses_tx.gateway import Engine  # noqa: PLC0415
            engine = Engine("/dev/null")
            engine._protocol = proto

        async def caller(i):
            c = scn["cmds"][i]
            qos = QosParams(max_retries=c["max_retries"], timeout=c["timeout"] / 1e6, wait_for_reply=c["wfr"])
            try:
                if engine is not None:
                    p = await engine.async_send_cmd(cmds[i], priority=Priority(c["prio"]), max_retries=c["max_retries"], timeout=c["timeout"] / 1e6,
                                                    wait_for_reply=c["wfr"])
                else:
                    p = await proto.send_cmd(cmds[i], priority=Priority(c["prio"]), qos=qos)
                src = 0 if p.src.id == GW else (1 if p.src.id == CTL else 2)
                trace.append([2, us(), i, hdrs(p._hdr), src])
                info.setdefault("results", {})[i] = (str(p), p._hdr)
            except asyncio.CancelledError:      # cancelled from outside (a scripted "cancel"): told so, and the cancellation goes on
                trace.append([10, us(), i])
                raise
            except exc.ProtocolSendFailed:
                trace.append([3, us(), i])
            except exc.TransportError:
                trace.append([6, us(), i])
            except exc.ProtocolFsmError:
                trace.append([7, us(), i])
            except Exception as err:  # noqa: BLE001
                trace.append([4, us(), i, type(err).__name__])

        tasks: dict = {}
        for t, ev in scn["events"]:
            ts = t / 1e6
            if ev[0] == "made":
                def made():
                    if proto._transport is None:
                        proto.connection_made(tr, ramses=True)
                    else:  # the library never re-binds a protocol; a re-connect is driven at the FSM level
                        proto._context.connection_made(tr)
                loop.call_at(ts, made)
            elif ev[0] == "lost":
                def lost(k=(ev[1] if len(ev) > 1 else None)):
                    w = proto._wait_connection_lost
                    try:
                        proto.connection_lost(lost_error(k))
                    finally:   # what Gateway.stop() / wait_for_connection_lost() would do: collect the transport's error
                        if w is not None and w.done() and not w.cancelled():
                            w.exception()
                loop.call_at(ts, lost)
            elif ev[0] == "call":
                loop.call_at(ts, lambda i=ev[1]: tasks.__setitem__(i, loop.create_task(caller(i))))
            elif ev[0] == "cancel":         # the caller's task is cancelled from outside: an outer wait_for (the discovery poller's), a shutdown
                loop.call_at(ts, lambda i=ev[1]: tasks[i].cancel() if i in tasks else None)
            elif ev[0] == "stall":          # a callback that takes wall time: the clock moves on within the iteration
                loop.call_at(ts, lambda d=ev[1]: setattr(loop, "_vtime", loop._vtime + d / 1e6))
            elif ev[0] == "rx":
                line = rx_line(ev[1], cmds[ev[2]])
                if line:
                    loop.call_at(ts, rx, line)
        await asyncio.sleep(horizon_us / 1e6)
        gc.collect()
        await asyncio.sleep(0)
        info["n_trace"] = len(trace)
        info["state_before_probe"] = type(proto._context.state).__name__
        info["qsize_before_probe"] = proto._context._que.qsize()
        q = proto._context._que          # the buffer's entries, whichever queue class holds them
        info["pending_in_queue"] = sum(1 for e in list(getattr(q, "queue", None) or getattr(q, "_queue", [])) if not e[4].done())
        # C09 probe: a fresh command to a responsive device must succeed
        if type(proto._context.state).__name__ != "Inactive":
            from ramses_tx.command import Command  # noqa: PLC0415
            probe = Command.get_zone_temp(CTL, "0B") if all(str(c) != str(Command.get_zone_temp(CTL, "0B")) for c in cmds) else Command.get_zone_temp("01:222222", "00")
            cmds.append(probe)
            by_frame[str(probe)] = len(cmds) - 1
            scn_plan_len = nreq[0]
            scn["plan"] = scn["plan"][:scn_plan_len] + [scn["default_plan"]] * max(0, scn_plan_len - len(scn["plan"])) + [{"lat": 0, "fail": False, "echo": GRID * 2, "rply": GRID * 4}] * 3
            try:
                p = await asyncio.wait_for(proto.send_cmd(probe, qos=QosParams(max_retries=1, timeout=5.0, wait_for_reply=False)), 30)
                info["probe"] = "ok"
            except Exception as err:  # noqa: BLE001
                info["probe"] = type(err).__name__
        else:
            info["probe"] = "skipped-inactive"
        return proto

    try:
        orig_plan = list(scn["plan"])
        proto = loop.run_until_complete(main())
        scn["plan"] = orig_plan
        del trace[info["n_trace"]:]
        state = {"Inactive": 0, "IsInIdle": 1, "WantEcho": 2, "WantRply": 3}[info["state_before_probe"]]
        qsize = info["qsize_before_probe"]
    finally:
        asyncio.set_event_loop(None)
        loop.close()
    # header numbering must be the model's: tx/rx headers of the commands
    info["hdrs"] = hdrs
    info["cmds"] = cmds[: len(scn["cmds"])]
    return trace, state, qsize, info


def rx_line(kind, cmd):
    if kind == "echo":
        return "000 " + str(cmd).replace("18:000730", GW)
    if kind == "foreign_echo":   # same header, another gateway
        return "050 " + str(cmd).replace("18:000730", GW2)
    rf = reply_frame(cmd)
    if kind == "rply":
        return "045 " + rf if rf else None
    if kind == "foreign_rply":
        return "045 " + rf.replace(f"{CTL} {GW}", f"{CTL} {GW2}") if rf else None
    if kind in ("null_entry", "nbr_null_entry", "nbr_null_entry_to_us", "nbr_rply"):      # fault-log traffic: ours and a neighbour controller's
        if cmd.code != "0418":
            return None
        if kind == "nbr_rply":       # the neighbour controller's REAL entry with the same index, to its own gateway
            return "045 " + rf.replace(f"{CTL} {GW}", f"{CTL2} {GW2}")
        src, dst = {"null_entry": (CTL, GW), "nbr_null_entry": (CTL2, GW2), "nbr_null_entry_to_us": (CTL2, GW)}[kind]
        return f"045 RP --- {src} {dst} --:------ 0418 022 {NULL_ENTRY}"
    return f"045  I --- {CTL} --:------ {CTL} 1F09 003 FF0708"


def scn_to_coq(scn, info) -> str:
    """The same scenario as arguments of M_Qos.sim; header numbers shared with the implementation run."""
    hdrs = info["hdrs"]
    cmds = info["cmds"]
    cs = []
    for c, cmd in zip(scn["cmds"], cmds):
        tx = hdrs(cmd.tx_header.replace("18:000730", GW))
        rxh = cmd.rx_header
        wfr = effective_wfr(scn["mode"], cmd.code, c["wfr"])
        cs.append(f"{{| prio := {c['prio']}; max_retries := {c['max_retries']}%nat; timeout := {min(c['timeout'], 10**12)}; "
                  f"wfr := {str(wfr).lower()}; tx_hdr := {tx}%nat; rx_hdr := {('Some ' + str(hdrs(rxh)) + '%nat') if rxh else 'None'}; "
                  f"rx_null := {('Some ' + str(hdrs('null:' + rxh[:-2])) + '%nat') if rxh and rxh[:8] == '0418|RP|' else 'None'} |}}")

    def wp(p):
        return (f"{{| w_lat := {p['lat']}; w_fail := {str(p['fail']).lower()}; "
                f"w_echo := {('Some ' + str(p['echo'])) if p['echo'] is not None else 'None'}; "
                f"w_rply := {('Some ' + str(p['rply'])) if p['rply'] is not None else 'None'} |}}")

    plan = [wp(p) for p in scn["plan"]] + [wp(scn["default_plan"])] * 140
    evs = []
    for t, ev in scn["events"]:
        if ev[0] == "made":
            evs.append(f"({t}, ConnMade)")
        elif ev[0] == "lost":
            evs.append(f"({t}, ConnLost)")
        elif ev[0] == "call":
            evs.append(f"({t}, Call {ev[1]}%nat)")
        elif ev[0] == "stall":
            evs.append(f"({t}, Stall {ev[1]})")
        elif ev[0] == "cancel":
            evs.append(f"({t}, Cancel {ev[1]}%nat)")
        else:
            from ramses_tx.packet import Packet  # noqa: PLC0415
            cmd = cmds[ev[2]]
            k = ev[1]
            line = rx_line(k, cmd)
            if not line:
                continue
            pk = Packet.from_port(EPOCH, line)
            src = 0 if pk.src.id == GW else (1 if pk.src.id == CTL else 2)
            p = (hdrs(pk._hdr.replace("18:000730", GW)), src, "true" if pk.dst.id == GW else "false")
            pn = f"Some {hdrs('null:' + pk._hdr[:-2])}%nat" if pk.payload == NULL_ENTRY else "None"
            evs.append(f"({t}, Rx {{| p_hdr := {p[0]}%nat; p_src := {p[1]}%nat; p_dst_ok := {p[2]}; p_null := {pn} |}})")
    return (f"sim {str(scn['lifo']).lower()} [" + "; ".join(cs) + "] [" + "; ".join(plan) + "] [" + "; ".join(evs) + "]")


def canon_impl(trace, state, qsize):
    """Implementation trace in the model's vocabulary (loop exceptions keep only their time)."""
    out = []
    for e in trace:
        if e[0] == 5:
            out.append([5, e[1]])
        elif e[0] == 4:
            out.append([4, e[1], e[2], e[3]])
        elif e[0] == 8:
            out.append([8, 0])
        else:
            out.append(list(e))
    return out, state, qsize


def canon_model(rows):
    out = []
    for r in rows[:-1]:
        if r[0] == 5:
            out.append([5, r[1]])
        else:
            out.append(list(r))
    last = rows[-1]
    return out, last[1], last[3], bool(last[2])


def parse_rows(out: str):
    m = re.search(r"=\s*(\[.*\])\s*:\s*list", out, flags=re.S)
    if not m:
        raise ValueError("cannot parse: " + out[:300])
    return eval(m.group(1).replace(";", ","), {"__builtins__": {}})  # noqa: S307


def run_all(ctx, n: int, tag: str):
    """Generate n scenarios, run implementation and model; returns list of (scn, impl, model|None)."""
    logging.disable(logging.CRITICAL)
    rng = ctx.rng
    scns = [gen_scenario(rng) for _ in range(n)]
    impl = []
    for s in scns:
        tr, st, qs, info = run_impl(s)
        impl.append((tr, st, qs, info))
    files = {}
    shard = 25
    for k in range(0, n, shard):
        body = PRELUDE + "".join(
            f"Eval vm_compute in ({scn_to_coq(s, im[3])}).\n" for s, im in zip(scns[k:k + shard], impl[k:k + shard]))
        files[f"q_{k // shard}"] = body
    return scns, impl, files, shard
