(* C01 -- Reception is total.  Statements only. *)
From Coq Require Import ZArith Ascii String List Bool.
From RV Require Import Py PyStr Regex GenRegex GenTables M_Frame P_Frame.
Import ListNotations.
Open Scope Z_scope.

(* the frames a serial gateway delivers depend only on the bytes received, not on how the
   operating system splits them into reads: any partition, any cut (also between CR and LF),
   one-byte and empty reads *)
Theorem C01_chunking_independent : forall chunks buf,
  bsplit buf = ([], buf) -> feed_all buf chunks = feed buf (concat chunks).
Proof. exact chunking_independent. Qed.
Theorem C01_serial_lines_depend_only_on_bytes : forall c1 c2,
  concat c1 = concat c2 -> serial_lines c1 = serial_lines c2.
Proof. exact serial_lines_depend_only_on_bytes. Qed.

(* every ASCII line: the packet constructor either succeeds or raises PacketInvalid/ValueError *)
Theorem C01_ctor_total : forall line err comment e,
  mk_packet line err comment = Raise e -> fenced e = true.
Proof. exact ctor_total. Qed.
Theorem C01_from_file_total : forall ok line e, from_file ok line = Raise e -> fenced e = true.
Proof. exact from_file_total. Qed.
Theorem C01_frame_read_never_escapes : forall ok line e, frame_read ok line <> Escape e.
Proof. exact frame_read_never_escapes. Qed.

(* so a reader delivers exactly the acceptable lines, in order, whatever is in between *)
Theorem C01_reader_is_filter_map : forall lines,
  read_all lines = (filter_map delivered_of lines, None).
Proof. exact reader_is_filter_map. Qed.
Theorem C01_bad_line_does_not_stop_stream : forall l1 bad l2,
  delivered_of bad = None ->
  fst (read_all (l1 ++ bad :: l2)) = fst (read_all l1) ++ fst (read_all l2).
Proof. exact bad_line_does_not_stop_stream. Qed.

(* regression witness: before the repair this line made AssertionError escape *)
Theorem C01_ctor_total_old_refuted : mk_packet_old bad_array_line [] [] = Raise AssertionError.
Proof. exact ctor_total_old_refuted. Qed.
Theorem C01_ctor_now_rejects_it : mk_packet bad_array_line [] [] = Raise PacketInvalid.
Proof. exact ctor_now_rejects_it. Qed.

Example C01_nonvacuous :
  (exists p, frame_read true (lit "045  I --- 01:145038 --:------ 01:145038 30C9 006 0007D00107D0") = Deliver p) /\
  frame_read true (lit "# evofw3 0.7.1") = Drop /\
  snd (feed_all [] [[65; 13]; [10; 66]; []; [13; 10; 67]]) = [[65]; [66]].
Proof. split; [eexists; vm_compute; reflexivity|split; vm_compute; reflexivity]. Qed.
