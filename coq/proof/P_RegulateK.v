(* P_RegulateK -- the duty-cycle bucket under concurrent callers: the level never falls below -(K-1) frames when at most K
   calls are pending at once, and any stretch of any run hands the radio at most rate x time + one bucket + one frame
   per call pending at its start + (K-1) frames. *)
From Coq Require Import ZArith List Bool Lia.
From RV Require Import M_RegulateK.
Import ListNotations.
Open Scope Z_scope.

Section BucketK.
  Variables R CAP K M : Z.
  Hypothesis R_nonneg : 0 <= R.
  Hypothesis M_nonneg : 0 <= M.
  Hypothesis M_le_CAP : M <= CAP.
  Hypothesis K_pos : 1 <= K.
  Notation vlevel := (vlevel R).
  Notation cstep := (cstep R CAP K).
  Notation crun := (crun R CAP K).
  Notation cbits := (cbits R CAP K).
  Notation arrive := (arrive R CAP).
  Notation may_write := (may_write R).

  Definition len (l : list pend) : Z := Z.of_nat (length l).

  (* what a fresh pending caller knows: its estimate of the level (capped) is what the level is, up to what others debited since *)
  Definition fok (v now : Z) (f : pend) : Prop :=
    0 <= p_size f <= M /\ 0 <= p_c f /\ 0 <= p_d f <= p_c f * M /\ Z.min (p_lvl f + R * (now - p_arr f)) CAP - p_d f <= v.
  (* the callers that debited since f arrived were all pending when f arrived: together with those still pending and older than f, at most K-1 *)
  Fixpoint cok (F : list pend) (q : Z) : Prop :=
    match F with [] => True | f :: r => p_c f + len r + q <= K - 1 /\ cok r q end.
  Definition sized (k : pend) : Prop := 0 <= p_size k <= M.

  Definition Inv (s : cst) : Prop :=
    c_last s <= c_now s /\ 0 <= c_no s /\ 0 <= c_o s <= c_no s * M /\ - c_o s <= vlevel s /\
    c_no s + len (c_old s) <= K - 1 /\ cok (c_fresh s) (len (c_old s)) /\
    Forall (fok (vlevel s) (c_now s)) (c_fresh s) /\ Forall sized (c_old s).

  Lemma len_cons p l : len (p :: l) = len l + 1.
  Proof. unfold len. cbn [length]. lia. Qed.
  Lemma len_app a b : len (a ++ b) = len a + len b.
  Proof. unfold len. rewrite app_length. lia. Qed.
  Lemma len_nonneg l : 0 <= len l.
  Proof. unfold len. lia. Qed.
  Lemma len_map (f : pend -> pend) l : len (map f l) = len l.
  Proof. unfold len. now rewrite map_length. Qed.

  Lemma init_inv t : Inv (cinit CAP t).
  Proof. unfold Inv, cinit, M_RegulateK.vlevel, len. cbn. repeat split; try constructor; try lia. Qed.

  (* ---- arrival ---- *)
  Lemma fok_advance v now t f : now <= t -> fok v now f ->
    fok (Z.min (v + R * (t - now)) CAP) t f.
  Proof.
    intros Ht (Hs & Hc & Hd & Hv). unfold fok. repeat split; try lia.
    assert (0 <= R * (t - now)) by (apply Z.mul_nonneg_nonneg; lia).
    replace (R * (t - p_arr f)) with (R * (now - p_arr f) + R * (t - now)) by ring.
    lia.
  Qed.

  Lemma cok_weaken F q q' : q' <= q -> cok F q -> cok F q'.
  Proof. induction F as [|f r IH]; cbn [cok]; intros Hq H; [exact I|]. destruct H as (H1 & H2). split; [lia | auto]. Qed.

  Lemma arrive_inv s id t size : Inv s -> c_now s <= t -> Z.of_nat (length (c_fresh s) + length (c_old s)) < K -> 0 <= size <= M ->
    Inv (arrive s id t size).
  Proof.
    intros (I0 & I1 & I2 & I3 & I4 & I5 & I6 & I7) Ht HK Hs.
    assert (Hd : 0 <= R * (t - c_now s)) by (apply Z.mul_nonneg_nonneg; lia).
    assert (Hv : Z.min (c_b s + R * (t - c_last s)) CAP = Z.min (vlevel s + R * (t - c_now s)) CAP).
    { unfold M_RegulateK.vlevel. f_equal. ring. }
    unfold Inv, M_RegulateK.arrive, M_RegulateK.vlevel. cbn [c_b c_last c_now c_fresh c_old c_o c_no].
    replace (t - t) with 0 by lia. rewrite Z.mul_0_r, Z.add_0_r. rewrite Hv.
    do 5 (split; [lia|]). split; [|split].
    - cbn [cok p_c]. split; [|exact I5]. unfold len. rewrite Nat2Z.inj_add in HK. lia.
    - constructor.
      + unfold fok. cbn [p_size p_c p_d p_lvl p_arr]. replace (t - t) with 0 by lia. rewrite Z.mul_0_r, Z.add_0_r. repeat split; lia.
      + eapply Forall_impl; [|exact I6]. intros f Hf. apply fok_advance; assumption.
    - exact I7.
  Qed.

  (* ---- a write by a fresh caller ---- *)
  Lemma cok_nth : forall F q n j, cok F q -> nth_error F n = Some j -> p_c j + len (skipn (S n) F) + q <= K - 1.
  Proof.
    induction F as [|f r IH]; intros q n j H Hn; [destruct n; discriminate|].
    cbn [cok] in H. destruct H as (H1 & H2). destruct n as [|n].
    - cbn in Hn. injection Hn as <-. cbn [skipn]. exact H1.
    - cbn [nth_error] in Hn. change (skipn (S (S n)) (f :: r)) with (skipn (S n) r). eauto.
  Qed.
  Lemma cok_bump_firstn : forall F q n j sz, cok F q -> nth_error F n = Some j ->
    cok (map (bump sz) (firstn n F)) (len (skipn (S n) F) + q).
  Proof.
    induction F as [|f r IH]; intros q n j sz H Hn; [destruct n; discriminate|].
    cbn [cok] in H. destruct H as (H1 & H2). destruct n as [|n]; [exact I|].
    cbn [nth_error] in Hn. change (skipn (S (S n)) (f :: r)) with (skipn (S n) r).
    cbn [firstn map cok bump p_c]. split; [|eauto].
    rewrite len_map.
    assert (len (firstn n r) + len (skipn (S n) r) + 1 = len r).
    { assert (Hlt : (n < length r)%nat) by (apply nth_error_Some; congruence).
      unfold len. rewrite firstn_length, skipn_length. lia. }
    lia.
  Qed.

  Lemma fok_bump v now t f sz : now <= t -> 0 <= sz <= M -> fok v now f ->
    fok (v + R * (t - now) - sz) t (bump sz f).
  Proof.
    intros Ht Hsz (Hs & Hc & Hd & Hv). unfold fok, bump. cbn [p_size p_c p_d p_lvl p_arr]. repeat split; try lia.
    assert (0 <= R * (t - now)) by (apply Z.mul_nonneg_nonneg; lia).
    replace (R * (t - p_arr f)) with (R * (now - p_arr f) + R * (t - now)) by ring.
    lia.
  Qed.

  Lemma Forall_firstn {A} (P : A -> Prop) n l : Forall P l -> Forall P (firstn n l).
  Proof. revert n; induction l as [|a l IH]; intros [|n] H; cbn [firstn]; try constructor; inversion H; subst; auto. Qed.
  Lemma Forall_skipn {A} (P : A -> Prop) n l : Forall P l -> Forall P (skipn n l).
  Proof. revert n; induction l as [|a l IH]; intros [|n] H; cbn [skipn]; auto. inversion H; subst; auto. Qed.
  Lemma Forall_nth {A} (P : A -> Prop) n l x : Forall P l -> nth_error l n = Some x -> P x.
  Proof. intros H Hn. rewrite Forall_forall in H. apply H. eapply nth_error_In; eauto. Qed.
  Lemma Forall_drop_nth (P : pend -> Prop) n l : Forall P l -> Forall P (drop_nth n l).
  Proof. revert n; induction l as [|a l IH]; intros [|n] H; cbn [drop_nth]; auto; inversion H; subst; auto. Qed.
  Lemma len_drop_nth : forall l n (x : pend), nth_error l n = Some x -> len (drop_nth n l) = len l - 1.
  Proof.
    induction l as [|a l IH]; intros [|n] x Hn; try discriminate; cbn [drop_nth].
    - rewrite len_cons. lia.
    - cbn [nth_error] in Hn. rewrite !len_cons. erewrite IH; eauto. lia.
  Qed.

  Lemma write_fresh_inv s n j t : Inv s -> c_now s <= t -> nth_error (c_fresh s) n = Some j -> may_write j t = true ->
    Inv (write_fresh s n j t).
  Proof.
    intros (I0 & I1 & I2 & I3 & I4 & I5 & I6 & I7) Ht Hn Hw.
    pose proof (Forall_nth _ _ _ _ I6 Hn) as (Js & Jc & Jd & Jv).
    assert (Hd : 0 <= R * (t - c_now s)) by (apply Z.mul_nonneg_nonneg; lia).
    unfold M_RegulateK.may_write in Hw. apply Z.leb_le in Hw.
    assert (Hv' : c_b s - p_size j + R * (t - c_last s) = vlevel s + R * (t - c_now s) - p_size j) by (unfold M_RegulateK.vlevel; ring).
    unfold Inv, write_fresh, M_RegulateK.vlevel. cbn [c_b c_last c_now c_fresh c_old c_o c_no]. rewrite Hv'.
    pose proof (cok_nth _ _ _ _ I5 Hn) as Hc.
    do 3 (split; [lia|]). split; [|split; [|split; [|split]]].
    - (* the level: the caller saw enough for its frame, up to what others debited since *)
      assert (p_size j <= Z.min (p_lvl j + R * (t - p_arr j)) CAP) by lia.
      replace (R * (t - p_arr j)) with (R * (c_now s - p_arr j) + R * (t - c_now s)) in H by ring. lia.
    - rewrite len_app. lia.
    - rewrite len_app. replace (len (skipn (S n) (c_fresh s)) + len (c_old s)) with (len (skipn (S n) (c_fresh s)) + len (c_old s)) by lia.
      eapply cok_bump_firstn; eauto.
    - rewrite Forall_map. eapply Forall_impl; [|apply Forall_firstn; exact I6].
      intros f Hf. apply fok_bump; auto.
    - apply Forall_app. split; [|exact I7]. apply Forall_skipn. eapply Forall_impl; [|exact I6]. intros f (Hf & _). exact Hf.
  Qed.

  (* ---- a write by an old caller ---- *)
  Lemma cok_bump_all : forall F q sz, cok F (q + 1) -> cok (map (bump sz) F) q.
  Proof.
    induction F as [|f r IH]; intros q sz H; [exact I|]. cbn [cok] in H. destruct H as (H1 & H2).
    cbn [map cok bump p_c]. rewrite len_map. split; [lia | auto].
  Qed.

  Lemma write_old_inv s n k t : Inv s -> c_now s <= t -> nth_error (c_old s) n = Some k ->
    Inv (write_old s n k t).
  Proof.
    intros (I0 & I1 & I2 & I3 & I4 & I5 & I6 & I7) Ht Hn.
    pose proof (Forall_nth _ _ _ _ I7 Hn) as Ks. unfold sized in Ks.
    assert (Hd : 0 <= R * (t - c_now s)) by (apply Z.mul_nonneg_nonneg; lia).
    assert (Hv' : c_b s - p_size k + R * (t - c_last s) = vlevel s + R * (t - c_now s) - p_size k) by (unfold M_RegulateK.vlevel; ring).
    pose proof (len_drop_nth _ _ _ Hn) as Hl.
    unfold Inv, write_old, M_RegulateK.vlevel. cbn [c_b c_last c_now c_fresh c_old c_o c_no]. rewrite Hv', Hl.
    do 5 (split; [lia|]). split; [|split].
    - apply cok_bump_all. replace (len (c_old s) - 1 + 1) with (len (c_old s)) by lia. exact I5.
    - rewrite Forall_map. eapply Forall_impl; [|exact I6]. intros f Hf. apply fok_bump; auto.
    - apply Forall_drop_nth. exact I7.
  Qed.

  (* ---- every step of every run ---- *)
  Definition small (e : cev) : Prop := match e with CArr _ _ sz => sz <= M | CWr _ _ => True end.

  Lemma step_inv s e s' : Inv s -> small e -> cstep s e = Some s' -> Inv s'.
  Proof.
    intros HI Hsm H. destruct e as [id t sz | id t]; cbn [M_RegulateK.cstep] in H.
    - destruct (c_now s <=? t) eqn:E1; [|discriminate]. unfold npend in H.
      destruct (Z.of_nat (length (c_fresh s) + length (c_old s)) <? K) eqn:E2; [|discriminate].
      destruct (0 <=? sz) eqn:E3; [|discriminate]. cbn in H. injection H as <-.
      apply Z.leb_le in E1, E3. apply Z.ltb_lt in E2. cbn in Hsm. apply arrive_inv; auto; lia.
    - destruct (c_now s <=? t) eqn:E1; [|discriminate]. apply Z.leb_le in E1.
      destruct (pos_of id (c_fresh s)) as [n|].
      + destruct (nth_error (c_fresh s) n) as [j|] eqn:En; [|discriminate].
        destruct (may_write j t) eqn:Ew; [|discriminate]. injection H as <-. apply write_fresh_inv; auto.
      + destruct (pos_of id (c_old s)) as [n|]; [|discriminate].
        destruct (nth_error (c_old s) n) as [k|] eqn:En; [|discriminate].
        destruct (may_write k t); [|discriminate]. injection H as <-. eapply write_old_inv; eauto.
  Qed.

  Lemma run_inv : forall evs s s', Inv s -> Forall small evs -> crun s evs = Some s' -> Inv s'.
  Proof.
    induction evs as [|e r IH]; intros s s' HI Hs H; cbn [M_RegulateK.crun] in H; [injection H as <-; exact HI|].
    destruct (cstep s e) as [s1|] eqn:E; [|discriminate]. inversion Hs as [|? ? Hse Hsr]; subst. apply (IH s1 s'); [eapply step_inv; eauto | exact Hsr | exact H].
  Qed.

  (* the level never falls below -(K-1) frames *)
  Lemma inv_floor s : Inv s -> - ((K - 1) * M) <= vlevel s.
  Proof.
    intros (I0 & I1 & I2 & I3 & I4 & _). pose proof (len_nonneg (c_old s)).
    assert (c_no s * M <= (K - 1) * M) by (apply Z.mul_le_mono_nonneg_r; lia). lia.
  Qed.

  Theorem level_floor evs t0 s : Forall small evs -> crun (cinit CAP t0) evs = Some s -> - ((K - 1) * M) <= vlevel s.
  Proof. intros Hs H. apply inv_floor. apply (run_inv evs (cinit CAP t0) s (init_inv t0) Hs H). Qed.

  (* ---- windows: a potential that every write pays from ---- *)
  Fixpoint psum (l : list pend) : Z := match l with [] => 0 | p :: r => p_size p + psum r end.
  (* the level, but no more than a full bucket plus the frames of the callers still pending (what an hour without arrivals adds is lost at the next top-up) *)
  Definition pot (s : cst) : Z := Z.min (vlevel s) (CAP + psum (c_fresh s) + psum (c_old s)).

  Lemma psum_app a b : psum (a ++ b) = psum a + psum b.
  Proof. induction a as [|x a IH]; cbn [app psum]; lia. Qed.
  Lemma psum_bump sz l : psum (map (bump sz) l) = psum l.
  Proof. induction l as [|x l IH]; cbn [map psum bump p_size]; lia. Qed.
  Lemma psum_split : forall l n (j : pend), nth_error l n = Some j -> psum l = psum (firstn n l) + p_size j + psum (skipn (S n) l).
  Proof.
    induction l as [|x l IH]; intros [|n] j Hn; try discriminate.
    - cbn in Hn. injection Hn as <-. cbn [firstn skipn psum]. lia.
    - cbn [nth_error] in Hn. change (skipn (S (S n)) (x :: l)) with (skipn (S n) l). cbn [firstn psum].
      specialize (IH n j Hn). lia.
  Qed.
  Lemma psum_drop : forall l n (k : pend), nth_error l n = Some k -> psum l = psum (drop_nth n l) + p_size k.
  Proof.
    induction l as [|x l IH]; intros [|n] k Hn; try discriminate.
    - cbn in Hn. injection Hn as <-. cbn [drop_nth psum]. lia.
    - cbn [nth_error] in Hn. cbn [drop_nth psum]. specialize (IH n k Hn). lia.
  Qed.
  Lemma psum_bounds l : Forall sized l -> 0 <= psum l <= len l * M.
  Proof.
    induction 1 as [|x l Hx Hl IH]; [unfold len; cbn; lia|]. rewrite len_cons. cbn [psum]. unfold sized in Hx. lia.
  Qed.
  Lemma inv_sized s : Inv s -> Forall sized (c_fresh s) /\ Forall sized (c_old s).
  Proof. intros (_ & _ & _ & _ & _ & _ & I6 & I7). split; [|exact I7]. eapply Forall_impl; [|exact I6]. intros f (Hf & _). exact Hf. Qed.

  Definition wbits (s : cst) (e : cev) : Z := match e with CWr id _ => size_of s id | _ => 0 end.

  (* one step: what it writes plus the potential afterwards is covered by the potential before and the refill for the
     time that passed -- an arrival adds nothing: a newcomer's frame is paid from the (capped) level it tops up *)
  Lemma step_pot s e s' : Inv s -> cstep s e = Some s' ->
    wbits s e + pot s' <= pot s + R * (c_now s' - c_now s) /\ c_now s <= c_now s'.
  Proof.
    intros HI H. pose proof (inv_sized _ HI) as (SF & SO). apply psum_bounds in SF, SO.
    destruct e as [id t sz | id t]; cbn [M_RegulateK.cstep wbits] in *.
    - destruct (c_now s <=? t) eqn:E1; [|discriminate]. destruct (npend s <? K); [|discriminate].
      destruct (0 <=? sz) eqn:E3; [|discriminate]. cbn in H. injection H as <-. apply Z.leb_le in E1, E3.
      assert (Hd : 0 <= R * (t - c_now s)) by (apply Z.mul_nonneg_nonneg; lia).
      unfold pot, M_RegulateK.arrive, M_RegulateK.vlevel. cbn [c_b c_last c_now c_fresh c_old psum p_size].
      replace (t - t) with 0 by lia. rewrite Z.mul_0_r, Z.add_0_r.
      replace (R * (t - c_last s)) with (R * (c_now s - c_last s) + R * (t - c_now s)) by ring.
      split; lia.
    - destruct (c_now s <=? t) eqn:E1; [|discriminate]. apply Z.leb_le in E1.
      assert (Hd : 0 <= R * (t - c_now s)) by (apply Z.mul_nonneg_nonneg; lia).
      unfold size_of.
      destruct (pos_of id (c_fresh s)) as [n|].
      + destruct (nth_error (c_fresh s) n) as [j|] eqn:En; [|discriminate].
        destruct (may_write j t); [|discriminate]. injection H as <-.
        unfold pot, write_fresh, M_RegulateK.vlevel. cbn [c_b c_last c_now c_fresh c_old].
        rewrite psum_bump, psum_app, (psum_split _ _ _ En).
        replace (R * (t - c_last s)) with (R * (c_now s - c_last s) + R * (t - c_now s)) by ring.
        split; lia.
      + destruct (pos_of id (c_old s)) as [n|]; [|discriminate].
        destruct (nth_error (c_old s) n) as [k|] eqn:En; [|discriminate].
        destruct (may_write k t); [|discriminate]. injection H as <-.
        unfold pot, write_old, M_RegulateK.vlevel. cbn [c_b c_last c_now c_fresh c_old].
        rewrite psum_bump, (psum_drop _ _ _ En).
        replace (R * (t - c_last s)) with (R * (c_now s - c_last s) + R * (t - c_now s)) by ring.
        split; lia.
  Qed.

  Definition ev_time (e : cev) : Z := match e with CArr _ t _ => t | CWr _ t => t end.
  (* ... and whatever time passed before it, one step leaves no more than a full bucket plus the pending frames *)
  Lemma step_pot_cap s e s' : Inv s -> cstep s e = Some s' ->
    wbits s e + pot s' <= CAP + psum (c_fresh s) + psum (c_old s) /\ c_now s' = ev_time e.
  Proof.
    intros HI H. pose proof (inv_sized _ HI) as (SF & SO). apply psum_bounds in SF, SO.
    destruct e as [id t sz | id t]; cbn [M_RegulateK.cstep wbits ev_time] in *.
    - destruct (c_now s <=? t) eqn:E1; [|discriminate]. destruct (npend s <? K); [|discriminate].
      destruct (0 <=? sz) eqn:E3; [|discriminate]. cbn in H. injection H as <-. apply Z.leb_le in E1, E3.
      unfold pot, M_RegulateK.arrive, M_RegulateK.vlevel. cbn [c_b c_last c_now c_fresh c_old psum p_size].
      replace (t - t) with 0 by lia. rewrite Z.mul_0_r, Z.add_0_r. split; lia.
    - destruct (c_now s <=? t) eqn:E1; [|discriminate]. apply Z.leb_le in E1.
      unfold size_of.
      destruct (pos_of id (c_fresh s)) as [n|].
      + destruct (nth_error (c_fresh s) n) as [j|] eqn:En; [|discriminate].
        destruct (may_write j t); [|discriminate]. injection H as <-.
        unfold pot, write_fresh. cbn [c_now c_fresh c_old].
        rewrite psum_bump, psum_app, (psum_split _ _ _ En). split; lia.
      + destruct (pos_of id (c_old s)) as [n|]; [|discriminate].
        destruct (nth_error (c_old s) n) as [k|] eqn:En; [|discriminate].
        destruct (may_write k t); [|discriminate]. injection H as <-.
        unfold pot, write_old. cbn [c_now c_fresh c_old].
        rewrite psum_bump, (psum_drop _ _ _ En). split; lia.
  Qed.

  Lemma run_pot : forall evs s s', Inv s -> Forall small evs -> crun s evs = Some s' ->
    cbits s evs + pot s' <= pot s + R * (c_now s' - c_now s) /\ c_now s <= c_now s'.
  Proof.
    induction evs as [|e r IH]; intros s s' HI Hs H; cbn [M_RegulateK.crun M_RegulateK.cbits] in *.
    - injection H as <-. split; lia.
    - destruct (cstep s e) as [s1|] eqn:E; [|discriminate]. inversion Hs; subst.
      pose proof (step_pot _ _ _ HI E) as (P1 & T1).
      assert (HI1 : Inv s1) by (eapply step_inv; eauto).
      destruct (IH _ _ HI1 H3 H) as (P2 & T2). fold (wbits s e).
      replace (R * (c_now s' - c_now s)) with (R * (c_now s1 - c_now s) + R * (c_now s' - c_now s1)) by ring.
      split; lia.
  Qed.

  Lemma crun_app : forall pre mid s s2, crun s (pre ++ mid) = Some s2 -> exists s1, crun s pre = Some s1 /\ crun s1 mid = Some s2.
  Proof.
    induction pre as [|e pre IH]; intros mid s s2 H; cbn [app M_RegulateK.crun] in *; [eauto|].
    destruct (cstep s e) as [s'|]; [|discriminate]. eauto.
  Qed.

  (* any stretch `mid` of any run: the bits it hands to the radio are at most the allowance for the time it spans, one
     full bucket, one frame per call already pending when it starts, and K-1 frames (the overdraft concurrency allows) *)
  Theorem window_concurrent pre mid t0 s1 s2 : Forall small (pre ++ mid) ->
    crun (cinit CAP t0) pre = Some s1 -> crun s1 mid = Some s2 ->
    cbits s1 mid <= R * (c_now s2 - c_now s1) + CAP + npend s1 * M + (K - 1) * M.
  Proof.
    intros Hs H1 H2. apply Forall_app in Hs as (Hs1 & Hs2).
    assert (HI1 : Inv s1) by (apply (run_inv pre (cinit CAP t0) s1 (init_inv t0) Hs1 H1)).
    assert (HI2 : Inv s2) by (apply (run_inv mid s1 s2 HI1 Hs2 H2)).
    destruct (run_pot _ _ _ HI1 Hs2 H2) as (P & T).
    pose proof (inv_floor _ HI2) as F2.
    pose proof (inv_sized _ HI1) as (SF1 & SO1). apply psum_bounds in SF1, SO1.
    pose proof (inv_sized _ HI2) as (SF2 & SO2). apply psum_bounds in SF2, SO2.
    assert (N1 : npend s1 = len (c_fresh s1) + len (c_old s1)) by (unfold npend, len; lia).
    assert (0 <= (K - 1) * M) by (apply Z.mul_nonneg_nonneg; lia).
    unfold pot in P. rewrite N1. lia.
  Qed.
  (* the same, with the time measured from the first event of the stretch (what passed before it does not count) *)
  Theorem window_concurrent_from pre e rest t0 s1 s2 : Forall small (pre ++ e :: rest) ->
    crun (cinit CAP t0) pre = Some s1 -> crun s1 (e :: rest) = Some s2 ->
    cbits s1 (e :: rest) <= R * (c_now s2 - ev_time e) + CAP + npend s1 * M + (K - 1) * M.
  Proof.
    intros Hs H1 H2. apply Forall_app in Hs as (Hs1 & Hs2). inversion Hs2 as [|? ? Hse Hsr]; subst.
    assert (HI1 : Inv s1) by (apply (run_inv pre (cinit CAP t0) s1 (init_inv t0) Hs1 H1)).
    cbn [M_RegulateK.crun M_RegulateK.cbits] in *. destruct (cstep s1 e) as [sa|] eqn:E; [|discriminate].
    assert (HIa : Inv sa) by (eapply step_inv; eauto).
    assert (HI2 : Inv s2) by (apply (run_inv rest sa s2 HIa Hsr H2)).
    destruct (step_pot_cap _ _ _ HI1 E) as (P0 & T0).
    destruct (run_pot _ _ _ HIa Hsr H2) as (P & T).
    pose proof (inv_floor _ HI2) as F2.
    pose proof (inv_sized _ HI1) as (SF1 & SO1). apply psum_bounds in SF1, SO1.
    pose proof (inv_sized _ HI2) as (SF2 & SO2). apply psum_bounds in SF2, SO2.
    assert (N1 : npend s1 = len (c_fresh s1) + len (c_old s1)) by (unfold npend, len; lia).
    assert (0 <= (K - 1) * M) by (apply Z.mul_nonneg_nonneg; lia).
    fold (wbits s1 e). unfold pot in P, P0. rewrite N1, <- T0. lia.
  Qed.
End BucketK.
