"""C02 -- frame text round trips: theorems + correspondence on Command/Packet constructors and on
the real packet logger + FileTransport replay."""

from __future__ import annotations

import asyncio
import logging
import os
import re
import tempfile
from datetime import datetime as dt, timedelta as td

from .. import common, corpus
from ..common import Ctx
from .c01 import PRELUDE as PRELUDE01, parse_nested, zlist

THEOREMS = [
    "C02_command_regex_shape", "C02_print_parse", "C02_parse_print", "C02_reparse_stable",
    "C02_len_is_bytecount", "C02_from_attrs_preserves", "C02_nonvacuous",
    "C02_comment_is_opaque", "C02_hint_and_comment", "C02_error_before_comment", "C02_cli_triple_kept", "C02_cli_short_forms", "C02_cli_toks_triple_kept", "C02_cli_toks_triple_kept_no_seqn",
]

PRELUDE = PRELUDE01 + (
    "Definition showf (r : result frame) : list Z := match r with\n"
    "  | Ok f => 0 :: zs (print_frame f ++ lit \"|\" ++ f_verb f ++ lit \"|\" ++ f_seqn f ++ lit \"|\" ++ f_code f ++ lit \"|\" ++ f_len f ++ lit \"|\" ++ "
    "a_src (f_addrs f) ++ lit \"|\" ++ a_dst (f_addrs f) ++ lit \"|\" ++ f_payload f)\n"
    "  | Raise e => [exc e] end.\n")

HEX = "0123456789ABCDEF"


NON, ALL = "--:------", "63:262142"


def legal_shape(a0: str, a1: str, a2: str) -> bool:
    """The three legal address sets, as documented in address.pkt_addrs (the oracle's own reading)."""
    return ((a0 not in (NON, ALL) and a1 == NON and a2 != NON)
            or (a0 not in (NON, ALL) and a1 not in (NON, a0) and a2 == NON)
            or (a2 not in (NON, ALL) and a0 == NON and a1 == NON))


VALID_FRAMES: set[str] = set()


def rand_frame(rng, valid_bias=0.8):
    def addr():
        return f"{rng.choice([0, 1, 4, 13, 18, 63, rng.randint(0, 63)]):02d}:{rng.choice([0, 262143, 262142, rng.randint(0, 262143)]):06d}"

    verb = rng.choice([" I", "RQ", "RP", " W"])
    seqn = rng.choice(["---", f"{rng.randint(0, 255):03d}"])
    a, b = addr(), addr()
    shape = rng.choice([0, 1, 2, 3])
    addrs = [f"{a} --:------ {a}", f"{a} {b} --:------", f"--:------ --:------ {a}", f"{a} --:------ {b}"][shape]
    code = "".join(rng.choice(HEX) for _ in range(4))
    n = rng.choice([1, 2, 3, 24, 47, 48, rng.randint(1, 48)])
    pl = "".join(rng.choice(HEX) for _ in range(2 * n))
    f = f"{verb} {seqn} {addrs} {code} {n:03d} {pl}"
    if legal_shape(*addrs.split(" ")):
        VALID_FRAMES.add(f)  # structurally valid by construction
    if rng.random() > valid_bias:
        f = corpus.mutate(f, rng, rng.randint(1, 2))
        f = "".join(c for c in f if ord(c) < 128 and c not in "\r\n")
    return f


def run(ctx: Ctx) -> None:
    logging.disable(logging.CRITICAL)
    from ramses_tx import exceptions as exc  # noqa: PLC0415
    from ramses_tx.command import Command  # noqa: PLC0415
    from ramses_tx.packet import Packet  # noqa: PLC0415

    rng = ctx.rng
    thorough = ctx.tier == "thorough"
    ctx.rule = ("frames drawn over all verbs, seqn --- / 000-255, the three legal address shapes (+ illegal ones), device types "
                "00-63, random 4-hex codes, payload lengths 1..48 (boundaries 1,2,3,24,47,48); 20% within 1-2 edits of such a "
                "frame; attribute tuples for _from_attrs; CLI short forms; packets with RSSI ---/.../ddd and comment / error / "
                "hint annotations written by the real packet logger and replayed by FileTransport; non-trivial = accepted frame")
    ctx.assumptions += ["str.split fields = fixed columns (as C01)", "the logger's float timestamp round trip is exercised with TZ=UTC only"]
    built = ctx.build("C02", THEOREMS)

    # ---------------------------------------------------------- X1/O1: Command(frame) and Packet
    n = 6000 if thorough else 1500
    frames = [rand_frame(rng) for _ in range(n)]
    logs = corpus.log_lines()
    frames += [rng.choice(logs)[2][4:] for _ in range(n // 3) if logs]
    frames = [f for f in frames if all(32 <= ord(c) < 127 for c in f)]
    impl, cases = [], []
    for f in frames:
        try:
            c = Command(f)
            txt = f"{c!s}|{c.verb}|{c.seqn}|{c.code}|{c.len_}|{c.src.id}|{c.dst.id}|{c.payload}"
            impl.append([0] + list(txt.encode()))
            ctx.case(("frame", f), True, "frame:accepted")
            if str(c) != f:
                ctx.violation("parse-print-not-identity", "str(Command(frame)) differs from the frame text", {"frame": f, "printed": str(c)})
            if int(c.len_) * 2 != len(c.payload) or c._len != len(c.payload) // 2:
                ctx.violation("length-field-wrong", "the length field is not the payload's byte count", {"frame": f})
            try:
                p = Packet.from_port(dt(2024, 1, 1), "045 " + f)
                if str(p) != f or (p.verb, p.seqn, p.code, p.payload, p.src.id, p.dst.id) != (c.verb, c.seqn, c.code, c.payload, c.src.id, c.dst.id):
                    ctx.violation("packet-command-disagree", "Packet and Command parse the same frame differently", {"frame": f})
            except (exc.PacketInvalid, ValueError):
                pass
            c2 = Command(str(c))
            if str(c2) != str(c):
                ctx.violation("reparse-unstable", "re-parsing a printed command changes it", {"frame": f})
        except exc.CommandInvalid as err:
            impl.append([2])
            ctx.case(("frame", f), False, "frame:rejected")
            if f in VALID_FRAMES:
                ctx.violation("valid-frame-rejected", "a structurally valid frame is rejected by Command()", {"frame": f, "error": str(err)})
        except Exception as err:  # noqa: BLE001
            impl.append([9])
            ctx.violation(f"command-ctor-raises:{type(err).__name__}", "Command(frame) raised an unexpected exception", {"frame": f, "error": repr(err)})
        cases.append(f"sz {zlist(f)}")
    files = {}
    for k in range(0, len(cases), 500):
        files[f"x1_{k // 500}"] = PRELUDE + "Eval vm_compute in (map (fun s => showf (mk_frame s)) " + common.coq_list(cases[k:k + 500], ";\n ") + ")."

    # ---------------------------------------------------------- X2/O2: _from_attrs
    at_cases, at_impl = [], []
    ids = ["18:000730", "01:145038", "04:000002", "--:------", "63:262142", "13:000003"]
    for _ in range(1500 if thorough else 400):
        verb = rng.choice(["I", "W", " I", " W", "RQ", "RP"])
        seqn = rng.choice(["---", "000", "255", f"{rng.randint(0, 255):03d}", f"{rng.randint(0, 255):03d}"])
        x0, x1, x2 = rng.choice(ids), rng.choice(ids), rng.choice(ids)
        if rng.random() < 0.75:  # mostly one of the three legal shapes
            a, b = rng.sample([i for i in ids if i[:2] not in ("--", "63")], 2)
            x0, x1, x2 = rng.choice([(a, "--:------", a), (a, b, "--:------"), ("--:------", "--:------", a), (a, "--:------", b)])
        code = "".join(rng.choice(HEX) for _ in range(4))
        npl = rng.choice([2, 4, 6, 96, 98, 3, 0, rng.randrange(2, 97, 2)])
        payload = "".join(rng.choice(HEX) for _ in range(npl))
        try:
            c = Command._from_attrs(verb, code, payload, addr0=x0, addr1=x1, addr2=x2, seqn=seqn)
            txt = f"{c!s}|{c.verb}|{c.seqn}|{c.code}|{c.len_}|{c.src.id}|{c.dst.id}|{c.payload}"
            at_impl.append([0] + list(txt.encode()))
            exp = " ".join([{"I": " I", "W": " W"}.get(verb, verb), seqn, x0, x1, x2, code, f"{npl // 2:03d}", payload])
            ctx.case(("attrs", verb, seqn, x0, x1, x2, code, payload), True, "from_attrs:accepted")
            if str(c) != exp:
                ctx.violation("from-attrs-alters", "_from_attrs built a frame that differs from its attributes", {"expected": exp, "got": str(c)})
        except (exc.CommandInvalid, exc.PacketInvalid) as err:
            at_impl.append([2])
            ctx.case(("attrs", verb, seqn, x0, x1, x2, code, payload), False, "from_attrs:rejected")
            if legal_shape(x0, x1, x2) and 2 <= npl <= 96 and npl % 2 == 0:
                ctx.violation("from-attrs-rejects-valid", "_from_attrs rejects structurally valid attributes",
                              {"attrs": [verb, seqn, x0, x1, x2, code, payload], "error": str(err)})
        at_cases.append("(" + ", ".join(f"sz {zlist(x)}" for x in (verb, seqn, x0, x1, x2, code, payload)) + ")")
    files["x2"] = (PRELUDE + "Eval vm_compute in (map (fun x : str*str*str*str*str*str*str => match x with (v,q,a,b,c,d,p) => "
                   "showf (cmd_from_attrs v q a b c d p) end) " + common.coq_list(at_cases, ";\n ") + ").")

    # ---------------------------------------------------------- O2b/O3b: EVERY sequence number (---, 000-255), every spelling
    SHAPES = [("01:123456", "--:------", "01:123456"), ("01:123456", "13:654321", "--:------"),
              ("--:------", "--:------", "01:123456"), ("01:123456", "--:------", "13:654321")]
    for n in [None, *range(256)]:
        txt = "---" if n is None else f"{n:03d}"
        x0, x1, x2 = SHAPES[(n or 0) % 4]
        verb = ("RQ", " I", " W", "RP")[(n or 0) % 4]
        for given in ([None, "", "---"] if n is None else [txt, n]):     # _from_attrs takes the text or an int
            try:
                c = Command._from_attrs(verb, "22F1", "000204", addr0=x0, addr1=x1, addr2=x2, seqn=given)
                got = (str(c), c.seqn)
            except Exception as err:  # noqa: BLE001
                got = (type(err).__name__, None)
            ctx.case(("attrs-seqn", repr(given)), True, "from_attrs:every-seqn")
            if got != (f"{verb} {txt} {x0} {x1} {x2} 22F1 003 000204", txt):
                ctx.violation("from-attrs-alters", "_from_attrs built a frame that differs from its attributes", {"seqn": repr(given), "expected_seqn": txt, "got": got[0]})
        for form, parts in enumerate((["01:123456"], ["01:123456", "13:654321"], ["01:123456", "--:------", "13:654321"], ["01:123456", "13:654321", "--:------"])):
            cli = " ".join([verb.strip(), *([] if n is None else [txt]), *parts, "22F1", "000204"])
            try:
                c = Command.from_cli(cli)
                got = (c.verb, c.seqn, c.code, c.payload, str(Command(str(c))) == str(c))
            except Exception as err:  # noqa: BLE001
                got = (type(err).__name__,)
            ctx.case(("cli-seqn", cli), True, "cli:every-seqn")
            if got != (verb, txt, "22F1", "000204", True):
                ctx.violation("cli-form-alters", "from_cli does not preserve verb/seqn/code/payload", {"cli": cli, "got": list(got)})

    # ---------------------------------------------------------- O3: CLI short form
    cli_cases, cli_impl = [], []
    for _ in range(600 if thorough else 200):
        verb = rng.choice(["RQ", "RP", " I", " W", "I", "W"])
        a, b = "01:123456", "13:654321"
        code = "".join(rng.choice(HEX) for _ in range(4))
        payload = "".join(rng.choice(HEX) for _ in range(rng.randrange(2, 50, 2)))
        form = rng.randrange(7)
        seq = rng.choice(["", "000", f"{rng.randint(0, 255):03d}"])
        if rng.random() < 0.5:      # any two devices
            a, b = (f"{rng.randrange(64):02d}:{rng.randrange(1, 262143):06d}" for _ in range(2))
        parts = {0: [a], 1: [a, b], 2: [a, a], 3: [a, "--:------", b], 4: [a, b, "--:------"], 5: ["--:------", "--:------", a], 6: [a, "--:------", a]}[form]
        # the address fields of the frame built: a triple given in full is kept as it is; the short forms are completed as documented
        triple = {0: None if verb.strip() == "I" else ("18:000730", a, "--:------"), 1: (a, b, "--:------"), 2: (a, "--:------", a)}.get(form, tuple(parts))
        if a == b and form in (1, 3, 4):
            triple = None
        cli = " ".join([verb.strip(), seq, *parts, code, payload]).replace("  ", " ")
        cli_cases.append("[" + "; ".join(f"sz {zlist(x)}" for x in cli.upper().split()) + "]")
        try:
            c = Command.from_cli(cli)
            cli_impl.append([0] + list(str(c).encode()))
        except (exc.CommandInvalid, exc.PacketInvalid):
            cli_impl.append([2])
            ctx.case(("cli", cli), False, "cli:rejected")
            continue
        ctx.case(("cli", cli), True, "cli:accepted")
        v2 = {"I": " I", "W": " W"}.get(verb.strip(), verb.strip())
        if (c.verb, c.code, c.payload, c.seqn) != (v2, code, payload[:48], seq or "---") or str(Command(str(c))) != str(c):
            ctx.violation("cli-form-alters", "from_cli does not preserve verb/seqn/code/payload", {"cli": cli, "frame": str(c)})
        if int(c.len_) * 2 != len(c.payload):
            ctx.violation("length-field-wrong", "from_cli built a wrong length field", {"cli": cli, "frame": str(c)})
        if triple is not None and tuple(str(c).split()[2:5]) != triple:
            ctx.violation("cli-form-alters-addresses", "from_cli built a frame whose three address fields are not the ones given", {"cli": cli, "frame": str(c), "expected_addresses": list(triple)})

    files["x4"] = (PRELUDE + "Eval vm_compute in (map (fun toks : list str => "
                   "match cmd_from_cli_toks toks with Ok f => 0 :: zs (print_frame f) | Raise e => [exc e] end) " + common.coq_list(cli_cases, ";\n ") + ").")
    if built:
        res = common.coq_eval("C02", files, timeout=900)
        model = []
        ok = True
        for k in range(0, len(cases), 500):
            rc, out = res[f"x1_{k // 500}"]
            if rc:
                ok = False
                ctx.obligation("correspondence:Command(frame)", False, "correspondence", out[-400:])
                break
            model += parse_nested(out)
        if ok:
            bad = [i for i, (a, b) in enumerate(zip(model, impl)) if list(a) != list(b)]
            ctx.obligation("correspondence:Command(frame)", not bad and len(model) == len(impl), "correspondence",
                           f"{len(bad)} differ; first {frames[bad[0]]!r}: model {bytes(model[bad[0]][1:])!r}/{model[bad[0]][:1]} impl {bytes(impl[bad[0]][1:])!r}/{impl[bad[0]][:1]}" if bad else "")
        rc, out = res["x2"]
        if rc:
            ctx.obligation("correspondence:_from_attrs", False, "correspondence", out[-400:])
        else:
            m2 = parse_nested(out)
            bad = [i for i, (a, b) in enumerate(zip(m2, at_impl)) if list(a) != list(b)]
            ctx.obligation("correspondence:_from_attrs", not bad and len(m2) == len(at_impl), "correspondence",
                           f"{len(bad)} differ; first {at_cases[bad[0]][:200]}: model {bytes(m2[bad[0]][1:])!r}/{m2[bad[0]][:1]} impl {bytes(at_impl[bad[0]][1:])!r}/{at_impl[bad[0]][:1]}" if bad else "")
        rc, out = res["x4"]
        if rc:
            ctx.obligation("correspondence:from_cli", False, "correspondence", out[-400:])
        else:
            m4 = parse_nested(out)
            bad = [i for i, (a, b) in enumerate(zip(m4, cli_impl)) if list(a) != list(b)]
            ctx.obligation("correspondence:from_cli", not bad and len(m4) == len(cli_impl), "correspondence",
                           f"{len(bad)} differ; first {cli_cases[bad[0]][:300]}: model {bytes(m4[bad[0]][1:])!r}/{m4[bad[0]][:1]} impl {bytes(cli_impl[bad[0]][1:])!r}/{cli_impl[bad[0]][:1]}" if bad
                           else f"{len(cli_impl)} CLI strings (one / two / three address tokens, every shape, any two devices): the frame built is the model's")
    else:
        ctx.obligation("correspondence:Command(frame)", False, "correspondence", "model not built")
        ctx.obligation("correspondence:_from_attrs", False, "correspondence", "model not built")
        ctx.obligation("correspondence:from_cli", False, "correspondence", "model not built")

    partition_correspondence(ctx, built)
    log_roundtrip(ctx, built, 2500 if thorough else 600)
    log_sessions(ctx)


def partition_correspondence(ctx: Ctx, built: bool) -> None:
    """Packet._partition on lines whose annotations contain the marker characters, vs the model's pkt_partition."""
    from ramses_tx.packet import Packet  # noqa: PLC0415

    rng = ctx.rng
    frames = ["045  I --- 01:145038 --:------ 01:145038 1F09 003 FF0708", "...  W --- 18:000730 01:145038 --:------ 2309 003 0107D0", "000 RP --- 01:145038 18:000730 --:------ 0006 004 00050009"]
    bits = ["", " # a comment", " * an err msg", " < hint", " # note * with star", " # c1 # c2", " # pressed *boost*", " # a < b", " < hint # c * x", " #*", " # <",
            " * err # and a comment", " < h * e # c", "#", "*", "<", " # ", " *  # ", "  #  spaced  ", " < < # # * *"]
    lines = [f + b for f in frames for b in bits] + [rng.choice(frames) + "".join(rng.choice([" #", " *", " <", " x", "y ", " "]) for _ in range(rng.randint(1, 8))) for _ in range(60)]
    impl = []
    for ln in lines:
        fr, err, com = Packet._partition(ln)
        impl.append([list(fr.encode()), list(err.encode()), list(com.encode())])
        ctx.case(("partition", ln), True, "partition:" + ("err" if err else "comment" if com else "plain"))
    if not built:
        ctx.obligation("correspondence:line-partition", False, "correspondence", "model not built")
        return
    txt = (PRELUDE + "Eval vm_compute in (map (fun l => let '(a, b, c) := pkt_partition l in [zs a; zs b; zs c]) "
           + common.coq_list([f"sz {zlist(ln)}" for ln in lines], ";\n ") + ").")
    rc, out = common.coq_eval("C02part", {"x": txt}, timeout=300)["x"]
    if rc:
        ctx.obligation("correspondence:line-partition", False, "correspondence", out[-400:])
        return
    m = re.search(r"=\s*(\[.*\])\s*:\s*list", out, flags=re.S)
    rows = eval(m.group(1).replace(";", ","), {"__builtins__": {}}) if m else []  # noqa: S307
    bad = [i for i, (a, b) in enumerate(zip(rows, impl)) if [list(x) for x in a] != b]
    ctx.obligation("correspondence:line-partition", not bad and len(rows) == len(impl), "correspondence",
                   f"{len(bad)} of {len(impl)} differ; first: {lines[bad[0]]!r}" if bad or len(rows) != len(impl) else f"{len(impl)} annotated lines: frame / error / comment agree")


def log_sessions(ctx: Ctx) -> None:
    """A recorded session replays as the same message sequence -- also when packet logging is configured more than once in one process (a restart,
    a reload): to the same file again, then to another file.  Each log holds exactly the packets accepted while it was the log, once, in order."""
    from ramses_tx.logger import set_pkt_logging  # noqa: PLC0415
    from ramses_tx.packet import PKT_LOGGER, Packet  # noqa: PLC0415

    logging.disable(logging.NOTSET)
    logging.getLogger().setLevel(logging.CRITICAL)
    files = []
    for _ in range(2):
        fd, fn = tempfile.mkstemp(suffix=".log", prefix="verif_c02s_")
        os.close(fd)
        files.append(fn)
    t0 = dt(2026, 3, 2, 8, 0, 0, 123456)
    want = {files[0]: [], files[1]: []}
    k = 0
    try:
        for fn, count in ((files[0], 4), (files[0], 3), (files[1], 3), (files[1], 2)):
            set_pkt_logging(PKT_LOGGER, file_name=fn)
            for _ in range(count):
                k += 1
                line = f"045  I --- 01:145038 --:------ 01:145038 30C9 003 {k % 12:02X}07D0"
                Packet.from_port(t0 + td(seconds=k), line)
                want[fn].append(line[4:])
        for h in PKT_LOGGER.handlers:
            h.flush()
        got = {fn: [ln[31:].split(" #")[0].rstrip() for ln in open(fn).read().splitlines() if ln[27:30] == "045"] for fn in files}
    finally:
        for h in list(PKT_LOGGER.handlers):
            PKT_LOGGER.removeHandler(h)
            h.close()
        for fn in files:
            os.remove(fn)
        logging.disable(logging.CRITICAL)
    for i, fn in enumerate(files):
        ctx.case(("log-session", i), True, "log:sessions-reconfigured")
        if got[fn] != want[fn]:
            ctx.violation("log-session-differs-after-reconfiguring", "after packet logging was configured again in the same process (same file, then another file) a log does not hold exactly the "
                          "packets accepted while it was the log, once each, in order", {"log": "first" if i == 0 else "second", "recorded": want[fn], "in_the_log": got[fn]}, "history")


def log_roundtrip(ctx: Ctx, built: bool, n: int) -> None:
    """Real packet logger -> file -> the replayer's own slicing + Packet.from_file."""
    from ramses_tx import exceptions as exc  # noqa: PLC0415
    from ramses_tx.logger import set_pkt_logging  # noqa: PLC0415
    from ramses_tx.packet import PKT_LOGGER, Packet  # noqa: PLC0415
    import ramses_tx.transport as T  # noqa: PLC0415

    rng = ctx.rng
    logging.disable(logging.NOTSET)
    logging.getLogger().setLevel(logging.CRITICAL)
    fd, fn = tempfile.mkstemp(suffix=".log", prefix="verif_c02_")
    os.close(fd)
    try:
        set_pkt_logging(PKT_LOGGER, file_name=fn)
        sent = []
        t0 = dt(2026, 3, 1, 1, 2, 3, 456789)
        for i in range(n):
            f = rand_frame(rng, valid_bias=0.97)
            rssi = rng.choice(["---", "...", "045", "000", "099"])
            d = t0 + td(microseconds=rng.randint(0, 10**10))
            r = rng.random()
            if r < 0.15:
                d = d.replace(microsecond=0)              # exactly on a second
            elif r < 0.3:
                d = d.replace(microsecond=(d.microsecond // 1000) * 1000)   # millisecond-stamped source
            elif r < 0.35:
                d = d.replace(microsecond=rng.choice([1, 10, 999999, 100000, 500000]))
            ann = rng.choice(["", "", " # a comment", " * an err msg", " < hint", " # evofw3 note * with star", " # c1 # c2", " # pressed *boost* on the HR92",
                              " # a < b", " < hint # comment * not an error", " # {'x': 1} # < OTB: note", " #*", " # <", " * err # and a comment"])
            line = f"{rssi} {f}{ann}"
            has_err = "*" in ann.split("#")[0]       # frame[ < hint][ * evofw3-err_msg][ # comment]: whatever follows the first '#' is comment
            PKT_LOGGER.disabled = True          # the bare frame is judged without writing a second line to the log
            try:
                Packet.from_port(d, f"{rssi} {f}")
                base_valid = True
            except (exc.PacketInvalid, ValueError):
                base_valid = False
            finally:
                PKT_LOGGER.disabled = False
            try:
                p = Packet.from_port(d, line)
                sent.append((d, rssi, f, ann, True, str(p)))
            except (exc.PacketInvalid, ValueError):
                sent.append((d, rssi, f, ann, False, None))
                if base_valid and not has_err:
                    ctx.violation("valid-annotated-line-rejected", "a valid frame followed by a hint / comment annotation (no evofw3 error) is rejected",
                                  {"line": line})
        for h in PKT_LOGGER.handlers:
            h.flush()
        lines = open(fn).read().splitlines()
    finally:
        for h in list(PKT_LOGGER.handlers):
            PKT_LOGGER.removeHandler(h)
            h.close()
        os.remove(fn)
        logging.disable(logging.CRITICAL)
    # every call wrote one line (valid ones at INFO, invalid ones at WARNING) after the header line(s)
    body = [ln for ln in lines if ln[27:30] in ("---", "...", "045", "000", "099")]
    ctx.extra["log_lines_written"] = len(body)
    # align log lines with the packets offered (a frame rejected by Frame.__init__ is never logged)
    pairs, j = [], 0
    for ln in body:
        def is_line_of(ln, x):      # the whole frame, then the end of the line or an annotation (a damaged frame "R" is not the line of "RP 038 ...")
            return ln[27:30] == x[1] and ln[31:].startswith(x[2]) and ln[31 + len(x[2]):31 + len(x[2]) + 1] in ("", " ")

        while j < len(sent) and not is_line_of(ln, sent[j]):
            if sent[j][4]:
                ctx.violation("log-missing-packet", "an accepted packet was not written to the packet log", {"frame": sent[j][2]})
            j += 1
        if j == len(sent):
            break
        pairs.append((sent[j], ln))
        j += 1
    ctx.obligation("logger-lines-align-with-packets", len(pairs) == len(body) and all(not x[4] for x in sent[j:]), "correspondence",
                   f"{len(pairs)} of {len(body)} log lines matched")
    same_ts = 0
    model_cases = []
    for (d, rssi, f, ann, valid, printed), ln in pairs:
        # replay exactly as FileTransport._reader does
        got = []
        t = T.FileTransport.__new__(T.FileTransport)
        t._pkt_read = got.append
        s = ln.strip()
        T._ReadTransport._frame_read(t, s[:26], s[27:])
        ctx.case(("log", ln), valid, "log:" + ("valid" if valid else "invalid"))
        if valid:
            if not got:
                if "*" in ann.split("#")[0]:
                    continue  # a logged evofw3 error annotation marks the packet invalid on replay, by design
                ctx.violation("log-replay-loses-packet", "a packet written to the packet log is not read back", {"log_line": ln})
                continue
            p = got[0]
            if str(p) != printed or p._rssi != rssi:
                ctx.violation("log-replay-alters-packet", "a packet read back from the packet log differs", {"log_line": ln, "frame": printed, "read_back": str(p)})
            if p.dtm == d:
                same_ts += 1
            else:
                ctx.violation("log-replay-timestamp-differs", "a packet read back from the packet log has a different timestamp",
                              {"log_line": ln, "timestamp": d.isoformat(timespec="microseconds"), "read_back": p.dtm.isoformat(timespec="microseconds")})
        elif got:
            ctx.violation("log-replay-invents-packet", "an invalid packet is read back as valid", {"log_line": ln})
        model_cases.append((ln, bool(got), str(got[0]) if got else ""))
    ctx.extra["log_same_timestamp"] = same_ts
    if built:
        sample = model_cases[:400]
        txt = (PRELUDE + "Eval vm_compute in (map (fun l => match replay_line true l with Some (ts, Deliver p) => 1 :: zs (ts ++ lit \"|\" ++ print_frame (p_frame p) ++ lit \"|\" ++ p_rssi p) "
               "| Some (_, Drop) => [0] | Some (_, Escape _) => [9] | None => [7] end) " + common.coq_list([f"sz {zlist(ln)}" for ln, _, _ in sample], ";\n ") + ").")
        res = common.coq_eval("C02log", {"x3": txt}, timeout=600)
        rc, out = res["x3"]
        if rc:
            ctx.obligation("correspondence:log-replay", False, "correspondence", out[-400:])
        else:
            m = parse_nested(out)
            bad = []
            for i, ((ln, ok, fr), r) in enumerate(zip(sample, m)):
                exp = [1] + list(f"{ln.strip()[:26]}|{fr}|{ln.strip()[27:30]}".encode()) if ok else [0]
                if list(r) != exp:
                    bad.append(i)
            ctx.obligation("correspondence:log-replay", not bad, "correspondence",
                           f"{len(bad)} differ; first line {sample[bad[0]][0]!r} model {bytes(x for x in m[bad[0]][1:])!r}" if bad else "")
    else:
        ctx.obligation("correspondence:log-replay", False, "correspondence", "model not built")


def replay(case: dict) -> int:
    print(case.get("signature"), case.get("case"))
    return 0
