"""PROTOTYPE translator: Python if/return decision chain -> shallow Gallina (fail-closed)."""
import ast, inspect, sys, textwrap, datetime as _dt
import logging; logging.disable(logging.CRITICAL)

class Unsupported(Exception): pass

def coq_str(s): return '"' + s.replace('"', '""') + '"'

class Chain:
    def __init__(self, fn, arg, fields, special_tail=None):
        self.fn, self.arg, self.fields = fn, arg, fields
        self.ns = dict(inspect.getmodule(fn).__dict__)
        src = textwrap.dedent(inspect.getsource(fn))
        self.tree = ast.parse(src).body[0]
        self.special_tail = special_tail

    # --- does an expression mention the packet argument? ---
    def mentions_arg(self, e):
        return any(isinstance(n, ast.Name) and n.id == self.arg for n in ast.walk(e))

    def const(self, e):
        """evaluate a closed expression in the module namespace -> Coq literal"""
        v = eval(compile(ast.Expression(e), "<const>", "eval"), self.ns)
        return self.lit(v)

    def lit(self, v):
        if isinstance(v, bool): return "true" if v else "false"
        if isinstance(v, str): return coq_str(str(v))
        if isinstance(v, int): return f"({v})%Z"
        if isinstance(v, _dt.timedelta):
            return f"({v // _dt.timedelta(microseconds=1)})%Z"
        if isinstance(v, (tuple, list, set, frozenset)):
            return "[" + "; ".join(self.lit(x) for x in (sorted(v) if isinstance(v,(set,frozenset)) else v)) + "]"
        raise Unsupported(f"literal {v!r}")

    def expr(self, e):
        """returns (coq_term, type) type in {str,bool,int,strlist,intlist}"""
        if not self.mentions_arg(e):
            v = eval(compile(ast.Expression(e), "<const>", "eval"), self.ns)
            if isinstance(v, dict): v = tuple(v.keys())   # `x in some_dict`
            t = ("bool" if isinstance(v,bool) else "str" if isinstance(v,str) else "int" if isinstance(v,int)
                 else "strlist" if isinstance(v,(tuple,list,set,frozenset)) and all(isinstance(x,str) for x in v)
                 else "intlist" if isinstance(v,(tuple,list,set,frozenset)) and all(isinstance(x,int) for x in v)
                 else "td" if isinstance(v,_dt.timedelta) else None)
            if t is None: raise Unsupported(ast.dump(e))
            return self.lit(v), t
        if isinstance(e, ast.Attribute):
            path = ast.unparse(e)
            if path in self.fields: return self.fields[path]
            raise Unsupported(f"attribute {path}")
        if isinstance(e, ast.Subscript) and isinstance(e.slice, ast.Slice):
            s, t = self.expr(e.value)
            if t != "str": raise Unsupported("slice of non-str")
            lo = e.slice.lower.value if e.slice.lower else 0
            hi = e.slice.upper.value if e.slice.upper else None
            if e.slice.step is not None or not isinstance(lo,int) or lo < 0 or (hi is not None and (not isinstance(hi,int) or hi < 0)):
                raise Unsupported("slice form")
            return (f"(py_slice {lo} {hi} {s})" if hi is not None else f"(py_slice_from {lo} {s})"), "str"
        if isinstance(e, ast.Call) and isinstance(e.func, ast.Name) and e.func.id == "int" and len(e.args)==2 \
                and isinstance(e.args[1], ast.Constant) and e.args[1].value == 16:
            s, t = self.expr(e.args[0]);  assert t == "str"
            return f"(py_int16 {s})", "optint"
        if isinstance(e, ast.BoolOp):
            parts = [self.boolean(v) for v in e.values]
            op = " && " if isinstance(e.op, ast.And) else " || "
            return "(" + op.join(parts) + ")", "bool"
        if isinstance(e, ast.UnaryOp) and isinstance(e.op, ast.Not):
            return f"(negb {self.boolean(e.operand)})", "bool"
        if isinstance(e, ast.Compare) and len(e.ops) == 1:
            l, lt = self.expr(e.left); r, rt = self.expr(e.comparators[0]); op = e.ops[0]
            if isinstance(op, (ast.Eq, ast.NotEq)) and lt == rt == "str":
                t = f"(String.eqb {l} {r})"; return (t if isinstance(op, ast.Eq) else f"(negb {t})"), "bool"
            if isinstance(op, (ast.In, ast.NotIn)) and lt == "str" and rt == "strlist":
                t = f"(existsb (String.eqb {l}) {r})"; return (t if isinstance(op, ast.In) else f"(negb {t})"), "bool"
            if isinstance(op, ast.In) and lt == "optint" and rt == "intlist":
                return f"(match {l} with Some n => existsb (Z.eqb n) {r} | None => false end)", "bool_or_valueerror"
            raise Unsupported(f"compare {ast.dump(e)}")
        raise Unsupported(ast.dump(e))

    def boolean(self, e):
        t, ty = self.expr(e)
        if ty not in ("bool",): raise Unsupported(f"not boolean: {ast.unparse(e)} : {ty}")
        return t

    def stmts(self, body, indent):
        pad = "  " * indent
        if not body: raise Unsupported("fall off end")
        s, rest = body[0], body[1:]
        if isinstance(s, ast.Expr) and isinstance(s.value, ast.Constant): return self.stmts(rest, indent)  # docstring
        if self.special_tail and ast.unparse(s).startswith(self.special_tail[0]):
            return pad + self.special_tail[1]
        if isinstance(s, ast.Return):
            if isinstance(s.value, ast.IfExp):
                return (f"{pad}if {self.boolean(s.value.test)} then Ok {self.const(s.value.body)} else Ok {self.const(s.value.orelse)}")
            return f"{pad}Ok {self.const(s.value)}"
        if isinstance(s, ast.If):
            if s.orelse: raise Unsupported("else branch")
            t, ty = self.expr(s.test)
            then = self.stmts(s.body, indent + 1) if not self._falls_through(s.body) else None
            if then is None:   # nested ifs that may fall through to the statements after
                then = self.stmts(s.body + rest, indent + 1)
            els = self.stmts(rest, indent)
            if ty == "bool_or_valueerror":
                # int('',16) raises ValueError: guard is the parse itself
                return f"{pad}if {t} then\n{then}\n{pad}else\n{els}"
            return f"{pad}if {t} then\n{then}\n{pad}else\n{els}"
        raise Unsupported(ast.dump(s)[:80])

    def _falls_through(self, body):
        last = body[-1]
        return not isinstance(last, (ast.Return, ast.Raise))

    def emit(self, name, params):
        body = self.stmts(self.tree.body, 1)
        return f"Definition {name} {params} : result Z :=\n{body}."

if __name__ == "__main__":
    sys.path.insert(0, "/repo/src")
    from ramses_tx import packet
    fields = {"pkt.verb": ("(verb p)", "str"), "pkt.code": ("(code p)", "str"),
              "pkt.payload": ("(payload p)", "str"), "pkt._has_array": ("(has_array p)", "bool")}
    tail = ("if (code := CODES_SCHEMA.get(pkt.code))", "Ok (schema_lifespan (code p))")
    c = Chain(packet.pkt_lifespan, "pkt", fields, special_tail=tail)
    print(c.emit("pkt_lifespan", "(p : pktin)"))
