(* C04 -- Wire value codecs are exact inverses on their grid.
   Only statements here; each is closed by [exact] of a lemma of proof/P_Codecs.v.
   Finite-domain theorems carry their bound (65 536 words / 256 bytes) in the statement
   and are proved by exhaustive kernel computation; the others are unbounded. *)
From Coq Require Import ZArith List Bool PrimFloat.
From RV Require Import Py PyStr PyFloat M_Codecs P_Codecs.
Import ListNotations.
Open Scope Z_scope.

(* every wire word that decodes to a number re-encodes to the same word *)
Theorem C04_temp_decode_encode : forall w v,
  0 <= w < 65536 -> hex_to_temp w = Ok (TNum v) -> hex_from_temp_num v = Ok w.
Proof. exact temp_decode_encode. Qed.

(* every grid temperature k/100 encodes to its word and decodes to the same binary64 *)
Theorem C04_temp_encode_decode : forall k,
  -27315 <= k < 32768 -> k <> 0x31FF -> k <> 0x7EFF -> k <> 0x7FFF ->
  let v := fdiv (f_of_Z k) (f_of_Z 100) in
  let w := k mod 65536 in
  hex_from_temp_num v = Ok w /\ exists v', hex_to_temp w = Ok (TNum v') /\ f_same v' v = true.
Proof. exact temp_encode_decode. Qed.

Theorem C04_temp_sentinels :
  hex_to_temp 0x7FFF = Ok TNone /\ hex_to_temp 0x31FF = Ok TNone /\ hex_to_temp 0x7EFF = Ok TFalse /\
  hex_from_temp TNone = Ok 0x7FFF /\ hex_from_temp TFalse = Ok 0x7EFF.
Proof. exact temp_sentinels. Qed.

(* for EVERY binary64 value: the encoder either raises or returns the word whose signed
   value is exactly round(v*100) -- nothing is wrapped *)
Theorem C04_temp_no_silent_wrap : forall v w,
  hex_from_temp_num v = Ok w -> 0 <= w < 65536 /\ round_to_Z (fmul v (f_of_Z 100)) = Some (signed16 w).
Proof. exact temp_no_silent_wrap. Qed.

(* the pre-repair encoder (truncation) did violate the round trip: kept as a regression witness *)
Theorem C04_temp_trunc_refuted :
  exists w v, 0 <= w < 65536 /\ hex_to_temp w = Ok (TNum v) /\ hex_from_temp_trunc v <> Ok w.
Proof. exact temp_trunc_refuted. Qed.

Theorem C04_percent_decode_encode : forall hr b v,
  0 <= b < 256 -> hex_to_percent b hr = Ok (Some v) -> hex_from_percent (Some v) hr = Ok b.
Proof. exact percent_decode_encode. Qed.

Theorem C04_percent_sentinel : forall hr,
  hex_to_percent 0xEF hr = Ok None /\ hex_from_percent None hr = Ok 0xEF.
Proof. exact percent_sentinel. Qed.

Theorem C04_percent_no_silent_wrap : forall hr v b,
  hex_from_percent (Some v) hr = Ok b ->
  round_to_Z (fmul v (f_of_Z (pct_den hr))) = Some b /\ fleb 0%float v = true /\ fleb v 1%float = true.
Proof. exact percent_no_silent_wrap. Qed.

Theorem C04_double_decode_encode : forall factor w v,
  factor = 1 \/ factor = 10 \/ factor = 100 ->
  0 <= w < 65536 -> hex_to_double w factor = Some v -> hex_from_double (Some v) factor = Ok w.
Proof. exact double_decode_encode. Qed.

Theorem C04_bool_roundtrip : forall v, hex_to_bool (hex_from_bool v) = Ok v.
Proof. exact bool_roundtrip. Qed.
Theorem C04_bool_decode_encode : forall b v, hex_to_bool b = Ok v -> hex_from_bool v = b.
Proof. exact bool_decode_encode. Qed.

Theorem C04_flag8_decode_encode : forall lsb b,
  0 <= b < 256 -> hex_from_flag8 (hex_to_flag8 b lsb) lsb = Ok b.
Proof. exact flag8_decode_encode. Qed.
Theorem C04_flag8_encode_decode : forall lsb l,
  length l = 8%nat -> Forall (fun x => x = 0 \/ x = 1) l ->
  exists b, hex_from_flag8 l lsb = Ok b /\ 0 <= b < 256 /\ hex_to_flag8 b lsb = l.
Proof. exact flag8_encode_decode. Qed.

(* packed fault-log timestamps: every valid date-time of years 01..99 *)
Theorem C04_dts_roundtrip : forall f,
  valid_dt f = true -> 1 <= yr f <= 99 -> hex_to_dts (hex_from_dts (Some f)) = Ok (Some f).
Proof. exact dts_roundtrip. Qed.
Theorem C04_dts_decode_encode : forall v f,
  dts_grid v -> hex_to_dts v = Ok (Some f) -> yr f <= 99 -> hex_from_dts (Some f) = v.
Proof. exact dts_decode_encode. Qed.
Theorem C04_dts_sentinel : hex_to_dts (hex_from_dts None) = Ok None.
Proof. exact dts_sentinel. Qed.

(* date-times: every valid datetime (years 1..9999), with or without the DST bit *)
Theorem C04_dtm_roundtrip : forall f dst,
  valid_dt f = true -> hex_to_dtm (hex_from_dtm (Some f) dst true) = Ok (Some f).
Proof. exact dtm_roundtrip. Qed.
Theorem C04_dtm_roundtrip_no_seconds : forall f dst,
  valid_dt f = true ->
  hex_to_dtm (hex_from_dtm (Some f) dst false) =
  Ok (Some {| yr := yr f; mo := mo f; dd := dd f; hh := hh f; mi := mi f; ss := 0 |}).
Proof. exact dtm_roundtrip_no_seconds. Qed.
Theorem C04_dtm_sentinel :
  hex_to_dtm (hex_from_dtm None false true) = Ok None /\ hex_to_dtm (hex_from_dtm None false false) = Ok None.
Proof. exact dtm_sentinel. Qed.

(* device ids: a bijection between the 24-bit space and {0..63} x {0..2^18-1} *)
Theorem C04_id_hex_dev_hex : forall h, 0 <= h < 2 ^ 24 -> dev_id_to_hex_id (hex_id_to_dev_id h) = h.
Proof. exact id_hex_dev_hex. Qed.
Theorem C04_id_dev_hex_dev : forall t n, 0 <= t <= 63 -> 0 <= n < 2 ^ 18 ->
  hex_id_to_dev_id (dev_id_to_hex_id (t, n)) = (t, n) /\ 0 <= dev_id_to_hex_id (t, n) < 2 ^ 24.
Proof. exact id_dev_hex_dev. Qed.
Theorem C04_id_fields_in_range : forall h, 0 <= h < 2 ^ 24 ->
  0 <= fst (hex_id_to_dev_id h) <= 63 /\ 0 <= snd (hex_id_to_dev_id h) < 2 ^ 18.
Proof. exact id_fields_in_range. Qed.
(* ... and through the text forms "tt:nnnnnn" / 6 upper-case hex chars *)
Theorem C04_id_text_hex_roundtrip : forall hx,
  length hx = 6%nat -> forallb is_hex_upper hx = true ->
  exists id, hex_id_to_dev_id_s hx = Ok id /\ dev_id_to_hex_id_s id = Ok hx.
Proof. exact id_text_hex_roundtrip. Qed.

(* schedule setpoints use the same scaling *)
Theorem C04_sched_setpoint_roundtrip : forall w,
  0 <= w < 65536 -> sched_pack_setpoint (sched_unpack_setpoint w) = Some w.
Proof. exact sched_setpoint_roundtrip. Qed.

(* non-vacuity: the hypotheses are met by concrete non-trivial values *)
Example C04_nonvacuous :
  (exists v, hex_to_temp 0x07D0 = Ok (TNum v)) /\
  valid_dt {| yr := 24; mo := 2; dd := 29; hh := 23; mi := 59; ss := 59 |} = true /\
  hex_id_to_dev_id 0x06368E = (1, 145038).
Proof. split; [eexists; vm_compute; reflexivity|split; vm_compute; reflexivity]. Qed.
