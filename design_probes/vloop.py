"""Probe: deterministic virtual-time asyncio loop."""
import asyncio, heapq, selectors, itertools

class _NullSelector(selectors.BaseSelector):
    def __init__(self, loop): self._loop = loop; self._map = {}
    def register(self, fileobj, events, data=None):
        k = selectors.SelectorKey(fileobj, fileobj if isinstance(fileobj,int) else fileobj.fileno(), events, data); self._map[k.fd]=k; return k
    def unregister(self, fileobj):
        fd = fileobj if isinstance(fileobj,int) else fileobj.fileno(); return self._map.pop(fd)
    def select(self, timeout=None):
        # advance virtual time instead of blocking
        if timeout is None:
            raise RuntimeError("deadlock: no timers, nothing ready")
        if timeout > 0:
            self._loop._vtime += timeout
        return []
    def get_map(self): return self._map
    def close(self): pass

class VLoop(asyncio.SelectorEventLoop):
    def __init__(self):
        self._vtime = 0.0
        super().__init__(selector=_NullSelector(self))
        self._clock_resolution = 1e-9
    def time(self): return self._vtime

class VLoopLIFO(VLoop):
    """ties: later-scheduled timers fire first (probe only)"""
    _n = 0
    def call_at(self, when, callback, *args, context=None):
        VLoopLIFO._n += 1
        return super().call_at(when - VLoopLIFO._n * 1e-12, callback, *args, context=context)
