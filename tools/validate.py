"""Validate MANIFEST.json and evidence/*.json against the schemas (python3-vt has jsonschema)."""
import json, sys, glob
import jsonschema
ok = True
m = json.load(open("/verif/MANIFEST.json"))
jsonschema.validate(m, json.load(open("/root/.vp/MANIFEST.schema.json")))
es = json.load(open("/root/.vp/EVIDENCE.schema.json"))
for c in m["checks"]:
    try:
        e = json.load(open(c["evidence_file"]))
        jsonschema.validate(e, es)
        cov = e["coverage"]
        assert cov["obligations"] == cov["discharged"], (c["property_id"], "undischarged")
        print(c["property_id"], "evidence ok", e["tier"], e["wall_s"])
    except Exception as err:
        ok = False
        print(c["property_id"], "EVIDENCE PROBLEM", str(err)[:300])
print("manifest ok")
sys.exit(0 if ok else 1)
