(* P_ParamCmd -- set_dhw_params, set_mix_valve_params, put_sensor_temp, put_dhw_temp: what they build is accepted by the regenerated
   regex of their verb|code and decodes back (parser_10a0, parser_1030, parser_30c9 / parser_1260). *)
From Coq Require Import ZArith String Ascii List Bool Lia.
From RV Require Import Py PyStr Regex RegexSym GenRegex GenTables M_Codecs M_Command M_ModeCmd M_ParamCmd P_Codecs P_Command P_ModeCmd.
Import ListNotations.
Open Scope Z_scope.

(* ---------------------------------------------------------------- set_dhw_params / parser_10a0 *)
Definition sym_dp (idx : Z) : list sym := map SC (hexN 2 idx) ++ shex 4 ++ shex 2 ++ shex 4.
Lemma dp_shapes : forallb (fun idx => spayload_ok V_W 0x10A0 (sym_dp idx)) [0; 1] = true.
Proof. vm_compute. reflexivity. Qed.

Lemma parser_10a0_of_fields (X S O D : str) :
  List.length X = 2%nat -> List.length S = 4%nat -> List.length O = 2%nat -> List.length D = 4%nat ->
  parser_10a0 (X ++ S ++ O ++ D) =
  if negb (str_eqb X (lit "00") || str_eqb X (lit "01")) then Raise AssertionError
  else do s <- hex_to_temp_s S; match int16 O with None => Raise ValueError | Some o => do d <- hex_to_temp_s D; Ok (mk_dhwp (if is_255 s then TNone else s) o d) end.
Proof.
  intros LX LS LO LD. unfold parser_10a0. rewrite !app_length, LX, LS, LO, LD. cbn [Nat.add Nat.div Nat.eqb negb].
  rewrite (slice_mid0 X (S ++ O ++ D) 2 LX).
  rewrite (slice_f2 X S (O ++ D) 2 6 LX LS).
  rewrite (slice_f3 X S O D 6 8) by (rewrite ?app_length, ?LX, ?LS, ?LO; reflexivity).
  replace (X ++ S ++ O ++ D) with ((X ++ S ++ O) ++ D) by (rewrite <- !app_assoc; reflexivity).
  rewrite (slice_mid_end (X ++ S ++ O) D 8 12) by (rewrite ?app_length, ?LX, ?LS, ?LO, ?LD; reflexivity).
  reflexivity.
Qed.

Theorem set_dhw_params_valid dhw_idx ksp ov kd p : 0 <= dhw_idx <= 1 -> set_dhw_params dhw_idx ksp ov kd = Some p ->
  3000 <= ksp <= 8500 /\ 0 <= ov <= 10 /\ 100 <= kd <= 1000 /\ payload_ok V_W 0x10A0 p = true /\
  parser_10a0 p = (do s <- hex_to_temp ksp; do d <- hex_to_temp kd; Ok (mk_dhwp (if is_255 s then TNone else s) ov d)).
Proof.
  intros Hi H. unfold set_dhw_params in H. destruct (check_idx dhw_idx) as [x|] eqn:CI; [|discriminate].
  pose proof (check_idx_zone dhw_idx x ltac:(lia) CI) as ->.
  destruct (negb ((3000 <=? ksp) && (ksp <=? 8500)) || negb ((0 <=? ov) && (ov <=? 10)) || negb ((100 <=? kd) && (kd <=? 1000))) eqn:R; [discriminate|].
  injection H as Hp. apply orb_false_iff in R as [R R3]. apply orb_false_iff in R as [R1 R2]. apply negb_false_iff in R1, R2, R3.
  assert (K1 : 3000 <= ksp <= 8500) by lia. assert (K2 : 0 <= ov <= 10) by lia. assert (K3 : 100 <= kd <= 1000) by lia.
  assert (Ep : p = hexN 2 dhw_idx ++ hexN 4 ksp ++ hexN 2 ov ++ hexN 4 kd) by (rewrite <- Hp; reflexivity). rewrite Ep. clear Hp Ep p.
  repeat (split; [assumption|]). split.
  - apply (spayload_ok_sound V_W 0x10A0 (sym_dp dhw_idx)).
    + apply (proj1 (forallb_forall _ _) dp_shapes dhw_idx). cbn. lia.
    + unfold sym_dp. apply (conc_app _ _ (hexN 2 dhw_idx) _ (conc_lit _)). apply (conc_app _ _ (hexN 4 ksp) _ (conc_hexN 4 _)).
      apply (conc_app _ _ (hexN 2 ov) (hexN 4 kd) (conc_hexN 2 _) (conc_hexN 4 _)).
  - rewrite (parser_10a0_of_fields _ _ _ _ (hexN_length 2 dhw_idx) (hexN_length 4 ksp) (hexN_length 2 ov) (hexN_length 4 kd)).
    assert (E : str_eqb (hexN 2 dhw_idx) (lit "00") || str_eqb (hexN 2 dhw_idx) (lit "01") = true)
      by (assert (dhw_idx = 0 \/ dhw_idx = 1) as [-> | ->] by lia; reflexivity).
    rewrite E. cbn [negb]. rewrite !temp_s_hexN by lia. rewrite int16_hexN by (try lia; change (Z.of_nat 2) with 2; lia). reflexivity.
Qed.

(* ---------------------------------------------------------------- set_mix_valve_params / parser_1030 *)
Definition sym_elem (tag : string) : list sym := slit tag ++ slit "01" ++ shex 2.
Definition sym_mv : list sym := (SC "0"%char :: shex 1) ++ sym_elem "C8" ++ sym_elem "C9" ++ sym_elem "CA" ++ sym_elem "CB" ++ sym_elem "CC".
Lemma mv_shape : spayload_ok V_W 0x1030 sym_mv = true.
Proof. vm_compute. reflexivity. Qed.
Lemma conc_elem tag v : conc (sym_elem tag) (mix_elem tag v).
Proof. unfold sym_elem, mix_elem. apply (conc_app _ _ (lit tag) _ (conc_slit tag)). apply (conc_app _ _ (lit "01") (hexN 2 v) (conc_slit "01") (conc_hexN 2 v)). Qed.

Lemma mix_elem_length tag v : List.length (lit tag) = 2%nat -> List.length (mix_elem tag v) = 6%nat.
Proof. intro H. unfold mix_elem. rewrite !app_length, H, hexN_length. reflexivity. Qed.
Lemma parse_mix_elem_ok tag t v : List.length (lit tag) = 2%nat -> mix_tag (lit tag) = Some t -> 0 <= v < 256 -> parse_mix_elem (mix_elem tag v) = Ok (t, v).
Proof.
  intros L T Hv. unfold parse_mix_elem, mix_elem.
  rewrite (slice_f2 (lit tag) (lit "01") (hexN 2 v) 2 4 L eq_refl). cbn [negb str_eqb]. 
  replace (str_eqb (lit "01") (lit "01")) with true by reflexivity. cbn [negb].
  rewrite (slice_mid0 (lit tag) _ 2 L), T.
  replace (lit tag ++ lit "01" ++ hexN 2 v) with ((lit tag ++ lit "01") ++ hexN 2 v) by (rewrite <- app_assoc; reflexivity).
  rewrite (slice_mid_end (lit tag ++ lit "01") (hexN 2 v) 4 6) by (rewrite ?app_length, ?L, ?hexN_length; reflexivity).
  rewrite int16_hexN by (try lia; change (Z.of_nat 2) with 2; lia). reflexivity.
Qed.
Lemma firstn6 (e r : str) : List.length e = 6%nat -> firstn 6 (e ++ r) = e.
Proof. intro L. rewrite <- L. rewrite firstn_app, Nat.sub_diag, firstn_all. cbn. apply app_nil_r. Qed.
Lemma skipn6 (e r : str) : List.length e = 6%nat -> skipn 6 (e ++ r) = r.
Proof. intro L. rewrite <- L. rewrite skipn_app, Nat.sub_diag, skipn_all. reflexivity. Qed.

Lemma parse_step_elem fuel tag t v (r : str) : List.length (lit tag) = 2%nat -> mix_tag (lit tag) = Some t -> 0 <= v < 256 ->
  parse_mix_elems (S fuel) (mix_elem tag v ++ r) = (do rest <- parse_mix_elems fuel r; Ok ((t, v) :: rest)).
Proof.
  intros L T Hv. pose proof (mix_elem_length tag v L) as L6. cbn [parse_mix_elems].
  destruct (mix_elem tag v ++ r) eqn:E.
  - apply (f_equal (@List.length ascii)) in E. rewrite app_length, L6 in E. cbn in E. lia.
  - rewrite <- E. rewrite (firstn6 _ r L6), (skipn6 _ r L6), (parse_mix_elem_ok tag t v L T Hv). reflexivity.
Qed.

Theorem set_mix_valve_params_valid idx maxf minf vrt prt bcc p : 0 <= idx < 16 -> 0 <= bcc < 256 ->
  set_mix_valve_params idx maxf minf vrt prt bcc = Some p ->
  0 <= maxf <= 99 /\ 0 <= minf <= 50 /\ 0 <= vrt <= 240 /\ 0 <= prt <= 99 /\ payload_ok V_W 0x1030 p = true /\
  parser_1030 p = Ok [(0xC8, maxf); (0xC9, minf); (0xCA, vrt); (0xCB, prt); (0xCC, bcc)].
Proof.
  intros Hi Hb H. unfold set_mix_valve_params in H. destruct (check_idx idx) as [x|] eqn:CI; [|discriminate].
  pose proof (check_idx_zone idx x Hi CI) as ->.
  destruct (negb ((0 <=? maxf) && (maxf <=? 99)) || negb ((0 <=? minf) && (minf <=? 50)) || negb ((0 <=? vrt) && (vrt <=? 240)) || negb ((0 <=? prt) && (prt <=? 99))) eqn:R; [discriminate|].
  injection H as Hp. apply orb_false_iff in R as [R R4]. apply orb_false_iff in R as [R R3]. apply orb_false_iff in R as [R1 R2].
  apply negb_false_iff in R1, R2, R3, R4.
  assert (Ep : p = hexN 2 idx ++ mix_elem "C8" maxf ++ mix_elem "C9" minf ++ mix_elem "CA" vrt ++ mix_elem "CB" prt ++ mix_elem "CC" bcc) by (rewrite <- Hp; reflexivity).
  rewrite Ep. clear Hp Ep p.
  assert (K1 : 0 <= maxf <= 99) by lia. assert (K2 : 0 <= minf <= 50) by lia. assert (K3 : 0 <= vrt <= 240) by lia. assert (K4 : 0 <= prt <= 99) by lia.
  repeat (split; [assumption|]). split.
  - apply (spayload_ok_sound V_W 0x1030 sym_mv _ mv_shape). unfold sym_mv.
    apply (conc_app _ _ (hexN 2 idx) _ (conc_idx idx Hi)).
    apply (conc_app _ _ (mix_elem "C8" maxf) _ (conc_elem _ _)). apply (conc_app _ _ (mix_elem "C9" minf) _ (conc_elem _ _)).
    apply (conc_app _ _ (mix_elem "CA" vrt) _ (conc_elem _ _)). apply (conc_app _ _ (mix_elem "CB" prt) (mix_elem "CC" bcc) (conc_elem _ _) (conc_elem _ _)).
  - unfold parser_1030. rewrite !app_length, hexN_length, !mix_elem_length by reflexivity. cbn [Nat.add Nat.div Nat.eqb orb negb].
    replace (skipn 2 (hexN 2 idx ++ mix_elem "C8" maxf ++ mix_elem "C9" minf ++ mix_elem "CA" vrt ++ mix_elem "CB" prt ++ mix_elem "CC" bcc))
      with (mix_elem "C8" maxf ++ mix_elem "C9" minf ++ mix_elem "CA" vrt ++ mix_elem "CB" prt ++ mix_elem "CC" bcc ++ []).
    2:{ rewrite app_nil_r. rewrite <- (hexN_length 2 idx) at 1. rewrite skipn_app, Nat.sub_diag, skipn_all. reflexivity. }
    rewrite (parse_step_elem 31 "C8" 0xC8 maxf) by (try reflexivity; lia).
    rewrite (parse_step_elem 30 "C9" 0xC9 minf) by (try reflexivity; lia).
    rewrite (parse_step_elem 29 "CA" 0xCA vrt) by (try reflexivity; lia).
    rewrite (parse_step_elem 28 "CB" 0xCB prt) by (try reflexivity; lia).
    rewrite (parse_step_elem 27 "CC" 0xCC bcc) by (try reflexivity; lia).
    reflexivity.
Qed.

(* ---------------------------------------------------------------- put_sensor_temp (I|30C9) / put_dhw_temp (I|1260) *)
Definition sym_pt : list sym := slit "00" ++ shex 4.
Lemma pt_shapes : spayload_ok V_I 0x30C9 sym_pt = true /\ spayload_ok V_I 0x1260 sym_pt = true.
Proof. split; vm_compute; reflexivity. Qed.

Theorem put_temp_valid w : (forall x, w = Some x -> 0 <= x < 65536) ->
  payload_ok V_I 0x30C9 (put_temp_payload w) = true /\ payload_ok V_I 0x1260 (put_temp_payload w) = true /\
  parser_temp_tail (put_temp_payload w) = hex_to_temp (word_of_opt w).
Proof.
  intros Hw. assert (Ww : 0 <= word_of_opt w < 65536) by (destruct w as [x|]; cbn; [apply Hw; reflexivity | lia]).
  assert (C : conc sym_pt (put_temp_payload w)) by (unfold sym_pt, put_temp_payload; apply (conc_app _ _ (lit "00") (hexN 4 _) (conc_slit "00") (conc_hexN 4 _))).
  split; [exact (spayload_ok_sound V_I 0x30C9 sym_pt _ (proj1 pt_shapes) C)|].
  split; [exact (spayload_ok_sound V_I 0x1260 sym_pt _ (proj2 pt_shapes) C)|].
  unfold parser_temp_tail, put_temp_payload.
  replace (skipn 2 (lit "00" ++ hexN 4 (word_of_opt w))) with (hexN 4 (word_of_opt w)) by reflexivity.
  rewrite hexN_length. cbn [Nat.eqb negb]. apply temp_s_hexN. exact Ww.
Qed.

(* ---------------------------------------------------------------- set_tpi_params / parser_1100 *)
Definition sym_tpi (dom : string) : list sym := slit dom ++ shex 2 ++ shex 2 ++ shex 2 ++ slit "00" ++ shex 4 ++ slit "01".
Lemma tpi_shapes : spayload_ok V_W 0x1100 (sym_tpi "00") = true /\ spayload_ok V_W 0x1100 (sym_tpi "FC") = true.
Proof. vm_compute. split; reflexivity. Qed.

Lemma parser_1100_of_fields (X C A B U W T : str) :
  List.length X = 2%nat -> List.length C = 2%nat -> List.length A = 2%nat -> List.length B = 2%nat ->
  List.length U = 2%nat -> List.length W = 4%nat -> List.length T = 2%nat ->
  parser_1100 (X ++ C ++ A ++ B ++ U ++ W ++ T) =
  match int16 C, int16 A, int16 B with
  | Some c, Some a, Some b =>
      if negb (in_quarters c 1 13) || negb (in_quarters a 1 31) || negb (in_quarters b 0 16) then Raise AssertionError
      else do w <- hex_to_temp_s W;
           if pbw_ok w then Ok (mk_tpi (if str_eqb (firstn 1 X) (lit "F") then Some X else None) (c / 4) a b U w T) else Raise AssertionError
  | _, _, _ => Raise ValueError
  end.
Proof.
  intros LX LC LA LB LU LW LT. unfold parser_1100. rewrite !app_length, LX, LC, LA, LB, LU, LW, LT. cbn [Nat.add Nat.eqb negb].
  rewrite (slice_f2 X C (A ++ B ++ U ++ W ++ T) 2 4 LX LC).
  rewrite (slice_f3 X C A (B ++ U ++ W ++ T) 4 6) by (rewrite ?app_length, ?LX, ?LC, ?LA; reflexivity).
  rewrite (slice_f4 X C A B (U ++ W ++ T) 6 8) by (rewrite ?app_length, ?LX, ?LC, ?LA, ?LB; reflexivity).
  assert (S5 : slice 8 10 (X ++ C ++ A ++ B ++ U ++ W ++ T) = U).
  { replace (X ++ C ++ A ++ B ++ U ++ W ++ T) with ((X ++ C ++ A ++ B) ++ U ++ (W ++ T)) by (rewrite <- !app_assoc; reflexivity).
    apply slice_mid; rewrite ?app_length, ?LX, ?LC, ?LA, ?LB, ?LU; reflexivity. }
  assert (S6 : slice 10 14 (X ++ C ++ A ++ B ++ U ++ W ++ T) = W).
  { replace (X ++ C ++ A ++ B ++ U ++ W ++ T) with ((X ++ C ++ A ++ B ++ U) ++ W ++ T) by (rewrite <- !app_assoc; reflexivity).
    apply slice_mid; rewrite ?app_length, ?LX, ?LC, ?LA, ?LB, ?LU, ?LW; reflexivity. }
  assert (S7 : slice 14 16 (X ++ C ++ A ++ B ++ U ++ W ++ T) = T).
  { replace (X ++ C ++ A ++ B ++ U ++ W ++ T) with ((X ++ C ++ A ++ B ++ U ++ W) ++ T) by (rewrite <- !app_assoc; reflexivity).
    apply slice_mid_end; rewrite ?app_length, ?LX, ?LC, ?LA, ?LB, ?LU, ?LW, ?LT; reflexivity. }
  assert (S0 : slice 0 2 (X ++ C ++ A ++ B ++ U ++ W ++ T) = X) by (apply slice_mid0; exact LX).
  assert (S1 : slice 0 1 (X ++ C ++ A ++ B ++ U ++ W ++ T) = firstn 1 X).
  { unfold slice. cbn [skipn Nat.sub]. rewrite firstn_app, LX. cbn [Nat.sub firstn]. apply app_nil_r. }
  rewrite S0, S1, S5, S6, S7. reflexivity.
Qed.

(* every proportional band width the decoder admits (1.50 .. 3.00 on the 0.01 grid) is admitted as decoded from its word *)
Lemma pbw_sweep : forallb (fun k => match hex_to_temp k with Ok t => pbw_ok t | Raise _ => false end) (zrange 151 150) = true.
Proof. vm_compute. reflexivity. Qed.
Lemma pbw_in_band k : 150 <= k <= 300 -> exists t, hex_to_temp k = Ok t /\ pbw_ok t = true.
Proof.
  intros H. pose proof (proj1 (forallb_forall _ _) pbw_sweep k (in_zrange 151 150 k ltac:(lia))) as E. cbn beta in E.
  destruct (hex_to_temp k) as [t|e]; [exists t; split; [reflexivity|exact E]|discriminate].
Qed.

(* built with arguments in the decoder's domain => accepted by the regenerated W|1100 regex and decoded to exactly what was asked *)
Theorem set_tpi_params_valid dom cyc on off pbw p :
  dom = 0 \/ dom = 0xFC -> 1 <= cyc <= 12 -> 1 <= on <= 30 -> 0 <= off <= 15 -> (pbw = None \/ exists k, pbw = Some k /\ 150 <= k <= 300) ->
  set_tpi_params dom cyc on off pbw = Some p ->
  payload_ok V_W 0x1100 p = true /\
  exists w, hex_to_temp (word_of_opt pbw) = Ok w /\
    parser_1100 p = Ok (mk_tpi (if dom =? 0xFC then Some (lit "FC") else None) cyc (on * 4) (off * 4) (lit "00") w (lit "01")).
Proof.
  intros Hd Hc Ha Hb Hp H.
  assert (Ex : exists xs : string, check_idx dom = Some (lit xs) /\ List.length (lit xs) = 2%nat /\ (xs = "00"%string /\ dom = 0 \/ xs = "FC"%string /\ dom = 0xFC)).
  { destruct Hd as [-> | ->]; [exists "00"%string|exists "FC"%string]; (split; [reflexivity|split; [reflexivity|tauto]]). }
  destruct Ex as (xs & CI & LX & Hx). unfold set_tpi_params in H. rewrite CI in H. injection H as Hq.
  assert (Ep : p = lit xs ++ hexN 2 (cyc * 4) ++ hexN 2 (on * 4) ++ hexN 2 (off * 4) ++ lit "00" ++ hexN 4 (word_of_opt pbw) ++ lit "01") by (rewrite <- Hq; reflexivity).
  rewrite Ep. clear Hq Ep p.
  assert (Hw : exists w, hex_to_temp (word_of_opt pbw) = Ok w /\ pbw_ok w = true /\ 0 <= word_of_opt pbw < 65536).
  { destruct Hp as [-> | (k & -> & Hk)].
    - exists TNone. cbn. repeat split; try reflexivity; lia.
    - destruct (pbw_in_band k Hk) as (t & E & O). exists t. cbn [word_of_opt]. repeat split; try assumption; lia. }
  destruct Hw as (w & Ew & Ow & Rw). split.
  - assert (Sh : spayload_ok V_W 0x1100 (sym_tpi xs) = true) by (destruct Hx as [(-> & _)|(-> & _)]; apply tpi_shapes).
    apply (spayload_ok_sound V_W 0x1100 (sym_tpi xs) _ Sh). unfold sym_tpi.
    apply (conc_app _ _ (lit xs) _ (conc_slit xs)). apply (conc_app _ _ (hexN 2 _) _ (conc_hexN 2 _)).
    apply (conc_app _ _ (hexN 2 _) _ (conc_hexN 2 _)). apply (conc_app _ _ (hexN 2 _) _ (conc_hexN 2 _)).
    apply (conc_app _ _ (lit "00") _ (conc_slit "00")). apply (conc_app _ _ (hexN 4 _) (lit "01") (conc_hexN 4 _) (conc_slit "01")).
  - exists w. split; [exact Ew|].
    rewrite parser_1100_of_fields by (try exact LX; try apply hexN_length; reflexivity).
    rewrite !int16_hexN by (try lia; change (Z.of_nat 2) with 2; lia).
    assert (Q1 : in_quarters (cyc * 4) 1 13 = true) by (unfold in_quarters; rewrite Z.mod_mul by lia; cbn [Z.eqb]; lia).
    assert (Q2 : in_quarters (on * 4) 1 31 = true) by (unfold in_quarters; rewrite Z.mod_mul by lia; cbn [Z.eqb]; lia).
    assert (Q3 : in_quarters (off * 4) 0 16 = true) by (unfold in_quarters; rewrite Z.mod_mul by lia; cbn [Z.eqb]; lia).
    rewrite Q1, Q2, Q3. cbn [negb orb]. rewrite temp_s_hexN by exact Rw. rewrite Ew. cbn [bind]. rewrite Ow.
    rewrite Z.div_mul by lia.
    destruct Hx as [(-> & ->)|(-> & ->)]; reflexivity.
Qed.

(* ... but the constructor checks none of this: a cycle rate the decoder does not admit is built all the same (refuted class, KNOWN_FINDINGS.json) *)
Lemma set_tpi_params_unchecked_refuted :
  exists p, set_tpi_params 0 13 5 5 None = Some p /\ payload_ok V_W 0x1100 p = true /\ parser_1100 p = Raise AssertionError.
Proof. eexists. split; [reflexivity|]. vm_compute. split; reflexivity. Qed.

(* ---------------------------------------------------------------- put_weather_temp / parser_0002 *)
Definition sym_wt : list sym := slit "00" ++ shex 4 ++ slit "01".
Lemma wt_shape : spayload_ok V_I 0x0002 sym_wt = true.
Proof. vm_compute. reflexivity. Qed.
Theorem put_weather_temp_valid w : (forall x, w = Some x -> 0 <= x < 65536) ->
  payload_ok V_I 0x0002 (put_weather_payload w) = true /\
  parser_0002 (put_weather_payload w) = (do t <- hex_to_temp (word_of_opt w); Ok (t, lit "01")).
Proof.
  intros Hw. assert (Ww : 0 <= word_of_opt w < 65536) by (destruct w as [x|]; cbn; [apply Hw; reflexivity | lia]).
  split.
  - apply (spayload_ok_sound V_I 0x0002 sym_wt _ wt_shape). unfold sym_wt, put_weather_payload.
    apply (conc_app _ _ (lit "00") _ (conc_slit "00")). apply (conc_app _ _ (hexN 4 _) (lit "01") (conc_hexN 4 _) (conc_slit "01")).
  - unfold parser_0002, put_weather_payload.
    rewrite (slice_mid (lit "00") (hexN 4 (word_of_opt w)) (lit "01") 2 6 eq_refl (hexN_length 4 _)).
    rewrite hexN_length. cbn [Nat.eqb negb]. rewrite temp_s_hexN by exact Ww.
    assert (E : skipn 6 (lit "00" ++ hexN 4 (word_of_opt w) ++ lit "01") = lit "01").
    { rewrite app_assoc. replace 6%nat with (List.length (lit "00" ++ hexN 4 (word_of_opt w))) by (rewrite app_length, hexN_length; reflexivity).
      rewrite skipn_app, skipn_all, Nat.sub_diag. reflexivity. }
    rewrite E. reflexivity.
Qed.

(* ---------------------------------------------------------------- put_co2_level / parser_1298, put_indoor_humidity / parser_12a0 *)
Definition sym_co2 : list sym := slit "00" ++ shex 4.
Definition sym_hum : list sym := slit "00" ++ shex 2.
Lemma co2_hum_shapes : spayload_ok V_I 0x1298 sym_co2 = true /\ spayload_ok V_I 0x12A0 sym_hum = true.
Proof. split; vm_compute; reflexivity. Qed.

Lemma hexN4_is_7FFF x : 0 <= x < 65536 -> str_eqb (hexN 4 x) (lit "7FFF") = (x =? 0x7FFF).
Proof.
  intros Hx. destruct (x =? 0x7FFF) eqn:E.
  - apply Z.eqb_eq in E. subst x. vm_compute. reflexivity.
  - apply Z.eqb_neq in E. destruct (str_eqb (hexN 4 x) (lit "7FFF")) eqn:S; [|reflexivity].
    apply str_eqb_eq in S. exfalso. apply E.
    assert (I : int16 (hexN 4 x) = Some x) by (apply int16_hexN; [lia|exact Hx]).
    rewrite S in I. vm_compute in I. congruence.
Qed.

(* what put_co2_level builds is accepted by the regenerated I|1298 regex, and the decoder gives back: no sensor for None, the level for every whole
   number of ppm below 7FFF -- and, for the levels the four digits can still spell, "no sensor" for 32767 and a sensor FAULT from 32768 up *)
Theorem put_co2_level_valid n : (forall x, n = Some x -> 0 <= x < 65536) ->
  payload_ok V_I 0x1298 (put_co2_payload n) = true /\
  parser_1298 (put_co2_payload n) =
    Ok (match n with None => Co2None | Some x => if x =? 0x7FFF then Co2None else if 0x8000 <=? x then Co2Fault else Co2Level x end).
Proof.
  intros Hn. assert (W : 0 <= word_of_opt n < 65536) by (destruct n as [x|]; cbn; [apply Hn; reflexivity|lia]).
  split.
  - apply (spayload_ok_sound V_I 0x1298 sym_co2 _ (proj1 co2_hum_shapes)). unfold sym_co2, put_co2_payload.
    apply (conc_app _ _ (lit "00") (hexN 4 _) (conc_slit "00") (conc_hexN 4 _)).
  - unfold parser_1298, put_co2_payload.
    rewrite (slice_mid_end (lit "00") (hexN 4 (word_of_opt n)) 2 6 eq_refl (hexN_length 4 _)).
    rewrite hexN_length. cbn [Nat.eqb negb]. rewrite (hexN4_is_7FFF _ W).
    destruct n as [x|]; cbn [word_of_opt].
    + destruct (x =? 0x7FFF); [reflexivity|]. rewrite int16_hexN by (try lia; apply Hn; reflexivity). destruct (0x8000 <=? x); reflexivity.
    + reflexivity.
Qed.

Corollary put_co2_level_roundtrip x : 0 <= x < 0x7FFF -> parser_1298 (put_co2_payload (Some x)) = Ok (Co2Level x).
Proof.
  intros Hx. destruct (put_co2_level_valid (Some x)) as (_ & E); [intros y [= <-]; lia|]. rewrite E.
  replace (x =? 0x7FFF) with false by (symmetry; apply Z.eqb_neq; lia). replace (0x8000 <=? x) with false by (symmetry; apply Z.leb_gt; lia). reflexivity.
Qed.

(* what put_indoor_humidity builds (whole percents 0..100, or None) is accepted by the regenerated I|12A0 regex and decodes to that percentage /
   to "no sensor" -- by a sweep over the 101 bytes and EF *)
Theorem put_indoor_humidity_valid :
  forallb (fun b => payload_ok V_I 0x12A0 (put_humidity_payload (Some b)) &&
                    match parser_12a0_short (put_humidity_payload (Some b)) with Ok (HumPct c) => c =? b | _ => false end) (zrange 101 0) = true /\
  payload_ok V_I 0x12A0 (put_humidity_payload None) = true /\ parser_12a0_short (put_humidity_payload None) = Ok HumNone.
Proof. split; [|split]; vm_compute; reflexivity. Qed.
