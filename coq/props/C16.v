(* C16 -- Saved state restores: snapshot -> fresh gateway -> snapshot is a fixpoint.  Statements only. *)
From Coq Require Import List Bool Arith.
From RV Require Import M_Snapshot P_Snapshot M_StoreDeferred P_StoreDeferred.
Import ListNotations.

Section Store.
  Variable slots_of : nat -> list nat.       (* which store slots a packet is written to: any routing *)
  Variable wanted : bool -> nat -> bool.     (* the filter, given the expiry verdict *)
  Variable expired_at : nat -> nat -> bool.  (* expiry at a clock *)
  Hypothesis wanted_mono : forall p, wanted true p = true -> wanted false p = true.
  Hypothesis expired_mono : forall c c' p, c' <= c -> expired_at c' p = true -> expired_at c p = true.

  (* restoring a snapshot into a fresh gateway and snapshotting again yields the identical packets, for
     every history (packets arriving, slots emptied when an expired message is read), every routing of packets to store slots and every clock of the fresh gateway that is
     not ahead of the original's *)
  Theorem C16_snapshot_fixpoint : forall c c' hist, c' <= c ->
    snapshot slots_of wanted expired_at c' (replay (snapshot slots_of wanted expired_at c hist)) = snapshot slots_of wanted expired_at c hist.
  Proof. exact (snapshot_fixpoint slots_of wanted expired_at wanted_mono expired_mono). Qed.

  (* restoring into a gateway that already holds that state changes nothing *)
  Theorem C16_restore_into_same : forall c hist,
    snapshot slots_of wanted expired_at c (hist ++ replay (snapshot slots_of wanted expired_at c hist)) = snapshot slots_of wanted expired_at c hist.
  Proof. exact (restore_into_same slots_of wanted expired_at). Qed.

  (* restoring the same snapshot twice is restoring it once *)
  Theorem C16_restore_twice : forall c hist,
    snapshot slots_of wanted expired_at c (replay (snapshot slots_of wanted expired_at c hist) ++ replay (snapshot slots_of wanted expired_at c hist))
    = snapshot slots_of wanted expired_at c hist.
  Proof. exact (restore_twice slots_of wanted expired_at wanted_mono expired_mono). Qed.

  (* a snapshot holds only packets of the history that the filter wants *)
  Theorem C16_snapshot_sound : forall c hist p, In p (snapshot slots_of wanted expired_at c hist) ->
    In (Pkt p) hist /\ wanted (expired_at c p) p = true.
  Proof. exact (snapshot_sound slots_of wanted expired_at). Qed.
End Store.

(* the filter's clauses: never a request; a write only if it is a schedule fragment (0404, longer than 7) *)
Theorem C16_no_requests : forall inc e m, wanted_msg inc e m = true -> a_verb m <> VRQ.
Proof. exact wanted_no_requests. Qed.
Theorem C16_writes_are_fragments : forall inc e m, wanted_msg inc e m = true -> a_verb m = VW ->
  a_code m = C0404 /\ 7 < a_len m.
Proof. exact wanted_writes_are_fragments. Qed.
(* "no expired packet unless asked for" holds for every code but 313F ... *)
Theorem C16_unexpired_unless_asked_partial : forall e m, wanted_msg false e m = true -> a_code m <> C313F -> e = false.
Proof. exact wanted_unexpired_unless_asked_partial. Qed.
(* ... and as stated it is refuted by the code's own 313F rule (known finding) *)
Theorem C16_unexpired_unless_asked_refuted : exists m, wanted_msg false true m = true.
Proof. exact wanted_unexpired_refuted. Qed.
(* the concrete filter satisfies the monotonicity the fixpoint theorem assumes *)
Theorem C16_wanted_msg_mono : forall inc m, wanted_msg inc true m = true -> wanted_msg inc false m = true.
Proof. exact wanted_msg_mono. Qed.

(* "snapshots taken at every prefix": what a snapshot without expired packets shows does not depend on the snapshots (reads) taken before it.
   Over the deferred-deletion store (M_StoreDeferred): for ANY interleaving of arrivals, reads that are honest about expiry (a read only finds
   expired what is expired at the time of the final snapshot -- expiry never un-happens, C14) and loop turns, the live content of every slot is
   the newest arrival unless that has expired: a function of the arrivals alone. *)
Theorem C16_snapshot_independent_of_earlier_reads : forall exp evs c,
  NoDup (map d_id (arrivals evs)) -> honest exp dinit evs ->
  live exp (s_store (drun del_is evs)) c = match latest (arrivals evs) c with Some m => if exp m then None else Some m | None => None end.
Proof. exact live_view_independent_of_reads. Qed.
