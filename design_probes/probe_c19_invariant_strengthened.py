import logging, itertools
logging.disable(logging.CRITICAL)
from ramses_rf.system.faultlog import FaultLog
from collections import OrderedDict
class T: id="01:000001"; _gwy=None
fl=FaultLog(T())
N=6
log=[f"{i:02d}" for i in range(N,0,-1)]   # newest first: '06','05',...; true idx of v = log.index(v)
old=["00"]  # an entry that has dropped off / unknown to controller? skip
def inv2(m):
    ks=list(m.keys())
    srt=all(m[a]>m[b] for a in m for b in m if a<b)
    nodup=len(set(m.values()))==len(m)
    le=all(v in log and k<=log.index(v) for k,v in m.items())
    return srt and nodup and le
bad=tot=0
K=range(0,N+1)
for r in range(0,5):
    for ks in itertools.combinations(K,r):
        for vs in itertools.combinations(log,r):   # descending
            m=OrderedDict(zip(ks,vs))
            if not inv2(m): continue
            for idx in range(0,N+2):
                dtm = log[idx] if idx < len(log) else None
                if dtm is not None and m.get(idx)==dtm: continue
                fl._map=OrderedDict(m); new=fl._insert_into_map(idx,dtm); tot+=1
                if not inv2(new):
                    bad+=1
                    if bad<=8: print("BREAK", dict(m), (idx,dtm), "->", dict(new))
print("total",tot,"bad",bad)
