(* C09 -- The send machinery never wedges.  Statements only. *)
From Coq Require Import ZArith List Bool Arith.
From RV Require Import GenConsts M_Qos P_Qos P_QosOwner P_QosAlive.
Import ListNotations.
Open Scope Z_scope.

(* "the sender's internal consistency checks never trip" is false of the code: the echo timer and
   the caller's timeout expiring in one loop iteration (timer callback first) trips an assertion
   that reaches the event loop's exception handler (KNOWN_FINDINGS.json) *)
Theorem C09_no_crash_refuted :
  exists evs, existsb is_crash (fst (fst (simulate (cmd_a 3 500000) silent true 5000 evs))) = true.
Proof. exact crash_reachable. Qed.

(* partial: what holds of every reachable world, crash or not -- the counters stay consistent *)
Theorem C09_counters_consistent_partial : forall cmds plan lifo fuel evs,
  Inv (fst (run cmds plan lifo fuel (world0 evs))).
Proof. exact reachable_inv. Qed.

(* an answered caller: every wake-up of a waiting / timed-out caller answers it *)
Theorem C09_caller_wake_answers : forall w c,
  aget CNone c (callers w) = CWaiting \/ aget CNone c (callers w) = CTimedOut ->
  exists w', caller_wake w c = Ok w' /\ has_done c (trace w').
Proof. exact caller_wake_answers. Qed.

(* a caller cancelled from OUTSIDE (an outer wait_for, a shutdown) is answered with the cancellation, and neither the cancel nor the wake-up
   touches the state machine: a command in flight is then cleared by its expiry timer alone *)
Theorem C09_cancel_schedules_wake : forall w c,
  aget CNone c (callers w) = CWaiting ->
  exists w', caller_cancel w c = Ok w' /\ aget CNone c (callers w') = CCancelled /\ cx w' = cx w /\
             (fut_done (fut_of w c) = true \/ (In (CbCallerWake c) (ready w') /\ fut_of w' c = FCancelled)).
Proof. exact cancel_schedules_wake. Qed.

Theorem C09_cancelled_caller_answered : forall w c,
  aget CNone c (callers w) = CCancelled ->
  exists w', caller_wake w c = Ok w' /\ In (Done (now w) c ErrCancelled) (trace w') /\ cx w' = cx w.
Proof. exact cancelled_caller_answered. Qed.

(* "once traffic stops the sender is idle (or inactive if disconnected) with nothing in flight": in EVERY run -- any events (calls, packets,
   connection events, stalls, outside cancels), tie policy, transport behaviour, number of steps -- in which no internal assertion has tripped
   (none reached the event loop, none was handed to a caller), once the run has come to rest (nothing ready to run, no timer armed) the state machine
   is not waiting for an echo or a reply.  The invariant behind it (P_QosAlive.always_alive): while it waits, a deferred effect_state or the live
   expiry task of that wait -- about to start, sleeping with its timer armed, or woken -- is pending.  The runs with a tripped assertion are the
   recorded findings (C09_no_crash_refuted). *)
Theorem C09_at_rest_not_waiting : forall cmds plan lifo fuel evs,
  let w := fst (run cmds plan lifo fuel (world0 evs)) in
  clean_tr (trace w) = true -> ready w = [] -> timers w = [] -> state (cx w) = Idle \/ state (cx w) = Inactive.
Proof. exact at_rest_not_waiting. Qed.
(* the premises are met by runs that did wait: a command echoed after 10 ms; a command nobody answers, given up after its four attempts *)
Theorem C09_at_rest_nonvacuous :
  (let w := fst (run (cmd_a 0 20000000) echoed false 5000 (world0 [(0, ConnMade); (15625, Call 0%nat)])) in
   clean_tr (trace w) = true /\ ready w = [] /\ timers w = [] /\ state (cx w) = Idle /\ In (Write 15625 0%nat) (trace w)) /\
  (let w := fst (run (cmd_a 3 20000000) silent false 5000 (world0 [(0, ConnMade); (15625, Call 0%nat)])) in
   clean_tr (trace w) = true /\ ready w = [] /\ timers w = [] /\ state (cx w) = Idle /\ length (trace w) = 5%nat).
Proof. split; [exact at_rest_nonvacuous|exact at_rest_nonvacuous_unanswered]. Qed.
