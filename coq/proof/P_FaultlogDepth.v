(* P_FaultlogDepth: the view against a controller log of the property's depth (64 slots). *)
From Coq Require Import ZArith List Bool Lia.
From RV Require Import GenConsts M_Faultlog P_Faultlog.
Import ListNotations.
Open Scope Z_scope.

(* the library's cut-off (regenerated from the source) is the last slot of the 64-deep log *)
Lemma cutoff_is_last_slot : MAXIDX + 1 = LOG_DEPTH.
Proof. reflexivity. Qed.

Lemma keys_In m k : In k (keys m) <-> exists v, In (k, v) m.
Proof.
  unfold keys. rewrite in_map_iff. split.
  - intros [[a b] [E H]]. cbn in E. subst a. exists b. exact H.
  - intros [v H]. exists (k, v). split; [reflexivity|exact H].
Qed.

(* where the keys of the rebuilt map come from: the reported index, kept entries above it, or
   pushed-down entries that pass the cut-off *)
Lemma insert_keys_bound m idx dtm k :
  In k (keys (insert_into_map m idx dtm)) -> k = idx \/ (k < idx /\ In k (keys m)) \/ k <= MAXIDX.
Proof.
  rewrite keys_In. intros [v H]. revert H. unfold insert_into_map.
  set (part1 := filter _ m).
  assert (P1 : forall a b, In (a, b) part1 -> a < idx /\ In a (keys m)).
  { intros a b H. apply filter_In in H as [H1 H2]. cbn [fst snd] in H2. apply andb_true_iff in H2 as [H2 _].
    split; [apply Z.ltb_lt, H2|apply keys_In; exists b; exact H1]. }
  destruct dtm as [d|]; [|intros H; right; left; eapply P1, H].
  destruct (map fst (filter (fun kv => snd kv <? d) m)) as [|i0 idxs].
  - intros H. destruct (upd_In _ _ _ _ _ H) as [E|E]; [left; congruence|right; left; eapply P1, E].
  - intros H. destruct (update_all_In _ _ _ _ H) as [E|E].
    + right; right. apply in_map_iff in E as [[a b] [E1 E2]]. apply filter_In in E2 as [_ E2].
      cbn [fst snd] in E1, E2. apply andb_true_iff in E2 as [_ E2]. apply Z.leb_le in E2. injection E1 as <- _. exact E2.
    + destruct (upd_In _ _ _ _ _ E) as [E'|E']; [left; congruence|right; left; eapply P1, E'].
Qed.

Definition idx_of (e : fmsg) : Z := match e with FEntry i _ => i | FNull i => i end.
Definition within (s : fstate) : Prop := forall k, In k (keys (fl_map s)) -> k < LOG_DEPTH.

Lemma process_within s e : idx_of e < LOG_DEPTH -> within s -> within (process_msg s e).
Proof.
  intros He W. pose proof cutoff_is_last_slot as C.
  assert (Ins : forall d, within {| fl_map := insert_into_map (fl_map s) (idx_of e) d; fl_log := [] |}).
  { intros d k Hk. cbn [fl_map] in Hk. destruct (insert_keys_bound _ _ _ _ Hk) as [->|[[H _]|H]]; lia. }
  destruct e as [idx dtm|idx]; cbn [process_msg idx_of] in *.
  - destruct (get (fl_map s) idx) as [v|]; [destruct (v =? dtm); [exact W|]|]; intros k Hk; exact (Ins (Some dtm) k Hk).
  - intros k Hk; exact (Ins None k Hk).
Qed.

(* whatever is heard -- announcements, replies at any slot 00..3F, null replies, in any order, with
   any losses -- the view never holds an entry at an index the 64-deep log does not have *)
Theorem view_within_log evs : (forall e, In e evs -> idx_of e < LOG_DEPTH) ->
  forall k, In k (keys (fl_map (run evs finit))) -> k < LOG_DEPTH.
Proof.
  assert (G : forall evs s, (forall e, In e evs -> idx_of e < LOG_DEPTH) -> within s -> within (run evs s)).
  { clear evs. induction evs as [|e evs IH]; intros s He W; cbn [run fold_left]; [exact W|].
    apply IH; [intros e' H; apply He; right; exact H|]. apply process_within; [apply He; left; reflexivity|exact W]. }
  intros He. apply (G evs finit He). intros k [].
Qed.

(* ---- push-down at any depth: the known prefix moves down by one, what passes the cut-off is kept *)
Lemma filter_pmap_cut (f : Z * Z -> bool) l : forall s B,
  (forall kv, In kv (pmap s l) -> f kv = true) -> s <= B ->
  filter (fun kv => f kv && (fst kv + 1 <=? B)) (pmap s l) = pmap s (firstn (Z.to_nat (B - s)) l).
Proof.
  induction l as [|x l IH]; intros s B Hf HB; cbn [pmap]; [rewrite firstn_nil; reflexivity|].
  cbn [filter fst]. rewrite (Hf (s, x)) by (left; reflexivity). cbn [andb].
  destruct (s + 1 <=? B) eqn:E.
  - apply Z.leb_le in E. replace (Z.to_nat (B - s)) with (S (Z.to_nat (B - (s + 1)))) by lia.
    cbn [firstn pmap]. f_equal. apply IH; [intros kv H; apply Hf; right; exact H|lia].
  - apply Z.leb_gt in E. replace (Z.to_nat (B - s)) with 0%nat by lia. cbn [firstn pmap].
    assert (N : forall l' s', s < s' -> filter (fun kv : Z * Z => f kv && (fst kv + 1 <=? B)) (pmap s' l') = []).
    { induction l' as [|y l' IH']; intros s' Hs; cbn [pmap filter fst]; [reflexivity|].
      replace (s' + 1 <=? B) with false by (symmetry; apply Z.leb_gt; lia). rewrite andb_false_r. apply IH'. lia. }
    apply N. lia.
Qed.

Lemma announce_pushes_down_cut l d :
  (forall v, In v l -> v < d) -> 0 <= MAXIDX ->
  insert_into_map (pmap 0 l) 0 (Some d) = (0, d) :: pmap 1 (firstn (Z.to_nat MAXIDX) l).
Proof.
  intros Hd HM. unfold insert_into_map. cbv beta iota zeta.
  rewrite (filter_none (fun kv : Z * Z => (fst kv <? 0) && (d <? snd kv))).
  2:{ intros [k v] H. destruct (pmap_In _ _ _ _ H) as [H1 _]. cbn [fst]. apply andb_false_iff. left. apply Z.ltb_ge. lia. }
  cbn [upd].
  rewrite (filter_all (fun kv => snd kv <? d)).
  2:{ intros [k v] H. destruct (pmap_In _ _ _ _ H) as [_ H2]. cbn [snd]. apply Z.ltb_lt, Hd, H2. }
  destruct l as [|x l]; [rewrite firstn_nil; reflexivity|].
  cbn [pmap map fst].
  assert (Hmin : list_min 0 (map fst (pmap (0 + 1) l)) = 0).
  { apply Z.le_antisymm; [apply list_min_le|]. apply list_min_lower; [lia|].
    intros k Hk. apply pmap_keys_range in Hk. lia. }
  rewrite Hmin. cbn [Z.ltb Z.eqb Z.compare].
  change ((0, x) :: pmap (0 + 1) l) with (pmap 0 (x :: l)).
  rewrite (filter_pmap_cut (fun kv => (0 <=? fst kv) || (snd kv <? d)) (x :: l) 0 MAXIDX).
  2:{ intros [k v] H. destruct (pmap_In _ _ _ _ H) as [H1 H2]. cbn [fst snd]. apply orb_true_iff. left. apply Z.leb_le. lia. }
  2:{ exact HM. }
  rewrite Z.sub_0_r. rewrite pmap_shift.
  rewrite update_all_fresh; [reflexivity|apply pmap_keys_nodup|].
  intros k Hk Hin. apply pmap_keys_range in Hk. cbn in Hin. lia.
Qed.

(* at the property's depth: with the whole log known (any length up to 64), a delivered
   announcement leaves the view EQUAL to the controller's new log -- the new entry on top, every
   known entry one down, and only the entry that was in the last slot (3F) gone *)
Theorem announce_at_full_depth l d :
  (forall v, In v l -> v < d) ->
  insert_into_map (pmap 0 l) 0 (Some d) = pmap 0 (firstn (Z.to_nat LOG_DEPTH) (d :: l)).
Proof.
  intros Hd. rewrite announce_pushes_down_cut; [|exact Hd|vm_compute; discriminate].
  rewrite <- cutoff_is_last_slot. replace (Z.to_nat (MAXIDX + 1)) with (S (Z.to_nat MAXIDX)) by (vm_compute; reflexivity).
  reflexivity.
Qed.

(* ---- the read-through loop asks for every slot down to the first empty one, the last slot (3F) of a full log included ---- *)
Lemma asks_seq : forall n len from, (from <= len)%nat -> asks len from n = seq from (Nat.min n (S (len - from))).
Proof.
  induction n as [|n IH]; intros len from H; [reflexivity|]. cbn [asks].
  destruct (Nat.ltb from len) eqn:E.
  - apply Nat.ltb_lt in E. rewrite IH by lia.
    replace (S (len - S from)) with (len - from)%nat by lia.
    replace (Nat.min (S n) (S (len - from))) with (S (Nat.min n (len - from))) by lia. reflexivity.
  - apply Nat.ltb_ge in E. assert (len = from) by lia. subst len.
    replace (from - from)%nat with 0%nat by lia. replace (Nat.min (S n) 1) with 1%nat by lia. reflexivity.
Qed.
Theorem read_through_asks_every_slot len : get_faultlog_asks len 0 64 = seq 0 (Nat.min 64 (S len)).
Proof.
  unfold get_faultlog_asks. change (Nat.min (0 + 64) 64 - 0)%nat with 64%nat. rewrite asks_seq by apply Nat.le_0_l.
  rewrite Nat.sub_0_r. reflexivity.
Qed.
Corollary full_log_read_to_the_last_slot len : (64 <= len)%nat -> In 63%nat (get_faultlog_asks len 0 64) /\ length (get_faultlog_asks len 0 64) = 64%nat.
Proof. intros H. rewrite read_through_asks_every_slot. replace (Nat.min 64 (S len)) with 64%nat by lia. split; [apply in_seq; lia|apply seq_length]. Qed.
