"""C15 -- the schema is always well-formed, re-loadable and structurally consistent.

Coq: the topology operations (Child.set_parent/_get_parent, Parent._add_child, zone creation) with their guards,
the structural invariant for every reachable state, 'nothing moves', 'no silent move', and the printed zone
keys against the validator's own regex (regenerated).  Tie: random set_parent / get_htg_zone sequences on real
entity objects vs the model, state compared after every operation.  Oracle: the statement on real gateways
over derived histories (validator, reload, graph walk, parents tracked across a chunked replay) and over
generated schemas loaded as configuration."""

from __future__ import annotations

import io
import json
import logging
import random
import re

from .. import common, gw
from ..common import Ctx

THEOREMS = ["C15_structure_invariant", "C15_zones_bounded", "C15_one_place", "C15_one_controller", "C15_nothing_moves",
            "C15_no_silent_move", "C15_child_is_listed", "C15_refused_changes_nothing", "C15_zone_keys_valid", "C15_zones_dict_fits", "C15_zone_keys_old_refuted"]

CTLS = {1: "01:100001", 2: "01:100002"}
UFCS = {11: "02:100011"}
DEVS = {20: ("04:100020", "TTrv"), 21: ("04:100021", "TTrv"), 22: ("13:100022", "TBdr"), 23: ("13:100023", "TBdr"), 24: ("10:100024", "TOtb"),
        25: ("07:100025", "TDhw"), 26: ("07:100026", "TDhw"), 27: ("22:100027", "TThm"), 28: ("34:100028", "TThm"), 29: ("17:100029", "TOut"),
        30: ("30:100030", "TOther"), 11: ("02:100011", "TUfc"), 1: ("01:100001", "TCtl"), 2: ("01:100002", "TCtl")}
CIDS = [("CNone", None), ("CIdx 0", "00"), ("CIdx 1", "01"), ("CIdx 2", "02"), ("CIdx 11", "0B"), ("CIdx 12", "0C"), ("CIdx 15", "0F"), ("CIdx 16", "10"),
        ("CF9", "F9"), ("CFA", "FA"), ("CFC", "FC"), ("CFF", "FF")]
ALL_IDS = {**CTLS, **UFCS}

PRELUDE = """From Coq Require Import List Bool Arith.
From RV Require Import M_Topology.
Import ListNotations.
Set Printing Width 1000000. Set Printing Depth 1000000.
Definition oc (o : outcome) : nat := match o with Ok => 1 | Inconsistent => 2 | TypeErr => 3 | AssertErr => 4 | ValueErr => 5 end.
Definition encp (p : option parent) : list nat := match p with None => [0] | Some (PZone c i) => [1; c; i] | Some (PDhw c) => [2; c] | Some (PSys c) => [3; c] | Some (PUfc u) => [4; u] end.
Definition on (o : option nat) : nat := match o with Some x => x | None => 0 end.
Definition b2n (b : bool) : nat := if b then 1 else 0.
Definition DEVS := [1; 2; 11; 20; 21; 22; 23; 24; 25; 26; 27; 28; 29; 30].
Definition show (s : st) : list (list nat) :=
  map (fun d => encp (d_parent (devs s d)) ++ [on (d_ctl (devs s d))]) DEVS ++
  flat_map (fun c => map (fun i => c :: i :: on (sensor s c i) :: actuators s c i) (filter (has_zone s c) (seq 0 20))
                     ++ [[c; 99; b2n (has_dhw s c); on (dhw_sensor s c); on (htg_valve s c); on (dhw_valve s c); on (app_cntrl s c)]]) [1; 2].
Fixpoint trace (s : st) (ops : list op) : list (list (list nat)) :=
  match ops with [] => [] | o :: r => let '(s1, x) := step s o in ([oc x] :: show s1) :: trace s1 r end.
"""


def enc_parent(p):
    from ramses_rf.device import UfhController  # noqa: PLC0415
    from ramses_rf.system import DhwZone, Zone  # noqa: PLC0415

    if p is None:
        return [0]
    inv = {v: k for k, v in CTLS.items()}
    if isinstance(p, Zone):
        return [1, inv[p.ctl.id], int(p.idx, 16)]
    if isinstance(p, DhwZone):
        return [2, inv[p.ctl.id]]
    if isinstance(p, UfhController):
        return [4, {v: k for k, v in UFCS.items()}[p.id]]
    return [3, inv[p.ctl.id]]


def dev_no(d):
    return next(k for k, v in DEVS.items() if v[0] == d.id)


async def run_ops(seed, n, max_zones):
    """Random set_parent / get_htg_zone requests on real entities; the state after every request."""
    from ramses_rf import exceptions as exc  # noqa: PLC0415

    rng = random.Random(seed)
    gwy = await gw.make_gateway([], None, max_zones=max_zones)
    dev = {k: gwy.get_device(v[0]) for k, v in DEVS.items()}
    ops, rows, stray = [], [], []
    for _ in range(n):
        if rng.random() < 0.15:
            c, i = rng.choice(list(CTLS)), rng.choice([0, 1, 2, 11, 12, 15, 16])
            ops.append(f"GetZone {c} {i}")
            try:
                dev[c].tcs.get_htg_zone(f"{i:02X}")
                oc = 1
            except ValueError:
                oc = 5
            except Exception:  # noqa: BLE001
                oc = 9
        else:
            d = rng.choice(list(DEVS))
            t = DEVS[d][1]
            kind = rng.choice(["GTcs", "GTcs", "GTcs", "GZone", "GDhw", "GUfc"])
            c = d if d in CTLS else rng.choice(list(CTLS))   # a controller is only ever placed in its own system
            tcs = dev[c].tcs
            if kind == "GZone" and tcs.zones:
                z = rng.choice(tcs.zones)
                g, pobj = f"GZone {c} {int(z.idx, 16)}", z
            elif kind == "GDhw" and tcs.dhw:
                g, pobj = f"GDhw {c}", tcs.dhw
            elif kind == "GUfc":
                g, pobj = "GUfc 11", dev[11]
            else:
                g, pobj = f"GTcs {c}", rng.choice([dev[c], tcs])
            kc, ks = rng.choice(CIDS)
            iss = rng.random() < 0.4
            ops.append(f"SetParent {d} {t} ({g}) ({kc}) {str(iss).lower()}")
            try:
                dev[d].set_parent(pobj, child_id=ks, is_sensor=iss or rng.choice([None, False]))
                oc = 1
            except exc.SystemSchemaInconsistent:
                oc = 2
            except TypeError:
                oc = 3
            except AssertionError:
                oc = 4
            except ValueError:
                oc = 5
            except Exception:  # noqa: BLE001
                oc = 9
        row = [[oc]]
        for k in sorted(DEVS):
            x = dev[k]
            ctl = getattr(x, "ctl", None)
            row.append(enc_parent(getattr(x, "_parent", None)) + [0 if ctl is None else {v: kk for kk, v in ALL_IDS.items()}.get(ctl.id, 99)])
        for c in sorted(CTLS):
            tcs = dev[c].tcs
            for z in sorted(tcs.zones, key=lambda z: z.idx):
                row.append([c, int(z.idx, 16), 0 if z.sensor is None else dev_no(z.sensor)] + sorted(dev_no(a) for a in z.actuators))
            dh = tcs.dhw
            parts = (dh.sensor, dh.heating_valve, dh.hotwater_valve) if dh else (None, None, None)
            row.append([c, 99, int(dh is not None)] + [0 if y is None else dev_no(y) for y in parts]
                       + [0 if tcs.appliance_control is None else dev_no(tcs.appliance_control)])
        rows.append(row)
        for c in sorted(CTLS):
            tcs = dev[c].tcs
            for par in [tcs] + list(tcs.zones) + ([tcs.dhw] if tcs.dhw else []):
                for ch in par.childs:
                    if getattr(ch, "_parent", None) is not par:
                        stray.append((len(rows) - 1, f"{ch.id} is listed in {par}.childs but its own parent is {getattr(ch, '_parent', None)}"))
        for k in sorted(DEVS):      # ... and the other way round: a device that has a parent is one of that parent's children
            par = getattr(dev[k], "_parent", None)
            if par is not None and hasattr(par, "childs") and dev[k] not in par.childs:
                stray.append((len(rows) - 1, f"{dev[k].id} has parent {par} but is not among that parent's children: it appears nowhere in the schema"))
    await gwy.stop()
    return ops, rows, stray


def correspondence(ctx: Ctx, built: bool, thorough: bool):
    cases = []
    nseq = 600 if thorough else 160
    for k in range(nseq):
        seed = ctx.rng.randrange(10**9)
        mz = [12, 12, 4, 16, 1, 13][k % 6]
        (ops, rows, stray), _ = gw.run_async(run_ops, seed, 25, mz)
        cases.append((mz, ops, rows))
        for k, what in stray[:1]:
            sig = "child-not-listed-by-its-parent:set_parent" if "not among" in what else "child-listed-by-a-parent-that-is-not-its-parent:set_parent"
            ctx.violation(sig, f"after request {ops[k]} (outcome {rows[k][0][0]}): {what}", {"max_zones": mz, "ops": ops[:k + 1]}, "operation-sequence")
        for k in range(1, len(rows)):   # a refused request leaves the topology as it was
            nd = 1 + len(DEVS)          # device rows: (parent, controller) of every device; an empty zone / DHW container may be created on the way
            before = rows[k - 1][1:nd] + [x for x in rows[k - 1][nd:] if x[1] != 99 and any(x[2:])]
            after = rows[k][1:nd] + [x for x in rows[k][nd:] if x[1] != 99 and any(x[2:])]
            if rows[k][0][0] in (2, 3, 4, 5) and ops[k].startswith("SetParent") and before != after:
                diff = [(a, b) for a, b in zip(before, after) if a != b][:2]
                ctx.violation("refused-request-changed-the-topology:set_parent", f"request {ops[k]} was refused (outcome {rows[k][0][0]}) but changed {diff}",
                              {"max_zones": mz, "ops": ops[:k + 1]}, "operation-sequence")
                break
        ctx.case(("topology-ops", mz, tuple(ops)), True, "set_parent-sequence")
        # the property itself on the implementation: nothing that was placed is ever moved or replaced
        nd = 1 + len(DEVS)
        prev_dev, prev_sens = {}, {}
        for k, row in enumerate(rows):
            for j, x in enumerate(row[1:nd]):
                if prev_dev.get(j, [0])[0] != 0 and x[:-1] != prev_dev[j][:-1]:
                    ctx.violation("device-moved-to-another-parent:set_parent", f"request {ops[k]} (outcome {row[0][0]}) moved device #{sorted(DEVS)[j]} from {prev_dev[j]} to {x}",
                                  {"max_zones": mz, "ops": ops[:k + 1]}, "operation-sequence")
                prev_dev[j] = x
            for x in row[nd:]:
                if x[1] == 99:
                    continue
                key = (x[0], x[1])
                if prev_sens.get(key, 0) not in (0, x[2]):
                    ctx.violation("zone-sensor-replaced", f"request {ops[k]} (outcome {row[0][0]}) replaced the sensor of zone {key}: #{prev_sens[key]} -> #{x[2]}",
                                  {"max_zones": mz, "ops": ops[:k + 1]}, "operation-sequence")
                prev_sens[key] = x[2]
                if x[1] >= mz:
                    ctx.violation("zone-index-beyond-max_zones:get_htg_zone", f"request {ops[k]} created zone {key} with max_zones={mz}", {"max_zones": mz, "ops": ops[:k + 1]}, "operation-sequence")
    if not built:
        ctx.obligation("correspondence:set_parent-and-zone-creation", False, "correspondence", "model not built")
        return
    files = {f"s{i}": PRELUDE + "".join(f"Eval vm_compute in (trace (init {mz}) [{'; '.join(ops)}]).\n" for mz, ops, _ in cases[i::8]) for i in range(8)}
    res = common.coq_eval("C15", files, timeout=600)
    bad, total = [], 0
    for i in range(8):
        rc, out = res[f"s{i}"]
        mine = cases[i::8]
        got = [eval(o.replace(";", ","), {"__builtins__": {}}) for o in re.findall(r"=\s*(\[.*?\])\s*:\s*list \(list \(list nat\)\)", out, flags=re.S)]  # noqa: S307
        if rc or len(got) != len(mine):
            ctx.obligation("correspondence:set_parent-and-zone-creation", False, "correspondence", f"rc={rc}, {len(got)} results for {len(mine)} cases: {out[-300:]}")
            return
        for (mz, ops, rows), g in zip(mine, got):
            total += 1
            for k, (a, b) in enumerate(zip(g, rows)):
                a = [list(x) for x in a]
                nd = 1 + len(DEVS)       # the outcome row and one row per device; then the zone / DHW rows
                a = a[:nd] + [x if x[1] == 99 else x[:3] + sorted(x[3:]) for x in a[nd:]]
                if a != b:
                    diff = [(x, y) for x, y in zip(a, b) if x != y][:2]
                    bad.append(f"max_zones={mz} step {k}: {ops[k]}: model vs implementation {diff} (after {ops[:k]})")
                    break
    ctx.obligation("correspondence:set_parent-and-zone-creation", not bad, "correspondence",
                   f"{len(bad)} of {total} sequences differ; first: {bad[0][:600]}" if bad else f"{total} sequences x 25 requests agree, state compared after every request")


# ---- oracle on real gateways -------------------------------------------------------------------
def listed_parts(schema):
    """What the property says a reload reproduces: controllers; zones (class, sensor, actuators); DHW; appliance control."""
    out = {}
    for k, v in schema.items():
        if not (isinstance(v, dict) and re.match(r"\d\d:\d{6}", k)) or "remotes" in v:
            continue
        part = {}
        if (v.get("system") or {}).get("appliance_control"):
            part["appliance_control"] = v["system"]["appliance_control"]
        if v.get("stored_hotwater"):
            part["stored_hotwater"] = v["stored_hotwater"]
        zs = {i: {kk: z.get(kk) for kk in ("class", "sensor", "actuators") if z.get(kk)} for i, z in (v.get("zones") or {}).items()}
        if zs:
            part["zones"] = zs
        if part:
            out[k] = part
    return out


def graph_walk(gwy, max_zones):
    """Structural consistency of the entity graph: [(signature, detail)]."""
    bad = []
    seen_sensor, seen_act = {}, {}
    for tcs in gwy.systems:
        for z in tcs.zones:
            if int(z.idx, 16) >= max_zones:
                bad.append(("zone-index-beyond-max_zones", f"{tcs.id}/{z.idx} max_zones={max_zones}"))
            s = z.sensor
            if s is not None:
                if s._parent is not z:
                    bad.append(("sensor-parent-is-not-its-zone", f"{s.id} sensor of {tcs.id}/{z.idx}, parent {s._parent}"))
                if s.id in seen_sensor and seen_sensor[s.id] != (tcs.id, z.idx):
                    bad.append(("device-is-sensor-of-two-zones", f"{s.id}: {seen_sensor[s.id]} and {(tcs.id, z.idx)}"))
                seen_sensor[s.id] = (tcs.id, z.idx)
            for a in z.actuators:
                if a._parent is not z:
                    bad.append(("actuator-parent-is-not-its-zone", f"{a.id} actuator of {tcs.id}/{z.idx}, parent {a._parent}"))
                if a.id in seen_act and seen_act[a.id] != (tcs.id, z.idx):
                    bad.append(("device-is-actuator-of-two-zones", f"{a.id}: {seen_act[a.id]} and {(tcs.id, z.idx)}"))
                seen_act[a.id] = (tcs.id, z.idx)
            if len(set(id(a) for a in z.actuators)) != len(z.actuators):
                bad.append(("actuator-listed-twice", f"{tcs.id}/{z.idx}"))
    # "one zone / role": a device attached to a heating zone is there AS something -- its sensor or one of its actuators
    for tcs in gwy.systems:
        for z in tcs.zones:
            for ch in getattr(z, "childs", []):
                if ch is not z.sensor and ch not in z.actuators:
                    bad.append(("zone-child-without-a-role", f"{getattr(ch, 'id', ch)} is attached to {tcs.id}/{z.idx} but is neither its sensor ({getattr(z.sensor, 'id', None)}) nor one of its actuators"))
    parents = [t for t in gwy.systems] + [z for t in gwy.systems for z in t.zones] + [t.dhw for t in gwy.systems if t.dhw]
    for par in parents:
        for ch in getattr(par, "childs", []):
            if getattr(ch, "_parent", None) is not par:
                bad.append(("child-listed-by-a-parent-that-is-not-its-parent", f"{getattr(ch, 'id', ch)} is in {par}.childs, its own parent is {getattr(ch, '_parent', None)}"))
    known = {id(x) for x in parents}
    for d in gwy.devices:
        p = getattr(d, "_parent", None)
        if p is not None and id(p) not in known and not d.id.startswith("02:") and type(p).__name__ not in ("UfhController", "HvacVentilator"):
            # the converse: a device's parent is an entity the gateway's systems know (a system, one of its zones, its hot water), and it lists the device
            bad.append(("device-parent-is-not-an-entity-of-its-system", f"{d.id}: parent {p} is none of the systems / zones / hot-water entities the gateway holds"))
        elif p is not None and id(p) in known and d not in getattr(p, "childs", [d]):
            bad.append(("child-not-listed-by-its-parent", f"{d.id}: parent {p} does not list it"))
        ctl = getattr(d, "ctl", None)
        if p is not None and ctl is not None and getattr(p, "ctl", ctl) is not ctl and not d.id.startswith("02:"):
            bad.append(("device-controller-differs-from-its-parents", f"{d.id}: ctl {ctl.id}, parent {p}"))
    return bad


def parents_of(gwy):
    return {d.id: getattr(p, "id", None) for d in gwy.devices if (p := getattr(d, "_parent", None)) is not None}


async def history_trial(lines, cfg, eav, max_zones, chunks):
    from ramses_rf import Gateway  # noqa: PLC0415
    from ramses_rf.helpers import shrink  # noqa: PLC0415
    from ramses_rf.schemas import SCH_GLOBAL_SCHEMAS  # noqa: PLC0415

    bad = []
    first = lines if chunks <= 1 else lines[:max(1, len(lines) // chunks)]
    gwy = await gw.make_gateway(first, cfg, enable_eavesdrop=eav, max_zones=max_zones)
    rest = lines[len(first):]
    step = max(1, len(rest) // max(1, chunks - 1)) if rest else 1
    segs = [rest[i:i + step] for i in range(0, len(rest), step)] if chunks > 1 else []
    parents = {}
    try:
        for seg in [None] + segs:
            if seg is not None:
                await gwy._restore_cached_packets({ln[:26]: ln[27:] for ln in seg})
                await gw.settle()
            now = parents_of(gwy)
            for k, v in parents.items():
                if now.get(k) != v:
                    bad.append(("device-moved-to-another-parent", f"{k}: {v} -> {now.get(k)}", ""))
            parents = now
            for sig, det in graph_walk(gwy, max_zones):
                bad.append((sig, det, ""))
            sch = shrink(gwy.schema)
            try:
                SCH_GLOBAL_SCHEMAS(sch)
            except Exception as err:  # noqa: BLE001
                why = "zone-index-key" if max_zones > 12 and any(int(i, 16) >= 12 for v in sch.values() if isinstance(v, dict) for i in (v.get("zones") or {})) else "other"
                bad.append((f"schema-rejected-by-validator:{why}", str(err)[:200], json.dumps(sch)[:600]))
                continue
        # reload the final schema into a fresh gateway
        c2 = json.loads(json.dumps(cfg or {}))
        c2.setdefault("config", {}).update({"disable_discovery": True, "enable_eavesdrop": eav, "max_zones": max_zones})
        try:
            g2 = Gateway(None, input_file=io.TextIOWrapper(io.BytesIO(b"")), **{**c2, **sch})
            await gw.start(g2)
            sch2 = shrink(g2.schema)
            await g2.stop()
            a, b = listed_parts(sch), listed_parts(sch2)
            if a != b:
                secs = sorted({k2 for k in set(a) | set(b) for k2 in set(a.get(k, {})) | set(b.get(k, {})) if a.get(k, {}).get(k2) != b.get(k, {}).get(k2)})
                bad.append((f"reload-differs:{','.join(secs)}", json.dumps(a)[:500], json.dumps(b)[:500]))
        except Exception as err:  # noqa: BLE001
            why = "zone-index-key" if max_zones > 12 and any(int(i, 16) >= 12 for v in sch.values() if isinstance(v, dict) for i in (v.get("zones") or {})) else "other"
            bad.append((f"reload-raises:{type(err).__name__}:{why}", str(err)[:200], json.dumps(sch)[:600]))
    finally:
        await gwy.stop()
    return bad


def gen_schema(rng):
    """A schema the validator accepts: 1-3 controllers, 0-12 zones of any class with sensors/actuators, DHW parts, appliance control, orphans."""
    used = set()

    def dev(t):
        while True:
            d = f"{t}:{rng.randrange(1, 262143):06d}"
            if d not in used:
                used.add(d)
                return d

    sch = {}
    ctls = [dev("01") for _ in range(rng.randint(1, 3))]
    for c in ctls:
        tcs = {}
        if rng.random() < 0.7:
            tcs["system"] = {"appliance_control": dev(rng.choice(["10", "13"]))}
        if rng.random() < 0.5:
            hw = {}
            if rng.random() < 0.8:
                hw["sensor"] = dev("07")
            if rng.random() < 0.6:
                hw["hotwater_valve"] = dev("13")
            if rng.random() < 0.4:
                hw["heating_valve"] = dev("13")
            if hw:
                tcs["stored_hotwater"] = hw
        zones = {}
        for i in sorted(rng.sample(range(12), rng.randint(0, 12))):
            klass = rng.choice(["radiator_valve", "zone_valve", "electric_heat", "mixing_valve", "underfloor_heating", None])
            z = {}
            if klass:
                z["class"] = klass
            if rng.random() < 0.8:
                z["sensor"] = c if rng.random() < 0.1 else dev(rng.choice(["03", "04", "12", "22", "34"]))
            acts = [dev({"radiator_valve": "04", "zone_valve": "13", "electric_heat": "13", "mixing_valve": "13"}.get(klass, "04"))
                    for _ in range(rng.randint(0, 4))] if klass != "underfloor_heating" else []
            if acts:
                z["actuators"] = acts
            zones[f"{i:02X}"] = z
        if zones:
            tcs["zones"] = zones
        if rng.random() < 0.3:
            tcs["orphans"] = [dev("04") for _ in range(rng.randint(1, 2))]
        sch[c] = tcs
    sch["main_tcs"] = ctls[0]
    if rng.random() < 0.3:
        sch["orphans_heat"] = [dev(rng.choice(["04", "22"])) for _ in range(rng.randint(1, 3))]
    return sch


async def schema_trial(sch):
    from ramses_rf import Gateway  # noqa: PLC0415
    from ramses_rf.helpers import shrink  # noqa: PLC0415
    from ramses_rf.schemas import SCH_GLOBAL_SCHEMAS  # noqa: PLC0415

    bad = []
    try:
        SCH_GLOBAL_SCHEMAS(sch)
    except Exception as err:  # noqa: BLE001
        return [("generator-made-an-invalid-schema", str(err)[:200], "")], False
    try:
        g = Gateway(None, input_file=io.TextIOWrapper(io.BytesIO(b"")), config={"disable_discovery": True}, **json.loads(json.dumps(sch)))
        await gw.start(g)
    except Exception as err:  # noqa: BLE001
        ctl_sensor = any(sum(1 for z in (v.get("zones") or {}).values() if z.get("sensor") == k) > 1 for k, v in sch.items() if isinstance(v, dict))
        bad_orphan = any(o[:2] not in ("13", "10", "02") for v in sch.values() if isinstance(v, dict) for o in v.get("orphans", []))
        why = ("controller-is-sensor-of-several-zones" if ctl_sensor and "cant change parent" in str(err)
               else "tcs-orphan-is-not-a-relay" if bad_orphan and isinstance(err, TypeError) else f"other:{type(err).__name__}")
        return [(f"valid-schema-cannot-be-loaded:{why}", str(err)[:200], "")], True
    try:
        out = shrink(g.schema)
        try:
            SCH_GLOBAL_SCHEMAS(out)
        except Exception as err:  # noqa: BLE001
            bad.append(("schema-rejected-by-validator:after-load", str(err)[:200], ""))
        a, b = listed_parts(shrink(sch)), listed_parts(out)
        if a != b:
            secs = sorted({k2 for k in set(a) | set(b) for k2 in set(a.get(k, {})) | set(b.get(k, {})) if a.get(k, {}).get(k2) != b.get(k, {}).get(k2)})
            bad.append((f"loaded-schema-differs:{','.join(secs)}", json.dumps(a)[:600], json.dumps(b)[:600]))
        for sig, det in graph_walk(g, 12):
            bad.append((sig, det, ""))
    finally:
        await g.stop()
    return bad, True


def run(ctx: Ctx) -> None:
    logging.disable(logging.CRITICAL)
    thorough = ctx.tier == "thorough"
    rng = ctx.rng
    ctx.rule = ("(a) random sequences of 25 set_parent / get_htg_zone requests (14 devices of every type, 2 controllers, a UFH controller, 12 child ids, "
                "sensor or not, max_zones 1/4/12/13/16) on real entity objects vs the Coq model, the whole topology compared after every request; "
                "(b) histories derived from the recorded systems (as C13) with eavesdropping on/off and max_zones 1..16, replayed whole or in chunks: at "
                "each point the schema must pass SCH_GLOBAL_SCHEMAS, the entity graph must be consistent, no device may have changed parent; the final "
                "schema is loaded into a fresh gateway and the listed parts compared; (c) generated valid schemas (1-3 controllers, 0-12 zones of any "
                "class/sensor/actuators, DHW parts, appliance control, orphans) loaded as configuration and printed back; non-trivial = every case; "
                "distinct = by op sequence / history text / schema")
    ctx.assumptions += ["the topology model covers set_parent/_get_parent/_add_child and zone creation; how packets are turned into those requests "
                        "(000C/0005 handlers, eavesdropping heuristics, load_schema) is not modelled -- decided by the oracle (b)/(c)",
                        "class promotion of zones (_update_schema) is not modelled",
                        "reload is compared on the parts the property lists: controllers, zones (class, sensor, actuators), stored hot water, appliance control"]
    built = ctx.build("C15", THEOREMS)
    correspondence(ctx, built, thorough)

    syss = gw.systems()
    n_hist = 1500 if thorough else 220
    hists = [gw.derive(rng, syss) for _ in range(n_hist)]
    # the witness of the max_zones finding, and each recorded system verbatim
    hists.append((["2026-01-01T12:00:00.000000 045 RP --- 01:145038 18:111111 --:------ 0005 004 0008FF1F",
                   "2026-01-01T12:00:01.000000 045  I --- 01:145038 --:------ 01:145038 30C9 003 0007D0"], "crafted-13-zones", "crafted", {}))
    t0 = "2026-01-01T12:00:"
    hists.append(([f"{t0}00.000000 045 RP --- 01:145038 18:111111 --:------ 0005 004 00080A00",
                   f"{t0}01.000000 045 RP --- 01:145038 18:111111 --:------ 000C 006 000F00340457",     # appliance control: 13:001111
                   f"{t0}02.000000 045 RP --- 01:145038 18:111111 --:------ 000C 006 000F003408AE",     # ... now said to be 13:002222: refused
                   f"{t0}03.000000 045 RP --- 01:145038 18:111111 --:------ 000C 006 010400880457",     # zone 01 sensor: 34:001111
                   f"{t0}04.000000 045 RP --- 01:145038 18:111111 --:------ 000C 006 0104008808AE",     # ... now said to be 34:002222: refused
                   f"{t0}05.000000 045 RP --- 01:145038 18:111111 --:------ 000C 006 0304008808AE",     # 34:002222 is zone 03's sensor
                   f"{t0}06.000000 045  I --- 01:145038 --:------ 01:145038 30C9 003 0107D0"], "crafted-role-conflicts", "crafted", {}))
    # the controller names, as a zone's SENSOR, a device that is already a child of that zone in another role: an actuator TRV while another sensor is
    # known (a changed sensor: refused, the sensor stays), a relay of an electric zone (not a device a zone sensor can be: refused)
    hists.append(([f"{t0}00.000000 045 RP --- 01:145038 18:111111 --:------ 0005 004 00080600",      # zones 01, 02: radiator valves
                   f"{t0}01.000000 045 RP --- 01:145038 18:111111 --:------ 0005 004 000B0400",      # zone 02 is electric
                   f"{t0}02.000000 045 RP --- 01:145038 18:111111 --:------ 000C 006 01080011B207",     # zone 01 actuator: 04:111111
                   f"{t0}03.000000 045 RP --- 01:145038 18:111111 --:------ 000C 006 0104008B640E",     # zone 01 sensor: 34:222222
                   f"{t0}04.000000 045 RP --- 01:145038 18:111111 --:------ 000C 006 01040011B207",     # ... now said to be the TRV: refused
                   f"{t0}05.000000 045 RP --- 01:145038 18:111111 --:------ 000C 006 020B003608D5",     # zone 02 actuator: relay 13:133333
                   f"{t0}06.000000 045 RP --- 01:145038 18:111111 --:------ 000C 006 0204003608D5",     # ... said to be its sensor: refused
                   f"{t0}07.000000 045  I --- 01:145038 --:------ 01:145038 30C9 003 0107D0"], "crafted-sensor-is-a-child-already", "crafted", {}))
    # the FIRST message ever routed to a zone that does not exist yet is refused part-way (its second device belongs to another zone): whatever it
    # attached before the refusal hangs on a zone the system knows, and a later, consistent reply is not an inconsistency
    hists.append(([f"{t0}00.000000 045 RP --- 01:145038 18:111111 --:------ 000C 006 000800100001",           # zone 00 actuator: 04:000001
                   f"{t0}01.000000 045 RP --- 01:145038 18:111111 --:------ 000C 012 010800100002010800100001",  # zone 01 (new): 04:000002, then zone 00's TRV: refused
                   f"{t0}02.000000 045 RP --- 01:145038 18:111111 --:------ 000C 006 010800100002",           # zone 01: 04:000002 again
                   f"{t0}03.000000 045  I --- 01:145038 --:------ 01:145038 30C9 003 0107D0"], "crafted-zone-created-by-a-refused-message", "crafted", {}))
    # a zone's sensor is named, then the controller answers the same question with "no device" (7F FFFFFF), then names ANOTHER sensor: whatever the
    # library makes of it, both sides of every link agree and the schema it reports reloads to the same device-to-zone map
    hists.append(([f"{t0}00.000000 045 RP --- 01:145038 18:111111 --:------ 0005 004 00080200",             # zone 01: a radiator-valve zone
                   f"{t0}01.000000 045 RP --- 01:145038 18:111111 --:------ 000C 006 010400100001",           # zone 01 sensor: 04:000001
                   f"{t0}02.000000 045 RP --- 01:145038 18:111111 --:------ 000C 006 01047FFFFFFF",           # ... "no device"
                   f"{t0}03.000000 045 RP --- 01:145038 18:111111 --:------ 000C 006 010400100002",           # ... now 04:000002
                   f"{t0}04.000000 045  I --- 01:145038 --:------ 01:145038 30C9 003 0107D0"], "crafted-sensor-after-an-empty-reply", "crafted", {}))
    hists += [(base, "verbatim", name, cfg) for name, base, cfg in syss]
    for lines, kind, name, cfg in hists:
        eav = rng.random() < 0.5 if not kind.startswith("crafted") else False
        mz = 16 if kind == "crafted-13-zones" else 12 if kind.startswith("crafted") else rng.choice([12, 12, 12, 16, 13, 8, 4, 1, rng.randint(1, 16)])
        chunks = 1 if kind.startswith("crafted") else rng.choice([1, 1, 4, 8])
        try:
            bad, _ = gw.run_async(history_trial, lines, cfg, eav, mz, chunks)
        except Exception as err:  # noqa: BLE001
            import traceback  # noqa: PLC0415
            tb = traceback.extract_tb(err.__traceback__)[-1]
            bad = [(f"replay-raises:{type(err).__name__}:{tb.name}", str(err)[:200], "")]
        ctx.case(("history", "\n".join(lines), eav, mz, chunks), True, f"history:{kind}")
        for sig, a, b in bad:
            ctx.violation(sig, f"{sig}: {a} {b} ({kind} history of {name}, eavesdrop={eav}, max_zones={mz})",
                          {"system": name, "kind": kind, "eavesdrop": eav, "max_zones": mz, "chunks": chunks, "detail": [a, b], "lines": lines}, "history")
    n_sch = 600 if thorough else 120
    loaded = 0
    for _ in range(n_sch):
        sch = gen_schema(rng)
        (bad, ok), _ = gw.run_async(schema_trial, sch)
        loaded += ok
        ctx.case(("schema", json.dumps(sch, sort_keys=True)), True, "generated-schema")
        for sig, a, b in bad:
            ctx.violation(sig, f"{sig}: {a} {b}", {"schema": sch, "detail": [a, b]}, "configuration")
    ctx.extra["generated_schemas_accepted_by_validator"] = loaded


def replay(case: dict) -> int:
    print(case.get("signature"), str(case.get("case"))[:2000])
    return 0
