import asyncio, logging, io, sys
sys.path.insert(0, __import__('os').path.dirname(__file__))
logging.disable(logging.CRITICAL)
from vloop import VLoop
from ramses_rf import Gateway
from ramses_tx import exceptions as exc
from ramses_tx.packet import Packet
import datetime as _dt
async def mk(pkts, **cfg):
    txt="".join(f"{k} {v}\n" for k,v in pkts.items())
    gwy=Gateway(None, input_file=io.TextIOWrapper(io.BytesIO(txt.encode())), config=cfg)
    await gwy.start(); return gwy
async def main(loop):
    g=await mk({"2026-01-01T12:00:00.000000":"045 RP --- 01:145038 18:111111 --:------ 0005 004 00080300"})
    z0,z1=g.tcs.zones
    calls=[]
    async def fake_send(cmd, **kw):
        calls.append(str(cmd))
        if cmd.code=="0006":
            return Packet.from_port(_dt.datetime.now(), "045 RP --- 01:145038 18:000730 --:------ 0006 004 00050009")
        raise exc.ProtocolSendFailed("lost")
    g.async_send_cmd=fake_send
    try:
        await z0.get_schedule()
    except Exception as e: print("z0:", type(e).__name__, e)
    print("lock idx after failure:", g.tcs.zone_lock_idx)
    t0=loop.time()
    try:
        await asyncio.wait_for(z1.get_schedule(), 400)
    except Exception as e: print("z1:", type(e).__name__, str(e)[:80], "after", loop.time()-t0, "s")
    await g.stop()
loop=VLoop(); asyncio.set_event_loop(loop); loop.run_until_complete(main(loop))
