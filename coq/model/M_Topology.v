(* M_Topology -- who belongs to whom: Child.set_parent/_get_parent and Parent._add_child
   (ramses_rf/entity_base.py), zone creation (MultiZone.get_htg_zone, Zone.__init__), the DHW zone.
   Definitions only; proofs are in proof/P_Topology.v. *)
From Coq Require Import List Bool Arith.
Import ListNotations.

Inductive dtype := TCtl | TTrv | TBdr | TOtb | TDhw | TThm | TUfc | TOut | TOther.
Inductive parent := PZone (c i : nat) | PDhw (c : nat) | PSys (c : nat) | PUfc (u : nat).
(* child_id: absent, a byte that is none of the named ones, or F9 / FA / FC / FF *)
Inductive cid := CNone | CIdx (i : nat) | CF9 | CFA | CFC | CFF.
(* the parent object handed to set_parent: a controller or its TCS, an existing zone, an existing DHW zone, a UFH controller *)
Inductive target := GTcs (c : nat) | GZone (c i : nat) | GDhw (c : nat) | GUfc (u : nat).
Inductive outcome := Ok | Inconsistent | TypeErr | AssertErr | ValueErr.

Definition parent_eqb (p q : parent) : bool :=
  match p, q with
  | PZone c i, PZone c' i' => (c =? c') && (i =? i')
  | PDhw c, PDhw c' | PSys c, PSys c' | PUfc c, PUfc c' => c =? c'
  | _, _ => false
  end.
Definition cid_eqb (a b : cid) : bool :=
  match a, b with
  | CNone, CNone | CF9, CF9 | CFA, CFA | CFC, CFC | CFF, CFF => true
  | CIdx i, CIdx j => i =? j
  | _, _ => false
  end.

Record dev_st := mkDev { d_parent : option parent; d_cid : cid; d_ctl : option nat }.

Record st := mkSt {
  max_zones : nat;
  devs : nat -> dev_st;
  zones : list (nat * nat);                (* the zones that exist: (controller, idx) *)
  dhws : list nat;                         (* the controllers that have a DHW zone *)
  sensor : nat -> nat -> option nat;       (* zone -> its sensor *)
  actuators : nat -> nat -> list nat;      (* zone -> its actuators *)
  dhw_sensor : nat -> option nat;
  htg_valve : nat -> option nat;
  dhw_valve : nat -> option nat;
  app_cntrl : nat -> option nat;
  circuits : nat -> list nat               (* UFH controller -> its children *)
}.

Definition init (mz : nat) : st :=
  mkSt mz (fun _ => mkDev None CNone None) [] [] (fun _ _ => None) (fun _ _ => []) (fun _ => None) (fun _ => None)
       (fun _ => None) (fun _ => None) (fun _ => []).

Definition has_zone (s : st) (c i : nat) : bool := existsb (fun z => (fst z =? c) && (snd z =? i)) (zones s).
Definition has_dhw (s : st) (c : nat) : bool := existsb (Nat.eqb c) (dhws s).

Definition with_zones (s : st) (z : list (nat * nat)) : st :=
  mkSt (max_zones s) (devs s) z (dhws s) (sensor s) (actuators s) (dhw_sensor s) (htg_valve s) (dhw_valve s) (app_cntrl s) (circuits s).
Definition with_dhws (s : st) (z : list nat) : st :=
  mkSt (max_zones s) (devs s) (zones s) z (sensor s) (actuators s) (dhw_sensor s) (htg_valve s) (dhw_valve s) (app_cntrl s) (circuits s).

(* MultiZone.get_htg_zone / Zone.__init__: the zone is created on first use, only below max_zones *)
Definition get_htg_zone (s : st) (c i : nat) : option st :=
  if has_zone s c i then Some s
  else if i <? max_zones s then Some (with_zones s ((c, i) :: zones s)) else None.
Definition get_dhw_zone (s : st) (c : nat) : st := if has_dhw s c then s else with_dhws s (c :: dhws s).

(* PARENT_RULES *)
Definition role_ok (t : dtype) (p : parent) (is_sensor : bool) : bool :=
  match p, is_sensor with
  | PDhw _, true => match t with TDhw => true | _ => false end
  | PDhw _, false => match t with TBdr => true | _ => false end
  | PSys _, true => match t with TOut => true | _ => false end
  | PSys _, false => match t with TBdr | TOtb | TUfc => true | _ => false end
  | PUfc _, true => false
  | PUfc _, false => false          (* only circuits, which are not devices *)
  | PZone _ _, true => match t with TCtl | TThm | TTrv => true | _ => false end
  | PZone _ _, false => match t with TBdr | TTrv => true | _ => false end
  end.

Definition cid_ok (p : parent) (k : cid) : bool :=
  match p with
  | PZone _ i => cid_eqb k (CIdx i)
  | PDhw _ => match k with CF9 | CFA => true | _ => false end
  | PSys _ => match k with CFC | CFF => true | _ => false end
  | PUfc _ => true
  end.

Definition ctl_of (p : parent) : nat := match p with PZone c _ | PDhw c | PSys c => c | PUfc u => u end.

(* _get_parent, first half: which parent object and child_id are meant (zones are created on the way) *)
Definition resolve (s : st) (t : dtype) (g : target) (k : cid) : st * option (parent * cid) :=
  let k := match t with TUfc => CFF | _ => k end in
  match g with
  | GTcs c =>
      match k with
      | CF9 | CFA => (get_dhw_zone s c, Some (PDhw c, k))
      | CIdx i => if i <? max_zones s
                  then match get_htg_zone s c i with Some s' => (s', Some (PZone c i, k)) | None => (s, None) end
                  else (s, Some (PSys c, k))
      | _ => (s, Some (PSys c, k))
      end
  | GZone c i => (s, Some (PZone c i, match k with CNone => CIdx i | _ => k end))
  | GDhw c => (s, Some (PDhw c, k))
  | GUfc u => match k with CNone => (s, None) | _ => (s, Some (PUfc u, k)) end
  end.

Definition set_fn {A} (f : nat -> A) (x : nat) (v : A) : nat -> A := fun y => if y =? x then v else f y.
Definition set_fn2 {A} (f : nat -> nat -> A) (x y : nat) (v : A) : nat -> nat -> A :=
  fun a b => if (a =? x) && (b =? y) then v else f a b.
Definition slot_free (o : option nat) (d : nat) : bool := match o with Some x => x =? d | None => true end.
Definition mem (d : nat) (l : list nat) : bool := existsb (Nat.eqb d) l.

(* Parent._add_child: record the child in the parent's role slot, or refuse *)
Definition add_child (s : st) (d : nat) (t : dtype) (p : parent) (k : cid) (is_sensor : bool) : st * outcome :=
  let upd sn ac ds hv dv apc ci := mkSt (max_zones s) (devs s) (zones s) (dhws s) sn ac ds hv dv apc ci in
  let same := upd (sensor s) (actuators s) (dhw_sensor s) (htg_valve s) (dhw_valve s) (app_cntrl s) (circuits s) in
  match is_sensor, p with
  | true, PDhw c =>
      match k with
      | CFA => if slot_free (dhw_sensor s c) d
               then (upd (sensor s) (actuators s) (set_fn (dhw_sensor s) c (Some d)) (htg_valve s) (dhw_valve s) (app_cntrl s) (circuits s), Ok)
               else (s, Inconsistent)
      | _ => (s, AssertErr)       (* a DHW zone has a 'sensor' attribute but is not a Zone *)
      end
  | true, PZone c i =>
      if slot_free (sensor s c i) d
      then (upd (set_fn2 (sensor s) c i (Some d)) (actuators s) (dhw_sensor s) (htg_valve s) (dhw_valve s) (app_cntrl s) (circuits s), Ok)
      else (s, Inconsistent)
  | true, _ => (s, TypeErr)
  | false, PUfc u =>
      (upd (sensor s) (actuators s) (dhw_sensor s) (htg_valve s) (dhw_valve s) (app_cntrl s)
           (set_fn (circuits s) u (if mem d (circuits s u) then circuits s u else d :: circuits s u)), Ok)
  | false, PZone c i =>
      (upd (sensor s) (set_fn2 (actuators s) c i (if mem d (actuators s c i) then actuators s c i else actuators s c i ++ [d]))
           (dhw_sensor s) (htg_valve s) (dhw_valve s) (app_cntrl s) (circuits s), Ok)
  | false, PDhw c =>
      match k with
      | CF9 => if slot_free (htg_valve s c) d
               then (upd (sensor s) (actuators s) (dhw_sensor s) (set_fn (htg_valve s) c (Some d)) (dhw_valve s) (app_cntrl s) (circuits s), Ok)
               else (s, Inconsistent)
      | CFA => if slot_free (dhw_valve s c) d
               then (upd (sensor s) (actuators s) (dhw_sensor s) (htg_valve s) (set_fn (dhw_valve s) c (Some d)) (app_cntrl s) (circuits s), Ok)
               else (s, Inconsistent)
      | _ => (s, TypeErr)
      end
  | false, PSys c =>
      match k with
      | CFC => if slot_free (app_cntrl s c) d
               then (upd (sensor s) (actuators s) (dhw_sensor s) (htg_valve s) (dhw_valve s) (set_fn (app_cntrl s) c (Some d)) (circuits s), Ok)
               else (s, Inconsistent)
      | CFF => match t with TUfc | TOut => (same, Ok) | _ => (s, AssertErr) end
      | _ => (s, TypeErr)
      end
  end.

Definition commit (s : st) (d : nat) (p : parent) (k : cid) : st :=
  mkSt (max_zones s) (set_fn (devs s) d (mkDev (Some p) k (Some (ctl_of p)))) (zones s) (dhws s) (sensor s) (actuators s)
       (dhw_sensor s) (htg_valve s) (dhw_valve s) (app_cntrl s) (circuits s).

Inductive op :=
  | SetParent (d : nat) (t : dtype) (g : target) (k : cid) (is_sensor : bool)
  | GetZone (c i : nat).          (* a 0005/000C reply, a schema entry: the zone is asked for directly *)

Definition step (s : st) (o : op) : st * outcome :=
  match o with
  | GetZone c i => match get_htg_zone s c i with Some s' => (s', Ok) | None => (s, ValueErr) end
  | SetParent d t g k is_sensor =>
      match resolve s t g k with
      | (s1, None) => (s1, TypeErr)
      | (s1, Some (p, k1)) =>
          let dv := devs s1 d in
          if match d_parent dv with Some p0 => negb (parent_eqb p0 p) | None => false end then (s1, Inconsistent)
          else if negb (role_ok t p is_sensor) then (s1, TypeErr)
          else if negb (cid_ok p k1) then (s1, TypeErr)
          else if match d_ctl dv with Some c0 => negb (c0 =? ctl_of p) | None => false end then (s1, Inconsistent)
          else match add_child s1 d t p k1 is_sensor with
               | (s2, Ok) => (commit s2 d p k1, Ok)
               | (_, r) => (s1, r)
               end
      end
  end.

Fixpoint run (s : st) (ops : list op) : st * list outcome :=
  match ops with
  | [] => (s, [])
  | o :: rest => let '(s1, r) := step s o in let '(s2, rs) := run s1 rest in (s2, r :: rs)
  end.
