(* PyFloat: the binary64 operations CPython performs in the codecs, on Coq's primitive
   floats (hardware IEEE-754 through the VM).  Only PrimFloat/Uint63/SpecFloat are
   imported (not Floats), so no axiom enters.  No real-number reasoning: theorems that
   use these are finite-domain computations. *)
From Coq Require Import ZArith Bool PrimFloat Uint63 FloatOps SpecFloat.
Open Scope Z_scope.

(* float(z) for |z| < 2^53 (exact) *)
Definition f_of_Z (z : Z) : float :=
  if 0 <=? z then of_uint63 (Uint63.of_Z z)
  else PrimFloat.opp (of_uint63 (Uint63.of_Z (- z))).

Definition fmul := PrimFloat.mul.
Definition fdiv := PrimFloat.div.
Definition fltb := PrimFloat.ltb.
Definition fleb := PrimFloat.leb.
Definition feqb := PrimFloat.eqb.

(* int(x): truncation toward zero; None for inf/nan (Python raises) *)
Definition trunc_to_Z (f : float) : option Z :=
  match Prim2SF f with
  | S754_zero _ => Some 0
  | S754_finite s m e =>
      let mag := if 0 <=? e then Zpos m * 2 ^ e else Zpos m / 2 ^ (- e) in
      Some (if s then - mag else mag)
  | _ => None
  end.

(* round(x) -> int: round half to even *)
Definition round_to_Z (f : float) : option Z :=
  match Prim2SF f with
  | S754_zero _ => Some 0
  | S754_finite s m e =>
      let mag :=
        if 0 <=? e then Zpos m * 2 ^ e
        else let d := 2 ^ (- e) in
             let q := Zpos m / d in
             let r := Zpos m mod d in
             if 2 * r <? d then q
             else if d <? 2 * r then q + 1
             else if Z.even q then q else q + 1 in
      Some (if s then - mag else mag)
  | _ => None
  end.

(* the bit-exact identity of a float, for comparison with CPython's float.hex():
   (sign, mantissa, exponent) with value = mantissa * 2^exponent; zero = (s, 0, 0) *)
Definition f_bits (f : float) : option (bool * Z * Z) :=
  match Prim2SF f with
  | S754_zero s => Some (s, 0, 0)
  | S754_finite s m e => Some (s, Zpos m, e)
  | _ => None
  end.

Definition f_same (a b : float) : bool :=
  match f_bits a, f_bits b with
  | Some (s1, m1, e1), Some (s2, m2, e2) => Bool.eqb s1 s2 && (m1 =? m2) && (e1 =? e2)
  | _, _ => false
  end.
