"""C11 -- transmit regulation: the duty-cycle bucket, the write-gap semaphore, the MQTT token bucket.

Coq: exact integer models (ticks of 2^-20 s, level in 2^-20 bit) with the constants regenerated from the source;
window bounds for every run.  Tie: the real @limit_duty_cycle / PortTransport.write_frame chain and the real
MqttTransport.write_frame under a virtual perf_counter, arrival patterns on the virtual loop's grid: admission
times, semaphore events and accept/discard decisions compared with the model exactly.  Oracle: bits per window,
writes per window, order and integrity of the written frames, for sequential and concurrent callers."""

from __future__ import annotations

import asyncio
import logging
import re
from collections import deque

from .. import common
from ..common import Ctx
from ..vloop import VLoop

THEOREMS = ["C11_duty_window", "C11_sleep_exact", "C11_gap_window", "C11_mq_bounded_wait", "C11_mq_allowance", "C11_mq_invariant", "C11_allowance_as_stated",
            "C11_concurrent_level_floor", "C11_duty_window_concurrent", "C11_duty_window_concurrent_from", "C11_concurrent_floor_is_reached",
            "C11_sync_never_held_once_due", "C11_sync_never_held_early", "C11_sync_held_inside_the_window", "C11_sync_hold_bounded", "C11_sync_window_as_stated",
            "C11_sync_one_sided_refuted"]

TPS = 1 << 20
RATE_BITS_S = 384
CAP_BITS = 384 * 60
MAX_FRAME_BITS = 330 + 96 * 10
GAP_S = 0.05

PRELUDE = ("From Coq Require Import ZArith List Bool.\nFrom RV Require Import GenConsts M_Regulate M_RegulateK.\nImport ListNotations.\nOpen Scope Z_scope.\n"
           "Set Printing Width 1000000.\nSet Printing Depth 1000000.\n"
           "Definition adm (arrs : list (Z * Z)) : list Z := map r_wr (schedule RATE CAPACITY CAPACITY 0 (map (fun p => (fst p, frame_size (snd p))) arrs)).\n"
           "Definition b2z (b : bool) : Z := if b then 1 else 0.\n"
           "Definition ck (K : Z) (evs : list cev) : list (Z * Z) := ctrace RATE CAPACITY K (cinit CAPACITY 0) evs.\n"
           "Definition A (i t n : Z) : cev := CArr i t (frame_size n).\n"
           "Definition gchk (G : Z) (evs : list gev) : list Z := [b2z (gvalid true evs)].\n"
           "Definition mqr (ts : list Z) : list (Z * Z) := map (fun p => (b2z (fst p), snd p)) (mq_run (mq0 0) ts).\n"
           "Definition consts : list Z := [RATE; CAPACITY; frame_size 96; MIN_INTER_WRITE_GAP_us; TOKEN; TRATE; MAX_TRANSMIT_RATE_TOKENS].\n")


def ticks(t: float) -> int:
    x = t * TPS
    assert abs(x - round(x)) < 1e-6, t
    return round(x)


VERBS = {"mixed": False}


def port_run(arrivals, sequential, stalls=()):
    """Drive the real PortTransport.write_frame chain; returns per request (arrival, size chars, admission, write) in ticks, semaphore events, frames.
    stalls = (at, duration) pairs: a callback that takes `duration` of wall time -- the clock moves on while nothing else runs."""
    import importlib  # noqa: PLC0415

    loop = VLoop(ceil=True)
    asyncio.set_event_loop(loop)
    import time as _time  # noqa: PLC0415

    import ramses_tx.transport as tr  # noqa: PLC0415
    real_pc = _time.perf_counter
    _time.perf_counter = lambda: loop.time()
    try:
        importlib.reload(tr)                 # re-create the decorator's closure (full bucket, last refill) at virtual time 0
    finally:
        _time.perf_counter = real_pc
    assert tr.perf_counter() == loop.time()
    tr._global_sync_cycles.clear()
    events, out, rec = [], [], {}
    vlevels = []        # the virtual level right after each write's debit
    seq = []            # arrivals and writes in the order they happened, with the closure's own bits_in_bucket as each write found it

    def bucket_cells():       # the closure of the @limit_duty_cycle wrapper, wherever in PortTransport it is applied
        for fn in vars(tr.PortTransport).values():
            while fn is not None:
                if getattr(fn, "__closure__", None) and "bits_in_bucket" in fn.__code__.co_freevars:
                    return dict(zip(fn.__code__.co_freevars, fn.__closure__))
                fn = getattr(fn, "__wrapped__", None)
        return None

    def bucket_level():
        cells = bucket_cells()
        return cells["bits_in_bucket"].cell_contents if cells else float("nan")

    def virtual_level():      # what the next top-up would compute, uncapped: bits_in_bucket + elapsed * FILL_RATE (the quantity the floor theorem bounds)
        cells = bucket_cells()
        if not cells:
            return float("nan")
        return cells["bits_in_bucket"].cell_contents + RATE_BITS_S * (loop.time() - cells["last_time_bit_added"].cell_contents)

    class Sem(asyncio.BoundedSemaphore):
        async def acquire(self):
            rec[asyncio.current_task()]["adm"] = loop.time()
            return await super().acquire()

        def release(self):
            try:
                super().release()
            finally:
                events.append(("T", loop.time()))

    class T(tr.PortTransport):
        def __init__(self):
            self._loop = loop
            self._leaker_sem = Sem()
            self._disable_sending = False
            self._closing = False
            self._transmit_times = deque(maxlen=99)
            self._outbound_rule, self._inbound_rule = {}, {}
            self._leaker_task = loop.create_task(self._leak_sem())

        def _write(self, data):
            events.append(("W", loop.time()))
            rec[asyncio.current_task()]["wr"] = loop.time()
            seq.append(("W", rec[asyncio.current_task()]["k"], loop.time(), bucket_level()))
            vlevels.append(virtual_level() - (330 + 10 * len(rec[asyncio.current_task()]["frame"][46:])))
            out.append(data)

    rows = []
    t0 = [0.0]

    async def one(t, n, k):
        me = asyncio.current_task()
        rec[me] = {"arr": loop.time(), "n": n, "k": k}
        seq.append(("A", k, loop.time(), n))
        verb = ("RQ", " W", " I", "RP", " W")[k % 5] if VERBS["mixed"] is True else " W" if VERBS["mixed"] == "W" else "RQ"      # regulation is blind to the verb
        frame = verb + " --- 18:000730 01:145038 --:------ 0000 %03d " % n + f"{k % 256:02X}" * n
        rec[me]["frame"] = frame
        await t.write_frame(frame)
        rec[me]["done"] = loop.time()
        rows.append(rec[me])

    async def main():
        t0[0] = loop.time()
        t = T()
        tasks = []
        for at, d in stalls:
            loop.call_at(t0[0] + at, lambda d=d: setattr(loop, "_vtime", loop._vtime + d))
        for k, (gap, n) in enumerate(arrivals):
            if gap:
                await asyncio.sleep(gap)
            if sequential:
                await asyncio.ensure_future(one(t, n, k))
            else:
                tasks.append(asyncio.ensure_future(one(t, n, k)))
        if tasks:
            await asyncio.gather(*tasks)
        t._leaker_task.cancel()

    try:
        loop.run_until_complete(main())
    finally:
        asyncio.set_event_loop(None)
        loop.close()
    for r in rows:          # times relative to the start of the run (the closure's bucket was created full at that instant)
        for k in ("arr", "adm", "wr", "done"):
            r[k] -= t0[0]
    events = [(k, t - t0[0]) for k, t in events]
    port_run.seq = [(a, k, t - t0[0], x) for a, k, t, x in seq]
    port_run.vlevels = vlevels
    return rows, events, out


def sync_run(announcements, offers, horizon=400.0):
    """Sync-cycle avoidance on the real PortTransport (track_system_syncs on _pkt_read, avoid_system_syncs on write_frame) under a virtual clock:
    `announcements` = [(t, device, remaining_s)] I|1F09 packets heard at time t; `offers` = times at which a frame is offered for writing.
    Returns [(offered, written or None)]."""
    import datetime as _dt  # noqa: PLC0415
    import importlib  # noqa: PLC0415
    import time as _time  # noqa: PLC0415

    loop = VLoop(ceil=True)
    asyncio.set_event_loop(loop)
    import ramses_tx.transport as tr  # noqa: PLC0415
    from ramses_tx.packet import Packet  # noqa: PLC0415
    real_pc = _time.perf_counter
    _time.perf_counter = lambda: loop.time()
    try:
        importlib.reload(tr)
    finally:
        _time.perf_counter = real_pc
    epoch = _dt.datetime(2026, 3, 1, 12, 0, 0)
    tr.dt_now = lambda: epoch + _dt.timedelta(seconds=loop.time())
    tr._global_sync_cycles.clear()
    written = {}

    class T(tr.PortTransport):
        def __init__(self):
            self._loop = loop
            self._leaker_sem = asyncio.BoundedSemaphore()
            self._disable_sending = False
            self._closing = False
            self._transmit_times = deque(maxlen=99)
            self._outbound_rule, self._inbound_rule = {}, {}
            self._leaker_task = loop.create_task(self._leak_sem())
            self._extra = {}
            self._this_pkt = self._prev_pkt = None

        def _write(self, data):
            written[asyncio.current_task()] = loop.time()

    out = []

    async def one(t, k):
        frame = f"RQ --- 18:000730 01:145038 --:------ 0000 001 {k % 256:02X}"
        me = asyncio.current_task()
        try:
            await asyncio.wait_for(t.write_frame(frame), horizon)
        except TimeoutError:
            pass
        out.append((k, written.get(me)))

    async def main():
        t = T()
        evs = sorted([(a[0], 0, a) for a in announcements] + [(o, 1, k) for k, o in enumerate(offers)], key=lambda e: (e[0], e[1]))
        tasks = []
        for when, kind, x in evs:
            if when > loop.time():
                await asyncio.sleep(when - loop.time())
            if kind == 0:
                _, dev, rem = x
                pkt = Packet.from_port(tr.dt_now(), f"045  I --- {dev} --:------ {dev} 1F09 003 FF{int(round(rem * 10)):04X}")
                try:
                    tr.PortTransport._pkt_read.__wrapped__   # the tracker wraps the real method
                    tracker = tr.track_system_syncs(lambda self, p: None)
                    tracker(t, pkt)
                except AttributeError:
                    tr.PortTransport._pkt_read(t, pkt)
            else:
                tasks.append(asyncio.ensure_future(one(t, x)))
        await asyncio.gather(*tasks)
        t._leaker_task.cancel()

    try:
        loop.run_until_complete(main())
    finally:
        asyncio.set_event_loop(None)
        loop.close()
        importlib.reload(tr)
    got = dict(out)
    return [(o, got.get(k)) for k, o in enumerate(offers)]


def mqtt_run(times, no_limit=()):
    """Drive the real MqttTransport.write_frame; returns per call (accepted, sleep seconds)."""
    import importlib  # noqa: PLC0415

    loop = VLoop(ceil=True)
    asyncio.set_event_loop(loop)
    import time as _time  # noqa: PLC0415

    import ramses_tx.transport as tr  # noqa: PLC0415
    real_pc = _time.perf_counter
    _time.perf_counter = lambda: loop.time()
    try:
        importlib.reload(tr)
    finally:
        _time.perf_counter = real_pc
    res = []

    class M(tr.MqttTransport):
        def __init__(self):
            self._loop = loop
            self._disable_sending = False
            self._closing = False
            self._transmit_times = deque(maxlen=99)
            self._timestamp = loop.time()
            self._max_tokens = self._MAX_TOKENS * 2
            self._num_tokens = self._MAX_TOKENS * 2

        async def _write_frame(self, frame):
            res[int(frame.split()[-1], 16)]["written"] = loop.time() - t0[0]

    t0 = [0.0]

    async def main():
        t0[0] = loop.time()
        m = M()
        tasks = []
        last = 0.0
        for i, t in enumerate(times):
            if t > last:
                await asyncio.sleep(t - last)
                last = t
            res.append({"t": loop.time() - t0[0], "written": None})
            r = res[-1]

            async def call(r=r, i=i):
                await m.write_frame(f"RQ --- 18:000730 01:145038 --:------ 0000 002 {i:04X}", disable_tx_limits=i in no_limit)
            tasks.append(asyncio.ensure_future(call()))
            await asyncio.sleep(0)
        await asyncio.gather(*tasks)

    try:
        loop.run_until_complete(main())
    finally:
        asyncio.set_event_loop(None)
        loop.close()
    return res


def gen_arrivals(rng, pattern, n):
    G = 1 / 64
    out = []
    if pattern in ("idle-then-flood", "light-then-flood"):
        # allowance banked over a long silence / a long stretch well below the limit must stay capped at ONE bucket: then a flood of more than a
        # bucket's worth of large frames
        if pattern == "idle-then-flood":
            out.append((rng.choice([600, 1800]), 1))
        else:
            out += [(10, 1)] * rng.randint(60, 120)
        return out + [(0, 48)] * max(n, 40)
    for _ in range(n):
        if pattern == "burst":
            gap = rng.choice([0, 0, 0, G, 30, 120])
        elif pattern == "steady-above":
            gap = rng.choice([0.5, 1, 1.5])
        elif pattern == "steady-below":
            gap = rng.choice([3, 5, 8])
        elif pattern == "flood-small":
            gap = 0
        elif pattern == "flood-large":
            gap = rng.choice([0, 0, 0, G])
        elif pattern == "idle-gaps":
            gap = rng.choice([0, 0, G, G, 90, 600])
        else:
            gap = rng.choice([0, G, 0.5, 2, 10, 60])
        out.append((gap, 1 if pattern == "flood-small" else 48 if pattern == "flood-large" else rng.choice([1, 3, 12, 24, 48])))
    return out


def window_oracle(ctx, rows, events, out, pattern, K, arrivals, sequential):
    """The statement on what was actually written."""
    case = {"pattern": pattern, "arrivals": arrivals, "sequential": sequential, "max_pending": K}
    ws = sorted((r["wr"], 330 + 20 * r["n"]) for r in rows)
    ts, bs = [w[0] for w in ws], [w[1] for w in ws]
    pre = [0]
    for b in bs:
        pre.append(pre[-1] + b)
    worst = None
    # the proven bound (C11_duty_window_concurrent_from): rate x span + one bucket + one frame per call pending when the window's first write
    # happens (that writer included) + K-1 frames; for sequential callers (K = 1) this is the sequential theorem's bound
    pend_at = [sum(1 for r in rows if r["arr"] <= t <= r["wr"]) for t in ts]
    for i in range(len(ws)):
        for j in range(i, len(ws)):
            excess = (pre[j + 1] - pre[i]) - RATE_BITS_S * (ts[j] - ts[i]) - CAP_BITS - (min(pend_at[i], K) + K - 1) * MAX_FRAME_BITS
            if worst is None or excess > worst[0]:
                worst = (excess, i, j)
    if worst and worst[0] > 1e-6:
        ctx.violation("duty-cycle-window-exceeded", f"writes {worst[1]}..{worst[2]} hand the radio {pre[worst[2] + 1] - pre[worst[1]]} bits in {ts[worst[2]] - ts[worst[1]]:.3f} s: "
                      f"{worst[0]:.1f} bits above rate x window + bucket + one frame per call pending at its start + {K - 1} frame(s)", {**case, "window": [ts[worst[1]], ts[worst[2]]]}, "schedule")
    wt = [t for k, t in events if k == "W"]
    worst_g = None
    for i in range(len(wt)):
        for j in range(i, len(wt)):
            over = (j - i + 1 - 2) * GAP_S - (wt[j] - wt[i])
            if over > 1e-9 and (worst_g is None or over > worst_g[0]):
                worst_g = (over, i, j)
    if worst_g:
        ctx.violation("write-gap-window-exceeded", f"{worst_g[2] - worst_g[1] + 1} writes within {wt[worst_g[2]] - wt[worst_g[1]]:.4f} s (from {wt[worst_g[1]]:.4f}): more than one extra write for the gap of {GAP_S} s",
                      {**case, "window": [wt[worst_g[1]], wt[worst_g[2]]]}, "schedule")
    frames = [r["frame"] for r in sorted(rows, key=lambda r: r["k"])]
    written = [o.decode().rstrip("\r\n") for o in out]
    if sorted(written) != sorted(frames):
        ctx.violation("frame-lost-duplicated-or-altered", f"{len(frames)} frames accepted, {len(written)} written, or the text differs", {**case, "written": written[:5]}, "schedule")
    elif written != frames:
        first = next(i for i, (a, b) in enumerate(zip(written, frames)) if a != b)
        sig = "frames-written-out-of-order:" + ("sequential-caller" if sequential else "concurrent-callers")
        ctx.violation(sig, f"frame #{first} offered was not the #{first} written: a later, smaller frame overtook one that was sleeping for the bucket", {**case, "first_difference": first}, "schedule")


def run(ctx: Ctx) -> None:
    logging.disable(logging.CRITICAL)
    thorough = ctx.tier == "thorough"
    rng = ctx.rng
    ctx.rule = ("(a) sequential callers (the protocol FSM's use): arrival patterns (bursts, steady above/below the limit, long idle gaps, mixed) x frame lengths "
                "1/3/12/24/48 bytes on the real @limit_duty_cycle + PortTransport.write_frame chain under a virtual perf_counter: every admission time compared "
                "with the model's schedule in exact ticks, the semaphore's release/write events checked to be a valid run of the model; (b) concurrent callers (1-8 "
                "and unbounded): the window bounds with K = the largest number of writes pending at once, order and integrity of what was written; (c) the real "
                "MqttTransport.write_frame: accept/discard decisions and sleeps vs the model; non-trivial = a pattern in which at least one write had to wait or was "
                "dropped; distinct = by arrival pattern")
    ctx.assumptions += ["concurrent callers: each call of the wrapper is two instants (arrival: top-up and decision; write: debit), a write may be delayed arbitrarily beyond "
                        "the sleep its caller computed; K = the largest number of calls pending at once is a parameter of the run, not a constant of the code",
                        "in the duty-cycle / write-gap runs avoid_system_syncs is inert (no sync cycle known); it is exercised on its own (sync_run: dt_now and perf_counter on the virtual clock)",
                        "MQTT tokens: the model is exact (rate 4/3 token/s); the implementation's binary64 decides differently only when the level is exactly at the discard "
                        "threshold; a run is compared up to such a tie",
                        "the virtual clock lives on a 2^-20 s grid, on which the implementation's binary64 level arithmetic is exact (levels are multiples of 2^-20 bit below 2^53)"]
    built = ctx.build("C11", THEOREMS)

    pats = ["flood-small", "flood-large", "burst", "steady-above", "steady-below", "idle-gaps", "mixed", "idle-then-flood", "light-then-flood"]
    n_seq = 42 if thorough else 14
    coq_adm, impl_adm, coq_g, impl_ok = [], [], [], []
    for i in range(n_seq):
        pat = pats[i % len(pats)]
        arr = gen_arrivals(rng, pat, rng.randint(20, 60) if pat in ("idle-gaps", "burst", "steady-below") else rng.randint(80, 150) if pat.startswith("flood") else rng.randint(30, 120))
        VERBS["mixed"] = (False, True, "W")[i % 3]          # requests only / writes, announcements and replies among them / writes only
        rows, events, out = port_run(arr, True)
        VERBS["mixed"] = False
        waited = any(r["adm"] > r["arr"] for r in rows)
        ctx.case(("sequential", pat, tuple(arr)), waited, f"sequential:{pat}")
        rows.sort(key=lambda r: r["k"])
        coq_adm.append("adm [" + "; ".join(f"({ticks(r['arr'])}, {2 * r['n']})" for r in rows) + "]")
        impl_adm.append([ticks(r["adm"]) for r in rows])
        comp = []           # consecutive releases are idempotent (the value never exceeds 1): keep the first after each write
        for k, t in events:
            if k == "T" and comp and comp[-1][0] == "T":
                continue
            comp.append((k, t))
        evs = "; ".join(("GTick " if k == "T" else "GWrite ") + str(ticks(t)) for k, t in comp)
        coq_g.append(f"gchk 0 [{evs}]")
        tt = [ticks(t) for k, t in events if k == "T"]
        impl_ok.append(all(b - a >= int(GAP_S * TPS) for a, b in zip(tt, tt[1:])))   # consecutive releases at least a gap apart (52428.8 ticks)
        window_oracle(ctx, rows, events, out, pat, 1, arr, True)
    n_con = 42 if thorough else 14
    coq_k, impl_k = [], []
    for i in range(n_con):
        pat = pats[i % len(pats)]
        arr = gen_arrivals(rng, pat, rng.randint(20, 60) if pat in ("idle-gaps", "burst", "steady-below") else rng.randint(80, 150) if pat.startswith("flood") else rng.randint(30, 150))
        rows, events, out = port_run(arr, False)
        # K = the largest number of requests between arrival and write at one time
        marks = sorted([(r["arr"], 1) for r in rows] + [(r["wr"], -1) for r in rows], key=lambda x: (x[0], -x[1]))
        K = cur = 0
        for _, d in marks:
            cur += d
            K = max(K, cur)
        ctx.case(("concurrent", pat, tuple(arr)), K > 1, f"concurrent:{pat}")
        window_oracle(ctx, rows, events, out, pat, K, arr, False)
        # the real interleaving as a run of the concurrent model: accepted, and every write finds the level the model says (exact, 2^-20 bit)
        coq_k.append(f"ck {K} [" + "; ".join((f"A {k} {ticks(t)} {2 * x}" if a == "A" else f"CWr {k} {ticks(t)}") for a, k, t, x in port_run.seq) + "]")
        impl_k.append([(1, lvl * TPS) for a, k, t, lvl in port_run.seq if a == "W"])
        floor = min(port_run.vlevels)
        if floor != floor:
            ctx.obligation("correspondence:duty-cycle-closure-found", False, "correspondence", "no function of PortTransport carries the @limit_duty_cycle closure (bits_in_bucket)")
        elif floor < -(K - 1) * MAX_FRAME_BITS - 1e-6:
            ctx.violation("bucket-overdrawn-beyond-pending-frames", f"the bucket level (as the next top-up would compute it) fell to {floor:.1f} bits with at most {K} calls pending at once (floor: -{K - 1} frames)",
                          {"pattern": pat, "arrivals": arr, "max_pending": K}, "schedule")
    # a loop that is held up (a blocking callback of the host, a GC pause, a suspended process) while writers are queued: once it runs again the
    # queued frames still leave one gap apart -- time "owed" is not paid back in a burst
    for stalls in ([(0.075, 0.6)], [(0.02, 0.3), (0.5, 0.25)], [(0.001, 2.0)], [(0.26, 0.11)]):
        arr = [(0.0, rng.choice([1, 8, 24])) for _ in range(rng.randint(6, 10))]
        rows, events, out = port_run(arr, False, stalls)
        ctx.case(("concurrent-stalled", tuple(arr), tuple(stalls)), True, "concurrent:loop-stalled")
        case = {"pattern": "burst with the loop stalled", "arrivals": arr, "stalls": stalls}
        wt = sorted(t for k, t in events if k == "W")
        for i in range(len(wt)):
            for j in range(i + 2, len(wt)):
                if (j - i - 1) * GAP_S - (wt[j] - wt[i]) > 1e-9:
                    ctx.violation("write-gap-window-exceeded:after-a-stalled-loop", f"{j - i + 1} writes within {wt[j] - wt[i]:.4f} s (from {wt[i]:.4f}) once the loop ran again: "
                                  f"more than one extra write for the gap of {GAP_S} s", {**case, "writes": [round(x, 4) for x in wt]}, "schedule")
                    break
            else:
                continue
            break
        if sorted(o.decode().rstrip("\r\n") for o in out) != sorted(r["frame"] for r in rows) or len(rows) != len(arr):
            ctx.violation("frame-lost-duplicated-or-altered", "with the loop stalled, the frames written are not the frames accepted", case, "schedule")
    # sync-cycle avoidance: a write offered just before a controller's announced sync is held back until the cycle is over -- and only then;
    # "regulation only delays writes": every frame offered is written, soon after the announced time at the latest, whatever became of the
    # controller that announced it (its next announcement may never be heard)
    HOLD = 0.35        # the window (0.109 s) + the rest of the cycle (0.084 s) + the write gap, generously
    sync_obs = []
    for rem, follow_up in ((0.5, False), (0.5, True), (0.0, False), (30.0, False), (185.0, True)):
        ann = [(1.0, "01:111111", rem)] + ([(1.0 + rem + 0.004, "01:111111", 185.0)] if follow_up else [])
        due = 1.0 + rem
        offers = sorted({0.5, 1.01, max(1.02, due - 0.2), max(1.02, due - 0.1), max(1.02, due - 0.05), due - 0.009 if due - 0.009 > 1.0 else 1.03, due + 0.001, due + 0.05, due + 0.5, due + 5.0, due + 60.0})
        res = sync_run(ann, offers)
        ctx.case(("sync", rem, follow_up), True, "sync-avoidance")
        if not follow_up:
            sync_obs += [(round(due * 1e6), round(off * 1e6), None if wr is None else round(wr * 1e6)) for off, wr in res if off >= 1.0]
        for off, wr in res:
            case = {"announcements(t, device, remaining_s)": ann, "offered_at": off, "written_at": wr, "sync_due_at": due}
            if wr is None:
                ctx.violation("frame-never-written-after-a-sync-announcement", f"a frame offered at {off:.3f} s was not written within 400 s (sync announced for {due:.3f} s" + (", no further announcement heard)" if not follow_up else ")"), case, "schedule")
            elif wr - off > HOLD + (0.0 if off >= due else 0.0):
                ctx.violation("frame-held-longer-than-the-sync-cycle", f"a frame offered at {off:.3f} s was written at {wr:.3f} s (sync announced for {due:.3f} s)", case, "schedule")
            elif due - 0.1 <= off <= due - 0.02 and wr < due:
                ctx.violation("frame-written-into-the-sync-cycle", f"a frame offered at {off:.3f} s, within the window before the sync announced for {due:.3f} s, was written at {wr:.3f} s", case, "schedule")
    if built and sync_obs:
        txt = (PRELUDE.replace("M_RegulateK.", "M_RegulateK M_SyncAvoid.") + "Eval vm_compute in (map (fun x : Z * Z => hold 40 [fst x] (snd x)) ["
               + "; ".join(f"({d}, {o})" for d, o, _ in sync_obs) + "]).\n")
        rc, outp = common.coq_eval("C11sync", {"x": txt}, timeout=120)["x"]
        m = re.search(r"=\s*(\[.*\])\s*:\s*list Z", outp, flags=re.S)
        if rc or not m:
            ctx.obligation("correspondence:sync-hold", False, "correspondence", outp[-300:])
        else:
            ends = [int(x) for x in re.findall(r"-?\d+", m.group(1))]
            # the write happens no earlier than the model's loop lets go, and soon after (the rest of the cycle, queued writes' gaps)
            bad = [(d, o, w, e) for (d, o, w), e in zip(sync_obs, ends) if w is None or w < e - 2 or w > e + 84000 + 260000]
            ctx.obligation("correspondence:sync-hold", not bad and len(ends) == len(sync_obs), "correspondence",
                           f"{len(bad)} of {len(sync_obs)} writes outside [model's release, + cycle + gaps]; first (due, offered, written, model's release) us: {bad[0]}" if bad or len(ends) != len(sync_obs)
                           else f"{len(sync_obs)} writes offered around an announced sync: each written no earlier than the model's wait loop lets go, and within the rest of the cycle after it")
    elif not built:
        ctx.obligation("correspondence:sync-hold", False, "correspondence", "model not built")
    # MQTT
    n_mq = 30 if thorough else 8
    coq_m, impl_m = [], []
    for i in range(n_mq):
        times, t = [], 0.0
        for _ in range(rng.randint(50, 400)):
            t += rng.choice([0, 0, 1 / 64, 1 / 64, 0.25, 0.75, 1.0, 5.0, 90.0] if i % 2 else [0, 1 / 64, 1 / 64, 1 / 8])
            times.append(t)
        res = mqtt_run(times)
        dropped = sum(1 for r in res if r["written"] is None)
        ctx.case(("mqtt", tuple(times)), dropped > 0 or any(r["written"] and r["written"] > r["t"] for r in res), "mqtt:" + ("dense" if not i % 2 else "mixed"))
        coq_m.append("mqr [" + "; ".join(str(ticks(x)) for x in times) + "]")
        impl_m.append([(int(r["written"] is not None), 0 if r["written"] is None else ticks(r["written"]) - ticks(r["t"])) for r in res])
        # the statement: writes per window within the allowance, a dropped write is not written later, the wait is bounded
        acc = [r["written"] for r in res if r["written"] is not None]
        for a in range(0, len(acc), 7):
            for b in range(a, len(acc), 5):
                if b - a + 1 > 2 * 80 + (80 / 60) * (acc[b] - acc[a]) + 2 + 1e-9:
                    ctx.violation("mqtt-writes-exceed-token-allowance", f"{b - a + 1} writes in {acc[b] - acc[a]:.2f} s", {"times": times[:50], "window": [acc[a], acc[b]]}, "schedule")
        if any(r["written"] is not None and r["written"] - r["t"] > 1.0 + 2 / TPS for r in res):
            ctx.violation("mqtt-write-queued-longer-than-a-second", "an accepted MQTT write slept longer than one second", {"times": times[:50]}, "schedule")
    if not built:
        for n in ("duty-cycle-admission-times", "concurrent-bucket-levels", "write-gap-semaphore", "mqtt-token-bucket", "constants"):
            ctx.obligation("correspondence:" + n, False, "correspondence", "model not built")
        return
    files = {"adm": PRELUDE + "".join(f"Eval vm_compute in ({c}).\n" for c in coq_adm),
             "gap": PRELUDE + "".join(f"Eval vm_compute in ({c}).\n" for c in coq_g),
             "mq": PRELUDE + "".join(f"Eval vm_compute in ({c}).\n" for c in coq_m),
             "ck": PRELUDE + "".join(f"Eval vm_compute in ({c}).\n" for c in coq_k),
             "k": PRELUDE + "Eval vm_compute in consts.\n"}
    res = common.coq_eval("C11", files, timeout=900)

    def lists(name, ty):
        rc, out = res[name]
        if rc:
            return None, out[-400:]
        return [eval(o.replace(";", ","), {"__builtins__": {}}) for o in re.findall(r"=\s*(\[.*?\])\s*:\s*" + ty, out, flags=re.S)], ""  # noqa: S307

    got, err = lists("adm", r"list Z")
    if got is None or len(got) != len(impl_adm):
        ctx.obligation("correspondence:duty-cycle-admission-times", False, "correspondence", err or f"{len(got)} results for {len(impl_adm)}")
    else:
        bad = [(i, next(k for k, (a, b) in enumerate(zip(g, m)) if a != b)) for i, (g, m) in enumerate(zip(got, impl_adm)) if list(g) != m]
        ctx.obligation("correspondence:duty-cycle-admission-times", not bad, "correspondence",
                       f"{len(bad)} of {len(impl_adm)} runs differ; first: run {bad[0][0]} request {bad[0][1]}: model {got[bad[0][0]][bad[0][1]]} ticks, implementation {impl_adm[bad[0][0]][bad[0][1]]} ticks"
                       if bad else f"{sum(len(m) for m in impl_adm)} admissions in {len(impl_adm)} runs agree to the tick")
    got, err = lists("ck", r"list \(Z \* Z\)")
    if got is None or len(got) != len(impl_k):
        ctx.obligation("correspondence:concurrent-bucket-levels", False, "correspondence", err or f"{len(got)} results for {len(impl_k)}")
    else:
        bad = []
        for i, (g, m) in enumerate(zip(got, impl_k)):
            g = list(g)
            if (0, 0) in g:
                bad.append(f"run {i}: the real interleaving is not a run of the model (event {g.index((0, 0))} refused: a write earlier than the sleep the model computes, or more calls pending than counted)")
                continue
            gw = [x for x in g if x[0] == 1]
            if len(gw) != len(m) or any(a[1] != b[1] for a, b in zip(gw, m)):
                k = next((k for k, (a, b) in enumerate(zip(gw, m)) if a[1] != b[1]), min(len(gw), len(m)))
                bad.append(f"run {i} write {k}: model level {gw[k][1] if k < len(gw) else None}, implementation {m[k][1] if k < len(m) else None} (2^-20 bit)")
        ctx.obligation("correspondence:concurrent-bucket-levels", not bad, "correspondence",
                       f"{len(bad)} of {len(impl_k)} runs differ; first: {bad[0]}" if bad else f"{sum(len(m) for m in impl_k)} writes in {len(impl_k)} concurrent runs: every interleaving is a run of the model and every write finds exactly the model's level")
    got, err = lists("gap", r"list Z")
    ok = got is not None and len(got) == len(impl_ok) and all(list(g) == [1] for g in got) and all(impl_ok)
    ctx.obligation("correspondence:write-gap-semaphore", ok, "correspondence", err or ("" if ok else f"gvalid {[list(g) for g in got][:5]} spaced {impl_ok[:5]}"))
    got, err = lists("mq", r"list \(Z \* Z\)")
    if got is None or len(got) != len(impl_m):
        ctx.obligation("correspondence:mqtt-token-bucket", False, "correspondence", err or f"{len(got)} results for {len(impl_m)}")
    else:
        bad, ties = [], 0
        for i, (g, m) in enumerate(zip(got, impl_m)):
            for k, ((ga, gs), (ma, ms)) in enumerate(zip(g, m)):
                if ga == 1 and ma == 0 and gs == TPS:
                    ties += 1       # the level is exactly at the discard threshold (-1/3 token): the exact model accepts, binary64 is a hair below
                    break           # the two histories differ from here on
                if ga != ma or abs(gs - ms) > 1:
                    bad.append(f"run {i} write {k}: model (accepted {ga}, sleeps {gs} ticks) implementation (accepted {ma}, sleeps {ms} ticks)")
                    break
        ctx.obligation("correspondence:mqtt-token-bucket", not bad, "correspondence", f"{len(bad)} of {len(impl_m)} runs differ; first: {bad[0]}" if bad else f"{sum(len(m) for m in impl_m)} writes in {len(impl_m)} runs agree (sleeps to the tick); {ties} runs compared only up to an exact tie at the discard threshold")
    got, err = lists("k", r"list Z")
    want = [RATE_BITS_S, CAP_BITS * TPS, MAX_FRAME_BITS * TPS, 50000, 60 * TPS, 80, 80]
    ctx.obligation("correspondence:constants", got is not None and list(got[0]) == want, "correspondence", err or f"model {got and list(got[0])} harness {want}")


def replay(case: dict) -> int:
    print(case.get("signature"), str(case.get("case"))[:2000])
    return 0
