"""Whole-gateway harness: histories derived from the repository's system logs, replayed into real Gateways."""

from __future__ import annotations

import asyncio
import glob
import io
import json
import os
import re

from . import common
from .regen import gen

SYSTEMS_DIR = os.path.join(common.REPO, "tests", "tests", "systems")
LINE_RE = re.compile(r"^(\S+) (...) (..) (...) (\S+) (\S+) (\S+) (....) (\d{3}) (\S+)(.*)$")


def systems():
    """[(name, lines, cfg)] of the seven recorded systems."""
    out = []
    for d in sorted(glob.glob(SYSTEMS_DIR + "/*")):
        lines = [ln[:10] + "T" + ln[11:].rstrip("\n") for ln in open(d + "/packet.log") if ln[:2] == "20"]
        cfg = {}
        if os.path.exists(d + "/config.json"):
            cfg = json.load(open(d + "/config.json"))
        out.append((os.path.basename(d), lines, cfg))
    return out


def mutate_payload(line, rng):
    """Regenerate the payload within the (verb, code) schema regex, with extreme values."""
    from ramses_tx.ramses import CODES_SCHEMA  # noqa: PLC0415

    m = LINE_RE.match(line)
    if not m:
        return line
    dtm, rssi, verb, seqn, a0, a1, a2, code, _ln, _pl, _rest = m.groups()
    rx = CODES_SCHEMA.get(code, {}).get(verb)
    if not rx:
        return line
    for _ in range(5):
        p = gen(rx, rng)
        if len(p) % 2 == 0 and 2 <= len(p) <= 96:
            break
    else:
        return line
    if rng.random() < 0.4 and len(p) >= 6:
        k = rng.randrange(2, len(p) - 3, 2)
        q = p[:k] + rng.choice(["0000", "FFFF", "7FFF", "7EFF", "FF00", "00FF"]) + p[k + 4:]
        if re.match(rx, q):
            p = q
    return f"{dtm} {rssi} {verb} {seqn} {a0} {a1} {a2} {code} {len(p) // 2:03d} {p}"


def retime(lines):
    """Make the timestamps strictly increasing and unique (the stamps of the first line, then +1 ms steps where needed)."""
    out, last = [], ""
    import datetime as _dt  # noqa: PLC0415
    for ln in lines:
        ts = ln[:26]
        if ts <= last:
            t = _dt.datetime.fromisoformat(last) + _dt.timedelta(milliseconds=1)
            ts = t.isoformat(timespec="microseconds")
        out.append(ts + ln[26:])
        last = ts
    return out


def shapes(lines):
    """The distinct (verb, src, dst, addr2, code) shapes of a log, each with one example line."""
    out = {}
    for ln in lines:
        m = LINE_RE.match(ln)
        if m:
            out.setdefault((m.group(3), m.group(5), m.group(6), m.group(7), m.group(8)), ln)
    return out


MODES = ("lo", "hi", "rand-lo", "rand-hi", "rand")


def variant(line, rng, mode):
    """The line with its payload regenerated from the schema regex in the given mode (None when there is no regex)."""
    from ramses_tx.ramses import CODES_SCHEMA  # noqa: PLC0415

    m = LINE_RE.match(line)
    dtm, rssi, verb, seqn, a0, a1, a2, code, _ln, _pl, _rest = m.groups()
    rx = CODES_SCHEMA.get(code, {}).get(verb)
    if not rx:
        return None
    for _ in range(6):
        p = gen(rx, rng, mode=mode)
        if len(p) % 2 == 0 and 2 <= len(p) <= 96:
            return f"{dtm} {rssi} {verb} {seqn} {a0} {a1} {a2} {code} {len(p) // 2:03d} {p}"
    return None


def sweep_histories(rng, syss, modes=MODES, per_hist=4, prefix=120):
    """Histories = a clean prefix of a system + regenerated variants of a few of its packet shapes (every shape, every mode)."""
    out = []
    for name, base, cfg in syss:
        vs = []
        for _shape, ln in sorted(shapes(base).items()):
            for mode in modes:
                v = variant(ln, rng, mode)
                if v:
                    vs.append(v)
        rng.shuffle(vs)
        for i in range(0, len(vs), per_hist):
            out.append((retime(base[:prefix] + vs[i:i + per_hist]), "shape-sweep", name, cfg))
    return out


def code_sweep_histories(rng, syss, modes=("lo", "hi", "rand-hi"), per_hist=12, prefix=80):
    """Traffic of OTHER kit: for every (code, verb) of the protocol's schema a payload generated from its regex (lowest / highest / random),
    sent by a neighbour's devices of several types in the three address shapes, appended to a clean prefix of a recorded system."""
    from ramses_tx.ramses import CODES_SCHEMA  # noqa: PLC0415

    senders = ["32:155617", "37:154011", "29:091138", "30:082155", "10:048122", "13:237335", "04:056053", "34:092243", "07:045960", "01:054173", "02:044328", "22:012299"]
    peers = ["18:126620", "32:155617", "01:054173", "63:262142"]
    vs = []
    for code, d in sorted(CODES_SCHEMA.items()):
        for verb in (" I", "RP", " W", "RQ"):
            rx = d.get(verb)
            if not isinstance(rx, str):
                continue
            for mode in tuple(modes) + ("min0-hi", "min1-hi", "min2-hi", "min0-lo", "min1-lo"):
                pl = gen(rx, rng, mode=mode)
                if len(pl) % 2 or not 2 <= len(pl) <= 96:
                    continue
                src = rng.choice(senders)
                shape = rng.choice(("self", "self", "to", "to", "via")) if verb == " I" else "to"
                dst = rng.choice([x for x in peers if x != src])
                addrs = f"{src} --:------ {src}" if shape == "self" else f"{src} {dst} --:------" if shape == "to" else f"--:------ --:------ {src}"
                vs.append(f"2026-01-01T00:00:00.000000 045 {verb} --- {addrs} {code} {len(pl) // 2:03d} {pl}")
    rng.shuffle(vs)
    out = []
    # every I / RP shape once from the recorded system's OWN controller (self-addressed broadcast, or in reply to the gateway): its system-level views read these
    ctl_vs = []
    for code, d in sorted(CODES_SCHEMA.items()):
        for verb in (" I", "RP"):
            rx = d.get(verb)
            if not isinstance(rx, str):
                continue
            for mode in ("min0-hi", "min1-hi", "min2-hi", "min0-lo"):
                pl = gen(rx, rng, mode=mode)
                if len(pl) % 2 or not 2 <= len(pl) <= 96:
                    continue
                ctl_vs.append((verb, code, pl))
    rng.shuffle(ctl_vs)
    for i in range(0, len(ctl_vs), per_hist):
        name, base, cfg = syss[(i // per_hist) % len(syss)]
        ctl = next((dev for ln in base[:400] for dev in re.findall(r"\b(01:\d{6})\b", ln[27:])), None)
        if ctl is None:
            continue
        own = [f"2026-01-01T00:00:00.000000 045 {verb} --- " + (f"{ctl} --:------ {ctl}" if verb == " I" else f"{ctl} 18:126620 --:------") + f" {code} {len(pl) // 2:03d} {pl}"
               for verb, code, pl in ctl_vs[i:i + per_hist]]
        out.append((retime(base[:prefix] + own), "code-sweep", name, cfg))
    for i in range(0, len(vs), per_hist):
        name, base, cfg = syss[(i // per_hist) % len(syss)]
        # ... half of them sent by the recorded system's OWN kit (its controller, its devices of that type) in place of the neighbour's
        own = {}
        for ln in base[:400]:
            for dev in re.findall(r"\b(\d\d:\d{6})\b", ln[27:]):
                if dev[:2] not in ("18", "63") and dev != "--:------":
                    own.setdefault(dev[:2], dev)
        mine = []
        for v in vs[i:i + per_hist]:
            f = v.split()
            srcs = [a for a in f[4:7] if a != "--:------"]
            if srcs and rng.random() < 0.5 and srcs[0][:2] in own:
                v = v.replace(srcs[0], own[srcs[0][:2]])
            elif srcs and rng.random() < 0.3 and "01" in own:       # or by its controller, whatever the code
                v = v.replace(srcs[0], own["01"])
            mine.append(v)
        out.append((retime(base[:prefix] + mine), "code-sweep", name, cfg))
    return out


def ot_sweep_histories(rng, syss, per_hist=6, prefix=60):
    """OpenTherm bridges of a neighbour: for EVERY data-id of the library's own OpenTherm table an RP|3220 (read-ack, write-ack, data-invalid,
    unknown-id with a correct parity bit) from an OTB to its controller, a few per history, appended to a clean prefix of a recorded system."""
    from ramses_tx.opentherm import OPENTHERM_MESSAGES, parity  # noqa: PLC0415

    vs = []
    for did in sorted(OPENTHERM_MESSAGES):
        for mtype in (4, 4, 5, 6, 7):
            val = rng.choice((0x0000, 0x0100, 0x1400, 0x3C00, 0x7FFF, 0xFFFF, rng.randrange(65536)))
            word = (mtype << 28) | (int(did) << 16) | val
            word |= parity(word & 0x7FFFFFFF) << 31
            ctl = rng.choice(("01:145038", "01:078710", "18:126620"))
            otb = f"10:{100000 + len(vs):06d}"          # every bridge is heard exactly once: that one reading is all the library knows of it
            vs.append(f"2026-01-01T00:00:00.000000 045 RP --- {otb} {ctl} --:------ 3220 005 00{word:08X}")
    rng.shuffle(vs)
    out = []
    for i in range(0, len(vs), per_hist):
        name, base, cfg = syss[(i // per_hist) % len(syss)]
        out.append((retime(base[:prefix] + vs[i:i + per_hist]), "ot-sweep", name, cfg))
    return out


KINDS = ["none", "dup", "del", "shuffle", "splice", "mutate", "mutate", "prefix"]


def derive(rng, syss, max_len=250):
    """One derived history: (lines, kind, system name, cfg)."""
    name, base, cfg = rng.choice(syss)
    n = len(base)
    a = rng.randrange(0, max(1, n - max_len))
    lines = base[a:a + rng.randint(40, max_len)]
    k = rng.choice(KINDS)
    if k == "dup":
        lines = [ln for ln in lines for _ in range(rng.choice([1, 1, 2]))]
    elif k == "del":
        lines = [ln for ln in lines if rng.random() < 0.7]
    elif k == "shuffle":
        ts = [ln[:26] for ln in lines]
        body = [ln[26:] for ln in lines]
        rng.shuffle(body)
        lines = [x + y for x, y in zip(ts, body)]
    elif k == "splice":
        _, other, _ = rng.choice(syss)
        b = rng.randrange(0, max(1, len(other) - 100))
        lines = sorted(lines + other[b:b + 100], key=lambda ln: ln[:26])
    elif k == "mutate":
        lines = [mutate_payload(ln, rng) if rng.random() < 0.25 else ln for ln in lines]
    elif k == "prefix":
        lines = base[:rng.randint(5, min(n, max_len))]
    return retime(lines), k, name, cfg


async def settle(n=12):
    for _ in range(n):
        await asyncio.sleep(0)


async def start(gwy, patience=60.0):
    """gwy.start(); for a gateway replaying a log, start() itself waits for the whole log to be read -- for ONE second of wall time, after which it
    raises although the replay carries on.  On a loaded machine a long log takes longer: that is waited for here (the replay itself is what the
    checks are about, not how fast this machine reads a file)."""
    from ramses_tx.exceptions import TransportError  # noqa: PLC0415

    try:
        await gwy.start()
    except TransportError as err:
        fut = getattr(gwy._protocol, "_wait_connection_lost", None)
        if "did not unbind" not in str(err) or fut is None:
            raise
        await asyncio.wait_for(asyncio.shield(fut), patience)


async def make_gateway(lines, cfg=None, **config):
    """A Gateway that has replayed the lines (not stopped)."""
    from ramses_rf import Gateway  # noqa: PLC0415

    cfg = json.loads(json.dumps(cfg or {}))
    cfg.setdefault("config", {}).update({"disable_discovery": True, **config})
    txt = "".join(ln + "\n" for ln in lines)
    gwy = Gateway(None, input_file=io.TextIOWrapper(io.BytesIO(txt.encode())), **cfg)
    await start(gwy)
    await settle()
    return gwy


def entities(gwy):
    out = [("gateway", gwy)]
    for d in gwy.devices:
        out.append((f"device {d.id}", d))
    for s in gwy.systems:
        out.append((f"system {s.id}", s))
        for z in s.zones:
            out.append((f"zone {s.id}/{z.idx}", z))
        if getattr(s, "dhw", None):
            out.append((f"dhw {s.id}", s.dhw))
    return out


VIEWS = ("schema", "params", "status", "traits", "known_list")


def read_views(gwy):
    """[(entity, view, exception class, message, innermost function)] for every public view that raises."""
    import traceback  # noqa: PLC0415

    bad = []
    n = 0
    for name, ent in entities(gwy):
        for v in VIEWS:
            if not hasattr(type(ent), v):
                continue
            n += 1
            try:
                getattr(ent, v)
            except Exception as err:  # noqa: BLE001
                tb = traceback.extract_tb(err.__traceback__)[-1]
                bad.append((name, v, type(err).__name__, str(err)[:100], f"{os.path.basename(tb.filename)}:{tb.name}"))
    return n, bad


def engine_obs(gwy):
    """The observable engine state."""
    return {
        "paused": gwy._engine_state is not None,
        "handler": gwy._protocol._msg_handler is not None,
        "sending_disabled": bool(gwy._disable_sending),
        "discovery_disabled": bool(gwy.config.disable_discovery),
        "pause_writing": bool(getattr(gwy._protocol, "_pause_writing", False)),
        "has_transport": gwy._transport is not None,
        "reading_paused": gwy._transport is not None and getattr(gwy._transport, "_reading", True) is False,
    }


def run_async(coro_fn, *a, **kw):
    loop = asyncio.new_event_loop()
    asyncio.set_event_loop(loop)
    errs = []
    loop.set_exception_handler(lambda lp, c: errs.append(type(c.get("exception")).__name__ + ": " + str(c.get("exception"))[:80]))
    try:
        return loop.run_until_complete(coro_fn(*a, **kw)), errs
    finally:
        asyncio.set_event_loop(None)
        loop.close()
