From Coq Require Import ZArith List Bool Lia.
From RV Require Import Py M_Filter.
Import ListNotations.
Open Scope Z_scope.

Lemma mem_In x l : mem x l = true <-> In x l.
Proof.
  unfold mem. rewrite existsb_exists. split.
  - intros [y [Hy E]]. apply Z.eqb_eq in E. subst. exact Hy.
  - intros H. exists x. split; [exact H|apply Z.eqb_refl].
Qed.

Lemma mem_false x l : mem x l = false <-> ~ In x l.
Proof. rewrite <- mem_In. destruct (mem x l); split; congruence. Qed.

(* what "allowed under an enforced known list" means, as the property states it *)
Definition allowed (c : fcfg) (sending : bool) (x : Z) : Prop :=
  In x (f_include c) \/ f_active c = Some x \/ x = ALL_ID \/ x = NON_ID \/ (sending = true /\ x = HGI_ID).

Lemma include_of_In c x : In x (include_of c) <-> In x (f_include c) \/ x = ALL_ID \/ x = NON_ID.
Proof. unfold include_of. rewrite in_app_iff. cbn [In]. intuition. Qed.

Lemma is_active_iff c x : is_active c x = true <-> f_active c = Some x.
Proof.
  unfold is_active. destruct (f_active c) as [a|]; [|split; discriminate].
  rewrite Z.eqb_eq. split; [intros ->; reflexivity|intros [= ->]; reflexivity].
Qed.

Lemma wanted_id_true_iff c s x :
  wanted_id c s x = true <-> ~ In x (f_exclude c) /\ (f_enforce c = true -> allowed c s x).
Proof.
  unfold wanted_id, allowed.
  destruct (mem x (f_exclude c)) eqn:Ex.
  { apply mem_In in Ex. split; [discriminate|intros [H _]; contradiction]. }
  apply mem_false in Ex.
  destruct (is_active c x) eqn:Ea.
  { apply is_active_iff in Ea. split; [intros _; split; [exact Ex|intros _; auto]|reflexivity]. }
  destruct (mem x (include_of c)) eqn:Ei.
  { apply mem_In, include_of_In in Ei. split; [intros _; split; [exact Ex|intros _; intuition]|reflexivity]. }
  apply mem_false in Ei. rewrite include_of_In in Ei.
  destruct (s && (x =? HGI_ID)) eqn:Es.
  { apply andb_true_iff in Es as [-> Eh]. apply Z.eqb_eq in Eh.
    split; [intros _; split; [exact Ex|intros _; auto 6]|reflexivity]. }
  destruct (f_enforce c) eqn:Ee.
  - split; [discriminate|]. intros [_ H]. specialize (H eq_refl).
    destruct H as [H|[H|[H|[H|[H1 H2]]]]].
    + exfalso; apply Ei; auto.
    + apply is_active_iff in H. congruence.
    + exfalso; apply Ei; auto.
    + exfalso; apply Ei; auto.
    + subst. rewrite Z.eqb_refl in Es. discriminate.
  - split; [intros _; split; [exact Ex|discriminate]|reflexivity].
Qed.

Lemma wanted_conj c s src dst : wanted c s src dst = wanted_id c s src && wanted_id c s dst.
Proof.
  unfold wanted. destruct (src =? dst) eqn:E; [|reflexivity].
  apply Z.eqb_eq in E. subst. destruct (wanted_id c s dst); reflexivity.
Qed.

(* soundness 1: a block-listed source or destination never passes (receive or send) *)
Lemma blocked_never_passes c s src dst :
  In src (f_exclude c) \/ In dst (f_exclude c) -> wanted c s src dst = false.
Proof.
  intros H. rewrite wanted_conj. apply andb_false_iff.
  destruct H as [H|H]; [left|right];
    (destruct (wanted_id c s _) eqn:E; [apply wanted_id_true_iff in E as [E _]; contradiction|reflexivity]).
Qed.

(* soundness 2: with the known list enforced, an id that is not allowed is dropped *)
Lemma unlisted_dropped c s src dst x :
  f_enforce c = true -> (x = src \/ x = dst) -> ~ allowed c s x -> wanted c s src dst = false.
Proof.
  intros He Hx Hn. rewrite wanted_conj. apply andb_false_iff.
  destruct Hx as [->| ->]; [left|right];
    (destruct (wanted_id c s _) eqn:E; [apply wanted_id_true_iff in E as [_ E]; exfalso; apply Hn, E, He|reflexivity]).
Qed.

(* completeness: filtering never over-blocks *)
Lemma allowed_always_passes c s src dst :
  (forall x, x = src \/ x = dst -> ~ In x (f_exclude c) /\ (f_enforce c = true -> allowed c s x)) ->
  wanted c s src dst = true.
Proof.
  intros H. rewrite wanted_conj. apply andb_true_iff.
  split; apply wanted_id_true_iff; apply H; auto.
Qed.

(* exact characterisation (both directions at once) *)
Lemma wanted_iff c s src dst :
  wanted c s src dst = true <->
  (forall x, x = src \/ x = dst -> ~ In x (f_exclude c) /\ (f_enforce c = true -> allowed c s x)).
Proof.
  split; [|apply allowed_always_passes].
  rewrite wanted_conj, andb_true_iff, !wanted_id_true_iff. intros [H1 H2] x [->| ->]; assumption.
Qed.

(* the active gateway is never a block-listed id *)
Lemma set_active_not_blocked c dev x :
  f_active (set_active c dev) = Some x -> ~ In x (f_exclude c).
Proof.
  unfold set_active. cbn. destruct (mem dev (f_exclude c)) eqn:E; [discriminate|].
  intros [= <-]. apply mem_false, E.
Qed.

(* an empty known list is never enforced *)
Lemma enforce_needs_known_list e : select_mode e [] = false.
Proof. reflexivity. Qed.
Lemma select_mode_nonempty e k ks : select_mode e (k :: ks) = e.
Proof. reflexivity. Qed.

(* gateway stage *)
Lemma check_blocked g u dev : In dev (g_exclude g) -> fst (check_filter_lists g u dev) = false.
Proof.
  intros H. unfold check_filter_lists. destruct (mem dev u); [reflexivity|].
  destruct (g_enforce g && _ && _); [reflexivity|].
  apply mem_In in H. rewrite H. reflexivity.
Qed.

Lemma check_unlisted g u dev :
  g_enforce g = true -> ~ In dev (g_include g) -> g_hgi g <> Some dev ->
  fst (check_filter_lists g u dev) = false.
Proof.
  intros He Hi Hh. unfold check_filter_lists. destruct (mem dev u); [reflexivity|].
  rewrite He. apply mem_false in Hi. rewrite Hi. cbn.
  destruct (g_hgi g) as [h|]; [|reflexivity].
  destruct (dev =? h) eqn:E; [apply Z.eqb_eq in E; subst; congruence|reflexivity].
Qed.

Lemma check_allowed g u dev :
  ~ In dev u -> ~ In dev (g_exclude g) -> (g_enforce g = true -> In dev (g_include g) \/ g_hgi g = Some dev) ->
  check_filter_lists g u dev = (true, u).
Proof.
  intros Hu Hx Ha. unfold check_filter_lists.
  apply mem_false in Hu. rewrite Hu. apply mem_false in Hx. rewrite Hx.
  destruct (g_enforce g) eqn:He; [|reflexivity].
  destruct (Ha eq_refl) as [H|H].
  - apply mem_In in H. rewrite H. reflexivity.
  - rewrite H. rewrite Z.eqb_refl. destruct (mem dev (g_include g)); reflexivity.
Qed.

(* the memo only ever holds ids that were refused: it never blocks an allowed id later *)
Definition unwanted_inv (g : gcfg) (u : list Z) : Prop :=
  forall d, In d u -> In d initial_unwanted \/ In d (g_exclude g) \/
                      (g_enforce g = true /\ ~ In d (g_include g) /\ g_hgi g <> Some d).

Lemma unwanted_inv_step g u dev : unwanted_inv g u -> unwanted_inv g (snd (check_filter_lists g u dev)).
Proof.
  intros Inv. unfold check_filter_lists. destruct (mem dev u); [exact Inv|].
  destruct (g_enforce g && negb (mem dev (g_include g)) &&
            negb (match g_hgi g with Some h => dev =? h | None => false end)) eqn:E.
  - cbn [snd]. intros d Hd. apply in_app_iff in Hd as [Hd|[<-|[]]]; [apply Inv, Hd|]. right. right.
    apply andb_true_iff in E as [E E3]. apply andb_true_iff in E as [E1 E2].
    split; [exact E1|]. split.
    + apply mem_false. destruct (mem dev (g_include g)); [discriminate|reflexivity].
    + destruct (g_hgi g) as [h|]; [|discriminate]. intros [= ->]. rewrite Z.eqb_refl in E3. discriminate.
  - destruct (mem dev (g_exclude g)) eqn:Ex; [|exact Inv].
    cbn [snd]. intros d Hd. apply in_app_iff in Hd as [Hd|[<-|[]]]; [apply Inv, Hd|]. right. left. apply mem_In, Ex.
Qed.

Lemma unwanted_inv_fold g devs : forall u, unwanted_inv g u ->
  unwanted_inv g (fold_left (fun u d => snd (check_filter_lists g u d)) devs u).
Proof. induction devs as [|d devs IH]; intros u Inv; cbn [fold_left]; [exact Inv|]. apply IH, unwanted_inv_step, Inv. Qed.

(* after ANY history of look-ups, an allowed id still yields a device *)
Lemma allowed_after_any_history g devs dev :
  ~ In dev initial_unwanted ->
  ~ In dev (g_exclude g) -> (g_enforce g = true -> In dev (g_include g) \/ g_hgi g = Some dev) ->
  fst (check_filter_lists g (fold_left (fun u d => snd (check_filter_lists g u d)) devs initial_unwanted) dev) = true.
Proof.
  intros H0 Hx Ha.
  assert (Inv : unwanted_inv g (fold_left (fun u d => snd (check_filter_lists g u d)) devs initial_unwanted))
    by (apply unwanted_inv_fold; intros d Hd; left; exact Hd).
  rewrite check_allowed; [reflexivity| |exact Hx|exact Ha].
  intros Hin. destruct (Inv dev Hin) as [H|[H|[He [Hi Hh]]]]; [contradiction|contradiction|].
  destruct (Ha He) as [H|H]; contradiction.
Qed.

(* the hard-coded entry: 01:000001 never yields a device although no list names it *)
Lemma hardcoded_unwanted_refuted :
  exists g dev, ~ In dev (g_exclude g) /\ g_enforce g = false /\
                fst (check_filter_lists g initial_unwanted dev) = false.
Proof.
  exists {| g_exclude := []; g_include := []; g_enforce := false; g_hgi := None |}, 1000001.
  split; [intros []|]. split; reflexivity.
Qed.
